/-
Model/Blte — executable model of the BLTE encoder/decoder of
`crates/cascette-formats/src/blte/{builder,mod,chunk,header,compression}.rs` as written at the
working tree (i.e. after the four `fix:` commits recorded in KNOWN_FINDINGS.txt for C01):

* `BlteBuilder::{with_*, add_data, add_mixed_data, add_encrypted_data, add_chunk, build}`,
  including the block index each call hands to the cipher (`self.chunks.len() + i`),
* `BlteHeader::multi_chunk` / `ChunkInfo::from_chunk_data` (table rows, `as u32` truncation),
* `BinWrite`/`BinRead` of header, table and chunk bodies (`serialize`, `parse`),
* `BlteFile::{decompress, decompress_with_keys}`, `decrypt_chunk_with_keys` (inner-mode sniffing).

zlib / LZ4 (`Codec`) and MD5 (`H`) are parameters; Salsa20 and ARC4 are the C09 models.
Rust `Result` is `Except Err`; a builder method takes `self` by value, so an error ends the program.
-/
import Cascette.Base.Bytes
import Cascette.Model.Salsa20
import Cascette.Model.Arc4
namespace Cascette.Model.Blte
open Cascette

/-! ### integers on the wire -/

/-- `k` little-endian bytes of `n` (`to_le_bytes` after an `as uK` truncation). -/
def leBytes : Nat → Nat → Bytes
  | 0, _ => []
  | k + 1, n => BitVec.ofNat 8 n :: leBytes k (n / 256)

/-- `from_le_bytes`. -/
def leNat : Bytes → Nat
  | [] => 0
  | b :: bs => b.toNat + 256 * leNat bs

/-- `k` big-endian bytes of `n`. -/
def beBytes (k n : Nat) : Bytes := (leBytes k n).reverse

/-- `from_be_bytes`. -/
def beNat (b : Bytes) : Nat := leNat b.reverse

/-- `read_exact` of `n` bytes from the front: `none` when the input is too short. -/
def takeN (n : Nat) (l : Bytes) : Option (Bytes × Bytes) :=
  -- (`(l.take n).length < n` iff `l.length < n`; written this way so a read costs O(n), not O(|l|))
  if (l.take n).length < n then none else some (l.take n, l.drop n)

/-! ### modes, errors, parameters -/

/-- `CompressionMode` -/
inductive Mode
  | none | zlib | lz4 | enc | frame
deriving DecidableEq, Repr

/-- `CompressionMode::as_byte`: `N Z 4 E F`. -/
def Mode.byte : Mode → Byte
  | .none => 0x4E | .zlib => 0x5A | .lz4 => 0x34 | .enc => 0x45 | .frame => 0x46

/-- `CompressionMode::from_byte` -/
def Mode.ofByte (b : Byte) : Option Mode :=
  if b = 0x4E then some .none
  else if b = 0x5A then some .zlib
  else if b = 0x34 then some .lz4
  else if b = 0x45 then some .enc
  else if b = 0x46 then some .frame
  else Option.none   -- (`none` alone would resolve to `Mode.none` inside this namespace)

/-- the `BlteError` classes the builder / decoder can return (K compares the class). -/
inductive Err
  | compression | chunkCount | chunkSize | unsupported | iv | nested | singleEnc | parse
deriving DecidableEq, Repr

/-- zlib and LZ4 as parameters (`flate2`, `lz4_flex` behind `compress_chunk`/`decompress_chunk`).
Only consulted for `Mode.zlib` and `Mode.lz4`; `none` = the library reported an error. -/
structure Codec where
  compress : Mode → Bytes → Option Bytes
  decompress : Mode → Bytes → Option Bytes

/-- `compress_chunk` -/
def compressChunk (cd : Codec) (data : Bytes) : Mode → Except Err Bytes
  | .none => .ok data
  | .zlib => match cd.compress .zlib data with
    | some c => .ok c
    | none => .error .compression
  | .lz4 => match cd.compress .lz4 data with
    | some c => .ok c
    | none => .error .compression
  | .enc => .error .compression
  | .frame => .error .unsupported

/-- `decompress_chunk` -/
def decompressChunk (cd : Codec) (data : Bytes) : Mode → Except Err Bytes
  | .none => .ok data
  | .zlib => match cd.decompress .zlib data with
    | some c => .ok c
    | none => .error .compression
  | .lz4 => match cd.decompress .lz4 data with
    | some c => .ok c
    | none => .error .compression
  | .enc => .error .compression
  | .frame => .error .unsupported

/-! ### chunks -/

/-- `ChunkData { mode, data, decompressed_size }` -/
structure Chunk where
  mode : Mode
  data : Bytes
  declared : Option Nat
deriving Repr

/-- `ChunkData::new` -/
def Chunk.new (cd : Codec) (data : Bytes) (mode : Mode) : Except Err Chunk :=
  if mode = .none then .ok ⟨mode, data, some data.length⟩
  else match compressChunk cd data mode with
    | .ok c => .ok ⟨mode, c, some data.length⟩
    | .error e => .error e

/-- `ChunkData::compressed_data` = what `write_options` puts into the file. -/
def Chunk.bytes (c : Chunk) : Bytes := c.mode.byte :: c.data

/-- `EncryptionSpec { key_name: u64, iv: [u8; 4], encryption_type: u8 }` -/
structure EncSpec where
  keyName : Nat
  iv : Bytes
  etype : Byte
deriving Repr

/-- the cipher dispatch on `encryption_type` shared by `encrypt_chunk_with_key` and
`decrypt_chunk_with_keys` (`0x53` Salsa20 with the block index, `0x41` ARC4 which ignores IV and
index, anything else `Err`); in the Rust `encrypt_salsa20` *is* `decrypt_salsa20` and
`Arc4Cipher::{encrypt, decrypt}` both are `apply_keystream` on a fresh cipher. -/
def cipher (etype : Byte) (key iv : Bytes) (idx : Nat) (data : Bytes) : Except Err Bytes :=
  if etype = 0x53 then
    match Salsa20.crypt key iv idx data with
    | some c => .ok c
    | Option.none => .error .compression
  else if etype = 0x41 then
    match Arc4.crypt key data with
    | some c => .ok c
    | Option.none => .error .compression
  else .error .compression

/-- `encrypt_chunk_with_key`: `[8] key_name(LE64) [4] iv type ciphertext`. -/
def encryptChunk (data : Bytes) (spec : EncSpec) (key : Bytes) (idx : Nat) : Except Err Bytes :=
  match cipher spec.etype key spec.iv idx data with
  | .ok c => .ok ([8] ++ leBytes 8 spec.keyName ++ [4] ++ spec.iv ++ [spec.etype] ++ c)
  | .error e => .error e

/-! ### builder -/

/-- `BlteBuilder` -/
structure Builder where
  chunks : List Chunk
  mode : Mode
  chunkSize : Nat
  enc : Option (EncSpec × Bytes)

/-- `BlteBuilder::new` (`DEFAULT_CHUNK_SIZE` = 256 KiB). -/
def Builder.init : Builder := ⟨[], .none, 262144, none⟩

/-- `MIN_CHUNK_SIZE` (1 KiB): the smallest size the validated `with_chunk_size` accepts. -/
def minChunkSize : Nat := 1024

/-- `MAX_CHUNK_SIZE` (16 MiB): the largest number of CONTENT bytes per chunk the validated
`with_chunk_size` accepts. A stored chunk is longer: one mode byte, 16 more bytes when encrypted
(`encHeaderLen`), and whatever a compressor adds to content it cannot shrink. No reader-side
limit is derived from it (`ChunkData::read_options` compares a table entry with what the stream
still holds, nothing else). -/
def maxChunkSize : Nat := 16777216

/-- bytes an encrypted chunk adds in front of the ciphertext: key-name size, key name, IV size,
IV, cipher type (`encrypt_chunk_with_key`), after the chunk's own mode byte `E`; the ciphertext
itself starts with the inner mode byte. -/
def encHeaderLen : Nat := 1 + 8 + 1 + 4 + 1

/-- `build_inner_payload`: mode byte + raw or compressed data. -/
def buildInner (cd : Codec) (mode : Mode) (data : Bytes) : Except Err Bytes :=
  let inner : Mode := if mode ≠ .none ∧ mode ≠ .enc then mode else .none
  if inner = .none then .ok (Mode.none.byte :: data)
  else match compressChunk cd data inner with
    | .ok c => .ok (inner.byte :: c)
    | .error e => .error e

/-- `create_encrypted_chunk` / `create_encrypted_chunk_with_params`; the declared size is the
content length (after `fix: chunk table records the content size of encrypted BLTE chunks`). -/
def encChunk (cd : Codec) (mode : Mode) (data : Bytes) (spec : EncSpec) (key : Bytes) (idx : Nat) :
    Except Err Chunk :=
  match buildInner cd mode data with
  | .error e => .error e
  | .ok inner =>
    match encryptChunk inner spec key idx with
    | .error e => .error e
    | .ok ed => .ok ⟨.enc, ed, some data.length⟩

/-- one chunk of `add_data` / `add_mixed_data`. -/
def makeChunk (cd : Codec) (mode : Mode) (enc : Option (EncSpec × Bytes)) (data : Bytes) (idx : Nat) :
    Except Err Chunk :=
  match enc with
  | some (spec, key) => encChunk cd mode data spec key idx
  | none => Chunk.new cd data mode

/-- the slices `data[offset..min(offset+cs, len)]` of the `while offset < data.len()` loop;
`fuel` bounds the number of iterations (with `cs ≥ 1` every iteration consumes a byte). -/
def splitLoop (cs : Nat) : Nat → Bytes → List Bytes
  | 0, _ => []
  | fuel + 1, rest => if rest = [] then [] else rest.take cs :: splitLoop cs fuel (rest.drop cs)

/-- which slices a call turns into chunks: one when `len ≤ chunk_size`, else the loop; chunk size
0 with a non-empty payload is `Err(InvalidChunkSize)` (after the `fix:` commit; it looped
forever before). -/
def pieces (cs : Nat) (data : Bytes) : Except Err (List Bytes) :=
  if data.length ≤ cs then .ok [data]
  else if cs = 0 then .error .chunkSize
  else .ok (splitLoop cs data.length data)

/-- chunk `i` of a call gets block index `base + i` (`chunk_index` starts at `self.chunks.len()`);
the first failing chunk aborts the call. -/
def makeChunks (cd : Codec) (mode : Mode) (enc : Option (EncSpec × Bytes)) :
    List Bytes → Nat → Except Err (List Chunk)
  | [], _ => .ok []
  | p :: ps, idx =>
    match makeChunk cd mode enc p idx with
    | .error e => .error e
    | .ok c =>
      match makeChunks cd mode enc ps (idx + 1) with
      | .error e => .error e
      | .ok cs => .ok (c :: cs)

/-- common body of `add_data` (`enc` = the builder's configuration) and `add_mixed_data`
(`enc` = the argument). -/
def addWith (cd : Codec) (b : Builder) (enc : Option (EncSpec × Bytes)) (data : Bytes) :
    Except Err Builder :=
  match pieces b.chunkSize data with
  | .error e => .error e
  | .ok ps =>
    match makeChunks cd b.mode enc ps b.chunks.length with
    | .error e => .error e
    | .ok cs => .ok { b with chunks := b.chunks ++ cs }

/-- builder calls -/
inductive Op
  | withCompression (m : Mode)
  /-- `with_chunk_size_unchecked` -/
  | withChunkSize (n : Nat)
  /-- `with_chunk_size`: `Err(InvalidChunkSize)` outside `MIN_CHUNK_SIZE..=MAX_CHUNK_SIZE` -/
  | withChunkSizeChecked (n : Nat)
  | withEncryption (s : EncSpec) (key : Bytes)
  | withoutEncryption
  | addData (d : Bytes)
  | addMixed (d : Bytes) (e : Option (EncSpec × Bytes))
  | addEncrypted (d : Bytes) (s : EncSpec) (key : Bytes) (idx : Nat)
  /-- `add_chunk(ChunkData::new(d, m)?)` -/
  | addChunkNew (d : Bytes) (m : Mode)

def step (cd : Codec) (b : Builder) : Op → Except Err Builder
  | .withCompression m => .ok { b with mode := m }
  | .withChunkSize n => .ok { b with chunkSize := n }
  | .withChunkSizeChecked n =>
    if n < minChunkSize ∨ maxChunkSize < n then .error .chunkSize else .ok { b with chunkSize := n }
  | .withEncryption s k => .ok { b with enc := some (s, k) }
  | .withoutEncryption => .ok { b with enc := none }
  | .addData d => addWith cd b b.enc d
  | .addMixed d e => addWith cd b e d
  | .addEncrypted d s k idx =>
    match encChunk cd b.mode d s k idx with
    | .error e => .error e
    | .ok c => .ok { b with chunks := b.chunks ++ [c] }
  | .addChunkNew d m =>
    match Chunk.new cd d m with
    | .error e => .error e
    | .ok c => .ok { b with chunks := b.chunks ++ [c] }

/-- a builder program; the first `Err` consumes the builder. -/
def run (cd : Codec) : Builder → List Op → Except Err Builder
  | b, [] => .ok b
  | b, op :: ops =>
    match step cd b op with
    | .error e => .error e
    | .ok b' => run cd b' ops

/-! ### container -/

/-- `ChunkInfo` (standard 24-byte rows) -/
structure Row where
  csize : Nat
  dsize : Nat
  checksum : Bytes
deriving Repr

/-- `BlteFile`: `header_size`, the optional table, the chunks. -/
structure File where
  headerSize : Nat
  table : Option (List Row)
  chunks : List Chunk
deriving Repr

/-- `ChunkInfo::from_chunk_data` (`as u32` casts; `H` = MD5 of the chunk as serialised). -/
def Row.ofChunk (H : Bytes → Bytes) (c : Chunk) : Row :=
  ⟨(1 + c.data.length) % 2 ^ 32, (c.declared.getD c.data.length) % 2 ^ 32, H c.bytes⟩

/-- `BlteBuilder::build` -/
def build (H : Bytes → Bytes) (b : Builder) : Except Err File :=
  if b.chunks.isEmpty then .error .chunkCount
  else if b.chunks.length = 1 ∧ ¬ (b.chunks.any fun c => c.mode = .enc) then
    .ok ⟨0, none, b.chunks⟩
  else if b.chunks.length > 0xFFFFFF then .error .chunkCount
  else .ok ⟨(12 + b.chunks.length * 24) % 2 ^ 32, some (b.chunks.map (Row.ofChunk H)), b.chunks⟩

def Row.bytes (r : Row) : Bytes := beBytes 4 r.csize ++ beBytes 4 r.dsize ++ r.checksum

def magic : Bytes := [0x42, 0x4C, 0x54, 0x45]

/-- `CascFormat::build`: magic, BE header size, table-format byte `0x0F`, 24-bit count, rows,
then every chunk's mode byte and data. -/
def serialize (f : File) : Bytes :=
  magic ++ beBytes 4 f.headerSize ++
  (match f.table with
   | none => []
   | some rows => [0x0F] ++ beBytes 3 rows.length ++ rows.flatMap Row.bytes) ++
  f.chunks.flatMap Chunk.bytes

/-- `count` rows of 24 (or 40) bytes. -/
def parseRows (extended : Bool) : Nat → Bytes → Option (List Row × Bytes)
  | 0, rest => some ([], rest)
  | n + 1, rest =>
    match takeN 4 rest with
    | none => none
    | some (cs, r1) =>
      match takeN 4 r1 with
      | none => none
      | some (ds, r2) =>
        match takeN 16 r2 with
        | none => none
        | some (ck, r3) =>
          match (if extended then (takeN 16 r3).map (·.2) else some r3) with
          | none => none
          | some r4 =>
            match parseRows extended n r4 with
            | none => none
            | some (rows, rest') => some (⟨beNat cs, beNat ds, ck⟩ :: rows, rest')

/-- `ChunkData::read_options` with `compressed_size = size`. -/
def parseChunk (size : Nat) (rest : Bytes) : Option (Chunk × Bytes) :=
  if size = 0 then none
  else match rest with
    | [] => none
    | mb :: r =>
      match Mode.ofByte mb with
      | none => none
      | some m =>
        match takeN (size - 1) r with
        | none => none
        | some (d, r') => some (⟨m, d, none⟩, r')

def parseChunks : List Row → Bytes → Option (List Chunk)
  | [], _ => some []
  | row :: rows, rest =>
    match parseChunk row.csize rest with
    | none => none
    | some (c, r) =>
      match parseChunks rows r with
      | none => none
      | some cs => some (c :: cs)

/-- `CascFormat::parse` (`BlteFile::read_options`). A table-format byte other than `0x0F`/`0x10`
is a parse failure here (the pinned code panics in `expect`: property C02, not reached by any
container the builder writes). -/
def parse (bytes : Bytes) : Except Err File :=
  match bytes with
  | m0 :: m1 :: m2 :: m3 :: h0 :: h1 :: h2 :: h3 :: rest =>
    if [m0, m1, m2, m3] ≠ magic then .error .parse
    else if beNat [h0, h1, h2, h3] = 0 then
      if rest = [] then .ok ⟨0, none, []⟩
      else match parseChunk rest.length rest with
        | none => .error .parse
        | some (c, _) => .ok ⟨0, none, [c]⟩
    else match rest with
      | fl :: c0 :: c1 :: c2 :: rest2 =>
        if fl ≠ 0x0F ∧ fl ≠ 0x10 then .error .parse
        else match parseRows (fl = 0x10) (beNat [c0, c1, c2]) rest2 with
          | none => .error .parse
          | some (rows, rest3) =>
            match parseChunks rows rest3 with
            | none => .error .parse
            | some cs => .ok ⟨beNat [h0, h1, h2, h3], some rows, cs⟩
      | _ => .error .parse
  | _ => .error .parse

/-! ### decoding -/

/-- tail of `decrypt_chunk_with_keys`: if the decrypted payload starts with a mode byte it is
decoded by that mode (`E` inside `E` is rejected), otherwise it is returned as it is. -/
def decodeInner (cd : Codec) : Bytes → Except Err Bytes
  | [] => .ok []
  | b :: rest =>
    match Mode.ofByte b with
    | Option.none => .ok (b :: rest)
    | some .enc => .error .nested
    | some m => decompressChunk cd rest m

/-- `decrypt_chunk_with_keys` (floor of 16 bytes after the `fix:` commit; `keys` =
`TactKeyStore::get`). -/
def decryptChunk (cd : Codec) (keys : Nat → Option Bytes) (data : Bytes) (idx : Nat) :
    Except Err Bytes :=
  if data.length < 16 then .error .compression
  else match data with
    | [] => .error .compression
    | kns :: r1 =>
      if kns ≠ 8 then .error .compression
      else match takeN 8 r1 with
        | Option.none => .error .compression
        | some (kn, r2) =>
          match keys (leNat kn) with
          | Option.none => .error .compression
          | some key =>
            match r2 with
            | [] => .error .compression
            | ivs :: r3 =>
              if ivs ≠ 4 ∧ ivs ≠ 8 then .error .iv
              else match takeN ivs.toNat r3 with
                | Option.none => .error .compression
                | some (iv, r4) =>
                  match r4 with
                  | [] => .error .compression
                  | et :: ct =>
                    match cipher et key iv idx ct with
                    | .error e => .error e
                    | .ok p => decodeInner cd p

/-- one iteration of the loop in `decompress_with_keys`. -/
def decodeChunk (cd : Codec) (keys : Nat → Option Bytes) (c : Chunk) (idx : Nat) : Except Err Bytes :=
  if c.mode = .enc then decryptChunk cd keys c.data idx else decompressChunk cd c.data c.mode

/-- `for (index, chunk) in self.chunks.iter().enumerate()` starting at `i`. -/
def decodeFrom (cd : Codec) (keys : Nat → Option Bytes) : List Chunk → Nat → Except Err Bytes
  | [], _ => .ok []
  | c :: cs, i =>
    match decodeChunk cd keys c i with
    | .error e => .error e
    | .ok p =>
      match decodeFrom cd keys cs (i + 1) with
      | .error e => .error e
      | .ok r => .ok (p ++ r)

def firstIsEnc : List Chunk → Bool
  | c :: _ => decide (c.mode = .enc)
  | [] => false

/-- `BlteFile::decompress_with_keys` -/
def decode (cd : Codec) (keys : Nat → Option Bytes) (f : File) : Except Err Bytes :=
  if f.headerSize = 0 ∧ firstIsEnc f.chunks = true then .error .singleEnc
  else decodeFrom cd keys f.chunks 0

/-- `BlteFile::decompress` (no key store: an encrypted chunk is an error). -/
def decodePlainFrom (cd : Codec) : List Chunk → Except Err Bytes
  | [] => .ok []
  | c :: cs =>
    match decompressChunk cd c.data c.mode with
    | .error e => .error e
    | .ok p =>
      match decodePlainFrom cd cs with
      | .error e => .error e
      | .ok r => .ok (p ++ r)

def decodePlain (cd : Codec) (f : File) : Except Err Bytes := decodePlainFrom cd f.chunks

/-- `BlteFile::parse(bytes)?.decompress_with_keys(keys)`: what a reader of the container does. -/
def decodeBytes (cd : Codec) (keys : Nat → Option Bytes) (bytes : Bytes) : Except Err Bytes :=
  match parse bytes with
  | .ok f => decode cd keys f
  | .error e => .error e

/-- `BlteFile::parse(bytes)?.decompress()` -/
def decodePlainBytes (cd : Codec) (bytes : Bytes) : Except Err Bytes :=
  match parse bytes with
  | .ok f => decodePlain cd f
  | .error e => .error e

/-! ### the other public encoder entry points

`BlteFile::{single_chunk, multi_chunk, compress}` (mod.rs) and `BlteHeader::multi_chunk_extended`
(header.rs): encoder calls of the property that do not go through `BlteBuilder`. -/

/-- `BlteFile::single_chunk(data, mode)`: header size 0, no table, one `ChunkData::new` chunk. -/
def singleChunk (cd : Codec) (data : Bytes) (mode : Mode) : Except Err File :=
  match Chunk.new cd data mode with
  | .error e => .error e
  | .ok c => .ok ⟨0, none, [c]⟩

/-- `BlteFile::multi_chunk(chunks)` = `BlteHeader::multi_chunk_with_flags(&chunks, Standard)`:
always a table (also for one chunk, a layout `BlteBuilder::build` never writes for a plain chunk);
`InvalidChunkCount` for no chunk or more than `0xFF_FFFF`; header size `12 + 24·n` (`as u32`). -/
def multiChunk (H : Bytes → Bytes) (chunks : List Chunk) : Except Err File :=
  if chunks.isEmpty then .error .chunkCount
  else if chunks.length > 0xFFFFFF then .error .chunkCount
  else .ok ⟨(12 + chunks.length * 24) % 2 ^ 32, some (chunks.map (Row.ofChunk H)), chunks⟩

/-- a caller's `vec![ChunkData::new(d₁, m₁)?, ChunkData::new(d₂, m₂)?, …]`. -/
def newChunks (cd : Codec) : List (Bytes × Mode) → Except Err (List Chunk)
  | [] => .ok []
  | (d, m) :: rest =>
    match Chunk.new cd d m with
    | .error e => .error e
    | .ok c =>
      match newChunks cd rest with
      | .error e => .error e
      | .ok cs => .ok (c :: cs)

/-- `BlteFile::compress(data, chunk_size, mode)`: one `single_chunk` when the payload fits, else
the same `while offset < data.len()` loop as the builder (`ChunkData::new` on every slice, the
first error aborts) followed by `multi_chunk`.  Chunk size 0 with a non-empty payload is
`Err(InvalidChunkSize)` (after the `fix:` commit; the loop never advanced before). -/
def compress (cd : Codec) (H : Bytes → Bytes) (data : Bytes) (cs : Nat) (mode : Mode) :
    Except Err File :=
  if data.length ≤ cs then singleChunk cd data mode
  else if cs = 0 then .error .chunkSize
  else match makeChunks cd mode none (splitLoop cs data.length data) 0 with
    | .error e => .error e
    | .ok chunks => multiChunk H chunks

/-! #### the extended (`0x10`, 40-byte rows) table of `BlteHeader::multi_chunk_extended` -/

/-- `ChunkInfo` with `decompressed_checksum = Some(_)`. -/
structure XRow where
  row : Row
  dsum : Bytes
deriving Repr

/-- `ChunkInfo::from_chunk_data_extended`: the standard row plus `H` of
`chunk.decompress(0).unwrap_or_else(|_| compressed.clone())`. -/
def XRow.ofChunk (cd : Codec) (H : Bytes → Bytes) (c : Chunk) : XRow :=
  ⟨Row.ofChunk H c,
   H (match decompressChunk cd c.data c.mode with
      | .ok d => d
      | .error _ => c.bytes)⟩

/-- a `BlteFile` whose header is `BlteHeader::multi_chunk_extended(&chunks)?`. -/
structure XFile where
  headerSize : Nat
  rows : List XRow
  chunks : List Chunk
deriving Repr

/-- `BlteHeader::multi_chunk_with_flags(&chunks, Extended)`: header size `12 + 40·n`. -/
def multiChunkExt (cd : Codec) (H : Bytes → Bytes) (chunks : List Chunk) : Except Err XFile :=
  if chunks.isEmpty then .error .chunkCount
  else if chunks.length > 0xFFFFFF then .error .chunkCount
  else .ok ⟨(12 + chunks.length * 40) % 2 ^ 32, chunks.map (XRow.ofChunk cd H), chunks⟩

def XRow.bytes (r : XRow) : Bytes := r.row.bytes ++ r.dsum

/-- `CascFormat::build` of such a file: table-format byte `0x10`, 40-byte rows. -/
def serializeX (f : XFile) : Bytes :=
  magic ++ beBytes 4 f.headerSize ++ ([0x10] ++ beBytes 3 f.rows.length ++ f.rows.flatMap XRow.bytes) ++
  f.chunks.flatMap Chunk.bytes

/-- the `File` a reader gets from an extended container (the model's `parse` keeps the standard
columns of each row). -/
def XFile.toFile (f : XFile) : File := ⟨f.headerSize, some (f.rows.map (·.row)), f.chunks⟩

/-- the bytes a program adds, in order (what decoding must return). -/
def Op.content : Op → Bytes
  | .addData d | .addMixed d _ | .addEncrypted d _ _ _ | .addChunkNew d _ => d
  | _ => []

def content (p : List Op) : Bytes := p.flatMap Op.content

/-- run a builder program, `build`, serialise, then read the container back with `keys`:
`observe_at` of the property in one function. -/
def roundTrip (cd : Codec) (keys : Nat → Option Bytes) (H : Bytes → Bytes) (p : List Op) :
    Except Err Bytes :=
  match run cd Builder.init p with
  | .error e => .error e
  | .ok b =>
    match build H b with
    | .error e => .error e
    | .ok f => decodeBytes cd keys (serialize f)

/-- `r` is `Ok(x)` (Boolean, so that concrete instances can be evaluated by the kernel). -/
def isOkWith (r : Except Err Bytes) (x : Bytes) : Bool :=
  match r with
  | .ok y => y == x
  | .error _ => false

end Cascette.Model.Blte
