/-
Model/SaveLoad — what the reopen path makes of ONE saved object of C06, composed from the
protocol-level loaders of Model/SaveProtocols and the artifact models owned by C05 / C17:

* index bucket  : `IndexManager::load_all` → `load_index` on the bucket's `.idx` file
                  (`Model/Lsm.loadB` on the parsed `Image`; a file that does not parse makes
                  `load_all` return `Err` — the `?` in its loop)
* residency db  : `ResidencyDb::load(path)` (`Model/Residency.load`; no file = empty database)
* LRU checkpoint: `run_cycle`'s load step with the real `.lru` codec (`Model/LruPtr.deserialize`)

The BYTE layout of the `.idx` file and of the residency file has no Lean model (C05 models them at
the level of entries/pages): it is a parameter pair `enc`/`dec` with the round-trip law as a
hypothesis of the theorems (trusted base, exercised by the run: a completed save reloads as the
state in memory). The `.lru` byte codec is the real one (C17's `codec_roundtrip`).
-/
import Cascette.Model.SaveProtocols
import Cascette.Model.Lsm
import Cascette.Model.Residency
import Cascette.Model.LruPtr
namespace Cascette.Model.SaveLoad
open Cascette Cascette.Model.SaveProtocols

/-- one bucket as `load_all` sees it. -/
inductive IdxLoad where
  /-- no file with the bucket's name: the bucket is not loaded -/
  | absent
  | loaded (b : Lsm.Bucket)
  /-- `load_index` failed: `load_all` returns `Err` -/
  | err

def idxLoadBucket (dec : Bytes → Option Lsm.Image) : Option Bytes → IdxLoad
  | none => .absent
  | some b =>
    match dec b with
    | some i => .loaded (Lsm.loadB i)
    | none => .err

/-- `ResidencyDb::load(path)`: `none` = `Err`. -/
def resLoad (dec : Bytes → Option (Nat → Residency.Pages)) : Option Bytes → Option Residency.State
  | none => some (Residency.load Residency.State.init)
  | some b => (dec b).map fun bk => Residency.load { Residency.State.init with disk := some bk }

/-- `run_cycle`'s load step with the `.lru` codec of `lru_file.rs`. -/
def lruLoadFile {N : Type} (genName : Nat → N) (md5 : Bytes → Bytes) (gens : List Nat)
    (img : N → Option Bytes) : LruLoad (LruPtr.Header × List LruPtr.Entry) :=
  lruLoad genName (LruPtr.deserialize md5) gens img

end Cascette.Model.SaveLoad
