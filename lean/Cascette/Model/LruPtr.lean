/-
Model/LruPtr — pointer-level model of `LruManager` AS WRITTEN (after the `fix:` commit that
splits `detach_tail` out of `evict_tail`): the flat entry array with `prev`/`next` indices, the
header's `mru_head`/`lru_tail`, the `free_list` stack, the `key_map`, the generation counters,
and the `.lru` file codec of `lru_file.rs` (`serialize` / `deserialize` / `is_active`).

* `Vec` indexing that would panic in Rust is `none` here (`Option` results): nothing is
  totalised.  `HashMap<[u8;9],u32>` is an association list with the same get/insert/remove
  semantics (iteration order is never used by the code).  `free_list: Vec<u32>` is a list whose
  HEAD is the top of the stack.
* MD5 is a parameter `md5 : Bytes → Bytes` (the codec theorem holds for every function that
  returns 16 bytes).
* The two `while` loops (`evict_to_target`, `for_each_entry`) run on fuel `entries.length + 1`:
  on a well-formed list they stop earlier; running out of fuel means the Rust loop does not
  terminate (only reachable after the all-zero-key reload has corrupted the list).
* `u64` overflow of `freed += avg_entry_size` is not modelled (naturals).
-/
import Cascette.Base.Bytes
import Cascette.Spec.Lru
namespace Cascette.Model.LruPtr
open Cascette Cascette.Spec.Lru

abbrev Key := Bytes

/-- `LRU_SENTINEL` -/
def SENT : Nat := 0xFFFFFFFF

def zeroKey : Key := List.replicate 9 0
def zeros16 : Bytes := List.replicate 16 0

structure Entry where
  prev : Nat
  next : Nat
  ekey : Key
  flags : Nat
  deriving Repr, DecidableEq

/-- `LruFileEntry::empty()` -/
def Entry.empty : Entry := { prev := SENT, next := SENT, ekey := zeroKey, flags := 0 }

/-- `LruFileEntry::is_active`: a non-zero key. -/
def Entry.isActive (e : Entry) : Bool := decide (e.ekey ≠ zeroKey)

structure Header where
  version : Nat
  hash : Bytes
  head : Nat
  tail : Nat
  deriving Repr, DecidableEq

/-- `LruFileHeader::default()` -/
def Header.default : Header := { version := 1, hash := zeros16, head := SENT, tail := SENT }

/-! ### `HashMap<[u8; 9], u32>` -/

abbrev KeyMap := List (Key × Nat)

def kmGet : KeyMap → Key → Option Nat
  | [], _ => none
  | (k', v) :: rest, k => if k' = k then some v else kmGet rest k

def kmRemove (m : KeyMap) (k : Key) : KeyMap := m.filter (fun p => p.1 ≠ k)
def kmInsert (m : KeyMap) (k : Key) (v : Nat) : KeyMap := (k, v) :: kmRemove m k

/-! ### the manager -/

structure Ptr where
  header : Header
  entries : List Entry
  keyMap : KeyMap
  /-- head of the list = top of the `Vec` used as a stack -/
  freeList : List Nat
  gen : Nat
  prev : Nat
  cap : Nat
  files : Files Bytes
  deriving Repr, DecidableEq

/-- `LruManager::new` -/
def Ptr.init (cap : Nat) (files : Files Bytes := []) : Ptr :=
  { header := Header.default, entries := List.replicate cap Entry.empty, keyMap := [],
    freeList := (List.range cap).reverse, gen := 1, prev := 0, cap := cap, files := files }

/-- `self.entries[i] = f(self.entries[i])`, panicking (→ `none`) when out of range. -/
def modify (s : Ptr) (i : Nat) (f : Entry → Entry) : Option Ptr :=
  match s.entries[i]? with
  | none => none
  | some e => some { s with entries := s.entries.set i (f e) }

/-- `unlink(idx)` -/
def unlink (s : Ptr) (idx : Nat) : Option Ptr :=
  match s.entries[idx]? with
  | none => none
  | some e =>
    let prev := e.prev
    let next := e.next
    match (if prev = SENT then some { s with header := { s.header with tail := next } }
           else modify s prev (fun p => { p with next := next })) with
    | none => none
    | some s1 =>
      match (if next = SENT then some { s1 with header := { s1.header with head := prev } }
             else modify s1 next (fun n => { n with prev := prev })) with
      | none => none
      | some s2 => modify s2 idx (fun x => { x with prev := SENT, next := SENT })

/-- `link_at_head(idx)` -/
def linkAtHead (s : Ptr) (idx : Nat) : Option Ptr :=
  let oldHead := s.header.head
  match modify s idx (fun x => { x with next := SENT, prev := oldHead }) with
  | none => none
  | some s1 =>
    match (if oldHead = SENT then some { s1 with header := { s1.header with tail := idx } }
           else modify s1 oldHead (fun h => { h with next := idx })) with
    | none => none
    | some s2 => some { s2 with header := { s2.header with head := idx } }

/-- `detach_tail`: inner `none` = the list is empty. -/
def detachTail (s : Ptr) : Option (Ptr × Option Nat) :=
  let tail := s.header.tail
  if tail = SENT then some (s, none) else
  match s.entries[tail]? with
  | none => none
  | some e =>
    match unlink { s with keyMap := kmRemove s.keyMap e.ekey } tail with
    | none => none
    | some s1 =>
      match modify s1 tail (fun _ => Entry.empty) with
      | none => none
      | some s2 => some (s2, some tail)

/-- public `evict_tail`: `detach_tail` then `free_list.push(tail)`. -/
def evictTail (s : Ptr) : Option (Ptr × Option Nat) :=
  match detachTail s with
  | none => none
  | some (s1, none) => some (s1, none)
  | some (s1, some t) => some ({ s1 with freeList := t :: s1.freeList }, some t)

/-- `touch` -/
def touch (s : Ptr) (k : Key) : Option (Ptr × Bool) :=
  match kmGet s.keyMap k with
  | some idx =>
    match unlink s idx with
    | none => none
    | some s1 => (linkAtHead s1 idx).map (fun s2 => (s2, true))
  | none =>
    let slot : Option (Ptr × Option Nat) :=
      match s.freeList with
      | f :: rest => some ({ s with freeList := rest }, some f)
      | [] => detachTail s
    match slot with
    | none => none
    | some (s1, none) => some (s1, false)
    | some (s1, some idx) =>
      match modify s1 idx (fun _ => { prev := SENT, next := SENT, ekey := k, flags := 0 }) with
      | none => none
      | some s2 => (linkAtHead { s2 with keyMap := kmInsert s2.keyMap k idx } idx).map (fun s3 => (s3, true))

/-- `remove` -/
def remove (s : Ptr) (k : Key) : Option (Ptr × Bool) :=
  match kmGet s.keyMap k with
  | none => some (s, false)
  | some idx =>
    match unlink { s with keyMap := kmRemove s.keyMap k } idx with
    | none => none
    | some s1 =>
      match modify s1 idx (fun _ => Entry.empty) with
      | none => none
      | some s2 => some ({ s2 with freeList := idx :: s2.freeList }, true)

def contains (s : Ptr) (k : Key) : Bool := (kmGet s.keyMap k).isSome
def len (s : Ptr) : Nat := s.keyMap.length

/-- `evict_to_target` loop; result (state, evicted, freed); `none` = panic or no termination. -/
def evictLoop (target avg : Nat) : Nat → Ptr → Nat → Nat → Option (Ptr × Nat × Nat)
  | 0, _, _, _ => none
  | fuel + 1, s, evicted, freed =>
    if freed < target then
      match evictTail s with
      | none => none
      | some (s1, none) => some (s1, evicted, freed)
      | some (s1, some _) => evictLoop target avg fuel s1 (evicted + 1) (freed + avg)
    else some (s, evicted, freed)

def evictToTarget (s : Ptr) (target avg : Nat) : Option (Ptr × Nat × Nat) :=
  evictLoop target avg (s.entries.length + 1) s 0 0

/-- `for_each_entry`: walk `next` from the tail, report active entries. -/
def iterAux (es : List Entry) : Nat → Nat → Option (List Key)
  | 0, idx => if idx = SENT then some [] else none
  | fuel + 1, idx =>
    if idx = SENT then some [] else
    match es[idx]? with
    | none => none
    | some e =>
      match iterAux es fuel e.next with
      | none => none
      | some rest => some (if e.isActive then e.ekey :: rest else rest)

def iter (s : Ptr) : Option (List Key) := iterAux s.entries (s.entries.length + 1) s.header.tail

/-- `reset` -/
def reset (s : Ptr) : Ptr :=
  { s with header := Header.default, entries := List.replicate s.cap Entry.empty, keyMap := [],
           freeList := (List.range s.cap).reverse }

/-- `bump_generation` -/
def bump (s : Ptr) : Ptr := { s with prev := s.gen, gen := nextGen s.gen }

/-! ### `.lru` file codec (lru_file.rs) -/

def u32le (n : Nat) : Bytes := toLe32 (BitVec.ofNat 32 n)
def u16le (n : Nat) : Bytes := [BitVec.ofNat 8 n, BitVec.ofNat 8 (n / 256)]

/-- `LruFileEntry::to_bytes` (20 bytes when the key has 9) -/
def entryBytes (e : Entry) : Bytes :=
  u32le e.prev ++ u32le e.next ++ e.ekey ++ [BitVec.ofNat 8 e.flags, 0, 0]

/-- `LruFileHeader::to_bytes` with the given hash field (28 bytes when the hash has 16) -/
def headerBytes (h : Header) (hash : Bytes) : Bytes :=
  u16le h.version ++ [0, 0] ++ hash ++ u32le h.head ++ u32le h.tail

def bodyBytes : List Entry → Bytes
  | [] => []
  | e :: es => entryBytes e ++ bodyBytes es

/-- `serialize`: hash field zeroed, MD5 over everything, hash patched in. -/
def serialize (md5 : Bytes → Bytes) (h : Header) (es : List Entry) : Bytes :=
  let body := bodyBytes es
  headerBytes h (md5 (headerBytes h zeros16 ++ body)) ++ body

/-- `LruFileEntry::from_bytes` over consecutive 20-byte records. -/
def parseEntries : Bytes → List Entry
  | p0 :: p1 :: p2 :: p3 :: n0 :: n1 :: n2 :: n3 ::
    k0 :: k1 :: k2 :: k3 :: k4 :: k5 :: k6 :: k7 :: k8 :: f :: _ :: _ :: rest =>
    { prev := (le32 p0 p1 p2 p3).toNat, next := (le32 n0 n1 n2 n3).toNat,
      ekey := [k0, k1, k2, k3, k4, k5, k6, k7, k8], flags := f.toNat } :: parseEntries rest
  | _ => []

/-- `deserialize`: size check, version check, MD5 over the data with bytes 4..20 zeroed. -/
def deserialize (md5 : Bytes → Bytes) (data : Bytes) : Option (Header × List Entry) :=
  if data.length < 28 ∨ (data.length - 28) % 20 ≠ 0 then none else
  match data with
  | v0 :: v1 :: r0 :: r1 :: rest =>
    let version := v0.toNat + 256 * v1.toNat
    if 1 < version then none else
    let hash := rest.take 16
    match rest.drop 16 with
    | h0 :: h1 :: h2 :: h3 :: t0 :: t1 :: t2 :: t3 :: body =>
      if md5 ([v0, v1, r0, r1] ++ zeros16 ++ (h0 :: h1 :: h2 :: h3 :: t0 :: t1 :: t2 :: t3 :: body)) ≠ hash then none
      else some ({ version := version, hash := hash, head := (le32 h0 h1 h2 h3).toNat,
                   tail := (le32 t0 t1 t2 t3).toNat }, parseEntries body)
    | _ => none
  | _ => none

/-- the loop of `load_from_disk` that rebuilds `key_map` and `free_list` from `is_active`. -/
def rebuild : List Entry → Nat → KeyMap → List Nat → KeyMap × List Nat
  | [], _, km, fl => (km, fl)
  | e :: es, i, km, fl =>
    if e.isActive then rebuild es (i + 1) (kmInsert km e.ekey i) fl
    else rebuild es (i + 1) km (i :: fl)

/-- `checkpoint_to_disk` (I/O errors are outside the model) -/
def checkpoint (md5 : Bytes → Bytes) (s : Ptr) : Ptr :=
  let fs := Files.write s.files s.gen (serialize md5 s.header s.entries)
  { s with files := if s.prev ≠ 0 ∧ s.prev ≠ s.gen then Files.delete fs s.prev else fs }

/-- `load_from_disk`: `false` = `Err` (missing or invalid file), state untouched. -/
def loadFromDisk (md5 : Bytes → Bytes) (s : Ptr) (g : Nat) : Ptr × Bool :=
  match Files.lookup s.files g with
  | none => (s, false)
  | some data =>
    match deserialize md5 data with
    | none => (s, false)
    | some (h, es) =>
      let r := rebuild es 0 [] []
      ({ s with header := h, entries := es, keyMap := r.1, freeList := r.2, gen := g }, true)

/-- `run_cycle` -/
def runCycle (md5 : Bytes → Bytes) (s : Ptr) (limit avg : Nat) : Option (Ptr × Out) :=
  let loaded : Option (Ptr × Nat) :=
    match Files.latest s.files with
    | none => some (s, 0)
    | some g =>
      let r := loadFromDisk md5 s g
      if r.2 then some (r.1, len r.1) else none
  match loaded with
  | none => some (s, .err)
  | some (s1, nLoaded) =>
    let ev : Option (Ptr × Nat × Nat) :=
      if 0 < limit ∧ 0 < avg then
        if limit < len s1 * avg then evictToTarget s1 (len s1 * avg - limit) avg else some (s1, 0, 0)
      else some (s1, 0, 0)
    match ev with
    | none => none
    | some (s2, nEv, freed) =>
      let s3 := { s2 with files := Files.scan s2.files s2.gen s2.prev }
      match iter s3 with
      | none => none
      | some l => some (s3, .cycle nLoaded nEv freed l.length)

/-- one operation; `none` = the Rust code panics or does not terminate. -/
def step (md5 : Bytes → Bytes) (s : Ptr) : Op Key → Option (Ptr × Out)
  | .touch k => (touch s k).map (fun r => (r.1, .bool r.2))
  | .remove k => (remove s k).map (fun r => (r.1, .bool r.2))
  | .evictTail => (evictTail s).map (fun r => (r.1, .bool r.2.isSome))
  | .evictTo target avg => (evictToTarget s target avg).map (fun r => (r.1, .evicted r.2.1 r.2.2))
  | .bump => some (bump s, .ok)
  | .checkpoint => some (checkpoint md5 s, .ok)
  | .load g => let r := loadFromDisk md5 s g; some (r.1, if r.2 then .ok else .err)
  | .runCycle limit avg => runCycle md5 s limit avg
  | .reset => some (reset s, .ok)
  | .reopen => some (Ptr.init s.cap s.files, .ok)

/-- run a history; `none` as soon as one operation panics / does not terminate. -/
def run (md5 : Bytes → Bytes) (s : Ptr) : List (Op Key) → Option (Ptr × List Out)
  | [] => some (s, [])
  | op :: ops =>
    match step md5 s op with
    | none => none
    | some (s1, o) =>
      match run md5 s1 ops with
      | none => none
      | some (s2, os) => some (s2, o :: os)

/-! ### the list as the data structure describes it (abstraction function, file view)

Used by the refinement proof (`Proofs/LruRefine`: under the representation invariant
`slotWalk` returns exactly the abstract slot list) and by the driver's `filecheck` request, which
looks at a checkpoint file the way an independent reader would: walk `next` from `lru_tail`,
check every `prev` and `mru_head` against that walk, look at the slots the walk did not reach. -/

/-- slots reached by following `next` from `idx` (the walk of `for_each_entry`, reporting slot
indices); `none` = index out of range or fuel exhausted (a cycle). -/
def slotWalk (es : List Entry) : Nat → Nat → Option (List Nat)
  | 0, idx => if idx = SENT then some [] else none
  | fuel + 1, idx =>
    if idx = SENT then some [] else
    match es[idx]? with
    | none => none
    | some e => (slotWalk es fuel e.next).map (idx :: ·)

/-- abstraction function of the pointer layer: the linked slots, LRU tail first. -/
def Ptr.slots (s : Ptr) : Option (List Nat) := slotWalk s.entries (s.entries.length + 1) s.header.tail

/-- do the `prev` fields mirror the walk? (`p` = expected `prev` of the first slot) -/
def prevOk (es : List Entry) : Nat → List Nat → Bool
  | _, [] => true
  | p, i :: rest => (match es[i]? with | some e => e.prev == p | none => false) && prevOk es i rest

structure FileView where
  entries : Nat
  linked : List Key
  /-- unlinked slots that hold `LruFileEntry::empty()` -/
  free : Nat
  /-- unlinked slots that hold anything else -/
  stale : Nat
  prevOk : Bool
  headOk : Bool
  deriving Repr, DecidableEq

/-- key stored in slot `i` (`[]` outside the array) -/
def keyOf (es : List Entry) (i : Nat) : Key :=
  match es[i]? with
  | some e => e.ekey
  | none => []

/-- does slot `i` hold `LruFileEntry::empty()`? -/
def emptyAt (es : List Entry) (i : Nat) : Bool :=
  match es[i]? with
  | some e => e == Entry.empty
  | none => false

/-- what a header + entry array say when read as a doubly linked list; `none` = the `next` walk
leaves the array or does not end. -/
def viewOf (h : Header) (es : List Entry) : Option FileView :=
  match slotWalk es (es.length + 1) h.tail with
  | none => none
  | some L =>
    let unlinked := (List.range es.length).filter (fun i => !L.contains i)
    some { entries := es.length,
           linked := L.map (keyOf es),
           free := (unlinked.filter (emptyAt es)).length,
           stale := (unlinked.filter (fun i => !emptyAt es i)).length,
           prevOk := prevOk es SENT L,
           headOk := h.head == L.getLastD SENT }

/-- the checkpoint file of the current generation as `viewOf` sees it: outer `none` = no such
file or not parseable. -/
def fileView (md5 : Bytes → Bytes) (s : Ptr) : Option (Option FileView) :=
  match Files.lookup s.files s.gen with
  | none => none
  | some data =>
    match deserialize md5 data with
    | none => none
    | some (h, es) => some (viewOf h es)

end Cascette.Model.LruPtr
