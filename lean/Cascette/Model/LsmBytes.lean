/-
Model/LsmBytes — byte-level model of the `.idx` file written by `IndexManager::save_index` /
`write_index_to_file` / `UpdateSection::to_bytes` and read by `load_index` / `read_index_header` /
`read_entry_block` / `parse_entries` / `UpdateSection::from_bytes` / `UpdatePage::from_bytes`
(`index/mod.rs`, `index/update.rs`).  Bytes are naturals < 256.

File layout
  [0x00] u32le 16, u32le hashlittle(header16, 0)            guarded block header
  [0x08] u16le 7, bucket, 0, 4, 5, 9, 30, u64le 2^30         IndexHeaderV2 (16 bytes)
  [0x18] 8 zero bytes
  [0x20] u32le |entry data|, u32le hashlittle(entry data, 0) guarded block header
  [0x28] entry data: 18 bytes per sorted entry (9 key, 5 packed location BE, 4 size LE)
  only when the update section holds an entry:
  zero padding up to the next multiple of 0x10000, then max(capacity_pages, pages) pages of 512
  bytes, each page = its entries (24 bytes: u32le guard, 9 key, 5 location, 4 size LE, status, 0)
  followed by zeros.

The hash function is a parameter of the writer (`H`; the driver passes Model/Jenkins
`hashlittle · 0`); the reader never looks at a block hash or at the value of a non-zero guard
(C07 covers validation), so the round-trip theorems hold for every `H`.
The header fields are the constants `add_entry` gives a new bucket (9/5/4/30); a bucket loaded
from one of our own files carries the same values.
-/
import Cascette.Model.Lsm
namespace Cascette.Model.LsmBytes
open Cascette.Spec.IndexMap (Entry)
open Cascette.Model.Lsm

def le16 (v : Nat) : List Nat := [v % 256, v / 256 % 256]

def le32 (v : Nat) : List Nat := [v % 256, v / 256 % 256, v / 65536 % 256, v / 16777216 % 256]

def le64 (v : Nat) : List Nat := le32 (v % 4294967296) ++ le32 (v / 4294967296 % 4294967296)

/-- the nine key bytes, first byte first. -/
def key9 (k : Nat) : List Nat :=
  [k / 18446744073709551616 % 256, k / 72057594037927936 % 256, k / 281474976710656 % 256,
   k / 1099511627776 % 256, k / 4294967296 % 256, k / 16777216 % 256, k / 65536 % 256,
   k / 256 % 256, k % 256]

/-- `[u8; 9]` back to the number with those big-endian digits. -/
def keyOf (k0 k1 k2 k3 k4 k5 k6 k7 k8 : Nat) : Nat :=
  k0 * 18446744073709551616 + k1 * 72057594037927936 + k2 * 281474976710656 +
    k3 * 1099511627776 + k4 * 4294967296 + k5 * 16777216 + k6 * 65536 + k7 * 256 + k8

def rd32le (a b c d : Nat) : Nat := a + b * 256 + c * 65536 + d * 16777216

/-! ### writer -/

/-- `IndexEntry::to_packed`: binrw writes key, location, size; when `archive_id >> 2` does not
fit `u8` the writer fails and the fallback `vec![0; 18]` is returned. -/
def packEntry (e : Entry) : List Nat :=
  if e.id / 4 ≥ 256 then List.replicate 18 0
  else key9 e.key ++ (packLoc e.id e.off ++ le32 e.size)

/-- bytes 4..23 of an update entry without the padding byte: what the guard hashes
(`entry_bytes[4..23]`, 19 bytes). -/
def updBody (u : Upd) : List Nat :=
  key9 u.key ++ (packLoc u.id u.off ++ (le32 u.size ++ [u.status]))

/-- `hashlittle(..) | 0x8000_0000` on a 32-bit value. -/
def guardOf (h : Nat) : Nat := h % 2147483648 + 2147483648

/-- `UpdateEntry::to_bytes` of an entry built by `UpdateEntry::new` (24 bytes). -/
def updBytes (H : List Nat → Nat) (u : Upd) : List Nat :=
  le32 (guardOf (H (updBody u))) ++ (updBody u ++ [0])

def updEntrySize : Nat := 24
def pageSize : Nat := 512
def slotsPerPage : Nat := pageSize / updEntrySize
def alignment : Nat := 65536

/-- `UpdatePage::to_bytes`; the Rust indexes `buf[i*24 .. i*24+24]` and would panic on a 22nd
entry (`none`). -/
def pageBytes (H : List Nat → Nat) (p : List Upd) : Option (List Nat) :=
  if p.length ≤ slotsPerPage then
    some (p.flatMap (updBytes H) ++ List.replicate (pageSize - updEntrySize * p.length) 0)
  else none

def pagesBytes (H : List Nat → Nat) : List (List Upd) → Option (List Nat)
  | [] => some []
  | p :: ps =>
    match pageBytes H p, pagesBytes H ps with
    | some a, some b => some (a ++ b)
    | _, _ => none

/-- `UpdateSection::to_bytes`: `max(capacity_pages, pages.len())` pages. -/
def sectionBytes (H : List Nat → Nat) (capPages : Nat) (pages : List (List Upd)) : Option (List Nat) :=
  match pagesBytes H pages with
  | some a => some (a ++ List.replicate ((max capPages pages.length - pages.length) * pageSize) 0)
  | none => none

/-- the 16 bytes of `IndexHeaderV2`. -/
def header16 (bucket : Nat) : List Nat :=
  le16 7 ++ ([bucket % 256, 0, 4, 5, 9, 30] ++ le64 1073741824)

/-- `(x + A - 1) & !(A - 1)`. -/
def alignUp (x : Nat) : Nat := (x + (alignment - 1)) / alignment * alignment

/-- `save_index` + `write_index_to_file`: the bytes of `{bucket:02x}00000001.idx`; `none` = `Err`
(entry data beyond `u32`) or panic (page with more than 21 entries). -/
def serialise (H : List Nat → Nat) (capPages : Nat) (bucket : Nat) (bk : Bucket) : Option (List Nat) :=
  let entryData := bk.sorted.flatMap packEntry
  if entryData.length ≥ 4294967296 then none
  else
    let head := le32 16 ++ (le32 (H (header16 bucket)) ++ (header16 bucket ++ (List.replicate 8 0 ++
      (le32 entryData.length ++ le32 (H entryData)))))
    if bk.log.length = 0 then some (head ++ entryData)
    else
      match sectionBytes H capPages bk.pages with
      | some upd =>
        let sortedEnd := 40 + entryData.length
        some (head ++ (entryData ++ (List.replicate (alignUp sortedEnd - sortedEnd) 0 ++ upd)))
      | none => none

/-! ### reader -/

/-- `IndexEntry::from_packed` on one record of `parse_entries` (`entry_bytes` has `entry_size`
bytes; at least 18 are needed; an all-zero key is an empty slot). -/
def parseEntry : List Nat → Option Entry
  | k0 :: k1 :: k2 :: k3 :: k4 :: k5 :: k6 :: k7 :: k8 :: hi :: b3 :: b2 :: b1 :: b0 ::
      s0 :: s1 :: s2 :: s3 :: _ =>
    if k0 = 0 ∧ k1 = 0 ∧ k2 = 0 ∧ k3 = 0 ∧ k4 = 0 ∧ k5 = 0 ∧ k6 = 0 ∧ k7 = 0 ∧ k8 = 0 then none
    else
      match unpackLoc [hi, b3, b2, b1, b0] with
      | some (id, off) => some ⟨keyOf k0 k1 k2 k3 k4 k5 k6 k7 k8, id, off, rd32le s0 s1 s2 s3⟩
      | none => none
  | _ => none

/-- `parse_entries`: records of `entry_size` bytes while a whole record is left; zero-key and
malformed records are skipped. (`entry_size ≥ 9` because `ekey_length ∈ {9, 16}`.) -/
def parseEntries (entrySize : Nat) (data : List Nat) : List Entry :=
  if _h : entrySize = 0 ∨ data.length < entrySize then []
  else
    match parseEntry (data.take entrySize) with
    | some e => e :: parseEntries entrySize (data.drop entrySize)
    | none => parseEntries entrySize (data.drop entrySize)
termination_by data.length
decreasing_by all_goals (simp only [List.length_drop]; omega)

/-- `UpdateStatus::from_byte`. -/
def statusOfByte (b : Nat) : Nat := if b = 3 then 3 else if b = 6 then 6 else if b = 7 then 7 else 0

/-- one 24-byte slot of `UpdatePage::from_bytes`: `none` = empty slot (guard 0). -/
def parseSlot : List Nat → Option Upd
  | g0 :: g1 :: g2 :: g3 :: k0 :: k1 :: k2 :: k3 :: k4 :: k5 :: k6 :: k7 :: k8 ::
      hi :: b3 :: b2 :: b1 :: b0 :: s0 :: s1 :: s2 :: s3 :: st :: _ :: _ =>
    if rd32le g0 g1 g2 g3 = 0 then none
    else
      match unpackLoc [hi, b3, b2, b1, b0] with
      | some (id, off) =>
        some ⟨keyOf k0 k1 k2 k3 k4 k5 k6 k7 k8, id, off, rd32le s0 s1 s2 s3, statusOfByte st⟩
      | none => none
  | _ => none

/-- the slot loop of `UpdatePage::from_bytes` (`while offset + 24 <= 512`, stop at guard 0). -/
def parseSlots : Nat → List Nat → List Upd
  | 0, _ => []
  | n + 1, data =>
    match parseSlot data with
    | some u => u :: parseSlots n (data.drop updEntrySize)
    | none => []

/-- `UpdatePage::from_bytes` on a 512-byte slice. -/
def parsePage (data : List Nat) : Option (List Upd) :=
  match data with
  | 0 :: 0 :: 0 :: 0 :: _ => none
  | _ =>
    match parseSlots slotsPerPage data with
    | [] => none
    | l => some l

/-- `UpdateSection::from_bytes`: pages while 512 bytes are left, stop at the first empty page. -/
def parsePages (data : List Nat) : List (List Upd) :=
  if _h : data.length < pageSize then []
  else
    match parsePage (data.take pageSize) with
    | some p => p :: parsePages (data.drop pageSize)
    | none => []
termination_by data.length
decreasing_by simp only [List.length_drop, pageSize] at *; omega

/-- `load_index` after the 40 header bytes: `rest` = the file from offset 0x28, `fileLen` = the
file size, `kl/ol/sl` = the three field widths of the header, `blockSize` = the size field of the
entry block. `none` = `Err`. Seeking to `update_start` in the file is skipping
`update_start - 40` bytes of `rest` (`update_start ≥ 40`). -/
def parseBody (kl ol sl blockSize fileLen : Nat) (rest : List Nat) : Option Image :=
  if kl ≠ 9 ∧ kl ≠ 16 then none
  else if blockSize > fileLen then none
  else if rest.length < blockSize then none
  else
    let sorted := parseEntries (kl + ol + sl) (rest.take blockSize)
    let updStart := alignUp (40 + blockSize)
    let pages := if updStart < fileLen then parsePages (rest.drop (updStart - 40)) else []
    some ⟨sorted, pages⟩

/-- `load_index` up to (not including) the sort: `none` = `Err`. Block sizes/hashes of the two
guarded headers are not verified by the code; the entry size comes from the header. -/
def parseFile (bytes : List Nat) : Option Image :=
  match bytes with
  | _ :: _ :: _ :: _ :: _ :: _ :: _ :: _ ::
    _ :: _ :: _ :: _ :: sl :: ol :: kl :: _ ::
    _ :: _ :: _ :: _ :: _ :: _ :: _ :: _ ::
    _ :: _ :: _ :: _ :: _ :: _ :: _ :: _ ::
    n0 :: n1 :: n2 :: n3 :: _ :: _ :: _ :: _ :: rest =>
    parseBody kl ol sl (rd32le n0 n1 n2 n3) bytes.length rest
  | _ => none

/-- the file image of a saved bucket as the driver prints it (Image and Bucket have the same
shape; inside the field limits `saveB bk` IS `bk`). -/
def serialiseImage (H : List Nat → Nat) (capPages : Nat) (bucket : Nat) (img : Image) :
    Option (List Nat) :=
  serialise H capPages bucket ⟨img.sorted, img.pages⟩

end Cascette.Model.LsmBytes
