/-
Model/ManifestExt — the parts of the C19 mechanism that sit on top of Model/Manifest and of the
whole-file size-manifest model of Model/Serial (property C08; imported, not duplicated):

* `SizeManifestBuilder` AS WRITTEN (size/builder.rs): the four configuration setters, `add_tag`
  (empty mask), `tag_file` (by tag INDEX, grows the mask, may name a file that does not exist),
  `add_entry`, and `build` = derived header fields (`tag_count` only overwritten when tags were
  added, `as u16` / `as u32` truncation, wrapping `u64` sum) + mask resize + the whole of
  `SizeManifest::validate` in its order (header, tag count, entry count, per-entry key length and
  esize width). The result is a `Model.Serial.SFile`, serialised / parsed by `Model.Serial`.
* the `String::from_utf8` checks of the tag / install-entry readers at the place the code has them
  (right after the NUL-terminated read, before the next field), and the install / download
  parsers built from them. `validUtf8` is `Model.Serial.validUtf8` (the Unicode table 3-7
  automaton = `core::str::from_utf8`).
-/
import Cascette.Model.Serial
namespace Cascette.Model.ManifestExt
open Cascette Cascette.Model.Manifest Cascette.Model.Serial

/-! ### size manifest builder (size/builder.rs) -/

inductive SErr where
  | version | ekey | width | totalTooLarge | tagCount | entryCount | keyLen | esize | panic
deriving DecidableEq, Repr

def SErr.str : SErr → String
  | .version => "err:version" | .ekey => "err:ekey" | .width => "err:width"
  | .totalTooLarge => "err:total-too-large" | .tagCount => "err:tag-count"
  | .entryCount => "err:entry-count" | .keyLen => "err:key-len" | .esize => "err:esize"
  | .panic => "panic"

structure SBuilder where
  version : Nat
  ekeySize : Nat
  tagCount : Nat
  esizeBytes : Nat
  tags : List Tag
  entries : List SEntry
deriving Repr

/-- `SizeManifestBuilder::new()` -/
def SBuilder.new : SBuilder := ⟨2, 9, 0, 4, [], []⟩

/-- `add_tag`: `SizeTag::new(name, tag_type, 0)` — an EMPTY mask, sized at build time -/
def SBuilder.addTag (b : SBuilder) (name : Bytes) (typ : Nat) : SBuilder :=
  { b with tags := b.tags ++ [⟨name, typ, []⟩] }

/-- `tag_file(tag_index, file_index)`; a tag index out of range is a Rust panic -/
def SBuilder.tagFile (b : SBuilder) (ti fi : Nat) : Except SErr SBuilder :=
  match sizeTagFile b.tags ti fi with
  | .ok ts => .ok { b with tags := ts }
  | .error _ => .error .panic

def SBuilder.addEntry (b : SBuilder) (key : Bytes) (esize : Nat) : SBuilder :=
  { b with entries := b.entries ++ [⟨key, esize⟩] }

/-- `SizeEntry::validate`: key length, then `width < 8 && esize >> (8 * width) != 0` -/
def sEntryCheck (ks w : Nat) (e : SEntry) : Option SErr :=
  if e.key.length ≠ ks then some .keyLen else
  if w < 8 ∧ e.esize / 256 ^ w ≠ 0 then some .esize else none

def firstSErr (f : SEntry → Option SErr) : List SEntry → Option SErr
  | [] => none
  | x :: xs => match f x with | some e => some e | none => firstSErr f xs

/-- `SizeManifestBuilder::build` followed by the `SizeManifest::validate` it ends with -/
def SBuilder.build (b : SBuilder) : Except SErr SFile :=
  if b.version = 0 ∨ b.version > 2 then .error .version else
  if b.ekeySize = 0 ∨ b.ekeySize > 16 then .error .ekey else
  let tagCount := if b.tags.isEmpty then b.tagCount else b.tags.length % 65536
  let entryCount := b.entries.length % 4294967296
  let total := sumU64 b.entries
  let tags := sizeBuildTags b.tags b.entries.length
  if b.version = 1 ∧ (b.esizeBytes = 0 ∨ b.esizeBytes > 8) then .error .width else
  let width := if b.version = 1 then b.esizeBytes else 4
  if b.version = 2 ∧ total > 0xFFFFFFFFFF then .error .totalTooLarge else
  if tags.length = tagCount then
    if b.entries.length = entryCount then
      match firstSErr (sEntryCheck b.ekeySize width) b.entries with
      | some e => .error e
      | none => .ok ⟨b.version, b.ekeySize, total, width, tags, b.entries⟩
    else .error .entryCount
  else .error .tagCount

/-! ### `String::from_utf8` inside the readers (install/tag.rs, install/entry.rs) -/

/-- `InstallTag::read_options` (= `DownloadTag`, `SizeTag`): name, UTF-8 check, type, mask -/
def parseTagU (n : Nat) (bs : Bytes) : Option (Tag × Bytes) :=
  match readCStr bs with
  | none => none
  | some (name, r1) =>
    if !validUtf8 name then none else
    match readN 2 r1 with
    | none => none
    | some (tb, r2) =>
      if validType (rdBe tb) then
        match readN (maskSize n) r2 with
        | none => none
        | some (mask, r3) => some (⟨name, rdBe tb, mask⟩, r3)
      else none

/-- `InstallFileEntry::read_options`: path, UTF-8 check, key, size, (V2) file type -/
def parseIEntryU (version : Nat) (bs : Bytes) : Option (IEntry × Bytes) :=
  match readCStr bs with
  | none => none
  | some (path, r1) =>
    if !validUtf8 path then none else
    match readN 16 r1 with
    | none => none
    | some (key, r2) =>
      match readN 4 r2 with
      | none => none
      | some (sz, r3) =>
        if version ≥ 2 then
          match readN 1 r3 with
          | none => none
          | some (ft, r4) => some (⟨path, key, rdBe sz, some (rdBe ft)⟩, r4)
        else some (⟨path, key, rdBe sz, none⟩, r3)

/-- `InstallManifest::parse` over given tag / entry readers (the body of
`Model.Manifest.parseInstall`, readers abstracted) -/
def parseInstallWith (pt : Nat → Bytes → Option (Tag × Bytes))
    (pe : Nat → Bytes → Option (IEntry × Bytes)) (bs : Bytes) : Option IManifest :=
  match readN 10 bs with
  | none => none
  | some (h, r0) =>
    match h with
    | [m0, m1, ver, ckl, t0, t1, e0, e1, e2, e3] =>
      if m0 ≠ 0x49 ∨ m1 ≠ 0x4E then none else
      let version := ver.toNat
      let tagCount := rdBe [t0, t1]
      let entryCount := rdBe [e0, e1, e2, e3]
      let ext : Option (Option (Nat × Nat × Nat) × Bytes) :=
        if version ≥ 2 then
          match readN 6 r0 with
          | some ([c, a0, a1, a2, a3, u], r) => some (some (c.toNat, rdBe [a0, a1, a2, a3], u.toNat), r)
          | _ => none
        else some (none, r0)
      match ext with
      | none => none
      | some (v2, r1) =>
        if version = 0 ∨ version > 2 then none else
        if ckl ≠ 16 then none else
        match parseMany (pt entryCount) tagCount r1 with
        | none => none
        | some (tags, r2) =>
          match parseMany (pe version) entryCount r2 with
          | none => none
          | some (entries, _) => some ⟨version, v2, tags, entries⟩
    | _ => none

/-- `DownloadManifest::parse` over a given tag reader (body of `Model.Manifest.parseDownload`) -/
def parseDownloadWith (pt : Nat → Bytes → Option (Tag × Bytes)) (bs : Bytes) : Option DManifest :=
  match readN 11 bs with
  | none => none
  | some (h, r0) =>
    match h with
    | [m0, m1, ver, ekl, hc, e0, e1, e2, e3, t0, t1] =>
      if m0 ≠ 0x44 ∨ m1 ≠ 0x4C then none else
      let version := ver.toNat
      let entryCount := rdBe [e0, e1, e2, e3]
      let tagCount := rdBe [t0, t1]
      let ext : Option ((Nat × Int) × Bytes) :=
        if version = 1 then some ((0, 0), r0)
        else if version = 2 then
          (match r0 with | fs :: r => some ((fs.toNat, 0), r) | [] => none)
        else if version = 3 then
          (match r0 with | fs :: bp :: _ :: _ :: _ :: r => some ((fs.toNat, byteI8 bp), r) | _ => none)
        else none
      match ext with
      | none => none
      | some ((flagSize, basePrio), r1) =>
        if ekl ≠ 16 then none else
        if flagSize > 4 then none else
        let hasCks := hc ≠ 0
        match parseMany (parseDEntry hasCks flagSize) entryCount r1 with
        | none => none
        | some (entries, r2) =>
          match parseMany (pt entryCount) tagCount r2 with
          | none => none
          | some (tags, _) => some ⟨version, hasCks, flagSize, basePrio, entries, tags⟩
    | _ => none

/-- `InstallManifest::parse` as the code is: UTF-8 checked inside the readers -/
def parseInstallV : Bytes → Option IManifest := parseInstallWith parseTagU parseIEntryU

/-- `DownloadManifest::parse` as the code is -/
def parseDownloadV : Bytes → Option DManifest := parseDownloadWith parseTagU

end Cascette.Model.ManifestExt
