/-
Model/MultiConc — executable model of `cascette_cache::multi_layer::MultiLayerCacheImpl` AS
WRITTEN under concurrent use (crates/cascette-cache/src/multi_layer.rs), over MemoryCache layers.

A multi-layer operation is a walk over the layers plus one access to the promotion tracker
(`promotion_tracker: RwLock<HashMap<K, PromotionTracker>>`); nothing is locked across the walk:

  get k        for each layer, top first: [layer.get(k)] → hit: ‖ [tracker: update the key's
               entry or insert one] → Some(v);  miss: ‖ next layer;  after the last: None
  contains k   for each layer: [layer.contains(k)] → true: return;  false: ‖ next layer
  put k v      [layers[0].put(k, v)] ‖ [tracker.insert(k)]
  remove k     for each layer: [layer.remove(k)] ‖ …  ‖ [tracker.remove(k)] → found in any layer
  clear        for each layer: [layer.clear()] ‖ …  ‖ [tracker.clear()]
  put_to_layer [index check] [layers[i].put(k, v)]          (never touches the tracker)

`‖` = the schedule point `ml.layer.after_<op>` that every per-layer call (`CacheLayer::get / put /
contains / remove / clear`) announces when it returns (verif-hooks).  Inside a per-layer call the
thread runs the MemoryCache operation of Model/MemConc (`startOp` / `contOp`), cut at the `mem.*`
schedule points.  So one step of a thread = one access to one layer's map, one counter update of
a layer, or the tracker access (the step that follows the last per-layer call of `contains`, of
a `get` that missed everywhere and of `put_to_layer` only returns the answer).  `new` refuses an
empty layer list, so `layers ≠ []` in every state the run reaches.

Shared state: the layers (`MemCache.State` each, one logical clock ticking in all of them at every
step) and the SET of keys that have a tracker entry (hit counts, time stamps and `current_layer`
of a tracker decide nothing: `should_promote` is computed and dropped, promotion is deferred by
design).  Metrics are not modelled.  `put` stores with the layer's default TTL
(`cfg.defaultShort`); the run uses one `Config` for every layer.
-/
import Cascette.Model.MemConc
namespace Cascette.Model.MultiConc
open Cascette.Spec.CacheMap (Key Val)
open Cascette.Spec.Interleave (Machine Sys)
open Cascette.Model.CacheAssoc
open Cascette.Model.MemCache (Config Store State)
open Cascette.Model.MemConc (Pc Out)

inductive MOp where
  | get (k : Key)
  | contains (k : Key)
  | put (k : Key) (v : Val)
  | remove (k : Key)
  | clear
  /-- `put_to_layer(k, v, layer)` -/
  | putTo (k : Key) (v : Val) (layer : Nat)
  deriving Repr, DecidableEq

inductive MOut where
  | val (o : Option Val)
  | bool (b : Bool)
  | unit
  /-- `Err(InvalidConfiguration("Layer … does not exist"))` of `put_to_layer` -/
  | badLayer
  deriving Repr, DecidableEq

structure MState where
  layers : List State
  /-- keys with a promotion-tracker entry (no key twice) -/
  tracked : List Key
  deriving Repr

/-- where a thread stands inside its current multi-layer operation -/
inductive MPc where
  | idle
  /-- inside the call into layer `layer`, parked at that layer's schedule point `pc`; `ans` =
  the answer the layer operation has fixed so far; `found` = a `remove` found the key higher up -/
  | inLayer (op : MOp) (found : Bool) (layer : Nat) (pc : Pc) (ans : Option Out)
  /-- the call into layer `layer` has returned `ans`: parked at `ml.layer.after_<op>` -/
  | after (op : MOp) (found : Bool) (layer : Nat) (ans : Out)
  deriving Repr, DecidableEq

structure MThread where
  pc : MPc
  todo : List MOp
  results : List (MOp × MOut)
  deriving Repr, DecidableEq

def MThread.new (ops : List MOp) : MThread := { pc := .idle, todo := ops, results := [] }

def MThread.done (t : MThread) : Bool := t.pc = .idle && t.todo.isEmpty

/-- the MemoryCache operation a multi-layer operation performs on a layer -/
def layerOp (cfg : Config) : MOp → MemConc.Op
  | .get k => .get k
  | .contains k => .contains k
  | .put k v => .put k v cfg.defaultShort
  | .remove k => .remove k
  | .clear => .clear
  | .putTo k v _ => .put k v cfg.defaultShort

def trackIns (k : Key) (l : List Key) : List Key := if l.contains k then l else k :: l

def trackDel (k : Key) (l : List Key) : List Key := l.filter (fun x => x ≠ k)

/-- the logical clock ticks in every layer at every step (time stamps = schedule order) -/
def tickAll (s : MState) : MState := { s with layers := s.layers.map MemCache.tick }

def setLayer (s : MState) (i : Nat) (ls : State) : MState := { s with layers := s.layers.set i ls }

/-- the layer operation stands at `pc` with answer `ans`: still inside the layer, or returned -/
def settle (op : MOp) (found : Bool) (layer : Nat) (pc : Pc) (ans : Option Out) : MPc :=
  if pc = .idle then
    match ans with
    | some a => .after op found layer a
    -- not reachable: every layer operation has fixed its answer by the time it returns
    | none => .after op found layer .unit
  else .inLayer op found layer pc ans

/-- call into layer `layer`: first step of the layer operation -/
def enter (cfg : Config) (s : MState) (op : MOp) (found : Bool) (layer : Nat) : MState × MPc :=
  match s.layers[layer]? with
  | none => (s, .idle)
  | some ls =>
    let r := MemConc.startOp cfg ls (layerOp cfg op)
    (setLayer s layer r.1, settle op found layer r.2.1 r.2.2.1.head?)

/-- the step a thread parked at `ml.layer.after_<op>` takes: what the multi-layer operation does
with the layer's answer — `(state, pc, answer of the multi-layer operation if it returns)` -/
def resume (cfg : Config) (s : MState) (op : MOp) (found : Bool) (layer : Nat) (a : Out) :
    MState × MPc × Option MOut :=
  let more := decide (layer + 1 < s.layers.length)
  match op with
  | .get k =>
    match a with
    | .val (some v) => ({ s with tracked := trackIns k s.tracked }, .idle, some (.val (some v)))
    | _ => if more then let r := enter cfg s op false (layer + 1); (r.1, r.2, none)
           else (s, .idle, some (.val none))
  | .contains _ =>
    match a with
    | .bool true => (s, .idle, some (.bool true))
    | _ => if more then let r := enter cfg s op false (layer + 1); (r.1, r.2, none)
           else (s, .idle, some (.bool false))
  | .put k _ => ({ s with tracked := trackIns k s.tracked }, .idle, some .unit)
  | .remove k =>
    let found' := found || decide (a = .bool true)
    if more then let r := enter cfg s op found' (layer + 1); (r.1, r.2, none)
    else ({ s with tracked := trackDel k s.tracked }, .idle, some (.bool found'))
  | .clear =>
    if more then let r := enter cfg s op false (layer + 1); (r.1, r.2, none)
    else ({ s with tracked := [] }, .idle, some .unit)
  | .putTo _ _ _ => (s, .idle, some .unit)

/-- the layer an operation calls first -/
def firstLayer : MOp → Nat
  | .putTo _ _ l => l
  | _ => 0

/-- `put_to_layer` checks its layer index before anything else (`n` = number of layers) -/
def badLayer (n : Nat) : MOp → Bool
  | .putTo _ _ l => decide (l ≥ n)
  | _ => false

/-- one atomic step of a thread -/
def step (cfg : Config) (vic : Store → Nat → List Key) (s0 : MState) (t : MThread) :
    MState × MThread × List Unit :=
  let s := tickAll s0
  match t.pc with
  | .idle =>
    match t.todo with
    | [] => (s0, t, [])
    | op :: rest =>
      if badLayer s.layers.length op then
        (s0, { pc := .idle, todo := rest, results := t.results ++ [(op, .badLayer)] }, [])
      else
        let r := enter cfg s op false (firstLayer op)
        (r.1, { pc := r.2, todo := rest, results := t.results }, [])
  | .inLayer op found layer pc ans =>
    match s.layers[layer]? with
    | none => (s0, t, [])
    | some ls =>
      let r := MemConc.contOp cfg vic ls pc
      let ans' := match ans with
        | some a => some a
        | none => r.2.2.1.head?
      (setLayer s layer r.1, { t with pc := settle op found layer r.2.1 ans' }, [])
  | .after op found layer a =>
    let r := resume cfg s op found layer a
    (r.1, { pc := r.2.1, todo := t.todo,
            results := t.results ++ (match r.2.2 with
                                     | some o => [(op, o)]
                                     | none => []) }, [])

def machine (cfg : Config) (vic : Store → Nat → List Key) : Machine MState MThread Unit :=
  { step := step cfg vic, done := MThread.done }

def sys (s : MState) (progs : List (List MOp)) : Sys MState MThread Unit :=
  { shared := s, threads := progs.map MThread.new, log := [] }

/-- `n` empty layers, no tracker -/
def init (n : Nat) : MState := { layers := List.replicate n MemCache.init, tracked := [] }

/-- one-letter name of the schedule point a thread is parked at: the layer's own letter inside a
layer call, otherwise `ml.layer.after_get / put / contains / remove / clear` = I / J / N / R / Z -/
def MPc.site : MPc → Char
  | .idle => 'S'
  | .inLayer _ _ _ pc _ => pc.site
  | .after op _ _ _ =>
    match op with
    | .get _ => 'I'
    | .put _ _ => 'J'
    | .putTo _ _ _ => 'J'
    | .contains _ => 'N'
    | .remove _ => 'R'
    | .clear => 'Z'

def MThread.site (t : MThread) : Char := if t.done then 'D' else t.pc.site

end Cascette.Model.MultiConc
