/-
Model/SerialPatchIndex — executable model of the patch index `CascFormat::{parse, build}` AS WRITTEN
(crates/cascette-formats/src/patch_index/{header,parser,entry,builder,mod}.rs). Property C08.

* `PatchIndexHeader::parse`: 14-byte little-endian preamble (header_size, version = 1, data_size,
  extra_header_len), the optional extra header (key-size byte, `key_size` key bytes of which the
  first 16 are kept, remaining extra bytes), block count, 8-byte block descriptors, and the two
  length guards (`len ≥ header_size`, `len ≥ header_size + Σ block sizes`). The "count × 8 fits"
  pre-check is implied by the descriptor reads.
* `parse_patch_index`: `data_size == len`, then the blocks in order at `header_size + Σ preceding
  sizes` (NOT at the end of the descriptors — the code does not compare the two): type 2 →
  `parse_block2` (always taken, last one wins), type 8 → `parse_block8` unless a type 2 block was
  seen before, anything else skipped.
* `PatchIndexEntry::{parse, build}`: three keys of `key_size ≤ 16` bytes zero-padded to 16, three
  LE u32 sizes, one suffix byte; `parse` refuses `key_size > 16`, `build` would panic on it
  (`self.source_ekey[..ks]`) — `none` in the model.
* `<PatchIndex as CascFormat>::build` = `PatchIndexBuilder::new().key_size(k)` + entries: a fresh
  43-byte header (extra header = the single byte 0), block 1 = the fixed 7 bytes, block 2 = count,
  key size, entries, block 8 = 14-byte header + the same entries; the header of the parsed file is
  NOT carried over. `as u32` truncations are the 4-byte `leW 4` writes.

The logical content of the property (key size, entries) is `PIdx`; the parsed header is `PHeader`.
-/
import Cascette.Model.Serial
namespace Cascette.Model.SerialPatchIndex
open Cascette Cascette.Model.Manifest Cascette.Model.Serial

structure PEntry where
  src : Bytes
  srcSize : Nat
  tgt : Bytes
  tgtSize : Nat
  encSize : Nat
  suffix : Byte
  patch : Bytes
deriving DecidableEq, Repr

/-- `let mut k = [0u8; 16]; k[..ks].copy_from_slice(..)` -/
def pad16 (k : Bytes) : Bytes := k ++ List.replicate (16 - k.length) 0

/-- `entry_size(key_size)` -/
def esize (ks : Nat) : Nat := 3 * ks + 13

/-- `PatchIndexEntry::parse(&data[pos..], key_size)` followed by `pos += esize` -/
def parsePEntry (ks : Nat) (bs : Bytes) : Option (PEntry × Bytes) :=
  if ks > 16 then none else
  match readN ks bs with
  | none => none
  | some (src, r1) =>
    match readN 4 r1 with
    | none => none
    | some (ss, r2) =>
      match readN ks r2 with
      | none => none
      | some (tgt, r3) =>
        match readN 4 r3 with
        | none => none
        | some (ts, r4) =>
          match readN 4 r4 with
          | none => none
          | some (es, r5) =>
            match r5 with
            | [] => none
            | sf :: r6 =>
              match readN ks r6 with
              | none => none
              | some (pk, r7) =>
                some (⟨pad16 src, rdLe ss, pad16 tgt, rdLe ts, rdLe es, sf, pad16 pk⟩, r7)

/-- `PatchIndexEntry::build(key_size)` for `key_size ≤ 16` -/
def serPEntry (ks : Nat) (e : PEntry) : Bytes :=
  e.src.take ks ++ leW 4 e.srcSize ++ e.tgt.take ks ++ leW 4 e.tgtSize ++ leW 4 e.encSize ++
  [e.suffix] ++ e.patch.take ks

/-- the logical content: `PatchIndex { key_size, entries }` -/
structure PIdx where
  keySize : Nat
  entries : List PEntry
deriving DecidableEq, Repr

/-- `PatchIndexHeader` (key data unpadded: the first `min key_size 16` key bytes) -/
structure PHeader where
  headerSize : Nat
  dataSize : Nat
  extraLen : Nat
  keySize : Nat
  keyData : Bytes
  extra : Bytes
  blocks : List (Nat × Nat)
deriving DecidableEq, Repr

/-- one block descriptor: `(block_type, block_size)` -/
def parseDesc (bs : Bytes) : Option ((Nat × Nat) × Bytes) :=
  match readN 4 bs with
  | none => none
  | some (t, r1) =>
    match readN 4 r1 with
    | none => none
    | some (s, r2) => some ((rdLe t, rdLe s), r2)

/-- the extra header: `(key_size, key_data, extra_data)`; `pos += key_size` (the whole key size,
not only the 16 bytes kept) is the `readN ks` below: when it overruns the input every later bounds
check of the Rust code fails as well -/
def parseExtra (xl : Nat) (r0 : Bytes) : Option ((Nat × Bytes × Bytes) × Bytes) :=
  if xl > 0 then
    match r0 with
    | [] => none
    | ks :: r1 =>
      match readN ks.toNat r1 with
      | none => none
      | some (kd, r2) =>
        if xl > ks.toNat + 1 then
          match readN (xl - (ks.toNat + 1)) r2 with
          | none => none
          | some (ex, r3) => some ((ks.toNat, kd.take 16, ex), r3)
        else some ((ks.toNat, kd.take 16, []), r2)
  else some ((0, [], []), r0)

/-- `PatchIndexHeader::parse` -/
def parsePHeader (data : Bytes) : Option PHeader :=
  match readN 14 data with
  | none => none
  | some (h, r0) =>
    match h with
    | [h0, h1, h2, h3, v0, v1, v2, v3, d0, d1, d2, d3, x0, x1] =>
      let hs := rdLe [h0, h1, h2, h3]
      if rdLe [v0, v1, v2, v3] ≠ 1 then none else
      if data.length < hs then none else
      match parseExtra (rdLe [x0, x1]) r0 with
      | none => none
      | some ((ks, kd, ex), r4) =>
        match readN 4 r4 with
        | none => none
        | some (bc, r5) =>
          match parseMany parseDesc (rdLe bc) r5 with
          | none => none
          | some (blocks, _) =>
            if data.length < hs + (blocks.map (·.2)).sum then none else
            some ⟨hs, rdLe [d0, d1, d2, d3], rdLe [x0, x1], ks, kd, ex, blocks⟩
    | _ => none

/-- `parse_block2`: `entry_count (u32 LE), key_size (u8), entries`; the `needed` pre-check kept -/
def parseBlock2 (bd : Bytes) : Option PIdx :=
  match readN 4 bd with
  | none => none
  | some (c, r1) =>
    match r1 with
    | [] => none
    | ks :: r2 =>
      if bd.length < 5 + rdLe c * esize ks.toNat then none else
      match parseMany (parsePEntry ks.toNat) (rdLe c) r2 with
      | none => none
      | some (es, _) => some ⟨ks.toNat, es⟩

/-- `parse_block8`: 14-byte header (version 3, key size, data offset u16, entry count u32, 6 unused
bytes), entries at `data_offset` from the start of the block (any offset, also inside the header) -/
def parseBlock8 (bd : Bytes) : Option PIdx :=
  match readN 14 bd with
  | none => none
  | some (h, _) =>
    match h with
    | [ver, ks, o0, o1, c0, c1, c2, c3, _, _, _, _, _, _] =>
      if ver ≠ 3 then none else
      let doff := rdLe [o0, o1]
      let cnt := rdLe [c0, c1, c2, c3]
      if bd.length < doff + cnt * esize ks.toNat then none else
      match parseMany (parsePEntry ks.toNat) cnt (bd.drop doff) with
      | none => none
      | some (es, _) => some ⟨ks.toNat, es⟩
    | _ => none

/-- the block loop of `parse_patch_index`: state = (key_size, entries, found_block2) -/
def stepBlocks (data : Bytes) : Nat → List (Nat × Nat) → PIdx × Bool → Option (PIdx × Bool)
  | _, [], st => some st
  | off, (ty, sz) :: rest, st =>
    let bd := (data.drop off).take sz
    if ty = 2 then
      match parseBlock2 bd with
      | none => none
      | some v => stepBlocks data (off + sz) rest (v, true)
    else if ty = 8 then
      if st.2 then stepBlocks data (off + sz) rest st
      else
        match parseBlock8 bd with
        | none => none
        | some v => stepBlocks data (off + sz) rest (v, false)
    else stepBlocks data (off + sz) rest st

/-- `parse_patch_index`: header, `data_size == len`, blocks -/
def parsePFull (data : Bytes) : Option (PHeader × PIdx) :=
  match parsePHeader data with
  | none => none
  | some h =>
    if h.dataSize ≠ data.length then none else
    match stepBlocks data h.headerSize h.blocks (⟨16, []⟩, false) with
    | none => none
    | some (v, _) => some (h, v)

/-- `<PatchIndex as CascFormat>::parse`, logical content -/
def parsePIdx (data : Bytes) : Option PIdx := (parsePFull data).map (·.2)

def block1Data : Bytes := [0x03, 0x00, 0x00, 0x00, 0x00, 0x6E, 0x00]

def serEntries (v : PIdx) : Bytes := (v.entries.map (serPEntry v.keySize)).flatten

def block2 (v : PIdx) : Bytes :=
  leW 4 v.entries.length ++ [BitVec.ofNat 8 v.keySize] ++ serEntries v

def block8 (v : PIdx) : Bytes :=
  [3, BitVec.ofNat 8 v.keySize] ++ leW 2 14 ++ leW 4 v.entries.length ++ leW 4 (esize v.keySize + 1) ++
  [0x01, 0x02] ++ serEntries v

/-- `total_size` of `PatchIndexBuilder::build` -/
def totalSize (v : PIdx) : Nat := 43 + 7 + (block2 v).length + (block8 v).length

/-- `PatchIndexBuilder::build` (header 43 bytes: preamble 12, extra_header_len 2, the byte 0,
block count 4, three descriptors) -/
def serPIdx (v : PIdx) : Bytes :=
  leW 4 43 ++ leW 4 1 ++ leW 4 (totalSize v) ++ leW 2 1 ++ [0] ++ leW 4 3 ++
  (leW 4 1 ++ leW 4 7) ++ (leW 4 2 ++ leW 4 (block2 v).length) ++ (leW 4 8 ++ leW 4 (block8 v).length) ++
  block1Data ++ block2 v ++ block8 v

/-- `<PatchIndex as CascFormat>::build`; `none` = the slice panic of `entry.build` for a key size
above 16 with at least one entry (not reachable from `parse`) -/
def buildPIdx (v : PIdx) : Option Bytes :=
  if v.keySize > 16 ∧ v.entries ≠ [] then none else some (serPIdx v)

end Cascette.Model.SerialPatchIndex
