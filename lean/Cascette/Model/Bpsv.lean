/-
Model/Bpsv — the client-side BPSV reader as written
(`crates/cascette-formats/src/bpsv/{reader,schema,types,row,document}.rs`).

Strings are `List Char` (Unicode scalar values, which is what a Rust `&str` iterates over); the
driver converts from/to UTF-8. Everything is structural recursion so the kernel can evaluate it.

`BpsvReader::read_document`:
  * all lines are read first with `read_line` (split at '\n', a final piece without '\n' is a
    line, an empty final piece is not) and `trim_end`ed;
  * no line → `EmptyDocument`; first line without '!' → `InvalidHeader`; schema = header split
    at '|', each spec split at '!' (exactly 2 parts), type split at ':' (exactly 2 parts),
    size `parse::<usize>`, name upper-cased ∈ {STRING, HEX, DEC};
  * every further line is `trim`med; empty → skipped; prefix `## seqn` → sequence number
    (`u32`, an error aborts the parse); other prefix `#` → skipped; else split at '|' and
    `BpsvRow::parse`: field count must match, every value is parsed by its column type
    (empty → `Empty`; HEX: even *byte* length then hex digits; DEC: `i64`).
  The first error in reading order wins.
-/
namespace Cascette.Model.Bpsv

abbrev Str := List Char

/-- Rust `char::is_whitespace` (Unicode `White_Space`). -/
def isWs (c : Char) : Bool :=
  let n := c.toNat
  (9 ≤ n && n ≤ 13) || n == 32 || n == 0x85 || n == 0xA0 || n == 0x1680 ||
  (0x2000 ≤ n && n ≤ 0x200A) || n == 0x2028 || n == 0x2029 || n == 0x202F || n == 0x205F ||
  n == 0x3000

/-- `str::trim_end`. -/
def trimEnd : Str → Str
  | [] => []
  | c :: cs =>
    match trimEnd cs with
    | [] => if isWs c then [] else [c]
    | r => c :: r

/-- `str::trim_start`. -/
def trimStart : Str → Str
  | [] => []
  | c :: cs => if isWs c then trimStart cs else c :: cs

def trim (s : Str) : Str := trimStart (trimEnd s)

/-- first piece and remaining pieces of `str::split(sep)`. -/
def splitAux (sep : Char) : Str → Str × List Str
  | [] => ([], [])
  | c :: cs =>
    let r := splitAux sep cs
    if c = sep then ([], r.1 :: r.2) else (c :: r.1, r.2)

/-- `str::split(sep)`: always at least one piece. -/
def splitOn (sep : Char) (s : Str) : List Str := (splitAux sep s).1 :: (splitAux sep s).2

/-- drop one trailing empty piece (what `read_line` does not report as a line). -/
def dropLastEmpty : List Str → List Str
  | [] => []
  | [x] => if x = [] then [] else [x]
  | x :: y :: r => x :: dropLastEmpty (y :: r)

/-- the lines `read_line` yields (line terminator removed). -/
def readLines (s : Str) : List Str := dropLastEmpty (splitOn '\n' s)

def startsWith : Str → Str → Bool
  | [], _ => true
  | _ :: _, [] => false
  | p :: ps, c :: cs => p == c && startsWith ps cs

def isDigit (c : Char) : Bool := 48 ≤ c.toNat && c.toNat ≤ 57

def isHexDigit (c : Char) : Bool :=
  isDigit c || (97 ≤ c.toNat && c.toNat ≤ 102) || (65 ≤ c.toNat && c.toNat ≤ 70)

def hexVal (c : Char) : Nat :=
  if isDigit c then c.toNat - 48 else if 97 ≤ c.toNat then c.toNat - 87 else c.toNat - 55

/-- value of a digit string, most significant first. -/
def digitsVal (l : Str) : Nat := l.foldl (fun a c => a * 10 + (c.toNat - 48)) 0

def stripPlus : Str → Str
  | '+' :: r => r
  | r => r

/-- unsigned `FromStr` with an exclusive bound: optional '+', at least one ASCII digit. -/
def parseUnsigned (bound : Nat) (s : Str) : Option Nat :=
  let d := stripPlus s
  if d.isEmpty || !d.all isDigit then none
  else if digitsVal d < bound then some (digitsVal d) else none

/-- `str::parse::<i64>()`. -/
def parseI64 (s : Str) : Option Int :=
  match s with
  | '-' :: d =>
    if d.isEmpty || !d.all isDigit then none
    else if digitsVal d ≤ 2 ^ 63 then some (-(digitsVal d : Int)) else none
  | _ => (parseUnsigned (2 ^ 63) s).map Int.ofNat

def utf8Len (s : Str) : Nat := (s.map Char.utf8Size).sum

/-- `hex::decode` of an all-hex-digit string. -/
def hexPairs : Str → List Nat
  | a :: b :: r => (16 * hexVal a + hexVal b) :: hexPairs r
  | _ => []

inductive Ty | str | hex | dec
  deriving DecidableEq, Repr

inductive Value
  | str (s : Str)
  | hex (b : List Nat)
  | dec (n : Int)
  | empty
  deriving DecidableEq, Repr

inductive Err
  | emptyDocument | invalidHeader | invalidFieldSpec | invalidTypeSpec | unknownType
  | fieldCount | hexLength | hexValue | decValue | seqn
  deriving DecidableEq, Repr

def Err.name : Err → String
  | .emptyDocument => "empty-document"
  | .invalidHeader => "invalid-header"
  | .invalidFieldSpec => "invalid-field-spec"
  | .invalidTypeSpec => "invalid-type-spec"
  | .unknownType => "unknown-type"
  | .fieldCount => "field-count"
  | .hexLength => "hex-length"
  | .hexValue => "hex-value"
  | .decValue => "dec-value"
  | .seqn => "seqn"

/-- `BpsvValue::parse`. -/
def parseValue (ty : Ty) (raw : Str) : Except Err Value :=
  if raw = [] then .ok .empty else
  match ty with
  | .str => .ok (.str raw)
  | .hex =>
    if utf8Len raw % 2 ≠ 0 then .error .hexLength
    else if raw.all isHexDigit then .ok (.hex (hexPairs raw)) else .error .hexValue
  | .dec =>
    match parseI64 raw with
    | some n => .ok (.dec n)
    | none => .error .decValue

def parseValues : List Ty → List Str → Except Err (List Value)
  | t :: ts, r :: rs =>
    match parseValue t r with
    | .error e => .error e
    | .ok v =>
      match parseValues ts rs with
      | .error e => .error e
      | .ok vs => .ok (v :: vs)
  | _, _ => .ok []

structure Row where
  raw : List Str
  vals : List Value
  deriving DecidableEq, Repr

/-- `BpsvRow::parse`. -/
def parseRow (tys : List Ty) (raw : List Str) : Except Err Row :=
  if raw.length ≠ tys.length then .error .fieldCount else
  match parseValues tys raw with
  | .error e => .error e
  | .ok vs => .ok ⟨raw, vs⟩

def upperAscii (c : Char) : Char :=
  if 97 ≤ c.toNat ∧ c.toNat ≤ 122 then Char.ofNat (c.toNat - 32) else c

/-- `BpsvType::parse` (the size hint is parsed and dropped; names compared after ASCII
upper-casing — Rust's `to_uppercase` is Unicode-aware, which matters for no header this project's
server emits). -/
def parseType (spec : Str) : Except Err Ty :=
  match splitOn ':' spec with
  | [name, size] =>
    match parseUnsigned (2 ^ 64) size with
    | none => .error .invalidTypeSpec
    | some _ =>
      let u := name.map upperAscii
      if u = ['S','T','R','I','N','G'] then .ok .str
      else if u = ['H','E','X'] then .ok .hex
      else if u = ['D','E','C'] then .ok .dec
      else .error .unknownType
  | _ => .error .invalidTypeSpec

/-- `BpsvField::parse`, keeping name and type. -/
def parseField (spec : Str) : Except Err (Str × Ty) :=
  match splitOn '!' spec with
  | [name, ty] =>
    match parseType ty with
    | .ok t => .ok (name, t)
    | .error e => .error e
  | _ => .error .invalidFieldSpec

def parseFields : List Str → Except Err (List (Str × Ty))
  | [] => .ok []
  | s :: ss =>
    match parseField s with
    | .error e => .error e
    | .ok f =>
      match parseFields ss with
      | .error e => .error e
      | .ok fs => .ok (f :: fs)

/-- `BpsvSchema::parse`. -/
def parseSchema (header : Str) : Except Err (List (Str × Ty)) :=
  if header = [] then .error .emptyDocument else parseFields (splitOn '|' header)

def findIdx (c : Char) : Str → Option Nat
  | [] => none
  | x :: xs => if x = c then some 0 else (findIdx c xs).map (· + 1)

def seqnPrefix : Str := ['#', '#', ' ', 's', 'e', 'q', 'n']

/-- `parse_sequence_line` on a line that starts with `## seqn`. -/
def parseSeqLine (line : Str) : Except Err Nat :=
  let after := trimStart (line.drop 7)
  if after = [] then .error .seqn else
  let num :=
    match findIdx '=' after with
    | some p => trim (after.drop (p + 1))
    | none =>
      match findIdx ':' after with
      | some p => trim (after.drop (p + 1))
      | none => after
  match parseUnsigned (2 ^ 32) num with
  | some n => .ok n
  | none => .error .seqn

structure Doc where
  fields : List (Str × Ty)
  rows : List Row
  seqn : Option Nat
  deriving DecidableEq, Repr

/-- the loop over the lines after the header. -/
def processLines (tys : List Ty) : List Str → List Row → Option Nat → Except Err (List Row × Option Nat)
  | [], rows, sq => .ok (rows, sq)
  | line :: rest, rows, sq =>
    let t := trim line
    if t = [] then processLines tys rest rows sq
    else if startsWith seqnPrefix t then
      match parseSeqLine t with
      | .error e => .error e
      | .ok n => processLines tys rest rows (some n)
    else if startsWith ['#'] t then processLines tys rest rows sq
    else
      match parseRow tys (splitOn '|' t) with
      | .error e => .error e
      | .ok r => processLines tys rest (rows ++ [r]) sq

/-- `BpsvReader::read_document` / `BpsvDocument::parse` on valid UTF-8. -/
def parse (text : Str) : Except Err Doc :=
  match (readLines text).map trimEnd with
  | [] => .error .emptyDocument
  | header :: rest =>
    if !header.contains '!' then .error .invalidHeader else
    match parseSchema header with
    | .error e => .error e
    | .ok fields =>
      match processLines (fields.map (·.2)) rest [] none with
      | .error e => .error e
      | .ok (rows, sq) => .ok ⟨fields, rows, sq⟩

end Cascette.Model.Bpsv
