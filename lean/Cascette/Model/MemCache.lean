/-
Model/MemCache — executable model of `cascette_cache::memory_cache::MemoryCache` AS WRITTEN
(crates/cascette-cache/src/memory_cache.rs), sequential use.

* `storage: DashMap<K, Arc<Entry>>`      → `store : List (Key × Entry)` (keys pairwise distinct)
* `entry_count`, `memory_usage` atomics  → `count`, `bytes : Int`, adjusted exactly where the
  Rust adjusts them (Int, not truncated: the theorem `mem_counters_exact` shows they never go
  below zero, i.e. the wrapping `fetch_sub` of the Rust never wraps).
* clocks: `Instant::now()` / `SystemTime::now()` → a logical clock that ticks once per
  operation (`created`, `last`); a TTL is a class: `short = true` means "far below the time to
  the next operation" (expired whenever it is looked at later), `false` "far above" (never).
* `needs_eviction`, `perform_eviction` (target 90 % of max_entries, early return when
  `count ≤ target`), the per-policy victim choice: Rust sorts ALL entries in DashMap iteration
  order by the policy's metric (stable) and removes the first `n`.  The iteration order is not
  observable, so the choice is an argument `vs` of the put operation; `victimsOk` says exactly
  which choices a stable sort of some iteration order can produce.  `detVictims` is the choice
  when all metrics differ (Lru / Fifo with a strictly increasing clock).
-/
import Cascette.Spec.CacheMap
namespace Cascette.Model.CacheAssoc
open Cascette.Spec.CacheMap (Key)

/-! association lists with pairwise distinct keys stand for DashMap / HashMap / the directory -/

def lookup {α : Type} (k : Key) : List (Key × α) → Option α
  | [] => none
  | (k', e) :: t => if k' = k then some e else lookup k t

def erase {α : Type} (k : Key) : List (Key × α) → List (Key × α)
  | [] => []
  | (k', e) :: t => if k' = k then erase k t else (k', e) :: erase k t

def sumBy {α : Type} (f : α → Nat) : List (Key × α) → Nat
  | [] => 0
  | (_, e) :: t => f e + sumBy f t

end Cascette.Model.CacheAssoc

namespace Cascette.Model.MemCache
open Cascette.Spec.CacheMap (Key Val)
open Cascette.Model.CacheAssoc

inductive Policy where
  | lru | lfu | fifo | random | ttl
  deriving Repr, DecidableEq

structure Config where
  maxEntries : Nat
  maxBytes : Option Nat
  policy : Policy
  /-- class of `config.default_ttl` (used by `put`) -/
  defaultShort : Bool
  deriving Repr

structure Entry where
  val : Val
  size : Nat
  created : Nat
  last : Nat
  hits : Nat
  short : Bool
  deriving Repr, DecidableEq

abbrev Store := List (Key × Entry)

def sumSize (st : Store) : Nat := sumBy Entry.size st

structure State where
  store : Store
  count : Int
  bytes : Int
  clock : Nat
  deriving Repr

def init : State := { store := [], count := 0, bytes := 0, clock := 0 }

/-- `needs_eviction` -/
def needsEviction (cfg : Config) (s : State) : Bool :=
  decide (s.count ≥ (cfg.maxEntries : Int)) ||
    (match cfg.maxBytes with
     | some m => decide (s.bytes ≥ (m : Int))
     | none => false)

def target (cfg : Config) : Nat := cfg.maxEntries * 90 / 100

/-- `evict_count = current_entries - target_entries` (only computed when `current > target`) -/
def evictN (cfg : Config) (s : State) : Nat := (s.count - (target cfg : Int)).toNat

/-- `if let Some((_, entry)) = storage.remove(&key) { count -= 1; bytes -= entry.size }` -/
def removeCounted (s : State) (k : Key) : State :=
  match lookup k s.store with
  | some e => { s with store := erase k s.store, count := s.count - 1, bytes := s.bytes - e.size }
  | none => s

def evictKeys (s : State) (vs : List Key) : State := vs.foldl removeCounted s

def expiredKeys (st : Store) : List Key := (st.filter (fun p => p.2.short)).map (·.1)

def metric : Policy → Entry → Nat
  | .lru, e => e.last
  | .lfu, e => e.hits
  | .fifo, e => e.created
  | .random, _ => 0
  | .ttl, _ => 0

def distinct : List Key → Bool
  | [] => true
  | a :: t => !t.contains a && distinct t

/-- the victim lists a stable sort by `metric` of SOME iteration order, truncated to `n`, can
produce: `n` (or all) distinct present keys, none of them ranked after a survivor. -/
def victimsOk (p : Policy) (st : Store) (n : Nat) (vs : List Key) : Bool :=
  distinct vs && vs.all (fun k => (lookup k st).isSome) && (vs.length == min n st.length) &&
  st.all (fun q => vs.contains q.1 ||
    vs.all (fun k => match lookup k st with
                     | some e => decide (metric p e ≤ metric p q.2)
                     | none => false))

def insertBy (p : Policy) (x : Key × Entry) : Store → Store
  | [] => [x]
  | y :: t => if metric p x.2 < metric p y.2 then x :: y :: t else y :: insertBy p x t

def sortBy (p : Policy) : Store → Store
  | [] => []
  | x :: t => insertBy p x (sortBy p t)

/-- the victims when all metrics differ (then the iteration order does not matter) -/
def detVictims (p : Policy) (st : Store) (n : Nat) : List Key := ((sortBy p st).take n).map (·.1)

/-- `perform_eviction` -/
def performEviction (cfg : Config) (s : State) (vs : List Key) : State :=
  if !needsEviction cfg s then s else
  if s.count ≤ (target cfg : Int) then s else
  match cfg.policy with
  | .ttl => evictKeys s (expiredKeys s.store)
  | _ => evictKeys s vs

/-- does this put reach a policy-chosen eviction (so that `vs` matters)? -/
def evicts (cfg : Config) (s : State) : Bool :=
  needsEviction cfg s && !decide (s.count ≤ (target cfg : Int)) && cfg.policy != .ttl

/-- `if self.needs_eviction() { self.perform_eviction(); }` at the head of `put_with_ttl` -/
def preEvict (cfg : Config) (s : State) (vs : List Key) : State :=
  if needsEviction cfg s then performEviction cfg s vs else s

/-- `MemoryCacheEntryInner::new` -/
def newEntry (s : State) (v : Val) (short : Bool) : Entry :=
  { val := v, size := v.length, created := s.clock, last := s.clock, hits := 1, short := short }

/-- `storage.insert` and the counter arithmetic of `put_with_ttl` -/
def insertCounted (s1 : State) (k : Key) (e : Entry) : State :=
  match lookup k s1.store with
  | some old =>
    { s1 with store := (k, e) :: erase k s1.store,
              bytes := if e.size > old.size then s1.bytes + ((e.size - old.size : Nat) : Int)
                       else s1.bytes - ((old.size - e.size : Nat) : Int) }
  | none =>
    { s1 with store := (k, e) :: erase k s1.store, count := s1.count + 1, bytes := s1.bytes + (e.size : Int) }

/-- `put_with_ttl` -/
def putCore (cfg : Config) (s : State) (k : Key) (v : Val) (short : Bool) (vs : List Key) : State :=
  let s1 := preEvict cfg s vs
  insertCounted s1 k (newEntry s1 v short)

/-- the expired-entry path shared by `get` and `contains`: read the size, drop the guard, remove
by key, subtract what was read. -/
def sweep (s : State) (k : Key) (e : Entry) : State :=
  match lookup k s.store with
  | some _ => { s with store := erase k s.store, count := s.count - 1, bytes := s.bytes - (e.size : Int) }
  | none => s

def get (s : State) (k : Key) : State × Option Val :=
  match lookup k s.store with
  | none => (s, none)
  | some e =>
    if e.short then (sweep s k e, none)
    else ({ s with store := (k, { e with last := s.clock, hits := e.hits + 1 }) :: erase k s.store }, some e.val)

def contains (s : State) (k : Key) : State × Bool :=
  match lookup k s.store with
  | none => (s, false)
  | some e => if e.short then (sweep s k e, false) else (s, true)

def remove (s : State) (k : Key) : State × Bool :=
  match lookup k s.store with
  | some _ => (removeCounted s k, true)
  | none => (s, false)

inductive Op where
  | put (k : Key) (v : Val) (vs : List Key)
  | putTtl (k : Key) (v : Val) (short : Bool) (vs : List Key)
  | get (k : Key)
  | contains (k : Key)
  | remove (k : Key)
  | clear
  | size
  | stats
  deriving Repr

inductive Out where
  | unit
  | val (o : Option Val)
  | bool (b : Bool)
  | num (n : Int)
  | stats (n b : Int)
  deriving Repr, DecidableEq

def tick (s : State) : State := { s with clock := s.clock + 1 }

def step (cfg : Config) (s0 : State) (op : Op) : State × Out :=
  let s := tick s0
  match op with
  | .put k v vs => (putCore cfg s k v cfg.defaultShort vs, .unit)
  | .putTtl k v short vs => (putCore cfg s k v short vs, .unit)
  | .get k => let r := get s k; (r.1, .val r.2)
  | .contains k => let r := contains s k; (r.1, .bool r.2)
  | .remove k => let r := remove s k; (r.1, .bool r.2)
  | .clear => ({ s with store := [], count := 0, bytes := 0 }, .unit)
  | .size => (s, .num s.count)
  | .stats => (s, .stats s.count s.bytes)

def run (cfg : Config) (s : State) (ops : List Op) : State := ops.foldl (fun s op => (step cfg s op).1) s

/-- the victim list of every put that reaches a policy eviction is one the Rust could produce -/
def opOk (cfg : Config) (s : State) : Op → Bool
  | .put _ _ vs | .putTtl _ _ _ vs =>
    !evicts cfg (tick s) || victimsOk cfg.policy (tick s).store (evictN cfg (tick s)) vs
  | _ => true

def runOk (cfg : Config) : State → List Op → Bool
  | _, [] => true
  | s, op :: ops => opOk cfg s op && runOk cfg (step cfg s op).1 ops

/-- the effect of an operation on the reference map -/
def absOp (cfg : Config) : Op → Cascette.Spec.CacheMap.Op
  | .put k v _ => .put k v (!cfg.defaultShort)
  | .putTtl k v short _ => .put k v (!short)
  | .remove k => .remove k
  | .clear => .clear
  | _ => .other

/-- entries a `get` would return -/
def retrievable (st : Store) : Store := st.filter (fun p => !p.2.short)
/-- entries whose TTL has ended but which no operation has looked at yet -/
def unswept (st : Store) : Store := st.filter (fun p => p.2.short)

end Cascette.Model.MemCache
