/-
Model/TvfsTables — the TVFS tables behind the path table, byte for byte, and the builder's width
computation: `TvfsBuilder::build` (EST first, then the CftOffsSize / table-size widening loop, VFS
entries of one span, fixed-stride container entries per `ContainerEntry::write_to`, the container
table rebuilt by `TvfsFile::build` under the final header) → `TvfsFile::parse` (`VfsTable::parse`,
`ContainerFileTable::parse`, `EstTable` strings, all under the widths the PARSED header gives) →
`TvfsFile::resolve_path`, for every flag combination INCLUDE_CKEY | ENCODING_SPEC | PATCH_SUPPORT.
The 38/46-byte header codec (binrw) is not modelled: the parser sees the table slices the builder
laid out and the three header fields the table codecs read.
-/
import Cascette.Model.TvfsPath
namespace Cascette.Model.TvfsTables
open Cascette.Model.TvfsPath

/-- `(l.take n).length < n` = `l.length < n` without walking the whole list -/
def shorter (l : Bytes) (n : Nat) : Bool := (l.take n).length < n

/-- `write_be_uint`: the last `w` bytes of the big-endian form of a u32 -/
def beN (w n : Nat) : Bytes := (be32 (n % 4294967296)).drop (4 - w)

/-- `read_be_uint`: `val = (val << 8) | b` on a u32 -/
def rdBe (bs : Bytes) : Nat := bs.foldl (fun v b => v * 256 % 4294967296 + b) 0

structure Flags where
  ckey : Bool     -- TVFS_FLAG_INCLUDE_CKEY 0x01
  est : Bool      -- TVFS_FLAG_ENCODING_SPEC 0x02
  patch : Bool    -- TVFS_FLAG_PATCH_SUPPORT 0x04
deriving Repr, DecidableEq

def Flags.ofNat (f : Nat) : Flags := { ckey := f % 2 == 1, est := f / 2 % 2 == 1, patch := f / 4 % 2 == 1 }

/-- the header fields the table codecs look at -/
structure Hdr where
  fl : Flags
  cftSize : Nat     -- cft_table_size
  estSize : Nat     -- est_table_size.unwrap_or(0)
deriving Repr

def Hdr.cftOffs (h : Hdr) : Nat := offsSize h.cftSize
def Hdr.estOffs (h : Hdr) : Nat := offsSize h.estSize

/-- `cft_entry_size` (9-byte EKeys and PKeys, as `TvfsHeader::new` gives them) -/
def Hdr.entrySize (h : Hdr) : Nat :=
  9 + 4 + (if h.fl.ckey then 9 else 0) + (if h.fl.est then h.estOffs else 0) + (if h.fl.patch then h.cftOffs else 0)

/-! ### container file table -/

structure CEntry where
  off : Nat
  ekey : Bytes
  esize : Nat
  ckey : Option Bytes
  est : Option Nat
  patch : Option Nat
deriving Repr, DecidableEq

/-- a key padded with zeros / truncated to 9 bytes -/
def fit9 (k : Bytes) : Bytes := if k.length ≥ 9 then k.take 9 else k ++ List.replicate (9 - k.length) 0

/-- the content-key field as `write_to` stores it: 9 bytes of the key, zeros for a file without one -/
def ckeyField (f : FileRec) : Bytes := match f.ckey with | some c => fit9 c | none => List.replicate 9 0

/-- `ContainerEntry::write_to` for a builder entry (`patch_offset: None`) -/
def cftWrite (h : Hdr) (f : FileRec) : Bytes :=
  fit9 f.ekey ++ be32 f.esize ++
  (if h.fl.ckey then ckeyField f else []) ++
  (if h.fl.est then beN h.estOffs (f.est.getD 0) else []) ++
  (if h.fl.patch then beN h.cftOffs 0 else [])

/-- `read_entry_at` on the bytes from the entry's offset on (the caller has checked the length) -/
def cftReadEntry (h : Hdr) (off : Nat) (b : Bytes) : CEntry :=
  let b2 := b.drop 13
  let b3 := if h.fl.ckey then b2.drop 9 else b2
  let b4 := if h.fl.est then b3.drop h.estOffs else b3
  { off := off
    ekey := b.take 9
    esize := rdBe ((b.drop 9).take 4)
    ckey := if h.fl.ckey then some (b2.take 9) else none
    est := if h.fl.est then some (rdBe (b3.take h.estOffs)) else none
    patch := if h.fl.patch then some (rdBe (b4.take h.cftOffs)) else none }

/-- `ContainerFileTable::parse`: `while offset + entry_size <= data.len()` -/
def cftParse (h : Hdr) : Nat → Nat → Bytes → List CEntry
  | 0, _, _ => []
  | fuel + 1, off, rest =>
    if shorter rest h.entrySize then [] else
    cftReadEntry h off rest :: cftParse h fuel (off + h.entrySize) (rest.drop h.entrySize)

/-! ### VFS table -/

structure VEntry where
  off : Nat
  spans : List (Nat × Nat × Nat)      -- (file_offset, span_length, cft_offset)
deriving Repr, DecidableEq

/-- one builder entry: span count 1, file offset 0, span length = content size, CFT offset in `w` bytes -/
def vfsWrite (w csize cftOff : Nat) : Bytes := 1 :: (be32 0 ++ be32 csize ++ beN w cftOff)

/-- the `for _ in 0..span_count` loop (the caller has checked that the bytes are there) -/
def readSpans (w : Nat) : Nat → Bytes → List (Nat × Nat × Nat)
  | 0, _ => []
  | c + 1, bs =>
    (rdBe (bs.take 4), rdBe ((bs.drop 4).take 4), rdBe ((bs.drop 8).take w)) :: readSpans w c (bs.drop (8 + w))

/-- `VfsTable::parse`: `none` = `VfsTableTruncated`. Span counts above 224 are skipped (or end the
table when their spans overrun it); a zero count is an entry without spans. -/
def vfsLoop (w : Nat) : Nat → Nat → Bytes → Option (List VEntry)
  | 0, _, _ => some []
  | _ + 1, _, [] => some []
  | fuel + 1, pos, c :: r =>
    let need := c * (8 + w)
    if c > 224 then
      if shorter r need then some [] else vfsLoop w fuel (pos + 1 + need) (r.drop need)
    else if c = 0 then (vfsLoop w fuel (pos + 1) r).map (⟨pos, []⟩ :: ·)
    else if shorter r need then none
    else (vfsLoop w fuel (pos + 1 + need) (r.drop need)).map (⟨pos, readSpans w c r⟩ :: ·)

/-! ### EST -/

/-- `EstTable::read_options`: NUL-terminated strings, empty ones skipped, an unterminated tail dropped -/
def splitEst : Bytes → Bytes → List Bytes
  | [], _ => []
  | b :: rest, cur =>
    if b = 0 then (if cur.isEmpty then splitEst rest [] else cur :: splitEst rest [])
    else splitEst rest (cur ++ [b])

/-! ### builder → bytes → parser -/

/-- the widening loop of `TvfsBuilder::build` (at most four rounds): set `cft_table_size` from the
current entry size, stop when `cft_entry_size()` under that header is the same size -/
def widen (n : Nat) : Nat → Hdr → Nat → Hdr × Nat
  | 0, h, e => (h, e)
  | fuel + 1, h, e =>
    let h' := { h with cftSize := n * e % 4294967296 }
    if h'.entrySize = e then (h', e) else widen n fuel h' h'.entrySize

inductive BErr | path (e : PErr) | vfs
deriving Repr, DecidableEq

structure Built where
  hdr : Hdr                                -- as the parser sees it
  files : List (Bytes × Nat)               -- parsed path table: (path, VFS offset)
  vfs : List VEntry
  cft : List CEntry
  est : List Bytes
deriving Repr

/-- `self.files.sort_by(|a, b| a.path.cmp(&b.path))` -/
def sortFiles (input : List FileRec) : List FileRec := input.mergeSort (fun a b => lexLe a.path b.path)

/-- the EST bytes: only with ENCODING_SPEC and at least one string -/
def estBytes (fl : Flags) (specs : List Bytes) : Option Bytes :=
  if fl.est && !specs.isEmpty then some (specs.flatMap (· ++ [0])) else none

/-- the builder's header and container entry size for `n` files: EST size first, then the widening
loop from `cft_table_size = 0` -/
def layout (fl : Flags) (estSize n : Nat) : Hdr × Nat :=
  widen n 4 { fl := fl, cftSize := 0, estSize := estSize } ({ fl := fl, cftSize := 0, estSize := estSize } : Hdr).entrySize

/-- `TvfsBuilder::with_flags(flags)` + `add_est_spec`* + `add_file`/`add_file_with_est`* → `build`
→ `TvfsFile::parse` -/
def buildParse (flags : Nat) (specs : List Bytes) (input : List FileRec) : Except BErr Built :=
  let files := sortFiles input
  let fl := Flags.ofNat flags
  let estData := estBytes fl specs
  let lay := layout fl ((estData.map (·.length)).getD 0) files.length
  let h1 := lay.1
  let entry := lay.2
  let w := h1.cftOffs
  -- one VFS entry per file: span_count(1) + file_offset(4) + span_length(4) + cft_offset(w)
  let spanWire := 9 + w
  let root := files.zipIdx.foldl (fun r (f, i) => insertPath (splitPath f.path) (i * spanWire) r) (.mk [] [] none)
  let pathData := buildDir root.children
  let vfsData := files.zipIdx.flatMap fun p => vfsWrite w p.1.csize (p.2 * entry)
  -- the container table is serialized under the builder's header, its length becomes
  -- `cft_table_size`, and `TvfsFile::build` serializes it again under THAT header
  let h2 : Hdr := { h1 with cftSize := (files.flatMap (cftWrite h1)).length }
  let cftData := files.flatMap (cftWrite h2)
  let hP : Hdr := { h2 with cftSize := cftData.length }
  match parseTable pathData with
  | .error e => .error (.path e)
  | .ok pf =>
    match vfsLoop hP.cftOffs (vfsData.length + 1) 0 vfsData with
    | none => .error .vfs
    | some ve =>
      .ok { hdr := hP, files := pf, vfs := ve
            cft := cftParse hP (cftData.length + 1) 0 cftData
            est := if fl.est then splitEst (estData.getD []) [] else [] }

/-- the two table steps of `resolve_path` from a VFS offset: first VFS entry AT that offset → its
first span → first container entry AT the span's CFT offset -/
def Built.resolveOff (b : Built) (off : Nat) : Option CEntry :=
  match b.vfs.find? (fun e => e.off == off) with
  | none => none
  | some v =>
    match v.spans.head? with
    | none => none
    | some (_, _, c) => b.cft.find? (fun e => e.off == c)

/-- `TvfsFile::resolve_path`: first path-table entry with the path, then the table steps -/
def Built.resolve (b : Built) (path : Bytes) : Option CEntry :=
  match b.files.find? (fun f => f.1 == path) with
  | none => none
  | some (_, off) => b.resolveOff off

end Cascette.Model.TvfsTables
