/-
Model/Retry — executable model of `crates/cascette-protocol/src/retry.rs` (`RetryPolicy::execute`,
`RetryPolicy::from_env`), of the classification in `error.rs` (`should_retry`,
`retry_after_hint`) and of the status mapping in `cdn/mod.rs` (`download_with_retry`,
`parse_retry_after`), as the code stands after the repair `fix: RetryPolicy::execute clamps the
first backoff …` (the arithmetic of the pinned snapshot is kept as `Arith.pinned` so that the
defects it had stay stated and checked).

Durations are naturals in nanoseconds, `durMax` = `Duration::MAX`. Floating point does not occur:
the f64 expression that rescales the backoff is the parameter `scale : Nat → Option Nat`
(`none` = `Duration::try_from_secs_f64` rejects the value: negative, NaN, ≥ 2^64 s), the random
jitter is the parameter `jit : attempt → base → added nanoseconds`. A Rust panic is the explicit
result `Result.panic`; a script of outcomes that ends before the loop does is `Result.starved`.
-/
import Cascette.Spec.Retry
namespace Cascette.Model.Retry

/-- `Duration::MAX` in ns: `u64::MAX` s + 999 999 999 ns. -/
def durMax : Nat := 2 ^ 64 * 1000000000 - 1

/-- `ProtocolError`, payloads reduced to what the retry logic and the observer can see. -/
inductive Err
  | network (id : Nat)
  | http (transient : Bool)          -- reqwest::Error; `transient` = what `should_retry` computes from its is_*() flags
  | parse (id : Nat)
  | cache (id : Nat)
  | allHostsFailed
  | rateLimited (retryAfter : Option Nat)
  | serviceUnavailable
  | httpStatus (code : Nat)
  | serverError (code : Nat)
  | invalidKey
  | invalidEndpoint (id : Nat)
  | rangeNotSupported
  | timeout
  | other (id : Nat)
  | utf8
  | unsupportedOnWasm (id : Nat)
  deriving DecidableEq, Repr

/-- `ProtocolError::should_retry` (native build). -/
def Err.shouldRetry : Err → Bool
  | .network _ | .serverError _ | .rateLimited _ | .serviceUnavailable | .timeout => true
  | .http t => t
  | .httpStatus c => c == 429 || c == 500 || c == 502 || c == 503 || c == 504
  | _ => false

/-- `ProtocolError::retry_after_hint`. -/
def Err.retryAfterHint : Err → Option Nat
  | .rateLimited h => h
  | _ => none

/-- what one call of the closure returns -/
inductive Outcome
  | ok (v : Nat)
  | err (e : Err)
  deriving DecidableEq, Repr

/-- the property's view of an outcome -/
def Outcome.cls : Outcome → Spec.Retry.Class
  | .ok _ => .ok
  | .err e => if e.shouldRetry then .retry e.retryAfterHint else .fatal

/-- `RetryPolicy` without the multiplier (which lives inside `scale`). -/
structure Policy where
  maxAttempts : Nat
  initialBackoff : Nat
  maxBackoff : Nat
  jitter : Bool
  deriving DecidableEq, Repr

/-- The three places where `execute` does `Duration` arithmetic; `none` = the Rust expression
panics. -/
structure Arith where
  /-- value of `backoff` before the first attempt -/
  first : Policy → Nat
  /-- `backoff = …` after a sleep -/
  next : Policy → Nat → Option Nat
  /-- `delay + Duration::from_millis(jitter_ms)` -/
  addJitter : Nat → Nat → Option Nat

/-- backoff update of the current code:
`try_from_secs_f64((b·m).min(max).max(0.0)).map_or(max_backoff, |d| d.min(max_backoff))` -/
def nextBackoff (scale : Nat → Option Nat) (p : Policy) (b : Nat) : Nat :=
  match scale b with
  | none => p.maxBackoff
  | some d => min d p.maxBackoff

/-- The code as it is now: `initial_backoff.min(max_backoff)`, the update above,
`delay.saturating_add(..)`. -/
def Arith.fixed (scale : Nat → Option Nat) : Arith where
  first p := min p.initialBackoff p.maxBackoff
  next p b := some (nextBackoff scale p b)
  addJitter d j := some (min (d + j) durMax)

/-- The pinned snapshot: `initial_backoff` unclamped, `Duration::from_secs_f64(..)` (panics when
the value is rejected; here `scale` stands for `(b·m).min(max)`), `delay += ..` (panics on
overflow). -/
def Arith.pinned (scale : Nat → Option Nat) : Arith where
  first p := p.initialBackoff
  next _ b := scale b
  addJitter d j := if d + j ≤ durMax then some (d + j) else none

inductive Result
  | ok (v : Nat)
  | err (e : Err)
  | panic
  | starved
  deriving DecidableEq, Repr

def Outcome.toResult : Outcome → Result
  | .ok v => .ok v
  | .err e => .err e

/-- what an observer of `execute` sees: closure calls, the sleeps in order, the result -/
structure Trace where
  calls : Nat
  delays : List Nat
  result : Result
  deriving DecidableEq, Repr

/-- The `loop { match f().await { … } }` of `execute`, by recursion on the outcomes the closure
will produce. `attempt`, `backoff` are the two `let mut` variables. -/
def loop (A : Arith) (p : Policy) (jit : Nat → Nat → Nat) : Nat → Nat → List Outcome → Trace
  | _, _, [] => ⟨0, [], .starved⟩
  | _, _, .ok v :: _ => ⟨1, [], .ok v⟩
  | attempt, backoff, .err e :: rest =>
    if !e.shouldRetry || attempt ≥ p.maxAttempts then ⟨1, [], .err e⟩
    else
      let base := Spec.Retry.baseDelay e.retryAfterHint backoff
      match (if p.jitter then A.addJitter base (jit (attempt + 1) base) else some base) with
      | none => ⟨1, [], .panic⟩
      | some delay =>
        match A.next p backoff with
        | none => ⟨1, [delay], .panic⟩
        | some b' =>
          let t := loop A p jit (attempt + 1) b' rest
          ⟨t.calls + 1, delay :: t.delays, t.result⟩

/-- `RetryPolicy::execute`. -/
def execute (A : Arith) (p : Policy) (jit : Nat → Nat → Nat) (outs : List Outcome) : Trace :=
  loop A p jit 0 (A.first p) outs

/-! ### `RetryPolicy::from_env` -/

def digitVal (c : Char) : Option Nat :=
  if '0' ≤ c ∧ c ≤ '9' then some (c.toNat - '0'.toNat) else none

/-- digits of a non-empty ASCII decimal string, most significant first -/
def parseDigits : List Char → Nat → Option Nat
  | [], acc => some acc
  | c :: cs, acc =>
    match digitVal c with
    | some d => parseDigits cs (10 * acc + d)
    | none => none

/-- an optional single leading `+` -/
def stripPlus : List Char → List Char
  | '+' :: r => r
  | r => r

/-- at least one ASCII digit, nothing else, value below the limit -/
def parseBody (limit : Nat) (body : List Char) : Option Nat :=
  if body.isEmpty then none else
  match parseDigits body 0 with
  | some v => if v < limit then some v else none
  | none => none

/-- Rust `<uN as FromStr>::from_str` for an unsigned type with `limit = 2^N`: optional single
`+`, at least one ASCII digit, nothing else (no sign `-`, no blanks), value below the limit. -/
def parseUnsigned (limit : Nat) (s : List Char) : Option Nat :=
  parseBody limit (stripPlus s)

/-- Rust `<bool as FromStr>`. -/
def parseBool (s : List Char) : Option Bool :=
  if s = "true".toList then some true else if s = "false".toList then some false else none

/-- the five variables; `none` = unset or not valid Unicode (`std::env::var(..).ok()`) -/
structure EnvIn where
  retries : Option (List Char)
  backoff : Option (List Char)
  maxBackoff : Option (List Char)
  multiplier : Option (List Char)
  jitter : Option (List Char)

/-- `from_env`; the f64 parser is a parameter, `two` is the literal `2.0`. -/
def fromEnv {μ : Type} (parseF64 : List Char → Option μ) (two : μ) (e : EnvIn) : Policy × μ :=
  ({ maxAttempts := ((e.retries.bind (parseUnsigned (2 ^ 32))).getD 3)
     initialBackoff := ((e.backoff.bind (parseUnsigned (2 ^ 64))).getD 100) * 1000000
     maxBackoff := ((e.maxBackoff.bind (parseUnsigned (2 ^ 64))).getD 10) * 1000000000
     jitter := ((e.jitter.bind parseBool).getD true) },
   (e.multiplier.bind parseF64).getD two)

/-! ### `CdnClient::download_with_retry` -/

/-- HTTP optional whitespace around a header value (removed by the HTTP stack before the code
sees it). -/
def trimOws (s : List Char) : List Char :=
  ((s.dropWhile fun c => c = ' ' ∨ c = '\t').reverse.dropWhile fun c => c = ' ' ∨ c = '\t').reverse

/-- `parse_retry_after`: integer seconds only. -/
def parseRetryAfter (h : Option (List Char)) : Option Nat :=
  (h.bind fun s => parseUnsigned (2 ^ 64) (trimOws s)).map (· * 1000000000)

/-- the closure of `download_with_retry` on a response with this status (k identifies the body) -/
def classifyStatus (status : Nat) (retryAfter : Option (List Char)) (k : Nat) : Outcome :=
  if 200 ≤ status ∧ status < 300 then .ok k
  else if status = 429 then .err (.rateLimited (parseRetryAfter retryAfter))
  else if 500 ≤ status ∧ status < 600 then .err (.serverError status)
  else .err (.httpStatus status)

/-- `RetryPolicy::default()` (multiplier 2.0 aside) -/
def defaultPolicy : Policy :=
  { maxAttempts := 3, initialBackoff := 100000000, maxBackoff := 10000000000, jitter := true }

end Cascette.Model.Retry
