/-
Model/ParseGuards — FRONT ENDS of the byte parsers of cascette-rs (property C02).

A front end reproduces, in source order, what a parser does with the attacker-controlled
count / size / length fields before its body runs: the reads (and their end-of-input errors),
the guards, the expressions handed to an allocation (`vec![0; n]`, `Vec::with_capacity(n)` with
the element size as a parameter), the slice bounds, the recursion depth.  Bodies after the last
length-driven allocation (entry decoders, zlib, lz4, md5 checks) are NOT modelled: where the front
end gets through, the verdict is `pass` and the body decides between `Ok` and `Err`.

Models are of the code AS WRITTEN after the `fix:` commits of this property (see
KNOWN_FINDINGS.txt); the archive-index footer keeps its two slicing panics (finding) and is the
C07 model `Integrity.Aidx.footerCheck`, reused here.

  blte      BlteHeader / ExtendedHeader / ChunkInfo table / ChunkData::read_options /
            estimate_decompressed_size / LZ4 size prefix / encrypted-chunk header of
            decrypt_chunk_with_keys with the key-store lookup   (blte/{header,chunk,mod,compression}.rs)
  encoding  EncodingHeader + validate + data_size guard + the six allocations (encoding/file.rs)
  install   InstallHeader + validate + entry-count guard (install/manifest.rs, tag.rs)
  download  DownloadHeader V1–V3 + validate + entry-count guard (download/manifest.rs)
  size      SizeManifest::parse length checks + SizeHeader + validate + guard (size/manifest.rs)
  pindex    PatchIndexHeader::parse (patch_index/header.rs)
  zbsdiff   ZbsdiffHeader + validate + block-size guard (zbsdiff/{header,patcher,mod}.rs)
  tvfsDir   parse_directory nesting with the depth limit (tvfs/path_table.rs)
  shmemPid  PidTracking::from_mapped (shmem/control_block.rs)
  idxBlock  IndexManager::read_entry_block + entry_size (client-storage index/mod.rs)
  aidx      = Integrity.Aidx.footerCheck
-/
import Cascette.Base.Bytes
import Cascette.Model.Integrity
namespace Cascette.Model.ParseGuards
open Cascette
open Cascette.Model.Integrity (slice beNat leNat byteAt)

inductive Verdict where
  | panic | err | pass
deriving DecidableEq, Repr

/-- what a front end did: verdict, the sizes (bytes) it handed to allocations in source order,
the sizes it handed to allocations under the documented decompression cap, recursion depth. -/
structure Front where
  verdict : Verdict
  allocs : List Nat := []
  capped : List Nat := []
  depth : Nat := 0
deriving Repr

def Front.error : Front := { verdict := .err }

/-- big-endian / little-endian u16 at offset `i`. -/
def u16be (b : Bytes) (i : Nat) : Nat := byteAt b i * 256 + byteAt b (i + 1)
def u16le (b : Bytes) (i : Nat) : Nat := byteAt b i + 256 * byteAt b (i + 1)

/-- `MAX_DECOMPRESSION_SIZE`. -/
def maxDecomp : Nat := 1024 * 1024 * 1024

/-! ## BLTE -/
namespace Blte

/-- `CompressionMode::from_byte`: N Z 4 E F. -/
def modeOk (m : Nat) : Bool := m == 78 || m == 90 || m == 52 || m == 69 || m == 70

/-- `HeaderFlags::from_byte` → record size. -/
def recSize (f : Nat) : Option Nat := if f = 15 then some 24 else if f = 16 then some 40 else none

/-- the chunk table: `n` records of `rec` bytes, each starting with compressed and decompressed
size (big-endian u32). `none` = the input ends inside the table. -/
def table (rec : Nat) : Nat → Bytes → Option (List (Nat × Nat) × Bytes)
  | 0, rest => some ([], rest)
  | n + 1, rest =>
    if (rest.take rec).length < rec then none
    else
      match table rec n (rest.drop rec) with
      | none => none
      | some (infos, r) => some ((beNat (slice rest 0 4), beNat (slice rest 4 4)) :: infos, r)

/-- LZ4 size prefix of a chunk payload (after the mode byte): the value handed to
`lz4_flex::block::decompress` when it passes the `MAX_DECOMPRESSION_SIZE` guard. -/
def lz4Prefix (mode : Nat) (payload : Bytes) : List Nat :=
  if mode = 52 ∧ 8 ≤ payload.length ∧ leNat (payload.take 8) ≤ maxDecomp then [leNat (payload.take 8)] else []

/-- `ChunkData::read_options` for every table row, in order (`rest` = unread input).
Returns verdict, the `vec![0; compressed_size-1]` requests, the LZ4 prefixes. -/
def chunks : List (Nat × Nat) → Bytes → Verdict × List Nat × List Nat
  | [], _ => (.pass, [], [])
  | (cs, _) :: infos, rest =>
    if cs = 0 then (.err, [], [])                                  -- EmptyChunk
    else match rest with
      | [] => (.err, [], [])                                       -- mode byte: end of input
      | m :: body =>
        if !modeOk m.toNat then (.err, [], [])                     -- UnknownCompressionMode
        else if body.length < cs - 1 then (.err, [], [])           -- size vs bytes left (fix 5e5b8c6)
        else
          let (v, a, c) := chunks infos (body.drop (cs - 1))
          (v, (cs - 1) :: a, lz4Prefix m.toNat (body.take (cs - 1)) ++ c)

/-- `BlteFile::parse` followed by `decompress_with_keys` up to the body of each codec. -/
def front (b : Bytes) : Front :=
  if b.length < 4 then .error
  else if slice b 0 4 ≠ [66, 76, 84, 69] then .error                 -- "BLTE"
  else if b.length < 8 then .error
  else
    let hs := beNat (slice b 4 4)
    if hs = 0 then
      -- single chunk: the rest of the input
      match b.drop 8 with
      | [] => { verdict := .pass, capped := [0] }
      | m :: body =>
        if !modeOk m.toNat then .error
        else { verdict := .pass, allocs := [body.length], capped := lz4Prefix m.toNat body }
    else if b.length < 9 then .error
    else match recSize (byteAt b 8) with
      | none => .error                                               -- InvalidHeader (fix 86001ad; was `expect`)
      | some rec =>
        if b.length < 12 then .error
        else
          let n := beNat (slice b 9 3)
          match table rec n (b.drop 12) with
          | none => .error
          | some (infos, rest) =>
            let (v, a, c) := chunks infos rest
            match v with
            | .pass =>
              -- `estimate_decompressed_size` clamped to the cap (fix bbad53e), then the codecs
              { verdict := .pass, allocs := a, capped := min ((infos.map (·.2)).sum) maxDecomp :: c }
            | _ => { verdict := v, allocs := a }

/-! ### encrypted chunks (`decrypt_chunk_with_keys`, blte/compression.rs) -/

/-- Header of an encrypted chunk payload (after the `E` mode byte), in source order: the 16-byte
floor, then per field the length guard and the indexed read / slice. An index or slice out of
range is the `panic` verdict; the guards are what keeps it unreachable. `guards = false` is the
same code with the four per-field guards taken out (only the floor left).
`known n` = `key_store.get(n).is_some()`: the key lookup comes BEFORE the IV-size, IV and type
reads, so those are reached only for a key name that is in the store. `pass` = the cipher runs
(Salsa20 takes 4- and 8-byte IVs, ARC4 any 16-byte key) and the body — inner mode sniffing and
the codecs — decides. -/
def encFrontG (guards : Bool) (known : Nat → Bool) (d : Bytes) : Verdict :=
  if d.length < 16 then .err                                          -- "Encrypted chunk too short"
  else if d.length ≤ 0 then .panic                                    -- data[0]
  else if byteAt d 0 ≠ 8 then .err                                    -- key_name_size != 8
  else if guards = true ∧ d.length < 1 + 8 then .err                  -- "... too short for key name"
  else if d.length < 1 + 8 then .panic                                -- data[1..9]
  else if known (leNat (slice d 1 8)) = false then .err               -- "Encryption key not found"
  else if guards = true ∧ d.length < 9 + 1 then .err                  -- "... too short for IV size"
  else if d.length ≤ 9 then .panic                                    -- data[9]
  else
    let ivs := byteAt d 9
    if ivs ≠ 4 ∧ ivs ≠ 8 then .err                                    -- InvalidIvSize
    else if guards = true ∧ d.length < 10 + ivs then .err             -- "... too short for IV"
    else if d.length < 10 + ivs then .panic                           -- data[10..10 + iv_len]
    else if guards = true ∧ d.length < 10 + ivs + 1 then .err         -- "... too short for encryption type"
    else if d.length ≤ 10 + ivs then .panic                           -- data[10 + iv_len], data[11 + iv_len..]
    else
      let et := byteAt d (10 + ivs)
      if et ≠ 0x53 ∧ et ≠ 0x41 then .err                              -- "Unknown encryption type"
      else .pass

/-- `decrypt_chunk_with_keys` as written. -/
def encFront (known : Nat → Bool) (d : Bytes) : Verdict := encFrontG true known d

/-- the payloads (without mode byte) of the `E` chunks, in table order: the walk of `chunks`. -/
def encChunks : List (Nat × Nat) → Bytes → List Bytes
  | [], _ => []
  | (cs, _) :: infos, rest =>
    if cs = 0 then []
    else match rest with
      | [] => []
      | m :: body =>
        if !modeOk m.toNat then []
        else if body.length < cs - 1 then []
        else (if m.toNat = 69 then [body.take (cs - 1)] else []) ++ encChunks infos (body.drop (cs - 1))

/-- first verdict that is not `pass`. -/
def firstStop : List Verdict → Verdict
  | [] => .pass
  | .pass :: vs => firstStop vs
  | v :: _ => v

/-- `BlteFile::parse` + `decompress_with_keys(key_store)`: `front`, then — where it passes — the
encrypted chunks: a single-chunk file whose chunk is `E` is `SingleChunkEncrypted`; in a chunk
table every `E` chunk goes through `decrypt_chunk_with_keys` in order and the first header that
stops (or, before it, the body of an earlier chunk) ends the call. Allocations are those of
`front`. -/
def frontKeys (known : Nat → Bool) (b : Bytes) : Front :=
  let f := front b
  if f.verdict ≠ .pass then f
  else if beNat (slice b 4 4) = 0 then
    match b.drop 8 with
    | m :: _ => if m.toNat = 69 then { f with verdict := .err } else f
    | [] => f
  else match recSize (byteAt b 8) with
    | none => f
    | some rec =>
      match table rec (beNat (slice b 9 3)) (b.drop 12) with
      | none => f
      | some (infos, rest) =>
        { f with verdict := firstStop ((encChunks infos rest).map (encFront known)) }

end Blte

/-! ## Encoding file -/
namespace Enc

/-- `EncodingHeader::data_size`. -/
def dataSize (cps eps cc ec espec : Nat) : Nat :=
  22 + cc * (32 + cps * 1024) + ec * (32 + eps * 1024) + espec

/-- `szIdx = size_of::<IndexEntry>()`, `szPageC/szPageE = size_of::<Page<_>>()`. -/
def front (szIdx szPageC szPageE : Nat) (b : Bytes) : Front :=
  if b.length < 2 then .error
  else if slice b 0 2 ≠ [69, 78] then .error                        -- assert magic "EN"
  else if b.length < 22 then .error
  else
    let version := byteAt b 2
    let ckh := byteAt b 3
    let ekh := byteAt b 4
    let cps := u16be b 5
    let eps := u16be b 7
    let cc := beNat (slice b 9 4)
    let ec := beNat (slice b 13 4)
    let flags := byteAt b 17
    let espec := beNat (slice b 18 4)
    -- validate()
    if version ≠ 1 then .error
    else if flags ≠ 0 then .error
    else if ckh = 0 ∨ 16 < ckh then .error
    else if ekh = 0 ∨ 16 < ekh then .error
    else if cps = 0 then .error
    else if eps = 0 then .error
    else if cc = 0 then .error
    else if ec = 0 then .error
    else if espec = 0 then .error
    -- fix a1e7c2a: data_size() > data.len()
    else if b.length < dataSize cps eps cc ec espec then .error
    else
      { verdict := .pass,
        allocs := [espec, cc * szIdx, cc * szPageC, cps * 1024, ec * szIdx, ec * szPageE, eps * 1024] }

end Enc

/-! ## Install / download / size manifests -/
namespace Manifest

/-- `InstallManifest::parse`: header (10 bytes, V2: 16), `validate`, entry-count guard
(fix 67b92e5), then `with_capacity(tag_count)`, per tag `vec![0; ceil(entry_count/8)]`,
`with_capacity(entry_count)`, per entry `vec![0; ckey_length]`. -/
def installFront (szTag szEntry : Nat) (b : Bytes) : Front :=
  if b.length < 2 then .error
  else if slice b 0 2 ≠ [73, 78] then .error                        -- "IN"
  else if b.length < 10 then .error
  else
    let version := byteAt b 2
    let ckl := byteAt b 3
    let tagc := u16be b 4
    let cnt := beNat (slice b 6 4)
    if 2 ≤ version ∧ b.length < 16 then .error
    else if version = 0 ∨ 2 < version then .error
    else if ckl ≠ 16 then .error
    else if b.length < cnt * (1 + ckl + 4) then .error
    else { verdict := .pass, allocs := [tagc * szTag, (cnt + 7) / 8, cnt * szEntry, ckl] }

/-- `DownloadManifest::parse`: base header 11 bytes, V2 +1, V3 +5; `validate`; guard (fix 5ab196a). -/
def downloadFront (szEntry szTag : Nat) (b : Bytes) : Front :=
  if b.length < 11 then .error
  else
    let version := byteAt b 2
    let ekl := byteAt b 3
    let cnt := beNat (slice b 5 4)
    let tagc := u16be b 9
    if version = 0 ∨ 3 < version then .error
    else if version = 2 ∧ b.length < 12 then .error
    else if version = 3 ∧ b.length < 16 then .error
    else if slice b 0 2 ≠ [68, 76] then .error                      -- "DL"
    else if ekl ≠ 16 then .error
    else if 2 ≤ version ∧ 4 < byteAt b 11 then .error
    else if b.length < cnt * (ekl + 6) then .error
    else { verdict := .pass, allocs := [cnt * szEntry, tagc * szTag, (cnt + 7) / 8] }

/-- `SizeManifest::parse`: length checks, header (V1 19 bytes, V2 15), `validate`, guard (fix 079c612). -/
def sizeFront (szTag szEntry : Nat) (b : Bytes) : Front :=
  if b.length < 15 then .error
  else if byteAt b 2 = 1 ∧ b.length < 19 then .error
  else
    let version := byteAt b 2
    let eks := byteAt b 3
    let cnt := beNat (slice b 4 4)
    let tagc := u16be b 8
    if version ≠ 1 ∧ version ≠ 2 then .error                         -- read_options: unsupported version
    else
      let esz := if version = 1 then byteAt b 18 else 4
      if slice b 0 2 ≠ [68, 83] then .error                          -- "DS"
      else if eks = 0 ∨ 16 < eks then .error
      else if version = 1 ∧ (esz = 0 ∨ 8 < esz) then .error
      else if b.length < cnt * (eks + esz) then .error
      else { verdict := .pass, allocs := [tagc * szTag, (cnt + 7) / 8, cnt * szEntry, eks, esz] }

end Manifest

/-! ## Patch index header -/
namespace PIndex

/-- `PatchIndexHeader::parse` up to `Vec::with_capacity(block_count)` (8-byte descriptors);
the guard before it is fix 9ab0a65. `extra_data = data[pos..pos+remaining].to_vec()` is the
other length-driven copy. -/
def front (b : Bytes) : Front :=
  if b.length < 14 then .error                                       -- MIN_HEADER_SIZE
  else
    let headerSize := leNat (slice b 0 4)
    let version := leNat (slice b 4 4)
    let extraLen := u16le b 12
    if version ≠ 1 then .error
    else if b.length < headerSize then .error
    else
      -- extra header
      let step : Option (Nat × List Nat) :=
        if extraLen = 0 then some (14, [])
        else if b.length ≤ 14 then none
        else
          let ks := byteAt b 14
          let pos := 15
          if b.length < pos + min ks 16 then none
          else
            let pos := pos + ks
            if ks + 1 < extraLen then
              let remaining := extraLen - (ks + 1)
              if b.length < pos + remaining then none else some (pos + remaining, [remaining])
            else some (pos, [])
      match step with
      | none => .error
      | some (pos, a) =>
        if b.length < pos + 4 then .error
        else
          let bc := leNat (slice b pos 4)
          if b.length - (pos + 4) < bc * 8 then .error
          else { verdict := .pass, allocs := a ++ [bc * 8] }

end PIndex

/-! ## ZBSDIFF1 header -/
namespace Zbs

/-- sign-magnitude is NOT used for the header: the three sizes are plain little-endian i64. -/
def i64 (l : Bytes) : Int :=
  let n := leNat l
  if n < 2 ^ 63 then (n : Int) else (n : Int) - 2 ^ 64

/-- header (32 bytes), `validate` (signature, 0 ≤ size ≤ 10^9), block-size guard (fix 175a039),
then `vec![0; control_size]`, `vec![0; diff_size]`. -/
def front (b : Bytes) : Front :=
  if b.length < 32 then .error
  else
    let ctrl := i64 (slice b 8 8)
    let diff := i64 (slice b 16 8)
    let out := i64 (slice b 24 8)
    if slice b 0 8 ≠ [90, 66, 83, 68, 73, 70, 70, 49] then .error    -- "ZBSDIFF1"
    else if ctrl < 0 ∨ diff < 0 ∨ out < 0 then .error
    else if 1000000000 < ctrl ∨ 1000000000 < diff ∨ 1000000000 < out then .error
    else if 1000000000 < ctrl + diff then .error
    else if ((b.length - 32 : Nat) : Int) < ctrl + diff then .error
    else { verdict := .pass, allocs := [ctrl.toNat, diff.toNat] }

end Zbs

/-! ## TVFS path table: folder nesting -/
namespace Tvfs

def maxPathDepth : Nat := 512

/-- the nesting skeleton of a path table: a folder node holds the list of its child nodes, a
file node is a leaf. (`parse_directory` recurses once per folder node.) -/
inductive Node where
  | file
  | folder (children : List Node)

mutual
/-- deepest `parse_directory` call the walk makes below a call at depth `d` (fix 64c1c0f: a call
at depth > 512 returns `InvalidPathNode` at once), and whether it fails. -/
def walk (d : Nat) : Node → Bool × Nat
  | .file => (true, d)
  | .folder cs => if maxPathDepth < d + 1 then (false, d + 1) else walkList (d + 1) cs
def walkList (d : Nat) : List Node → Bool × Nat
  | [] => (true, d)
  | c :: cs =>
    let (ok, m) := walk d c
    if !ok then (false, m)
    else
      let (ok', m') := walkList d cs
      (ok', max m m')
end

/-- nested empty folders, `n` deep (the stack-overflow witness shape `FF 80 00 xx xx …`). -/
def nest : Nat → Node
  | 0 => .folder []
  | n + 1 => .folder [nest n]

/-- front end on a nesting skeleton rooted at `parse_directory(.., depth = 0)`. -/
def front (root : List Node) : Front :=
  let (ok, m) := walkList 0 root
  { verdict := if ok then .pass else .err, depth := m }

end Tvfs

/-! ## shmem PID tracking, .idx entry block -/
namespace Local

/-- `PidTracking::from_mapped` (region after the V5 base header): header 0x1C bytes, then
`vec![0u32; max_slots]` twice — only when both arrays fit the region (fix 8b3c7b0). -/
def shmemPidFront (b : Bytes) : Front :=
  if b.length < 28 then { verdict := .pass }
  else
    let slots := leNat (slice b 24 4)
    if b.length - 28 < slots * 8 then { verdict := .pass }
    else { verdict := .pass, allocs := [slots * 4, slots * 4] }

/-- `IndexManager::load_index` front: guarded header block (8) + V2 header (16) + 8 padding bytes +
entry block header (8); key size 9|16; `entry_size` summed in usize (fix eaa0692); block size vs
file size; `vec![0; block_size]`. Returns also `entry_size` (never 0: the loop terminates). -/
def idxFront (b : Bytes) : Front × Nat :=
  if b.length < 24 then (.error, 0)
  else
    let lenSz := byteAt b 12
    let locSz := byteAt b 13
    let keySz := byteAt b 14
    if keySz ≠ 9 ∧ keySz ≠ 16 then (.error, 0)
    else
      let entrySize := keySz + locSz + lenSz
      if b.length < 40 then (.error, entrySize)
      else
        let blockSize := leNat (slice b 32 4)
        if b.length < blockSize then (.error, entrySize)
        else ({ verdict := .pass, allocs := [blockSize] }, entrySize)

end Local

/-! ## bound used by the run and by the theorems -/

/-- does any front-end allocation exceed `c·len + k`, or a capped one exceed the cap? -/
def Front.big (f : Front) (c k len : Nat) : Bool :=
  f.allocs.any (fun a => decide (c * len + k < a)) || f.capped.any (fun a => decide (maxDecomp < a))

end Cascette.Model.ParseGuards
