/-
Model/CdnDownload — `CdnClient::download` as written (crates/cascette-protocol/src/cdn/mod.rs):
`check_key`, the cache key, `ProtocolCache::get_bytes`, `build_url`, `download_with_retry`
(= `RetryPolicy::default().execute(closure)`, Model/Retry, imported from C14), and
`ProtocolCache::store_bytes` with `get_ttl_for_key` (src/cache.rs, after fix 92464f6).

The cache is the `ProtocolCache` of Model/Fallback (`CState`, `cacheGet`, `cachePut`): the SAME
object a `RibbitTactClient` uses for its answers (`CdnClient::new(cache, …)` takes the `Arc`), so
histories below interleave version-service queries, downloads and outside corruption of files.
Cached contents are identified by a natural number (`Retry.Outcome.ok v`: "v identifies the
body"; the driver encodes the body bytes injectively); `Blob.junk` = the bytes an outside writer
left in the file, which `download` returns as they are (`get_bytes` does not validate).

The network is a parameter: `outs` is what each successive HTTP request of this call would
produce (`Retry.classifyStatus` for a response, `.err (.http _)` for a transport failure).
`now` is the instant of the cache lookup, `tStore ≥ now` the instant of the store (retries sleep
in between); theorems quantify over both.
-/
import Cascette.Model.Fallback
import Cascette.Model.Retry
namespace Cascette.Model.CdnDownload
open Cascette.Model.Fallback (CState Blob cacheGet cachePut corrupt Ep Tr Config)
open Cascette.Model.Retry (Arith Policy Outcome Result Trace execute defaultPolicy)

/-- what `download` derives from `(endpoint.path, content_type, key)`. -/
structure Obj (κ : Type) where
  /-- `check_key`: `key.len() >= 2` -/
  keyOk : Bool
  /-- `cache_key` -/
  key : κ
  /-- `get_ttl_for_key(cache_key)` -/
  ttl : Nat

variable {κ : Type} [DecidableEq κ]

/-- `CdnClient::download`: new cache state, number of HTTP requests sent, result.
`junk` identifies the bytes of a corrupted cache file. -/
def download (A : Arith) (jit : Nat → Nat → Nat) (junk : Nat) (st : CState κ Nat)
    (c now tStore : Nat) (ob : Obj κ) (outs : List Outcome) : CState κ Nat × Nat × Result :=
  if !ob.keyOk then (st, 0, .err .invalidKey) else          -- `Self::check_key(key)?`
  match cacheGet st c ob.key now with
  | (st1, .error _) => (st1, 0, .err (.cache 0))             -- `self.cache.get_bytes(&cache_key)?`
  | (st1, .ok (some (.doc b))) => (st1, 0, .ok b)            -- "CDN cache hit"
  | (st1, .ok (some .junk)) => (st1, 0, .ok junk)
  | (st1, .ok none) =>
    let t := execute A defaultPolicy jit outs                -- `self.download_with_retry(&url).await?`
    match t.result with
    | .ok v => (cachePut st1 c ob.key (.doc v) (tStore + ob.ttl), t.calls, .ok v)  -- `store_bytes`
    | r => (st1, t.calls, r)

/-! ### histories over the shared cache -/

inductive DOp (κ : Type) where
  | query (c : Nat) (now : Nat) (ep : Ep κ) (o : Tr → Except Fallback.Err Nat)
  | corrupt (k : κ)
  | download (c : Nat) (now tStore : Nat) (ob : Obj κ) (outs : List Outcome)

def dstep (cfg : Config) (A : Arith) (jit : Nat → Nat → Nat) (junk : Nat) (st : CState κ Nat) :
    DOp κ → CState κ Nat
  | .query c now ep o => (Fallback.query cfg st c now ep o).1
  | .corrupt k => (corrupt st k).1
  | .download c now tStore ob outs => (download A jit junk st c now tStore ob outs).1

def drun (cfg : Config) (A : Arith) (jit : Nat → Nat → Nat) (junk : Nat) (st : CState κ Nat)
    (ops : List (DOp κ)) : CState κ Nat :=
  ops.foldl (dstep cfg A jit junk) st

/-! ### what `download` derives from its arguments (ASCII) -/

/-- `normalize_cdn_path` = `trim_end_matches('/')`. -/
def trimSlashes : List Nat → List Nat
  | [] => []
  | c :: cs =>
    match trimSlashes cs with
    | [] => if c = 47 then [] else [c]
    | r => c :: r

def hexDigit (n : Nat) : Nat := if n < 10 then 48 + n else 87 + n

/-- `hex::encode`. -/
def hexEncode : List Nat → List Nat
  | [] => []
  | b :: bs => hexDigit (b / 16 % 16) :: hexDigit (b % 16) :: hexEncode bs

inductive Ct where
  | config | data | patch
  deriving DecidableEq, Repr

/-- `ContentType as Display`. -/
def Ct.name : Ct → List Nat
  | .config => [99,111,110,102,105,103]
  | .data => [100,97,116,97]
  | .patch => [112,97,116,99,104]

/-- `{path}/{content_type}/{hex[..2]}/{hex[2..4]}/{hex}`: the tail shared by the cache key and
the URL. -/
def objPath (path : List Nat) (ct : Ct) (key : List Nat) : List Nat :=
  let h := hexEncode key
  trimSlashes path ++ 47 :: ct.name ++ 47 :: h.take 2 ++ 47 :: (h.drop 2).take 2 ++ 47 :: h

/-- the cache key: `"cdn/" ++ objPath`. -/
def cacheKey (path : List Nat) (ct : Ct) (key : List Nat) : List Nat :=
  [99,100,110,47] ++ objPath path ct key

/-- the path of the URL `build_url` makes: `"/" ++ objPath` (scheme and host precede it). -/
def urlPath (path : List Nat) (ct : Ct) (key : List Nat) : List Nat :=
  47 :: objPath path ct key

structure CdnTtls where
  ribbit : Nat
  cdn : Nat
  config : Nat

def sRibbitColon : List Nat := [114,105,98,98,105,116,58]   -- "ribbit:"
def sCdnColon : List Nat := [99,100,110,58]                 -- "cdn:"
def sCdnSlash : List Nat := [99,100,110,47]                 -- "cdn/"

/-- `ProtocolCache::get_ttl_for_key` (after fix 92464f6: the `cdn/` keys `CdnClient` really uses
get the CDN TTL; before it only the never-used `cdn:` prefix did). -/
def ttlForKey (t : CdnTtls) (k : List Nat) : Nat :=
  if sRibbitColon.isPrefixOf k then t.ribbit
  else if sCdnColon.isPrefixOf k || sCdnSlash.isPrefixOf k then t.cdn
  else t.config

/-- `get_ttl_for_key` of the pinned tree. -/
def ttlForKeyPinned (t : CdnTtls) (k : List Nat) : Nat :=
  if sRibbitColon.isPrefixOf k then t.ribbit
  else if sCdnColon.isPrefixOf k then t.cdn
  else t.config

def classifyObj (t : CdnTtls) (path : List Nat) (ct : Ct) (key : List Nat) : Obj (List Nat) :=
  { keyOk := decide (2 ≤ key.length), key := cacheKey path ct key,
    ttl := ttlForKey t (cacheKey path ct key) }

end Cascette.Model.CdnDownload
