/-
Model/DiskConc — executable model of `cascette_cache::disk_cache::DiskCache` AS WRITTEN under
concurrent use (crates/cascette-cache/src/disk_cache.rs), at the granularity of its accesses to
shared state.  Every operation is cut into atomic steps exactly where the `disk.*` `sched_point`
hooks of the `verif-hooks` feature sit (site letters in `Pc.site`):

  put_with_ttl  [get_file_path, io_semaphore, create_dir_all]                 ‖ before_open   'A'
                [OpenOptions write+create+truncate on `path.with_extension("tmp")`]
                                                                               ‖ before_write  'B'
                [write_all + flush + fsync through the open descriptor, close] ‖ before_rename 'C'
                [fs::rename(temp, path)]  — `Err` ends the put: `?`            ‖ before_index  'E'
                [index.write(): insert, entry_count / disk_usage arithmetic]
  get           [index.read(): get + clone + is_expired]
                  expired →                                          ‖ expired.before_remove  'F'
                     [index.write(): remove(key) WHATEVER is there, entry_count -= 1 ALWAYS,
                      disk_usage -= size SEEN EARLIER, remove_file]  → Ok(None)
                  live →                                             ‖ before_read            'G'
                     [read_file]  Ok →                               ‖ before_touch           'H'
                                     [index.write(): update_access]  → Ok(Some(data))
                                  Err → [index.write(): remove(key), entry_count -= 1 ALWAYS,
                                         disk_usage -= size SEEN EARLIER] → Err
                  not indexed → [exists + read_file + index.write(): insert, += 1, += len] (no
                     hook inside: one step)
  contains      [index.read(): get, is_expired, file_path.exists()]             (one step)
  remove        [index.write(): remove, remove_file, counters | not indexed: is_file+remove_file]
                                                                                (one step)

The directory is modelled with inodes, because that is what the races are about: `open` with
`truncate` on an existing name re-uses the inode (and empties it), a descriptor keeps writing
into its inode after the name has been renamed away, `rename` of a name that is gone fails
(`ENOENT`), and `write_all` through a fresh descriptor writes at offset 0 over whatever is
there (a shorter write over a longer content leaves the old tail).

Which file names a key uses is a parameter (`Layout`): `fin k` = `get_file_path(k)`, `tmp k` =
`fin k` `.with_extension("tmp")` — the driver computes it with C20's model of `with_extension`
(`Model/Path.withExtTmp`) from the real key strings, so two keys that differ only after the last
'.' share their temporary name exactly as in the code.

Not modelled: `clear`, the background cleanup / sync tasks, metrics, `max_files` (never
enforced in the foreground), the `Semaphore(16)` (never contended by ≤ 3 threads),
sub-directories (the run sets `use_subdirectories = false`).  `update_access` changes nothing
observable (time stamps are read only by the background task).
-/
import Cascette.Spec.Interleave
import Cascette.Model.MemCache
namespace Cascette.Model.DiskConc
open Cascette.Spec.CacheMap (Key Val)
open Cascette.Spec.Interleave (Machine Sys)
open Cascette.Model.CacheAssoc

abbrev Path := Nat

/-- file names used for a key -/
structure Layout where
  fin : Key → Path
  tmp : Key → Path

/-- a directory of names over inodes; an inode number is a position in `inodes`, never re-used -/
structure Fs where
  dir : List (Path × Nat)
  inodes : List Val
  deriving Repr, DecidableEq

namespace Fs

def empty : Fs := { dir := [], inodes := [] }

/-- `File::open` + `read_to_end` -/
def read (fs : Fs) (p : Path) : Option Val :=
  match lookup p fs.dir with
  | some i => fs.inodes[i]?
  | none => none

def «exists» (fs : Fs) (p : Path) : Bool := (lookup p fs.dir).isSome

/-- `OpenOptions::new().write(true).create(true).truncate(true).open(p)`: the descriptor's inode -/
def openTrunc (fs : Fs) (p : Path) : Fs × Nat :=
  match lookup p fs.dir with
  | some i => ({ fs with inodes := fs.inodes.set i [] }, i)
  | none => ({ dir := (p, fs.inodes.length) :: fs.dir, inodes := fs.inodes ++ [[]] }, fs.inodes.length)

/-- `write_all` through a descriptor opened at offset 0 -/
def writeAt (fs : Fs) (i : Nat) (data : Val) : Fs :=
  match fs.inodes[i]? with
  | some old => { fs with inodes := fs.inodes.set i (data ++ old.drop data.length) }
  | none => fs

/-- `fs::rename`; `none` = `ENOENT` -/
def rename (fs : Fs) (src dst : Path) : Option Fs :=
  match lookup src fs.dir with
  | none => none
  | some i => if src = dst then some fs else some { fs with dir := (dst, i) :: erase dst (erase src fs.dir) }

/-- `fs::remove_file`, result ignored -/
def unlink (fs : Fs) (p : Path) : Fs := { fs with dir := erase p fs.dir }

end Fs

structure DEntry where
  size : Nat
  /-- the TTL is over at every later access (put_with_ttl with TTL 0) -/
  short : Bool
  deriving Repr, DecidableEq

abbrev Index := List (Key × DEntry)

structure State where
  index : Index
  fs : Fs
  /-- `entry_count` / `disk_usage` as unbounded integers; the Rust reports them modulo 2^64 -/
  count : Int
  bytes : Int
  deriving Repr, DecidableEq

def init : State := { index := [], fs := Fs.empty, count := 0, bytes := 0 }

inductive Op where
  | get (k : Key)
  | contains (k : Key)
  | put (k : Key) (v : Val) (short : Bool)
  | remove (k : Key)
  deriving Repr, DecidableEq

inductive Out where
  | val (o : Option Val)
  | bool (b : Bool)
  | unit
  /-- `Err(CacheError::Io(_))` -/
  | err
  deriving Repr, DecidableEq

structure PutArgs where
  k : Key
  v : Val
  short : Bool
  deriving Repr, DecidableEq

inductive Pc where
  | idle
  /-- get saw an entry whose TTL has ended, of size `sz` -/
  | gExpired (k : Key) (sz : Nat)
  /-- get saw a live entry of size `sz`, about to read the file -/
  | gRead (k : Key) (sz : Nat)
  /-- get has read `v`, about to update the access time -/
  | gTouch (k : Key) (v : Val)
  | pOpen (a : PutArgs)
  /-- temp file open on inode `ino` -/
  | pWrite (a : PutArgs) (ino : Nat)
  | pRename (a : PutArgs)
  | pIndex (a : PutArgs)
  deriving Repr, DecidableEq

structure Thread where
  pc : Pc
  todo : List Op
  results : List (Op × Out)
  deriving Repr, DecidableEq

def Thread.new (ops : List Op) : Thread := { pc := .idle, todo := ops, results := [] }
def Thread.done (t : Thread) : Bool := t.pc = .idle && t.todo.isEmpty

/-- `index.remove(key)` + the two unconditional `fetch_sub` of the expired / failed-read paths -/
def dropSeen (s : State) (k : Key) (sz : Nat) : State :=
  { s with index := erase k s.index, count := s.count - 1, bytes := s.bytes - (sz : Int) }

/-- first step of an operation -/
def startOp (L : Layout) (s : State) : Op → State × Pc × List Out
  | .get k =>
    match lookup k s.index with
    | some e => if e.short then (s, .gExpired k e.size, []) else (s, .gRead k e.size, [])
    | none =>
      match s.fs.read (L.fin k) with
      | some v =>
        ({ s with index := (k, { size := v.length, short := false }) :: erase k s.index,
                  count := s.count + 1, bytes := s.bytes + (v.length : Int) }, .idle, [.val (some v)])
      | none => (s, .idle, [.val none])
  | .contains k =>
    match lookup k s.index with
    | some e => (s, .idle, [.bool (!e.short && s.fs.exists (L.fin k))])
    | none => (s, .idle, [.bool false])
  | .put k v sh => (s, .pOpen ⟨k, v, sh⟩, [])
  | .remove k =>
    match lookup k s.index with
    | some e =>
      ({ s with index := erase k s.index, fs := s.fs.unlink (L.fin k), count := s.count - 1,
                bytes := s.bytes - (e.size : Int) }, .idle, [.bool true])
    | none => ({ s with fs := s.fs.unlink (L.fin k) }, .idle, [.bool (s.fs.exists (L.fin k))])

/-- the index step of a put: `index.insert` and the counter arithmetic under the write lock -/
def indexPut (s : State) (a : PutArgs) : State :=
  let e : DEntry := { size := a.v.length, short := a.short }
  match lookup a.k s.index with
  | some old =>
    { s with index := (a.k, e) :: erase a.k s.index, bytes := s.bytes + ((e.size : Int) - (old.size : Int)) }
  | none =>
    { s with index := (a.k, e) :: erase a.k s.index, count := s.count + 1, bytes := s.bytes + (e.size : Int) }

/-- a later step of an operation -/
def contOp (L : Layout) (s : State) : Pc → State × Pc × List Out
  | .idle => (s, .idle, [])
  | .gExpired k sz => ({ dropSeen s k sz with fs := s.fs.unlink (L.fin k) }, .idle, [.val none])
  | .gRead k sz =>
    match s.fs.read (L.fin k) with
    | some v => (s, .gTouch k v, [])
    | none => (dropSeen s k sz, .idle, [.err])
  | .gTouch _ v => (s, .idle, [.val (some v)])
  | .pOpen a => ({ s with fs := (s.fs.openTrunc (L.tmp a.k)).1 }, .pWrite a (s.fs.openTrunc (L.tmp a.k)).2, [])
  | .pWrite a i => ({ s with fs := s.fs.writeAt i a.v }, .pRename a, [])
  | .pRename a =>
    match s.fs.rename (L.tmp a.k) (L.fin a.k) with
    | some fs' => ({ s with fs := fs' }, .pIndex a, [])
    | none => (s, .idle, [.err])
  | .pIndex a => (indexPut s a, .idle, [.unit])

/-- the operation a thread is inside of -/
def pcOp : Pc → Option Op
  | .idle => none
  | .gExpired k _ => some (.get k)
  | .gRead k _ => some (.get k)
  | .gTouch k _ => some (.get k)
  | .pOpen a => some (.put a.k a.v a.short)
  | .pWrite a _ => some (.put a.k a.v a.short)
  | .pRename a => some (.put a.k a.v a.short)
  | .pIndex a => some (.put a.k a.v a.short)

/-- one atomic step of a thread -/
def step (L : Layout) (s : State) (t : Thread) : State × Thread × List Unit :=
  if t.pc = .idle then
    match t.todo with
    | [] => (s, t, [])
    | op :: rest =>
      let r := startOp L s op
      (r.1, { pc := r.2.1, todo := rest, results := t.results ++ r.2.2.map (fun o => (op, o)) }, [])
  else
    let r := contOp L s t.pc
    (r.1, { pc := r.2.1, todo := t.todo,
            results := t.results ++ (match pcOp t.pc with
                                     | some op => r.2.2.map (fun o => (op, o))
                                     | none => []) }, [])

def machine (L : Layout) : Machine State Thread Unit := { step := step L, done := Thread.done }

def sys (s : State) (progs : List (List Op)) : Sys State Thread Unit :=
  { shared := s, threads := progs.map Thread.new, log := [] }

/-- one-letter name of the schedule point a thread is parked at -/
def Pc.site : Pc → Char
  | .idle => 'S'
  | .pOpen _ => 'A' | .pWrite _ _ => 'B' | .pRename _ => 'C' | .pIndex _ => 'E'
  | .gExpired _ _ => 'F' | .gRead _ _ => 'G' | .gTouch _ _ => 'H'

def Thread.site (t : Thread) : Char := if t.done then 'D' else t.pc.site

end Cascette.Model.DiskConc
