/-
Model/LruSeq — sequence-level model of `LruManager` (crates/cascette-client-storage/src/lru/mod.rs,
after the `fix:` that makes `evict_tail` return its slot to the free list).

The intrusive list is abstracted to the list of its keys from LRU tail to MRU head; the slot
allocator is kept as the code keeps it: a COUNT of free slots that `touch` consumes, that
`remove` / `evict_tail` (public) give back, and that the eviction inside `touch`
(`detach_tail`) neither consumes nor gives back.  "Full" is therefore `free = 0`, not
`length = cap` — that the two coincide is the content of `no_capacity_loss`.

The all-zero key is treated as the code treats it (`LruFileEntry::is_active`):
`for_each_entry` skips it, and `load_from_disk` rebuilds membership from the non-zero keys only.
After such a reload the real structure is inconsistent (the zero entry's slot is linked AND on
the free list); from then on this layer follows the key-map view only and `Model/LruPtr`
follows the code exactly.
-/
import Cascette.Spec.Lru
namespace Cascette.Model.LruSeq
open Cascette.Spec.Lru

structure Seq (κ : Type) where
  cap : Nat
  /-- keys of the linked list, LRU tail first -/
  order : List κ
  /-- `free_list.len()` -/
  free : Nat
  gen : Nat
  prev : Nat
  /-- what a `.lru` file determines at this level: the keys of the linked entries in list order -/
  files : Files (List κ)
  deriving Repr, DecidableEq

variable {κ : Type} [DecidableEq κ]

def Seq.init (cap : Nat) : Seq κ :=
  { cap := cap, order := [], free := cap, gen := 1, prev := 0, files := [] }

def Seq.contains (s : Seq κ) (k : κ) : Bool := decide (k ∈ s.order)
def Seq.len (s : Seq κ) : Nat := s.order.length
/-- `for_each_entry`: walks the list, skips entries whose key is all zero. -/
def Seq.iter (zero : κ) (s : Seq κ) : List κ := s.order.filter (fun k => k ≠ zero)

/-- `touch`: key-map hit → unlink + link at head; else `free_list.pop()`; else `detach_tail`
and reuse that slot; `false` when there is nothing to detach. -/
def touch (s : Seq κ) (k : κ) : Seq κ × Bool :=
  if k ∈ s.order then ({ s with order := s.order.erase k ++ [k] }, true)
  else if 0 < s.free then ({ s with order := s.order ++ [k], free := s.free - 1 }, true)
  else match s.order with
    | [] => (s, false)
    | _ :: t => ({ s with order := t ++ [k] }, true)

/-- `remove`: key-map removal, unlink, `free_list.push`. -/
def remove (s : Seq κ) (k : κ) : Seq κ × Bool :=
  if k ∈ s.order then ({ s with order := s.order.erase k, free := s.free + 1 }, true) else (s, false)

/-- public `evict_tail` (fixed code): `detach_tail` then `free_list.push`. -/
def evictTail (s : Seq κ) : Seq κ × Bool :=
  match s.order with
  | [] => (s, false)
  | _ :: t => ({ s with order := t, free := s.free + 1 }, true)

/-- `evict_to_target`: `while freed < target { evict_tail()?; evicted += 1; freed += avg }`. -/
def evictToAux (target avg : Nat) : List κ → Nat → Nat → List κ × Nat × Nat × Nat
  | [], free, freed => ([], free, 0, freed)
  | x :: t, free, freed =>
    if freed < target then
      let r := evictToAux target avg t (free + 1) (freed + avg)
      (r.1, r.2.1, r.2.2.1 + 1, r.2.2.2)
    else (x :: t, free, 0, freed)

def evictTo (s : Seq κ) (target avg : Nat) : Seq κ × Nat × Nat :=
  let r := evictToAux target avg s.order s.free 0
  ({ s with order := r.1, free := r.2.1 }, r.2.2.1, r.2.2.2)

/-- `load_from_disk` on a file that exists: the key map is rebuilt from the entries with a
non-zero key, every other slot goes to the free list, the generation is adopted. -/
def loadSnap (zero : κ) (s : Seq κ) (g : Nat) (snap : List κ) : Seq κ :=
  let act := snap.filter (fun k => k ≠ zero)
  { s with order := act, free := s.cap - act.length, gen := g }

def cycleEvict (s : Seq κ) (limit avg : Nat) : Seq κ × Nat × Nat :=
  if 0 < limit ∧ 0 < avg then
    if limit < s.order.length * avg then evictTo s (s.order.length * avg - limit) avg else (s, 0, 0)
  else (s, 0, 0)

def step (zero : κ) (s : Seq κ) : Op κ → Seq κ × Out
  | .touch k => let r := touch s k; (r.1, .bool r.2)
  | .remove k => let r := remove s k; (r.1, .bool r.2)
  | .evictTail => let r := evictTail s; (r.1, .bool r.2)
  | .evictTo target avg => let r := evictTo s target avg; (r.1, .evicted r.2.1 r.2.2)
  | .bump => ({ s with prev := s.gen, gen := nextGen s.gen }, .ok)
  | .checkpoint =>
    let fs := Files.write s.files s.gen s.order
    ({ s with files := if s.prev ≠ 0 ∧ s.prev ≠ s.gen then Files.delete fs s.prev else fs }, .ok)
  | .load g =>
    match Files.lookup s.files g with
    | none => (s, .err)
    | some snap => (loadSnap zero s g snap, .ok)
  | .runCycle limit avg =>
    match Files.latest s.files with
    | none =>
      let r := cycleEvict s limit avg
      ({ r.1 with files := Files.scan s.files s.gen s.prev }, .cycle 0 r.2.1 r.2.2 (Seq.iter zero r.1).length)
    | some g =>
      match Files.lookup s.files g with
      | none => (s, .err)
      | some snap =>
        let s1 := loadSnap zero s g snap
        let r := cycleEvict s1 limit avg
        ({ r.1 with files := Files.scan s.files g s.prev },
          .cycle s1.order.length r.2.1 r.2.2 (Seq.iter zero r.1).length)
  | .reset => ({ s with order := [], free := s.cap }, .ok)
  | .reopen => ({ s with order := [], free := s.cap, gen := 1, prev := 0 }, .ok)

def run (zero : κ) (s : Seq κ) : List (Op κ) → Seq κ × List Out
  | [] => (s, [])
  | op :: ops =>
    let r := step zero s op
    let rest := run zero r.1 ops
    (rest.1, r.2 :: rest.2)

end Cascette.Model.LruSeq
