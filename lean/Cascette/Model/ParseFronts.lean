/-
Model/ParseFronts — second batch of parser FRONT ENDS for property C02 (the first batch is
Model/ParseGuards).  Same conventions: a front end reproduces, in source order, the reads, guards,
allocation requests, slice bounds and recursion depth of a parser; bodies are not modelled.

  Root      RootVersion::detect + RootHeader::read (C03's Model/RootFile, reused) + the block loop of
            RootFile::parse_from_reader with the `Vec::with_capacity(num_records)` requests of
            parse_v1_block / parse_v2_block (root/{file,header,block}.rs)
  TvfsB     TvfsHeader (binrw, 38/46 bytes) + validate + the three table-range checks + the EST
            range check + PathTable::parse = parse_directory ON BYTES with the depth limit
            (tvfs/{mod,header,path_table}.rs); name-fragment loop = C03's TvfsPath.parseFrags
  PArch     PatchArchiveHeader + validate + parse_encoding_info + parse_block_table
            (patch_archive/{header,parser,block}.rs); `key[..key_size]` of a 16-byte array is kept
            as a `.panic` branch
  ESpec     the complete grammar of espec::Parser (espec/parser.rs) as a recogniser with the
            nesting counter of fix 4e06d16: result + deepest parse_espec frame
  LHdr      LocalHeader::from_bytes + blte_size (storage/local_header.rs): the u32 subtraction
            as written before fix 84a8898 (wrapping, `BitVec 32`) and after it (saturating)
  Lru       lru_file::deserialize = C07's Integrity.Lru.deserialize; the entry vector
  Resid     ResidencyDb::load bucket/page loop (kmt/key_state.rs)
-/
import Cascette.Base.Bytes
import Cascette.Model.ParseGuards
import Cascette.Model.RootFile
import Cascette.Model.TvfsPath
namespace Cascette.Model.ParseFronts
open Cascette
open Cascette.Model.ParseGuards (Verdict Front)

/-! ## Root file -/
namespace Root
open Cascette.Model.RootFile (Version Header detect rd32 hasNames)

/-- bytes of a block header: V1 12, V2/V3 17, V4 18. -/
def hdrLen : Version → Nat
  | .v1 => 12 | .v2 | .v3 => 17 | .v4 => 18

def maxRecords : Nat := 1000000

/-- content flags of a block header (`ContentFlags::read_v2/read_v4`), V1: third word unused here. -/
def contentOf (v : Version) (bs : List Nat) : Nat :=
  match v, bs with
  | .v4, _ :: _ :: _ :: _ :: _ :: _ :: _ :: _ :: a :: b :: c :: d :: hi :: _ =>
    (a + 256 * b + 65536 * c + 16777216 * d) ||| (hi <<< 32)
  | .v1, _ => 0
  | _, _ :: _ :: _ :: _ :: _ :: _ :: _ :: _ :: a :: b :: c :: d :: e :: f :: g :: h :: cf3 :: _ =>
    (a + 256 * b + 65536 * c + 16777216 * d) ||| (e + 256 * f + 65536 * g + 16777216 * h) ||| (cf3 <<< 17)
  | _, _ => 0

/-- one `RootBlock::parse`: the `with_capacity(count)` requests it makes (deltas 4·n; after the
deltas are read: fdids 4·n and — V1 — records szRec·n, — V2+ — content keys 16·n; after the keys:
name hashes szHash·n and the collected records szRec·n) and the unread input, `none` = the block
fails.  `n = 0` or `n > 1 000 000`: an empty block, nothing requested. -/
def blockStep (szHash szRec : Nat) (v : Version) (bs : List Nat) : List Nat × Option (List Nat) :=
  if bs.length < hdrLen v then ([], none)
  else
    match rd32 true bs with
    | none => ([], none)
    | some (n, _) =>
      let body := bs.drop (hdrLen v)
      if n = 0 ∨ maxRecords < n then ([], some body)
      else if body.length < 4 * n then ([4 * n], none)
      else
        match v with
        | .v1 =>
          if body.length < 28 * n then ([4 * n, 4 * n, szRec * n], none)
          else ([4 * n, 4 * n, szRec * n], some (body.drop (28 * n)))
        | _ =>
          if body.length < 20 * n then ([4 * n, 4 * n, 16 * n], none)
          else
            let need := if hasNames (contentOf v bs) then 28 * n else 20 * n
            if body.length < need then ([4 * n, 4 * n, 16 * n, szHash * n], none)
            else ([4 * n, 4 * n, 16 * n, szHash * n, szRec * n], some (body.drop need))

/-- the block loop: requests of every block reached (an error after the first block ends the loop). -/
def blocks (szHash szRec : Nat) (v : Version) : Nat → List Nat → List Nat
  | 0, _ => []
  | fuel + 1, bs =>
    if bs.isEmpty then []
    else
      match blockStep szHash szRec v bs with
      | (a, none) => a
      | (a, some rest) => a ++ blocks szHash szRec v fuel rest

def blocksAll (szHash szRec : Nat) (v : Version) (bs : List Nat) : List Nat :=
  blocks szHash szRec v (bs.length + 1) bs

/-- the `vec![0u8; skip]` of an extended header larger than 20 bytes (header size < 100). -/
def hdrAllocs : Header → List Nat
  | .classic .. => []
  | .ext _ hs _ _ _ _ => if 20 < hs then [hs - 20] else []

/-- `RootFile::parse` front: version detection, header, block loop. The verdict is `err` only where
the front end itself fails (detection / header); whether the first block parses is decided by the
complete C03 model `RootFile.parse`, which the driver uses for the ok/err prediction. -/
def front (szHash szRec : Nat) (bs : List Nat) : Front :=
  match detect bs with
  | none => .error
  | some .v1 => { verdict := .pass, allocs := blocksAll szHash szRec .v1 bs }
  | some _ =>
    match Header.read bs with
    | none => .error
    | some (h, rest) =>
      { verdict := .pass, allocs := hdrAllocs h ++ blocksAll szHash szRec h.version rest }

end Root

/-! ## TVFS on bytes -/
namespace TvfsB
open Cascette.Model.TvfsPath (parseFrags)

def maxPathDepth : Nat := 512

def be16 (b : List Nat) (i : Nat) : Nat := b.getD i 0 * 256 + b.getD (i + 1) 0
def be32 (b : List Nat) (i : Nat) : Nat :=
  b.getD i 0 * 16777216 + b.getD (i + 1) 0 * 65536 + b.getD (i + 2) 0 * 256 + b.getD (i + 3) 0

/-- one loop iteration of `parse_directory` up to and including the NodeValue: optional leading
separator, the name-fragment loop (C03's `parseFrags`), the 0xFF marker, the big-endian value.
Returns the value and the bytes after it; `none` = `PathTableTruncated` / `InvalidPathNode`. -/
def entry (fuel : Nat) (bs : List Nat) : Option (Nat × List Nat) :=
  match bs with
  | [] => none
  | b0 :: rest0 =>
    let bs1 := if b0 = 0 then rest0 else bs
    match parseFrags (fuel + 1) bs1 [] with                          -- fuel ≥ bs.length (see `front`)
    | .error _ => none
    | .ok (_, bs2) =>
      match bs2 with
      | 0xFF :: v0 :: v1 :: v2 :: v3 :: bs3 => some (16777216 * v0 + 65536 * v1 + 256 * v2 + v3, bs3)
      | _ => none

/-- `parse_directory(data, start..end, depth = d)` on the bytes of the range: did it succeed, and
the deepest `depth` argument of any call made (the call that refuses counts). One entry per loop
iteration. -/
def dir : Nat → Nat → List Nat → Bool × Nat
  | 0, d, _ => (false, d)
  | fuel + 1, d, bs =>
    if maxPathDepth < d then (false, d)                              -- fix 64c1c0f
    else if bs.isEmpty then (true, d)
    else
      match entry fuel bs with
      | none => (false, d)
      | some (value, bs3) =>
        if value ≥ 0x80000000 then
          let len := value % 0x80000000
          -- folder_data_len < 4, children_end > end
          if len < 4 ∨ (bs3.take (len - 4)).length < len - 4 then (false, d)
          else
            let r1 := dir fuel (d + 1) (bs3.take (len - 4))
            if !r1.1 then (false, r1.2)
            else
              let r2 := dir fuel d (bs3.drop (len - 4))
              (r2.1, max r1.2 r2.2)
        else dir fuel d bs3

/-- `PathTable::parse`: `parse_directory(data, 0, len, depth = 0)`. -/
def walk (path : List Nat) : Bool × Nat := dir (path.length + 1) 0 path

/-- result of the front end from the path-table walk: `data.to_vec()` (ps bytes) is made when the
walk succeeds. -/
def mk (ps : Nat) (r : Bool × Nat) : Front :=
  { verdict := if r.1 then .pass else .err, allocs := if r.1 then [ps] else [], depth := r.2 }

def hdrOk (b : List Nat) : Bool :=
  let est := be32 b 8 / 2 % 2 == 1
  decide (4 ≤ b.length) && b.take 4 == [0x54, 0x56, 0x46, 0x53]      -- "TVFS"
    && decide (38 ≤ b.length) && (!est || decide (46 ≤ b.length))
    && b.getD 4 0 == 1 && b.getD 5 0 == (if est then 46 else 38)
    && b.getD 6 0 == 9 && b.getD 7 0 == 9

/-- `TvfsFile::parse` front: header (38 bytes; 46 with the encoding-spec flag), `validate`, the
range checks of the three tables, `PathTable::parse` (then `data.to_vec()`). The VFS / container
tables are bodies. `allocs`: the path-table copy (made when the walk succeeds). -/
def front (b : List Nat) : Front :=
  if !hdrOk b then .error
  else if b.length < be32 b 12 + be32 b 16 then .error               -- path table range
  else if b.length < be32 b 20 + be32 b 24 ∨ b.length < be32 b 28 + be32 b 32 then .error
  else
    mk (be32 b 16) (walk ((b.drop (be32 b 12)).take (be32 b 16)))

end TvfsB

/-! ## Patch archive -/
namespace PArch

/-- `read_key(reader, ks)`: `key[..ks]` of a 16-byte array, then `read_exact`. -/
inductive KeyRead | panic | eof | ok (rest : List Nat)

def readKey (ks : Nat) (bs : List Nat) : KeyRead :=
  if 16 < ks then .panic else if bs.length < ks then .eof else .ok (bs.drop ks)

/-- `parse_block_table`: `n` records of key + 16 + 4 bytes. -/
def blockTable (fks : Nat) : Nat → List Nat → Verdict
  | 0, _ => .pass
  | n + 1, bs =>
    match readKey fks bs with
    | .panic => .panic
    | .eof => .err
    | .ok r => if r.length < 20 then .err else blockTable fks n (r.drop 20)

/-- header (10 bytes, magic asserted by binrw), `validate`, optional encoding info
(`vec![0; espec_length]`, a u8), block table (`Vec::with_capacity(block_count)`, a u16). The block
data walk (seek to each block's offset, entries until the 0 sentinel) is the body. -/
def hdrOk (b : List Nat) : Bool :=
  decide (10 ≤ b.length) && b.take 2 == [0x50, 0x41]                 -- "PA"
    && decide (1 ≤ b.getD 2 0 ∧ b.getD 2 0 ≤ 2)
    && decide (1 ≤ b.getD 4 0 ∧ b.getD 4 0 ≤ 16) && decide (1 ≤ b.getD 5 0 ∧ b.getD 5 0 ≤ 16)
    && decide (12 ≤ b.getD 6 0 ∧ b.getD 6 0 ≤ 24)

/-- `parse_encoding_info`: two keys, two u32, the espec length byte, `vec![0; espec_length]`. -/
def encInfo (fks : Nat) (rest : List Nat) : Verdict × List Nat × List Nat :=
  match readKey fks rest with
  | .panic => (.panic, [], [])
  | .eof => (.err, [], [])
  | .ok r1 =>
    match readKey fks r1 with
    | .panic => (.panic, [], [])
    | .eof => (.err, [], [])
    | .ok r2 =>
      if r2.length < 9 then (.err, [], [])
      else if (r2.drop 9).length < r2.getD 8 0 then (.err, [r2.getD 8 0 % 256], [])
      else (.pass, [r2.getD 8 0 % 256], (r2.drop 9).drop (r2.getD 8 0))

def front (szBlock : Nat) (b : List Nat) : Front :=
  if !hdrOk b then .error
  else if b.getD 3 0 = 0 ∨ 16 < b.getD 3 0 then .error               -- file_key_size (validate)
  else
    let fks := b.getD 3 0
    let bc := (b.getD 7 0 * 256 + b.getD 8 0) % 65536
    let e := if b.getD 9 0 / 2 % 2 = 1 then encInfo fks (b.drop 10) else (.pass, [], b.drop 10)
    match e.1 with
    | .pass => { verdict := blockTable fks bc e.2.2, allocs := e.2.1 ++ [bc * szBlock] }
    | v => { verdict := v, allocs := e.2.1 }

end PArch

/-! ## ESpec grammar -/
namespace ESpec

abbrev Str := List Char

def maxNesting : Nat := 64

def isDigit (c : Char) : Bool := 48 ≤ c.toNat && c.toNat ≤ 57
def isAlnum (c : Char) : Bool :=
  isDigit c || (65 ≤ c.toNat && c.toNat ≤ 90) || (97 ≤ c.toNat && c.toNat ≤ 122)
def isHex (c : Char) : Bool :=
  isDigit c || (65 ≤ c.toNat && c.toNat ≤ 70) || (97 ≤ c.toNat && c.toNat ≤ 102)

def consume (c : Char) : Str → Option Str
  | x :: r => if x = c then some r else none
  | [] => none

def headIs (c : Char) : Str → Bool
  | x :: _ => x == c
  | [] => false

def headDigit : Str → Bool
  | x :: _ => isDigit x
  | [] => false

/-- `parse_number`: a non-empty run of ASCII digits that fits u64. -/
def number (s : Str) : Option (Nat × Str) :=
  let ds := s.takeWhile isDigit
  if ds.isEmpty then none
  else
    let v := ds.foldl (fun a c => a * 10 + (c.toNat - 48)) 0
    if v < 2 ^ 64 then some (v, s.dropWhile isDigit) else none

/-- a number that must fit `max` and lie in `[lo, hi]`. -/
def numberIn (lo hi : Nat) (s : Str) : Option Str :=
  match number s with
  | some (v, r) => if lo ≤ v ∧ v ≤ hi then some r else none
  | none => none

/-- `parse_window_bits`. -/
def windowBits (s : Str) : Option Str := numberIn 8 15 s

/-- `parse_zlib` (input starts with `z`). -/
def zlib : Str → Option Str
  | 'z' :: r =>
    if !headIs ':' r then some r
    else
      let r1 := r.drop 1
      let braces := headIs '{' r1
      let r2 := if braces then r1.drop 1 else r1
      let lvl : Option Str :=
        if headDigit r2 then numberIn 1 9 r2
        else if !braces then none else some r2
      match lvl with
      | none => none
      | some r3 =>
        let r5 : Option Str :=
          if braces && headIs ',' r3 then
            let r4 := r3.drop 1
            if headDigit r4 then windowBits r4
            else
              let ident := r4.takeWhile isAlnum
              let r4' := r4.dropWhile isAlnum
              if ident = "mpq".toList ∨ ident = "zlib".toList ∨ ident = "lz4hc".toList then
                if headIs ',' r4' then windowBits (r4'.drop 1) else some r4'
              else none
          else some r3
        match r5 with
        | none => none
        | some r6 => if braces then consume '}' r6 else some r6
  | _ => none

/-- `parse_bcpack` / `parse_gdeflate` (letter `c`, range 1..hi). -/
def leveled (c : Char) (hi : Nat) : Str → Option Str
  | x :: r =>
    if x ≠ c then none
    else if !headIs ':' r then some r
    else
      match consume '{' (r.drop 1) with
      | none => none
      | some r1 =>
        match numberIn 1 hi r1 with
        | none => none
        | some r2 => consume '}' r2
  | [] => none

/-- `parse_encrypted` after the `e`, up to the nested spec: `:{` key(16 alnum) `,` iv(1–8 hex bytes) `,`. -/
def encPrefix (r : Str) : Option Str :=
  match consume ':' r with
  | none => none
  | some r1 =>
    match consume '{' r1 with
    | none => none
    | some r2 =>
      let key := r2.takeWhile isAlnum
      if key.length ≠ 16 then none
      else
        match consume ',' (r2.dropWhile isAlnum) with
        | none => none
        | some r3 =>
          -- parse_hex_until(',', 1, 8)
          let hexs := r3.takeWhile (fun c => c ≠ ',' && isHex c)
          let r4 := r3.dropWhile (fun c => c ≠ ',' && isHex c)
          match r4 with
          | x :: _ =>
            if x ≠ ',' then none                                     -- a non-hex character
            else if hexs.length % 2 ≠ 0 then none
            else if hexs.length / 2 < 1 ∨ 8 < hexs.length / 2 then none
            else consume ',' r4
          | [] =>
            -- end of input inside the IV: the length checks run, then `consume(',')` fails
            none

/-- `parse_block_size_spec`: number, optional K/M (the scaled size must fit u64; G/T/P refused),
optional `*` [count u32]. -/
def sizeSpec (s : Str) : Option Str :=
  match number s with
  | none => none
  | some (v, r) =>
    let r1 : Option Str :=
      match r with
      | 'K' :: t => if v * 1024 < 2 ^ 64 then some t else none         -- fix 2261323: checked_mul
      | 'M' :: t => if v * 1048576 < 2 ^ 64 then some t else none
      | 'G' :: _ => none
      | 'T' :: _ => none
      | 'P' :: _ => none
      | _ => some r
    match r1 with
    | none => none
    | some r2 =>
      if headIs '*' r2 then
        let r3 := r2.drop 1
        if headDigit r3 then numberIn 0 (2 ^ 32 - 1) r3 else some r3
      else some r2

/-- head of one chunk inside `b:{…}`: size spec or `*`[count], then `=`. `vc` = variable chunks so far. -/
def chunkHead (vc : Nat) (s : Str) : Option (Nat × Str) :=
  if headIs '*' s then
    if 1 ≤ vc then none                                              -- MultipleVariableBlocks
    else
      let r := s.drop 1
      if headIs '=' r then some (vc + 1, r.drop 1)
      else
        match numberIn 0 (2 ^ 32 - 1) r with
        | none => none
        | some r1 => (consume '=' r1).map (fun t => (vc + 1, t))
  else
    match sizeSpec s with
    | none => none
    | some r => (consume '=' r).map (fun t => (vc, t))

/-- the three recursive productions behind `b:` (each of them calls `parse_espec`, the counted
entry — never `parse_espec_inner`): the chunk loop `b:{…}`, the brace-less shorthand with a size
spec (`b:256K*=z`, `b:1=n`, `b:*=n`) and the plain single spec (`b:n`). -/
inductive BHead
  | err
  | braces (r : Str)
  | sized (r : Str)
  | plain (r : Str)

/-- `parse_block_table` after `b:` up to the first nested spec. -/
def blockHead (r1 : Str) : BHead :=
  if headIs '{' r1 then .braces (r1.drop 1)
  else if headDigit r1 || headIs '*' r1 then
    let r2 : Option Str := if headIs '*' r1 then some (r1.drop 1) else sizeSpec r1
    match r2 with
    | none => .err
    | some r3 => match consume '=' r3 with
      | none => .err
      | some r4 => .sized r4
  else .plain r1

/-- `spec` = `parse_espec` (the ONLY function that compares and counts `self.depth`),
`inner` = `parse_espec_inner` (the dispatch on the type letter; counts nothing),
`loop` = the chunk loop of `parse_block_table`. -/
inductive Mode
  | spec
  | inner
  | loop (vc : Nat)

/-- outcome of a parsing function: the unread input, `NestingTooDeep` raised with this input
unread (first error wins, as with `?`), or any other error. -/
inductive Out
  | ok (r : Str)
  | deep (r : Str)
  | err

def Out.ofOpt : Option Str → Out
  | some r => .ok r
  | none => .err

/-- `let x = f()?; g()?` where `g` is a plain consumer. -/
def Out.andThen (o : Out) (f : Str → Option Str) : Out :=
  match o with
  | .ok r => Out.ofOpt (f r)
  | o => o

/-- `parse_espec` (`Mode.spec`, `d` = `self.depth` at entry: refuses at `MAX_NESTING_DEPTH`,
otherwise runs `parse_espec_inner` with `self.depth = d + 1`), `parse_espec_inner` (`Mode.inner`,
`d` = `self.depth`: every recursive production — `e:{key,iv,<spec>}`, `b:<spec>`,
`b:<size>=<spec>`, every chunk of `b:{…}` — goes back through `Mode.spec`, as the code does) and
the chunk loop of `parse_block_table` (`Mode.loop`, `d` = `self.depth` inside it). Second
component: the deepest frame count of `parse_espec` reached (`d + 1` for a call entered at depth
`d`, including the call that refuses). -/
def go : Nat → Mode → Nat → Str → Out × Nat
  | 0, _, d, _ => (.err, d)
  | fuel + 1, .spec, d, s =>
    if maxNesting ≤ d then (.deep s, d + 1)                          -- fix 4e06d16
    else
      let x := go fuel .inner (d + 1) s
      (x.1, max (d + 1) x.2)
  | fuel + 1, .inner, d, s =>
    match s with
    | 'n' :: r => (.ok r, d)
    | 'z' :: _ => (.ofOpt (zlib s), d)
    | 'c' :: _ => (.ofOpt (leveled 'c' 7 s), d)
    | 'g' :: _ => (.ofOpt (leveled 'g' 12 s), d)
    | 'e' :: r =>
      match encPrefix r with
      | none => (.err, d)
      | some r1 =>
        let x := go fuel .spec d r1
        (x.1.andThen (consume '}'), max d x.2)
    | 'b' :: r =>
      match consume ':' r with
      | none => (.err, d)
      | some r1 =>
        match blockHead r1 with
        | .err => (.err, d)
        | .sized r2 =>
          let x := go fuel .spec d r2
          (x.1, max d x.2)
        | .plain r2 =>
          let x := go fuel .spec d r2
          (x.1, max d x.2)
        | .braces r2 =>
          let x := go fuel (.loop 0) d r2
          (x.1.andThen (consume '}'), max d x.2)
    | _ => (.err, d)
  | fuel + 1, .loop vc, d, s =>
    match chunkHead vc s with
    | none => (.err, d)
    | some (vc', r) =>
      let x := go fuel .spec d r
      match x.1 with
      | .ok (',' :: r2) =>
        let y := go fuel (.loop vc') d r2
        (y.1, max x.2 y.2)
      | o => (o, x.2)

/-- the top-level `parse_espec` call (`self.depth = 0`). Fuel: `spec → inner` reads nothing, every
other step down reads at least two characters. -/
def top (s : Str) : Out × Nat := go (2 * s.length + 2) .spec 0 s

/-- what `Parser::parse` returns, as far as K observes it: `Ok`, `Err(NestingTooDeep(pos))`, any
other error. -/
inductive Res
  | ok
  | deep (pos : Nat)
  | other
  deriving DecidableEq, Repr

/-- `Parser::parse`: result, deepest `parse_espec` frame. -/
def parseX (s : Str) : Res × Nat :=
  if s.isEmpty then (.other, 0)
  else
    match top s with
    | (.ok [], m) => (.ok, m)
    | (.ok _, m) => (.other, m)
    | (.deep r, m) => (.deep (s.length - r.length), m)
    | (.err, m) => (.other, m)

/-- `Parser::parse`: accepted?, deepest `parse_espec` frame. -/
def parse (s : Str) : Bool × Nat :=
  match parseX s with
  | (.ok, m) => (true, m)
  | (_, m) => (false, m)

end ESpec

/-! ## LocalHeader -/
namespace LHdr

def size : Nat := 30

/-- `size_with_header` (big-endian u32 at 0x10) of a 30-byte header. -/
def sizeWithHeader (b : Bytes) : BitVec 32 :=
  BitVec.ofNat 32 (Integrity.beNat (Integrity.slice b 16 4))

/-- `blte_size` as written BEFORE fix 84a8898, release profile: `u32` wrapping subtraction
(with overflow checks on, the same expression panics when the field is below 30). -/
def blteSizeWrapping (b : Bytes) : BitVec 32 := sizeWithHeader b - 30#32

/-- `blte_size` since fix 84a8898: `saturating_sub`. -/
def blteSize (b : Bytes) : Nat := (sizeWithHeader b).toNat - 30

/-- `LocalHeader::from_bytes` then `blte_size`: `none` below 30 bytes. -/
def front (b : Bytes) : Option Nat := if b.length < size then none else some (blteSize b)

end LHdr

/-! ## LRU file, residency DB -/
namespace Lru
open Cascette.Model.Integrity (Hash)

/-- `lru_file::deserialize`: C07's acceptor; the entry vector is `(len − 28)/20` entries. -/
def front (H : Hash) (szEntry : Nat) (d : Bytes) : Front :=
  match Integrity.Lru.deserialize H d with
  | none => .error
  | some f => { verdict := .pass, allocs := [f.entries.length * szEntry] }

/-- `LRU_SENTINEL`. -/
def sentinel : Nat := 0xFFFFFFFF

/-- `for_each_entry` with the callback dropped: following `next` from `idx` for at most `k` steps,
indexing the table as the code does: `some true` = reached the sentinel, `some false` = did not
within `k` steps, `none` = an index out of range (`entries[idx as usize]` panics). -/
def chain (es : List Integrity.Lru.Entry) : Nat → Nat → Option Bool
  | 0, idx => some (idx == sentinel)
  | k + 1, idx =>
    if idx == sentinel then some true
    else
      match es[idx]? with
      | none => none
      | some e => chain es k e.next

/-- the `while idx != LRU_SENTINEL` loop of `links_are_valid` (fix b5d4e35 / 1b8e830): `prev` = the
index visited before, `seen` = the slots marked `on_list`. `some (last, seen)` = reached the
sentinel; `none` = refused (index outside the table, second visit, `entry.prev` not the slot
before). Every step marks a new slot of the table, so `len + 1` steps of fuel are never used up. -/
def walk (es : List Integrity.Lru.Entry) : Nat → Nat → Nat → List Nat → Option (Nat × List Nat)
  | 0, _, _, _ => none
  | k + 1, prev, idx, seen =>
    if idx == sentinel then some (prev, seen)
    else
      match es[idx]? with
      | none => none
      | some e =>
        if seen.contains idx || e.prev != prev then none
        else walk es k idx e.next (idx :: seen)

/-- `LruFileEntry::is_active`. -/
def active (e : Integrity.Lru.Entry) : Bool := e.ekey != List.replicate 9 (0 : Byte)

/-- `links_are_valid`: the walk from the LRU tail, then `prev == mru_head` and every keyed entry is
on the list. -/
def linksValid (f : Integrity.Lru.File) : Bool :=
  match walk f.entries (f.entries.length + 1) sentinel f.tail [] with
  | none => false
  | some (last, seen) =>
    last == f.head &&
      (f.entries.zipIdx.all (fun (e, i) => seen.contains i || !active e))

/-- `LruManager::load_from_disk` on the file bytes: accepted? -/
def loadOk (H : Hash) (d : Bytes) : Bool :=
  match Integrity.Lru.deserialize H d with
  | none => false
  | some f => linksValid f

end Lru

/-! ## `blte::EncryptedHeader` (binrw): sizes and the type byte -/
namespace EncHdr

/-- `EncryptedHeader::read`: key_name_size, that many bytes, iv_size, that many bytes, the type byte
(`try_map` since fix 7d3d08a: `S` or `A`, anything else is an error). Complete model. -/
def read (d : Bytes) : Bool :=
  match d with
  | [] => false
  | kns :: r =>
    if r.length < kns.toNat then false
    else
      match r.drop kns.toNat with
      | [] => false
      | ivs :: r2 =>
        if r2.length < ivs.toNat then false
        else
          match r2.drop ivs.toNat with
          | [] => false
          | t :: _ => t.toNat == 0x53 || t.toNat == 0x41

end EncHdr

namespace Resid

def pageSize : Nat := 1024
def bucketCount : Nat := 16

/-- the page loop `for _ in 0..page_count`: pages taken (each needs a whole page of input left). -/
def pages : Nat → List Nat → Nat × List Nat
  | 0, bs => (0, bs)
  | n + 1, bs =>
    if bs.length < pageSize then (0, bs)
    else
      let (k, r) := pages n (bs.drop pageSize)
      (k + 1, r)

/-- `ResidencyDb::load` on the file bytes: total number of page slots visited. The page count field
never sizes an allocation and the loop leaves as soon as the input is short; the result is always `Ok`. -/
def load : Nat → List Nat → Nat
  | 0, _ => 0
  | fuel + 1, bs =>
    match bs with
    | id :: c0 :: c1 :: c2 :: c3 :: rest =>
      if bucketCount ≤ id then 0
      else
        let cnt := c0 + 256 * c1 + 65536 * c2 + 16777216 * c3
        let (k, r) := pages cnt rest
        k + load fuel r
    | _ => 0

end Resid

end Cascette.Model.ParseFronts
