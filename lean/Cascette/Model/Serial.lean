/-
Model/Serial — executable models of `CascFormat::{parse, build}` AS WRITTEN for the formats of
property C08 whose whole file is modelled (crates/cascette-formats/src/…):

* install manifest (`install/{header,tag,entry,manifest}.rs`): `Model.Manifest.parseInstall` /
  `serInstall` plus the `String::from_utf8` checks on tag names and paths;
* download manifest v1–v3 (`download/{header,entry,manifest}.rs`): header kept as the Rust
  struct keeps it — the raw `has_checksum` byte (any non-zero value means "present" and is
  re-emitted as it was read) and the three `reserved` bytes of V3 — entries, tags;
* size manifest v1/v2 (`size/{header,entry,manifest}.rs`): variable-width esize, `validate`
  (key size 1..16, width 1..8, Σ esize = total_size with the release-build wrapping `u64` sum);
* ZBSDIFF1 container (`zbsdiff/{mod,header}.rs`): 32-byte little-endian header with the size
  guards of `ZbsdiffHeader::validate`, control / diff blocks of the declared sizes, the rest of
  the input as the extra block.

`parse : Bytes → Option V` (`none` = any `Err`), `build : V → Option Bytes` (`none` = the
`validate()` at the start of `build` fails). Byte strings are `List (BitVec 8)`.
-/
import Cascette.Model.Manifest
namespace Cascette.Model.Serial
open Cascette Cascette.Model.Manifest

/-! ### `String::from_utf8` (well-formed UTF-8, Unicode table 3-7) -/

/-- `core::str::from_utf8(..).is_ok()` as the byte-at-a-time automaton: `need` continuation bytes
are outstanding and the next one must lie in `lo..=hi` (the second byte of `E0`, `ED`, `F0`, `F4`
sequences has a narrowed range: no overlong forms, no surrogates, nothing above U+10FFFF). -/
def utf8Go : Nat → Nat → Nat → Bytes → Bool
  | need, _, _, [] => need == 0
  | 0, _, _, b :: r =>
    let n := b.toNat
    if n < 0x80 then utf8Go 0 0x80 0xBF r
    else if 0xC2 ≤ n ∧ n ≤ 0xDF then utf8Go 1 0x80 0xBF r
    else if n = 0xE0 then utf8Go 2 0xA0 0xBF r
    else if n = 0xED then utf8Go 2 0x80 0x9F r
    else if 0xE1 ≤ n ∧ n ≤ 0xEF then utf8Go 2 0x80 0xBF r
    else if n = 0xF0 then utf8Go 3 0x90 0xBF r
    else if 0xF1 ≤ n ∧ n ≤ 0xF3 then utf8Go 3 0x80 0xBF r
    else if n = 0xF4 then utf8Go 3 0x80 0x8F r
    else false
  | k + 1, lo, hi, b :: r =>
    if lo ≤ b.toNat ∧ b.toNat ≤ hi then utf8Go k 0x80 0xBF r else false

def validUtf8 (bs : Bytes) : Bool := utf8Go 0 0x80 0xBF bs

/-! ### install -/

/-- the `String::from_utf8` checks of `InstallTag::read_options` / `InstallFileEntry::read_options` -/
def installNamesOk (m : IManifest) : Bool :=
  m.tags.all (fun t => validUtf8 t.name) && m.entries.all (fun e => validUtf8 e.path)

/-- `<InstallManifest as CascFormat>::parse` -/
def parseInstallU (bs : Bytes) : Option IManifest :=
  match parseInstall bs with
  | none => none
  | some m => if installNamesOk m then some m else none

/-- `<InstallManifest as CascFormat>::build` (never fails: no validation on this path) -/
def buildInstall (m : IManifest) : Option Bytes := some (serInstall m)

/-! ### download -/

/-- `DownloadManifest` with the header fields the Rust struct keeps raw. `hc` = the
`has_checksum` byte, `bp` = the `base_priority` byte (an `i8` in Rust), `rsv` = `reserved`. -/
structure DFile where
  version : Nat
  hc : Byte
  flagSize : Nat
  bp : Byte
  rsv : Bytes
  entries : List DEntry
  tags : List Tag
deriving DecidableEq, Repr

def DFile.hasCks (f : DFile) : Bool := f.hc != 0

/-- header bytes after the 11-byte base: V2 `flag_size`; V3 `flag_size, base_priority, reserved` -/
def serDExt (f : DFile) : Bytes :=
  if f.version = 2 then [BitVec.ofNat 8 f.flagSize]
  else if f.version = 3 then [BitVec.ofNat 8 f.flagSize, f.bp] ++ f.rsv
  else []

def serDFile (f : DFile) : Bytes :=
  [0x44, 0x4C, BitVec.ofNat 8 f.version, 16, f.hc] ++ be32 f.entries.length ++ be16 f.tags.length ++
  serDExt f ++
  (f.entries.map (serDEntry f.hasCks f.flagSize)).flatten ++ (f.tags.map serTag).flatten

/-- `DownloadManifest::validate` on a value: entry fields consistent with the header, mask sizes -/
def dfileValid (f : DFile) : Bool :=
  (f.version = 1 || f.version = 2 || f.version = 3) && decide (f.flagSize ≤ 4) &&
  decide (f.entries.length < 4294967296) && decide (f.tags.length < 65536) &&
  f.tags.all (fun t => t.mask.length == maskSize f.entries.length) &&
  (firstErr (dlEntryCheck f.hasCks f.flagSize) f.entries).isNone

/-- `<DownloadManifest as CascFormat>::build`: `validate()`, then header, entries, tags -/
def buildDFile (f : DFile) : Option Bytes := if dfileValid f then some (serDFile f) else none

/-- version-dependent header extension: `(flag_size, base_priority byte, reserved)` -/
def parseDExt (version : Nat) (bs : Bytes) : Option ((Nat × Byte × Bytes) × Bytes) :=
  if version = 1 then some ((0, 0, []), bs)
  else if version = 2 then
    (match bs with | fs :: r => some ((fs.toNat, 0, []), r) | [] => none)
  else if version = 3 then
    (match bs with | fs :: bp :: r0 :: r1 :: r2 :: r => some ((fs.toNat, bp, [r0, r1, r2]), r) | _ => none)
  else none

/-- `<DownloadManifest as CascFormat>::parse` -/
def parseDFile (bs : Bytes) : Option DFile :=
  match readN 11 bs with
  | none => none
  | some (h, r0) =>
    match h with
    | [m0, m1, ver, ekl, hc, e0, e1, e2, e3, t0, t1] =>
      if m0 ≠ 0x44 ∨ m1 ≠ 0x4C then none else
      let entryCount := rdBe [e0, e1, e2, e3]
      let tagCount := rdBe [t0, t1]
      match parseDExt ver.toNat r0 with
      | none => none
      | some ((flagSize, bp, rsv), r1) =>
        if ekl ≠ 16 then none else
        if flagSize > 4 then none else
        match parseMany (parseDEntry (hc != 0) flagSize) entryCount r1 with
        | none => none
        | some (entries, r2) =>
          match parseMany (parseTag entryCount) tagCount r2 with
          | none => none
          | some (tags, _) =>
            if tags.all (fun t => validUtf8 t.name) then
              some ⟨ver.toNat, hc, flagSize, bp, rsv, entries, tags⟩
            else none
    | _ => none

/-! ### size manifest -/

structure SEntry where
  key : Bytes
  esize : Nat
deriving DecidableEq, Repr

/-- `SizeManifest`: `width` is `esize_bytes` (V1 header field; fixed 4 for V2). -/
structure SFile where
  version : Nat
  ekeySize : Nat
  total : Nat
  width : Nat
  tags : List Tag
  entries : List SEntry
deriving DecidableEq, Repr

/-- big-endian bytes of the low `w` bytes of `n` (`(esize >> (i*8)) as u8`) -/
def beW : Nat → Nat → Bytes
  | 0, _ => []
  | w + 1, n => beW w (n / 256) ++ [BitVec.ofNat 8 n]

def serSEntry (w : Nat) (e : SEntry) : Bytes := e.key ++ beW w e.esize

def serSHeader (f : SFile) : Bytes :=
  [0x44, 0x53, BitVec.ofNat 8 f.version, BitVec.ofNat 8 f.ekeySize] ++ be32 f.entries.length ++
  be16 f.tags.length ++
  (if f.version = 1 then beW 8 f.total ++ [BitVec.ofNat 8 f.width] else beW 5 f.total)

def serSFile (f : SFile) : Bytes :=
  serSHeader f ++ (f.tags.map serTag).flatten ++ (f.entries.map (serSEntry f.width)).flatten

/-- `iter().map(|e| e.esize).sum::<u64>()` in a release build (wrapping) -/
def sumU64 (es : List SEntry) : Nat := (es.map (·.esize)).sum % 2 ^ 64

/-- `SizeManifest::validate` (header checks incl. the 40-bit bound on the V2 total, counts,
Σ esize = total, key lengths, every esize fits the esize field — the last two bounds are the
checks added by the `fix:` commit for C08; an esize is a `u64`, hence `< 256^8` for width 8) -/
def sfileValid (f : SFile) : Bool :=
  (f.version = 1 || f.version = 2) && decide (1 ≤ f.ekeySize ∧ f.ekeySize ≤ 16) &&
  (if f.version = 1 then decide (1 ≤ f.width ∧ f.width ≤ 8) else f.width == 4 && decide (f.total < 2 ^ 40)) &&
  f.entries.all (fun e => decide (e.esize < 256 ^ f.width)) &&
  decide (f.entries.length < 4294967296) && decide (f.tags.length < 65536) &&
  (sumU64 f.entries == f.total) && f.entries.all (fun e => e.key.length == f.ekeySize)

/-- `<SizeManifest as CascFormat>::build` -/
def buildSFile (f : SFile) : Option Bytes := if sfileValid f then some (serSFile f) else none

def parseSEntry (ks w : Nat) (bs : Bytes) : Option (SEntry × Bytes) :=
  match readN ks bs with
  | none => none
  | some (k, r1) =>
    match readN w r1 with
    | none => none
    | some (e, r2) => some (⟨k, rdBe e⟩, r2)

/-- `<SizeManifest as CascFormat>::parse` (the two length pre-checks are implied by the header
reads: 15 bytes for V2, 19 for V1; other versions are rejected either way) -/
def parseSFile (bs : Bytes) : Option SFile :=
  match readN 10 bs with
  | none => none
  | some (h, r0) =>
    match h with
    | [m0, m1, ver, ks, e0, e1, e2, e3, t0, t1] =>
      let entryCount := rdBe [e0, e1, e2, e3]
      let tagCount := rdBe [t0, t1]
      let ext : Option ((Nat × Nat) × Bytes) :=
        if ver.toNat = 1 then
          (match readN 9 r0 with
           | some ([a0, a1, a2, a3, a4, a5, a6, a7, w], r) =>
             some ((rdBe [a0, a1, a2, a3, a4, a5, a6, a7], w.toNat), r)
           | _ => none)
        else if ver.toNat = 2 then
          (match readN 5 r0 with
           | some (t, r) => some ((rdBe t, 4), r)
           | none => none)
        else none
      match ext with
      | none => none
      | some ((total, width), r1) =>
        if m0 ≠ 0x44 ∨ m1 ≠ 0x53 then none else
        if ks.toNat = 0 ∨ ks.toNat > 16 then none else
        if ver.toNat = 1 ∧ (width = 0 ∨ width > 8) then none else
        match parseMany (parseTag entryCount) tagCount r1 with
        | none => none
        | some (tags, r2) =>
          match parseMany (parseSEntry ks.toNat width) entryCount r2 with
          | none => none
          | some (entries, _) =>
            if !(tags.all fun t => validUtf8 t.name) then none else
            if sumU64 entries ≠ total then none else
            some ⟨ver.toNat, ks.toNat, total, width, tags, entries⟩
    | _ => none

/-! ### ZBSDIFF1 container -/

/-- `ZbsDiff`: the three header sizes as read, and the three (still compressed) blocks. -/
structure ZFile where
  csize : Nat
  dsize : Nat
  osize : Nat
  control : Bytes
  diff : Bytes
  extra : Bytes
deriving DecidableEq, Repr

/-- little-endian bytes of the low `k` bytes of `n` (`i64::to_le_bytes` for `k = 8`) -/
def leW : Nat → Nat → Bytes
  | 0, _ => []
  | k + 1, n => BitVec.ofNat 8 n :: leW k (n / 256)

/-- `u64::from_le_bytes` -/
def rdLe : Bytes → Nat
  | [] => 0
  | b :: r => b.toNat + 256 * rdLe r

def zMagic : Bytes := [0x5A, 0x42, 0x53, 0x44, 0x49, 0x46, 0x46, 0x31]

/-- `MAX_SIZE` of `ZbsdiffHeader::validate` -/
def zMax : Nat := 1000000000

def serZFile (z : ZFile) : Bytes :=
  zMagic ++ leW 8 z.csize ++ leW 8 z.dsize ++ leW 8 z.osize ++ z.control ++ z.diff ++ z.extra

/-- `<ZbsDiff as CascFormat>::build` (no validation on this path) -/
def buildZFile (z : ZFile) : Option Bytes := some (serZFile z)

/-- `<ZbsDiff as CascFormat>::parse`. The three sizes are `i64`: a negative value has its top bit
set, i.e. is ≥ 2^63 as the unsigned number read here, so "negative or > 10^9" is `> zMax`. -/
def parseZFile (bs : Bytes) : Option ZFile :=
  match readN 8 bs with
  | none => none
  | some (sig, r0) =>
    match readN 8 r0 with
    | none => none
    | some (c, r1) =>
      match readN 8 r1 with
      | none => none
      | some (d, r2) =>
        match readN 8 r2 with
        | none => none
        | some (o, r3) =>
          if sig ≠ zMagic then none else
          if rdLe c > zMax ∨ rdLe d > zMax ∨ rdLe o > zMax ∨ rdLe c + rdLe d > zMax then none else
          match readN (rdLe c) r3 with
          | none => none
          | some (control, r4) =>
            match readN (rdLe d) r4 with
            | none => none
            | some (diff, extra) => some ⟨rdLe c, rdLe d, rdLe o, control, diff, extra⟩

end Cascette.Model.Serial
