/-
Model/TvfsPath — TVFS manifest: `TvfsBuilder::build` (sort by path, `build_path_tree` /
`insert_path`, `PathTable::build` = `build_directory`/`build_entry`, one VFS entry + one CFT entry
per file addressed by byte offset) → `TvfsFile::parse` (`PathTable::parse` = `parse_directory`) →
`TvfsFile::resolve_path`. The path table is modelled byte for byte here; the VFS / container / EST
tables, the builder's width computation and `resolve_path` are in Model/TvfsTables (byte for byte as
well). Bytes are naturals < 256.
-/
namespace Cascette.Model.TvfsPath

abbrev Bytes := List Nat

def be32 (n : Nat) : Bytes := [n / 16777216 % 256, n / 65536 % 256, n / 256 % 256, n % 256]

inductive Node
  | mk (name : Bytes) (children : List Node) (off : Option Nat)

def Node.name : Node → Bytes | .mk n _ _ => n
def Node.children : Node → List Node | .mk _ c _ => c
def Node.off : Node → Option Nat | .mk _ _ o => o

/-- `name_bytes.chunks(255)` each written as length byte + bytes -/
def chunkFrags : Nat → Bytes → Bytes
  | 0, _ => []
  | fuel + 1, name => if name.isEmpty then [] else
      let c := name.take 255
      (c.length :: c) ++ chunkFrags fuel (name.drop 255)

/-- name fragment(s) of `build_entry` -/
def frags (name : Bytes) : Bytes :=
  if name.length ≤ 255 then name.length :: name else chunkFrags name.length name

/-- `TVFS_FOLDER_NODE | (((len + 4) as u32) & TVFS_FOLDER_SIZE_MASK)`, written arithmetically
(bit 31 set = add 2^31 to a value below 2^31; masking with 2^31-1 = remainder mod 2^31) -/
def folderValue (childrenLen : Nat) : Nat :=
  0x80000000 + ((childrenLen + 4) % 4294967296) % 0x80000000

mutual
/-- `build_entry` -/
def buildEntry : Node → Bytes
  | .mk name children off =>
    (if name.isEmpty then [] else 0 :: frags name) ++ [0xFF] ++
    (match off with
     | some o => be32 o
     | none => be32 (folderValue (buildDir children).length) ++ buildDir children)
/-- `build_directory` -/
def buildDir : List Node → Bytes
  | [] => []
  | n :: ns => buildEntry n ++ buildDir ns
end

inductive PErr | trunc | node
deriving Repr, DecidableEq

/-- the name-fragment loop of `parse_directory`: returns the collected name and the bytes starting
at the 0xFF marker -/
def parseFrags : Nat → Bytes → Bytes → Except PErr (Bytes × Bytes)
  | 0, _, _ => .error .trunc
  | fuel + 1, bs, acc =>
    match bs with
    | [] => .error .trunc
    | b :: rest =>
      if b = 0xFF then .ok (acc, bs) else
      if b > rest.length then .error .trunc else
      let acc' := acc ++ rest.take b
      match rest.drop b with
      | [] => .error .trunc
      | c :: rest2 =>
        if c = 0xFF then .ok (acc', c :: rest2)
        else if c = 0 then
          match rest2 with
          | 0xFF :: _ => .ok (acc', rest2)
          | _ => parseFrags fuel rest2 acc'
        else parseFrags fuel (c :: rest2) acc'

def joinPath (cur name : Bytes) : Bytes :=
  if cur.isEmpty then name else if name.isEmpty then cur else cur ++ [0x2F] ++ name

/-- `parse_directory` over the region `bs`; appends (path, vfs offset) of every file node -/
def parseDir : Nat → Bytes → Bytes → Except PErr (List (Bytes × Nat))
  | 0, _, _ => .error .trunc
  | fuel + 1, bs, cur =>
    match bs with
    | [] => .ok []
    | b0 :: rest0 =>
      let bs1 := if b0 = 0 then rest0 else bs
      match parseFrags (bs1.length + 1) bs1 [] with
      | .error e => .error e
      | .ok (name, bs2) =>
        match bs2 with
        | 0xFF :: v0 :: v1 :: v2 :: v3 :: bs3 =>
          let value := 16777216 * v0 + 65536 * v1 + 256 * v2 + v3
          let full := joinPath cur name
          -- `(node_value & 0x8000_0000) != 0` on a u32 = `node_value ≥ 2^31`; `& 0x7FFF_FFFF` = `% 2^31`
          if value ≥ 0x80000000 then
            let len := value % 0x80000000
            if len < 4 then .error .node else
            if len - 4 > bs3.length then .error .trunc else
            match parseDir fuel (bs3.take (len - 4)) full with
            | .error e => .error e
            | .ok inner =>
              match parseDir fuel (bs3.drop (len - 4)) cur with
              | .error e => .error e
              | .ok later => .ok (inner ++ later)
          else
            match parseDir fuel bs3 cur with
            | .error e => .error e
            | .ok later => .ok ((full, value) :: later)
        | 0xFF :: _ => .error .trunc
        | _ => .error .node

/-- `PathTable::parse` -/
def parseTable (bs : Bytes) : Except PErr (List (Bytes × Nat)) := parseDir (bs.length + 1) bs []

/-! ### builder side -/

/-- `path.split('/').filter(|s| !s.is_empty())` -/
def splitPath (p : Bytes) : List Bytes :=
  (p.foldr (fun b (acc : List Bytes) =>
    if b = 0x2F then [] :: acc else
    match acc with
    | [] => [[b]]
    | h :: t => (b :: h) :: t) [[]]).filter (fun s => !s.isEmpty)

/-- `insert_path` -/
def insertPath : List Bytes → Nat → Node → Node
  | [], _, n => n
  | c :: rest, off, .mk name children o =>
    let leaf := rest.isEmpty
    match children.findIdx? (fun ch => ch.name == c) with
    | some i =>
      .mk name (children.modify i fun ch =>
        if leaf then .mk ch.name ch.children (some off) else insertPath rest off ch) o
    | none =>
      .mk name (children ++ [if leaf then .mk c [] (some off) else insertPath rest off (.mk c [] none)]) o

structure FileRec where
  path : Bytes
  ekey : Bytes      -- 9 bytes
  esize : Nat
  csize : Nat
  ckey : Option Bytes
  est : Option Nat := none   -- EST index of `add_file_with_est`
deriving Repr

def lexLe : Bytes → Bytes → Bool
  | [], _ => true
  | _ :: _, [] => false
  | a :: as, b :: bs => if a < b then true else if b < a then false else lexLe as bs

def offsSize (n : Nat) : Nat := if n > 0xFFFFFF then 4 else if n > 0xFFFF then 3 else if n > 0xFF then 2 else 1

end Cascette.Model.TvfsPath
