/-
Model/RibbitConn — `tcp::start_server` / `handle_connection` as written
(`crates/cascette-ribbit/src/tcp/mod.rs`): one spawned task per accepted socket; the task reads
ONE line (`BufReader::read_line`, 10 s timeout), trims it, calls `handle_command`, writes the
reply (or nothing on any error), shuts the socket down and returns. The only thing the tasks
share is `Arc<AppState>`, which nothing mutates after start-up (database, CDN defaults; the
sequence number is the wall clock) — in the model: the fixed `Server` and `seqn` parameters.

* `Ev`        what one socket's task can observe: bytes arrive, the peer (half-)closes, the read
              timeout fires; `accept` = the listener has accepted the socket and spawned its task
              and NOTHING has arrived on it yet (a client that connects and stays silent): the
              accept loop does no per-socket work before `tokio::spawn`, so this is not a step of
              anything — the task sits in `read_line` with an empty buffer;
* `connStep`  the task: `reading buf` = inside `read_line` with `buf` received so far (no LF in
              it), `done` = the task has returned; at most one `Out` is ever produced;
* `srvStep` / `srvRun` the server over an arbitrary interleaving of the sockets' events: an event
              for socket `i` runs socket `i`'s task one step and touches nothing else. A socket id
              not seen before is a freshly accepted one (`reading []`).

`dec` = UTF-8 decoding of the line (`read_line` fails with `InvalidData` on a line that is not
UTF-8 → `Err` → closed without reply); the driver passes `String.fromUTF8?`.
-/
import Cascette.Model.RibbitFmt
namespace Cascette.Model.RibbitConn
open Cascette.Model.Bpsv Cascette.Model.Ribbit

inductive Ev
  | accept
  | data (bs : List Nat)
  | eof
  | timeout
  deriving DecidableEq, Repr

inductive ConnSt
  | reading (buf : List Nat)
  | done
  deriving DecidableEq, Repr

inductive Out
  | reply (r : Str)
  | closed
  deriving DecidableEq, Repr

/-- the parameters every task shares (all immutable). -/
structure Shared where
  dec : List Nat → Option Str
  H : Str → Str
  s : Server
  seqn : Nat

/-- from the line `read_line` returned to the task's only output. -/
def answer (sh : Shared) (line : List Nat) : Out :=
  match handleConnection sh.H sh.s sh.seqn (sh.dec line) with
  | some r => .reply r
  | none => .closed

/-- one step of the task that owns a socket. -/
def connStep (sh : Shared) : ConnSt → Ev → ConnSt × Option Out
  | .done, _ => (.done, none)
  -- accepted, task spawned, zero bytes so far: the accept loop goes straight back to `accept()`
  | .reading buf, .accept => (.reading buf, none)
  | .reading buf, .data bs =>
    if (buf ++ bs).contains 10 then (.done, some (answer sh (firstLine (buf ++ bs))))
    else (.reading (buf ++ bs), none)
  | .reading buf, .eof =>
    -- `Ok(Ok(0))` → return without a reply; otherwise a last line without LF
    if buf = [] then (.done, some .closed) else (.done, some (answer sh buf))
  | .reading _, .timeout => (.done, some .closed)

/-- one socket alone. -/
def connRun (sh : Shared) : ConnSt → List Ev → ConnSt × List Out
  | c, [] => (c, [])
  | c, e :: es =>
    let r := connStep sh c e
    let r' := connRun sh r.1 es
    (r'.1, r.2.toList ++ r'.2)

/-- the tasks' states, newest binding first; an id without a binding is a fresh socket. -/
abbrev Conns := List (Nat × ConnSt)

def getConn (σ : Conns) (i : Nat) : ConnSt := (σ.lookup i).getD (.reading [])

/-- an event on socket `i`. -/
def srvStep (sh : Shared) (σ : Conns) (i : Nat) (e : Ev) : Conns × Option (Nat × Out) :=
  let r := connStep sh (getConn σ i) e
  ((i, r.1) :: σ, r.2.map (fun o => (i, o)))

/-- the server over an interleaving of socket events; outputs tagged with their socket. -/
def srvRun (sh : Shared) : Conns → List (Nat × Ev) → Conns × List (Nat × Out)
  | σ, [] => (σ, [])
  | σ, (i, e) :: es =>
    let r := srvStep sh σ i e
    let r' := srvRun sh r.1 es
    (r'.1, r.2.toList ++ r'.2)

/-- the events of socket `i` in a schedule. -/
def proj (i : Nat) (evs : List (Nat × Ev)) : List Ev :=
  evs.filterMap (fun p => if p.1 = i then some p.2 else none)

/-- the outputs on socket `i`. -/
def outsOf (i : Nat) (os : List (Nat × Out)) : List Out :=
  os.filterMap (fun p => if p.1 = i then some p.2 else none)

/-- what a socket that received `bytes` and then a half-close is answered. -/
def connAnswer (sh : Shared) (bytes : List Nat) : Out :=
  if bytes = [] then .closed else answer sh (firstLine bytes)

end Cascette.Model.RibbitConn
