/-
Model/Paged — the sorted-table machinery shared by the encoding table and the CDN archive index
(DESIGN.md Appendix A.2), as the Rust code uses it:

* keys are byte strings compared like Rust `<[u8] as Ord>::cmp` (`kcmp`);
* `[T]::partition_point` / `binary_search_by` are bisection on indices (`bisect`);
* `paginate`: the size-budget paging loop of `EncodingBuilder::build_ckey_pages/build_ekey_pages`;
* `Table.find`: `partition_point` over the page index, then linear scan in the page
  (`EncodingFile::find_encoding / find_all_encodings / find_espec`);
* `Table.batch`: the sort-and-merge cursor walk of `EncodingFile::batch_find_*`;
* `Chunked.find`: binary search over a TOC of last keys with the truncated-prefix comparison, then
  binary search inside the block (`ArchiveIndex::binary_search_key`).
No imports outside Lean core so the driver links natively.
-/
namespace Cascette.Model.Paged

abbrev Key := List Nat

/-- Rust `<[u8] as Ord>::cmp` (lexicographic, shorter prefix first). -/
def kcmp : Key → Key → Ordering
  | [], [] => .eq
  | [], _ :: _ => .lt
  | _ :: _, [] => .gt
  | a :: as, b :: bs => if a < b then .lt else if b < a then .gt else kcmp as bs

def klt (a b : Key) : Bool := kcmp a b == .lt
def kle (a b : Key) : Bool := kcmp a b != .gt

/-- bisection on `[lo, hi)`: first index where `p` is false (if `p` is true-then-false). -/
def bisect (p : Nat → Bool) : Nat → Nat → Nat → Nat
  | 0, lo, _ => lo
  | fuel + 1, lo, hi =>
    if lo < hi then
      let mid := lo + (hi - lo) / 2
      if p mid then bisect p fuel (mid + 1) hi else bisect p fuel lo mid
    else lo

/-- Rust `[T]::partition_point(pred)`. -/
def partitionPoint {α : Type} (p : α → Bool) (l : List α) : Nat :=
  let a := l.toArray
  bisect (fun i => match a[i]? with | some x => p x | none => false) l.length 0 l.length

/-- Rust `[T]::binary_search_by(f)` on a slice sorted w.r.t. `f` without duplicate matches:
`ok i` = `Ok(i)`, `error i` = `Err(i)` (insertion point). -/
def binarySearchBy {α : Type} (c : α → Ordering) (l : List α) : Except Nat Nat :=
  let i := partitionPoint (fun x => c x == .lt) l
  match l[i]? with
  | some x => if c x == .eq then .ok i else .error i
  | none => .error i

/-- The paging loop: `cur`/`s` are the open page and its byte size. A page is closed when the next
entry would exceed the budget and the page is not empty. -/
def paginate {ε : Type} (sz : ε → Nat) (budget : Nat) : List ε → List ε → Nat → List (List ε)
  | [], cur, _ => if cur.isEmpty then [] else [cur]
  | e :: es, cur, s =>
    if s + sz e > budget && !cur.isEmpty then cur :: paginate sz budget es [e] (sz e)
    else paginate sz budget es (cur ++ [e]) (s + sz e)

/-- A parsed paged table: per page the index's `first_key` and the page's entries. -/
abbrev Table (ε : Type) := List (Key × List ε)

/-- `build_index`: first key of each page (all-zero 16-byte key for an empty page). -/
def mkTable {ε : Type} (key : ε → Key) (pages : List (List ε)) : Table ε :=
  pages.map fun p => (match p.head? with | some e => key e | none => List.replicate 16 0, p)

/-- linear scan in a page -/
def scan {ε : Type} (key : ε → Key) (page : List ε) (k : Key) : Option ε :=
  page.find? (fun e => key e == k)

/-- `find_*`: `partition_point(|idx| idx.first_key <= key)`, `None` when 0, else scan page `i-1`.
Outer `none` = the Rust indexing `pages[i-1]` would panic (cannot happen: proved). -/
def Table.find {ε : Type} (key : ε → Key) (t : Table ε) (k : Key) : Option (Option ε) :=
  let i := partitionPoint (fun (pg : Key × List ε) => kle pg.1 k) t
  if i = 0 then some none
  else match t[i - 1]? with
    | none => none
    | some pg => some (scan key pg.2 k)

/-- the merge-style cursor walk of `batch_find_*` over probes sorted by key:
per page, skip probes below `first_key`, take probes below the next page's `first_key`
(all remaining ones on the last page) and scan the page for each. -/
def batchWalk {ε : Type} (key : ε → Key) : Table ε → List (Nat × Key) → List (Nat × Option ε)
  | [], _ => []
  | (f, p) :: rest, probes =>
    let probes1 := probes.dropWhile (fun q => klt q.2 f)
    let inRange : Nat × Key → Bool := fun q =>
      match rest with
      | [] => true
      | (nf, _) :: _ => !(kle nf q.2)
    let mine := probes1.takeWhile inRange
    let later := probes1.dropWhile inRange
    mine.map (fun q => (q.1, scan key p q.2)) ++ batchWalk key rest later

/-- `results[orig_idx] = …` for every produced pair, on a `vec![None; n]`. -/
def assign {β : Type} (outs : List (Nat × Option β)) (n : Nat) : List (Option β) :=
  (List.range n).map fun i =>
    match outs.find? (fun o => o.1 == i) with
    | some o => o.2
    | none => none

/-- `batch_find_*`: enumerate, stable-sort by key, walk, scatter back by original index. -/
def Table.batch {ε : Type} (key : ε → Key) (t : Table ε) (ks : List Key) : List (Option ε) :=
  let indexed := (ks.zipIdx.map fun (k, i) => (i, k)).mergeSort (fun a b => kle a.2 b.2)
  assign (batchWalk key t indexed) ks.length

/-! ### blocks of `n` records with a TOC of last keys -/

/-- `toc_key[..m].cmp(&search[..m])`, `m = min(len, len)`. -/
def prefixCmp (t s : Key) : Ordering :=
  let m := min t.length s.length
  kcmp (t.take m) (s.take m)

structure Chunked (ε : Type) where
  entries : List ε
  toc : List Key
  rpb : Nat

/-- `ArchiveIndex::binary_search_key`. Outer `none` = the Rust slice `entries[start..end]` would
panic (start > end), excluded by `validate_toc_consistency`. -/
def Chunked.find {ε : Type} (key : ε → Key) (c : Chunked ε) (k : Key) : Option (Option ε) :=
  let ci : Option Nat :=
    match binarySearchBy (fun t => prefixCmp t k) c.toc with
    | .ok i => some i
    | .error i => if i ≥ c.toc.length then none else some i
  match ci with
  | none => some none
  | some ci =>
    let start := ci * c.rpb
    let stop := min (start + c.rpb) c.entries.length
    if start > stop then none else
    let chunk := (c.entries.drop start).take (stop - start)
    match binarySearchBy (fun e => kcmp (key e) k) chunk with
    | .ok i => some chunk[i]?
    | .error _ => some none

/-- split into blocks of `n` (last may be short) -/
def chunksOf {ε : Type} (n : Nat) : Nat → List ε → List (List ε)
  | 0, _ => []
  | fuel + 1, l => if l.isEmpty then [] else l.take n :: chunksOf n fuel (l.drop n)

end Cascette.Model.Paged
