/-
Model/Encoding — `EncodingBuilder::build` → `EncodingFile::build` → `EncodingFile::parse` →
`find_encoding / find_all_encodings / find_espec / batch_find_*`, at entry granularity.

What is kept from the bytes: the entry sizes that drive paging (22+16·k and 25), the `as u8`
key count, and the two end-of-page padding heuristics of the page parsers (a CKey entry whose count
byte is 0, an EKey entry with espec index 0xFFFFFFFF or all-zero key and espec index 0 stop the page).
The field codecs themselves (binrw) are tied by the correspondence run only.
-/
import Cascette.Model.Paged
namespace Cascette.Model.Encoding
open Cascette.Model.Paged

structure CEntry where
  ckey : Key
  size : Nat
  ekeys : List Key
deriving Repr, DecidableEq

structure EEntry where
  ekey : Key
  especIdx : Nat
  size : Nat
deriving Repr, DecidableEq

/-- bytes of a CKey page entry: count(1) + size(5) + ckey(16) + 16·k -/
def CEntry.bytes (e : CEntry) : Nat := 1 + 5 + 16 + 16 * e.ekeys.length
/-- bytes of an EKey page entry -/
def EEntry.bytes (_ : EEntry) : Nat := 16 + 4 + 5

/-- `CKeyPageEntry::read_options` reports padding when the count byte (`len as u8`) is 0. -/
def CEntry.isPad (e : CEntry) : Bool := e.ekeys.length % 256 == 0
/-- `EKeyPageEntry::read_options` padding sentinels. -/
def EEntry.isPad (e : EEntry) : Bool :=
  e.especIdx == 0xFFFFFFFF || (e.especIdx == 0 && e.ekey.all (· == 0))

/-- an ESpec string as its bytes (kernel-reducible, unlike `String`) -/
abbrev ESpec := List Nat

/-- `build_espec_table`: unique strings in first-occurrence order. -/
def especTable (especs : List ESpec) : List ESpec :=
  especs.foldl (fun t s => if t.contains s then t else t ++ [s]) []

structure Builder where
  cpage : Nat                      -- CKey page size in bytes (kb·1024)
  epage : Nat
  centries : List CEntry           -- insertion order
  eentries : List (Key × ESpec × Nat)

structure File where
  ctable : Table CEntry
  etable : Table EEntry
  especs : List ESpec

/-- page parser: entries up to the first one that looks like padding -/
def parsePage {ε : Type} (isPad : ε → Bool) (p : List ε) : List ε := p.takeWhile (fun e => !isPad e)

def sortBy {ε : Type} (key : ε → Key) (l : List ε) : List ε := l.mergeSort (fun a b => kle (key a) (key b))

/-- builder + serializer + parser. `none` = `EncodingFile::parse` fails (`header.validate`
rejects zero page counts / empty espec block). -/
def Builder.buildParse (b : Builder) : Option File :=
  let table := especTable (b.eentries.map (·.2.1))
  let cpages := paginate CEntry.bytes b.cpage (sortBy CEntry.ckey b.centries) [] 0
  let es : List EEntry := (sortBy (·.1) b.eentries).map fun (k, s, n) =>
    { ekey := k, especIdx := table.idxOf s, size := n }
  let epages := paginate EEntry.bytes b.epage es [] 0
  if cpages.isEmpty || epages.isEmpty || table.isEmpty then none else
  let ct := (mkTable CEntry.ckey cpages).map fun (f, p) => (f, parsePage CEntry.isPad p)
  let et := (mkTable EEntry.ekey epages).map fun (f, p) => (f, parsePage EEntry.isPad p)
  some { ctable := ct, etable := et, especs := table }

def File.findEncoding (f : File) (k : Key) : Option (Option (Option Key)) :=
  (f.ctable.find CEntry.ckey k).map (·.map (·.ekeys.head?))

def File.findAll (f : File) (k : Key) : Option (List Key) :=
  (f.ctable.find CEntry.ckey k).map fun r => match r with | some e => e.ekeys | none => []

def File.findEspec (f : File) (k : Key) : Option (Option ESpec) :=
  (f.etable.find EEntry.ekey k).map fun r => r.bind fun e => f.especs[e.especIdx]?

def File.batchEncodings (f : File) (ks : List Key) : List (Option CEntry) := f.ctable.batch CEntry.ckey ks
def File.batchEspecs (f : File) (ks : List Key) : List (Option EEntry) := f.etable.batch EEntry.ekey ks

end Cascette.Model.Encoding
