/-
Model/Manifest — executable model of the install / download / size manifest tag machinery of
`cascette-formats` AS WRITTEN (crates/cascette-formats/src/{install,download,size}/…):

* `InstallTag::{has_file, add_file, remove_file}` (`0x80 >> bit_offset`, MSB first),
* `InstallManifestBuilder` (add_tag, add_file, associate/remove_file_from_tag, remove_file with
  the bit-shifting loop, remove_tag with index renumbering, build + validate),
* `DownloadManifestBuilder` (versions 1–3, checksums, flags, base priority, add_file with the
  40-bit size guard, remove_file with its own bit-copy loop, remove_tag with map rebuild,
  validate, build),
* serialisation and parsing of both formats (NUL-terminated names, big-endian fields, masks),
* the queries (`get_files_for_tag(s)`, `get_files_for_any_tag`, `calculate_install_size`,
  `entries_by_tag(s)`, `calculate_size_for_tags`, `entries_by_priority(_range)`),
* `SizeManifestBuilder::{add_tag, tag_file, add_entry, build}` (mask part only).

`HashMap<String, usize>` is an association list with replace-on-insert (`nmInsert`), `Vec::resize`
is `resizeZ`, a Rust panic (index out of range) is the error `Err.panic`, never a default value.
Names and paths are byte strings. The parsers here are the byte-level readers; the
`String::from_utf8` checks the code makes inside the tag / entry readers, and the whole
`SizeManifestBuilder`, are modelled on top of this file in Model/ManifestExt.lean.
-/
import Cascette.Base.Bytes
namespace Cascette.Model.Manifest
open Cascette

/-! ### bit masks (install/tag.rs) -/

/-- `entry_count.div_ceil(8)` -/
def maskSize (n : Nat) : Nat := (n + 7) / 8

/-- `0x80 >> bit_offset` -/
def bitMask (k : Nat) : Byte := (0x80#8) >>> k

/-- `InstallTag::has_file` -/
def hasFile (m : Bytes) (i : Nat) : Bool :=
  match m[i / 8]? with
  | none => false
  | some b => (b &&& bitMask (i % 8)) != 0

/-- `Vec::resize(n, 0)` -/
def resizeZ (m : Bytes) (n : Nat) : Bytes := m.take n ++ List.replicate (n - m.length) 0

/-- `InstallTag::add_file` -/
def addFile (m : Bytes) (i : Nat) : Bytes :=
  let m' := if i / 8 ≥ m.length then resizeZ m (i / 8 + 1) else m
  m'.modify (i / 8) (· ||| bitMask (i % 8))

/-- `InstallTag::remove_file` -/
def removeFile (m : Bytes) (i : Nat) : Bytes :=
  if i / 8 ≥ m.length then m else m.modify (i / 8) (· &&& ~~~ bitMask (i % 8))

/-- `InstallTag::intersect` (byte-wise AND over the shorter length) -/
def intersect : Bytes → Bytes → Bytes
  | a :: as, b :: bs => (a &&& b) :: intersect as bs
  | _, _ => []

/-- `InstallTag::union` (byte-wise OR over the longer length, missing bytes are 0) -/
def union : Bytes → Bytes → Bytes
  | a :: as, b :: bs => (a ||| b) :: union as bs
  | [], bs => bs.map (0 ||| ·)
  | as, [] => as.map (· ||| 0)

structure Tag where
  name : Bytes
  typ : Nat
  mask : Bytes
deriving DecidableEq, Repr, Inhabited

/-- `TagType::from_u16(..).is_some()` -/
def validType (t : Nat) : Bool :=
  [0x0001, 0x0002, 0x0003, 0x0004, 0x0005, 0x0010, 0x0020, 0x0040, 0x0080, 0x0100, 0x0200, 0x0400,
   0x0800, 0x1000, 0x2000, 0x4000, 0x8000].contains t

/-! ### name map (`HashMap<String, usize>`) -/

abbrev NameMap := List (Bytes × Nat)

def nmLookup (m : NameMap) (k : Bytes) : Option Nat :=
  match m with
  | [] => none
  | (k', v) :: rest => if k' = k then some v else nmLookup rest k

def nmErase (m : NameMap) (k : Bytes) : NameMap := m.filter (fun p => p.1 ≠ k)

def nmInsert (m : NameMap) (k : Bytes) (v : Nat) : NameMap := (k, v) :: nmErase m k

inductive Err where
  | fileOob | tagNotFound | size | cksNotEnabled | missingCks | flagsNotEnabled | missingFlags
  | flagSize | flagsVersion | baseVersion | flagSizeUnsupported | version | maskSize | tooMany
  | panic
deriving DecidableEq, Repr

def Err.str : Err → String
  | .fileOob => "err:file-oob" | .tagNotFound => "err:tag-not-found" | .size => "err:size"
  | .cksNotEnabled => "err:cks-not-enabled" | .missingCks => "err:missing-cks"
  | .flagsNotEnabled => "err:flags-not-enabled" | .missingFlags => "err:missing-flags"
  | .flagSize => "err:flag-size" | .flagsVersion => "err:flags-version"
  | .baseVersion => "err:base-version" | .flagSizeUnsupported => "err:flag-size-unsupported"
  | .version => "err:version" | .maskSize => "err:mask-size" | .tooMany => "err:too-many"
  | .panic => "panic"

/-! ### install builder (install/builder.rs) -/

structure IEntry where
  path : Bytes
  key : Bytes
  size : Nat
  ftype : Option Nat
deriving DecidableEq, Repr

structure IBuilder where
  tags : List Tag
  entries : List IEntry
  names : NameMap
deriving Repr

def IBuilder.empty : IBuilder := ⟨[], [], []⟩

/-- resize every mask that is shorter than `sz` (the loop in both `add_file`s) -/
def growMasks (tags : List Tag) (sz : Nat) : List Tag :=
  tags.map fun t => if t.mask.length < sz then { t with mask := resizeZ t.mask sz } else t

def IBuilder.addTag (b : IBuilder) (name : Bytes) (typ : Nat) : IBuilder :=
  { b with
    names := nmInsert b.names name b.tags.length
    tags := b.tags ++ [⟨name, typ, List.replicate (maskSize b.entries.length) 0⟩] }

def IBuilder.addFile (b : IBuilder) (e : IEntry) : IBuilder :=
  let entries := b.entries ++ [e]
  { b with entries := entries, tags := growMasks b.tags (maskSize entries.length) }

/-- `self.tags[tag_index].<f>(file_index)`; an index outside `tags` is a Rust panic. -/
def modTag (tags : List Tag) (ti : Nat) (f : Bytes → Bytes) : Except Err (List Tag) :=
  if ti ≥ tags.length then .error .panic
  else .ok (tags.modify ti fun t => { t with mask := f t.mask })

def IBuilder.assoc (b : IBuilder) (i : Nat) (name : Bytes) : Except Err IBuilder :=
  if i ≥ b.entries.length then .error .fileOob else
  match nmLookup b.names name with
  | none => .error .tagNotFound
  | some ti =>
    match modTag b.tags ti (fun m => Manifest.addFile m i) with
    | .error e => .error e
    | .ok ts => .ok { b with tags := ts }

/-- `associate_file_with_tag_by_index` -/
def IBuilder.assocIdx (b : IBuilder) (i : Nat) (ti : Nat) : Except Err IBuilder :=
  if i ≥ b.entries.length then .error .fileOob else
  if ti ≥ b.tags.length then .error .tagNotFound else
  match modTag b.tags ti (fun m => Manifest.addFile m i) with
  | .error e => .error e
  | .ok ts => .ok { b with tags := ts }

/-- `remove_file_from_tag` -/
def IBuilder.dissoc (b : IBuilder) (i : Nat) (name : Bytes) : Except Err IBuilder :=
  if i ≥ b.entries.length then .error .fileOob else
  match nmLookup b.names name with
  | none => .error .tagNotFound
  | some ti =>
    match modTag b.tags ti (fun m => Manifest.removeFile m i) with
    | .error e => .error e
    | .ok ts => .ok { b with tags := ts }

/-- `remove_tag`: `Vec::remove`, map entry removed, larger indices decremented. -/
def IBuilder.removeTag (b : IBuilder) (name : Bytes) : Except Err IBuilder :=
  match nmLookup b.names name with
  | none => .error .tagNotFound
  | some ti =>
    if ti ≥ b.tags.length then .error .panic else
    .ok { b with
      tags := b.tags.eraseIdx ti
      names := (nmErase b.names name).map fun p => (p.1, if p.2 > ti then p.2 - 1 else p.2) }

/-- one new byte of install `remove_file`: the inner `for bit_idx in 0..8` loop. `total` is the
entry count AFTER the removal; the `break` at `old_file_idx >= total_bits` is modelled as "skip"
(the index only grows inside the loop, so every later iteration would break as well). -/
def instNewByte (old : Bytes) (k total byteIdx : Nat) : Byte :=
  (List.range 8).foldl (fun acc bitIdx =>
    let idx := byteIdx * 8 + bitIdx
    if idx ≥ total then acc else
    let o := if idx < k then idx else idx + 1
    if o < old.length * 8 ∧ hasFile old o = true then acc ||| bitMask bitIdx else acc) 0

/-- the new mask built by install `remove_file(k)` for one tag -/
def instRemoveMask (old : Bytes) (k total : Nat) : Bytes :=
  (List.range (maskSize total)).map (instNewByte old k total)

def IBuilder.removeFile (b : IBuilder) (k : Nat) : Except Err IBuilder :=
  if k ≥ b.entries.length then .error .fileOob else
  let entries := b.entries.eraseIdx k
  .ok { b with
    entries := entries
    tags := b.tags.map fun t => { t with mask := instRemoveMask t.mask k entries.length } }

/-- install manifest: header fields that are not derived from the vectors + tags + entries.
`v2 = some (content_key_size, entry_count_v2, unknown)` for version 2. -/
structure IManifest where
  version : Nat
  v2 : Option (Nat × Nat × Nat)
  tags : List Tag
  entries : List IEntry
deriving DecidableEq, Repr

/-- `build`: header counts (`u16`/`u32::try_from`), then `InstallManifest::validate`. -/
def IBuilder.build (b : IBuilder) : Except Err IManifest :=
  if b.tags.length ≥ 65536 then .error .tooMany else
  if b.entries.length ≥ 4294967296 then .error .tooMany else
  if b.tags.all (fun t => t.mask.length == maskSize b.entries.length) then
    .ok ⟨1, none, b.tags, b.entries⟩
  else .error .maskSize

/-! ### big-endian fields and serialisation -/

def be16 (n : Nat) : Bytes := [BitVec.ofNat 8 (n / 256), BitVec.ofNat 8 n]
def be32 (n : Nat) : Bytes :=
  [BitVec.ofNat 8 (n / 16777216), BitVec.ofNat 8 (n / 65536), BitVec.ofNat 8 (n / 256), BitVec.ofNat 8 n]
/-- `FileSize40::to_bytes` -/
def be40 (n : Nat) : Bytes :=
  [BitVec.ofNat 8 (n / 4294967296), BitVec.ofNat 8 (n / 16777216), BitVec.ofNat 8 (n / 65536),
   BitVec.ofNat 8 (n / 256), BitVec.ofNat 8 n]

/-- big-endian read (`from_bytes`, `u16/u32::read_options(Big)`) -/
def rdBe (bs : Bytes) : Nat := bs.foldl (fun a b => a * 256 + b.toNat) 0

def serTag (t : Tag) : Bytes := t.name ++ [0] ++ be16 t.typ ++ t.mask

def serIEntry (e : IEntry) : Bytes :=
  e.path ++ [0] ++ e.key ++ be32 e.size ++
    (match e.ftype with | some f => [BitVec.ofNat 8 f] | none => [])

def serInstall (m : IManifest) : Bytes :=
  [0x49, 0x4E, BitVec.ofNat 8 m.version, 16] ++ be16 m.tags.length ++ be32 m.entries.length ++
  (if m.version ≥ 2 then
    (match m.v2 with
     | some (cks, ec2, unk) => [BitVec.ofNat 8 cks] ++ be32 ec2 ++ [BitVec.ofNat 8 unk]
     | none => [16] ++ be32 0 ++ [0])
   else []) ++
  (m.tags.map serTag).flatten ++ (m.entries.map serIEntry).flatten

/-! ### parsing -/

/-- NUL-terminated string: bytes up to the first 0, rest after it; `none` at end of input. -/
def readCStr : Bytes → Option (Bytes × Bytes)
  | [] => none
  | b :: rest =>
    if b = 0 then some ([], rest) else
    match readCStr rest with
    | some (s, r) => some (b :: s, r)
    | none => none

/-- `read_exact` of `n` bytes -/
def readN (n : Nat) (bs : Bytes) : Option (Bytes × Bytes) :=
  if bs.length < n then none else some (bs.take n, bs.drop n)

/-- `InstallTag::read_options` with `entry_count = n` -/
def parseTag (n : Nat) (bs : Bytes) : Option (Tag × Bytes) :=
  match readCStr bs with
  | none => none
  | some (name, r1) =>
    match readN 2 r1 with
    | none => none
    | some (tb, r2) =>
      if validType (rdBe tb) then
        match readN (maskSize n) r2 with
        | none => none
        | some (mask, r3) => some (⟨name, rdBe tb, mask⟩, r3)
      else none

/-- `for _ in 0..count { items.push(read(..)?) }` -/
def parseMany {α : Type} (p : Bytes → Option (α × Bytes)) : Nat → Bytes → Option (List α × Bytes)
  | 0, bs => some ([], bs)
  | c + 1, bs =>
    match p bs with
    | none => none
    | some (x, r) =>
      match parseMany p c r with
      | none => none
      | some (xs, r') => some (x :: xs, r')

/-- `InstallFileEntry::read_options` with `(ckey_length = 16, version)` -/
def parseIEntry (version : Nat) (bs : Bytes) : Option (IEntry × Bytes) :=
  match readCStr bs with
  | none => none
  | some (path, r1) =>
    match readN 16 r1 with
    | none => none
    | some (key, r2) =>
      match readN 4 r2 with
      | none => none
      | some (sz, r3) =>
        if version ≥ 2 then
          match readN 1 r3 with
          | none => none
          | some (ft, r4) => some (⟨path, key, rdBe sz, some (rdBe ft)⟩, r4)
        else some (⟨path, key, rdBe sz, none⟩, r3)

/-- `InstallManifest::parse` (header read + validate, tags, entries; trailing bytes ignored; the
final `validate` cannot fail after a successful read because the counts and mask sizes are the
header's). -/
def parseInstall (bs : Bytes) : Option IManifest :=
  match readN 10 bs with
  | none => none
  | some (h, r0) =>
    match h with
    | [m0, m1, ver, ckl, t0, t1, e0, e1, e2, e3] =>
      if m0 ≠ 0x49 ∨ m1 ≠ 0x4E then none else
      let version := ver.toNat
      let tagCount := rdBe [t0, t1]
      let entryCount := rdBe [e0, e1, e2, e3]
      let ext : Option (Option (Nat × Nat × Nat) × Bytes) :=
        if version ≥ 2 then
          match readN 6 r0 with
          | some ([c, a0, a1, a2, a3, u], r) => some (some (c.toNat, rdBe [a0, a1, a2, a3], u.toNat), r)
          | _ => none
        else some (none, r0)
      match ext with
      | none => none
      | some (v2, r1) =>
        if version = 0 ∨ version > 2 then none else
        if ckl ≠ 16 then none else
        match parseMany (parseTag entryCount) tagCount r1 with
        | none => none
        | some (tags, r2) =>
          match parseMany (parseIEntry version) entryCount r2 with
          | none => none
          | some (entries, _) => some ⟨version, v2, tags, entries⟩
    | _ => none

/-! ### queries (install/manifest.rs) -/

/-- `self.tags.iter().find(|t| t.name == name)` -/
def findTag (tags : List Tag) (name : Bytes) : Option Tag := tags.find? (fun t => t.name = name)

/-- `entries.iter().enumerate().filter(|(i, _)| p(i)).collect()` starting at index `i` -/
def selectIdx {α : Type} (p : Nat → Bool) : Nat → List α → List (Nat × α)
  | _, [] => []
  | i, e :: es => if p i then (i, e) :: selectIdx p (i + 1) es else selectIdx p (i + 1) es

/-- `names.iter().filter_map(|n| find_tag(n)).collect()` -/
def resolve (tags : List Tag) (names : List Bytes) : List Tag := names.filterMap (findTag tags)

def IManifest.filesForTag (m : IManifest) (name : Bytes) : List (Nat × IEntry) :=
  match findTag m.tags name with
  | none => []
  | some t => selectIdx (hasFile t.mask) 0 m.entries

/-- `get_files_for_tags` (all-of). An empty request or an unknown name gives the empty list. -/
def IManifest.allOf (m : IManifest) (names : List Bytes) : List (Nat × IEntry) :=
  let ts := resolve m.tags names
  if ts.isEmpty ∨ ts.length ≠ names.length then []
  else selectIdx (fun i => ts.all fun t => hasFile t.mask i) 0 m.entries

/-- `get_files_for_any_tag` (any-of); unknown names are skipped. -/
def IManifest.anyOf (m : IManifest) (names : List Bytes) : List (Nat × IEntry) :=
  let ts := resolve m.tags names
  if ts.isEmpty then []
  else selectIdx (fun i => ts.any fun t => hasFile t.mask i) 0 m.entries

def IManifest.installSize (m : IManifest) (names : List Bytes) : Nat :=
  ((m.allOf names).map fun p => p.2.size).sum

def IManifest.totalSize (m : IManifest) : Nat := (m.entries.map (·.size)).sum

/-! ### download builder (download/builder.rs) -/

structure DEntry where
  key : Bytes
  size : Nat
  prio : Int
  cks : Option Nat
  flags : Option Bytes
deriving DecidableEq, Repr

structure DBuilder where
  version : Nat
  entries : List DEntry
  tags : List Tag
  hasCks : Bool
  flagSize : Nat
  basePrio : Int
  names : NameMap
deriving Repr

def DBuilder.new (version : Nat) : Except Err DBuilder :=
  if version < 1 ∨ version > 3 then .error .version
  else .ok ⟨version, [], [], false, 0, 0, []⟩

def DBuilder.withChecksums (b : DBuilder) (en : Bool) : DBuilder := { b with hasCks := en }

def DBuilder.withFlags (b : DBuilder) (fs : Nat) : Except Err DBuilder :=
  if b.version < 2 ∧ fs > 0 then .error .flagsVersion else
  if fs > 4 then .error .flagSizeUnsupported else .ok { b with flagSize := fs }

def DBuilder.withBase (b : DBuilder) (bp : Int) : Except Err DBuilder :=
  if b.version < 3 ∧ bp ≠ 0 then .error .baseVersion else .ok { b with basePrio := bp }

/-- `FileSize40::MAX` -/
def max40 : Nat := 0xFFFFFFFFFF

def DBuilder.addFile (b : DBuilder) (key : Bytes) (size : Nat) (prio : Int) : Except Err DBuilder :=
  if size > max40 then .error .size else
  let e : DEntry := ⟨key, size, prio, none,
    if b.flagSize > 0 then some (List.replicate b.flagSize 0) else none⟩
  let entries := b.entries ++ [e]
  .ok { b with entries := entries, tags := growMasks b.tags (maskSize entries.length) }

def DBuilder.addTag (b : DBuilder) (name : Bytes) (typ : Nat) : DBuilder :=
  { b with
    names := nmInsert b.names name b.tags.length
    tags := b.tags ++ [⟨name, typ, List.replicate (maskSize b.entries.length) 0⟩] }

def DBuilder.setChecksum (b : DBuilder) (i : Nat) (c : Nat) : Except Err DBuilder :=
  if !b.hasCks then .error .cksNotEnabled else
  if i ≥ b.entries.length then .error .fileOob else
  .ok { b with entries := b.entries.modify i fun e => { e with cks := some c } }

def DBuilder.setFlags (b : DBuilder) (i : Nat) (f : Bytes) : Except Err DBuilder :=
  if b.flagSize = 0 then .error .flagsNotEnabled else
  if f.length ≠ b.flagSize then .error .flagSize else
  if i ≥ b.entries.length then .error .fileOob else
  .ok { b with entries := b.entries.modify i fun e => { e with flags := some f } }

def DBuilder.assoc (b : DBuilder) (i : Nat) (name : Bytes) : Except Err DBuilder :=
  if i ≥ b.entries.length then .error .fileOob else
  match nmLookup b.names name with
  | none => .error .tagNotFound
  | some ti =>
    match modTag b.tags ti (fun m => Manifest.addFile m i) with
    | .error e => .error e
    | .ok ts => .ok { b with tags := ts }

def DBuilder.dissoc (b : DBuilder) (i : Nat) (name : Bytes) : Except Err DBuilder :=
  if i ≥ b.entries.length then .error .fileOob else
  match nmLookup b.names name with
  | none => .error .tagNotFound
  | some ti =>
    match modTag b.tags ti (fun m => Manifest.removeFile m i) with
    | .error e => .error e
    | .ok ts => .ok { b with tags := ts }

/-- `new_mask[byte] |= 0x80 >> bit` after `while new_mask.len() <= byte { push(0) }` -/
def setBitGrow (m : Bytes) (j : Nat) : Bytes :=
  let m' := if m.length ≤ j / 8 then resizeZ m (j / 8 + 1) else m
  m'.modify (j / 8) (· ||| bitMask (j % 8))

/-- download `remove_file(k)`: one pass over all `8 * old.len()` original bit positions with the
running output position `bit_index`; the removed position is skipped (`continue`), a set bit is
copied to `bit_index`. Both arms of the Rust `if original_index > file_index` read the same bit
(`old_byte = byte_index`), so they are one arm here. State = (new mask, bit_index). -/
def dlRemoveStep (old : Bytes) (k : Nat) (st : Bytes × Nat) (orig : Nat) : Bytes × Nat :=
  if orig = k then st
  else if hasFile old orig then (setBitGrow st.1 st.2, st.2 + 1) else (st.1, st.2 + 1)

/-- the new mask of one tag; `total` is the entry count AFTER the removal (final `resize`). -/
def dlRemoveMask (old : Bytes) (k total : Nat) : Bytes :=
  resizeZ ((List.range (old.length * 8)).foldl (dlRemoveStep old k) ([], 0)).1 (maskSize total)

/-- `remove_file(&mut self) -> bool` -/
def DBuilder.removeFile (b : DBuilder) (k : Nat) : DBuilder × Bool :=
  if k ≥ b.entries.length then (b, false) else
  let entries := b.entries.eraseIdx k
  ({ b with
     entries := entries
     tags := b.tags.map fun t => { t with mask := dlRemoveMask t.mask k entries.length } }, true)

/-- rebuild of `tag_name_to_index`: insert every `(name, i)` in order (later wins) -/
def rebuildNames : List Tag → Nat → NameMap → NameMap
  | [], _, m => m
  | t :: ts, i, m => rebuildNames ts (i + 1) (nmInsert m t.name i)

/-- `remove_tag(&mut self) -> bool` -/
def DBuilder.removeTag (b : DBuilder) (name : Bytes) : Except Err (DBuilder × Bool) :=
  match nmLookup b.names name with
  | none => .ok (b, false)
  | some ti =>
    if ti ≥ b.tags.length then .error .panic else
    let tags := b.tags.eraseIdx ti
    .ok ({ b with tags := tags, names := rebuildNames tags 0 [] }, true)

/-- first failing entry of `DownloadManifestBuilder::validate` / `DownloadFileEntry::validate` -/
def dlEntryCheck (hasCks : Bool) (flagSize : Nat) (e : DEntry) : Option Err :=
  if hasCks ∧ e.cks.isNone then some .missingCks else
  if !hasCks ∧ e.cks.isSome then some .cksNotEnabled else
  if flagSize > 0 ∧ e.flags.isNone then some .missingFlags else
  if flagSize = 0 ∧ e.flags.isSome then some .flagsNotEnabled else
  match e.flags with
  | some f => if f.length ≠ flagSize then some .flagSize else none
  | none => none

def firstErr {α : Type} (f : α → Option Err) : List α → Option Err
  | [] => none
  | x :: xs => match f x with | some e => some e | none => firstErr f xs

/-- download manifest: header fields not derived from the vectors + entries + tags -/
structure DManifest where
  version : Nat
  hasCks : Bool
  flagSize : Nat
  basePrio : Int
  entries : List DEntry
  tags : List Tag
deriving DecidableEq, Repr

/-- `DownloadManifestBuilder::validate` then header construction (`as u32` / `as u16` truncate,
which `DownloadManifest::validate` then reports as a count mismatch). -/
def DBuilder.build (b : DBuilder) : Except Err DManifest :=
  if b.version < 2 ∧ b.flagSize > 0 then .error .flagsVersion else
  if b.version < 3 ∧ b.basePrio ≠ 0 then .error .baseVersion else
  match firstErr (dlEntryCheck b.hasCks b.flagSize) b.entries with
  | some e => .error e
  | none =>
    if !(b.tags.all fun t => t.mask.length == maskSize b.entries.length) then .error .maskSize else
    if b.entries.length ≥ 4294967296 ∨ b.tags.length ≥ 65536 then .error .tooMany else
    .ok ⟨b.version, b.hasCks, if b.version ≥ 2 then b.flagSize else 0,
         if b.version ≥ 3 then b.basePrio else 0, b.entries, b.tags⟩

/-- `i8` → its byte -/
def i8Byte (p : Int) : Byte := BitVec.ofInt 8 p
/-- byte → `i8` -/
def byteI8 (b : Byte) : Int := b.toInt

def serDEntry (hasCks : Bool) (flagSize : Nat) (e : DEntry) : Bytes :=
  e.key ++ be40 e.size ++ [i8Byte e.prio] ++
  (if hasCks then (match e.cks with | some c => be32 c | none => []) else []) ++
  (if flagSize > 0 then (match e.flags with | some f => f | none => []) else [])

def serDownload (m : DManifest) : Bytes :=
  [0x44, 0x4C, BitVec.ofNat 8 m.version, 16, (if m.hasCks then 1 else 0)] ++
  be32 m.entries.length ++ be16 m.tags.length ++
  (if m.version ≥ 2 then [BitVec.ofNat 8 m.flagSize] else []) ++
  (if m.version ≥ 3 then [i8Byte m.basePrio, 0, 0, 0] else []) ++
  (m.entries.map (serDEntry m.hasCks m.flagSize)).flatten ++ (m.tags.map serTag).flatten

def parseDEntry (hasCks : Bool) (flagSize : Nat) (bs : Bytes) : Option (DEntry × Bytes) :=
  match readN 16 bs with
  | none => none
  | some (key, r1) =>
    match readN 5 r1 with
    | none => none
    | some (sz, r2) =>
      match r2 with
      | [] => none
      | pb :: r3 =>
        let ck : Option (Option Nat × Bytes) :=
          if hasCks then (match readN 4 r3 with | some (c, r) => some (some (rdBe c), r) | none => none)
          else some (none, r3)
        match ck with
        | none => none
        | some (cks, r4) =>
          if flagSize > 0 then
            match readN flagSize r4 with
            | none => none
            | some (f, r5) => some (⟨key, rdBe sz, byteI8 pb, cks, some f⟩, r5)
          else some (⟨key, rdBe sz, byteI8 pb, cks, none⟩, r4)

/-- `DownloadManifest::parse` (entries first, then tags) -/
def parseDownload (bs : Bytes) : Option DManifest :=
  match readN 11 bs with
  | none => none
  | some (h, r0) =>
    match h with
    | [m0, m1, ver, ekl, hc, e0, e1, e2, e3, t0, t1] =>
      if m0 ≠ 0x44 ∨ m1 ≠ 0x4C then none else
      let version := ver.toNat
      let entryCount := rdBe [e0, e1, e2, e3]
      let tagCount := rdBe [t0, t1]
      let ext : Option ((Nat × Int) × Bytes) :=
        if version = 1 then some ((0, 0), r0)
        else if version = 2 then
          (match r0 with | fs :: r => some ((fs.toNat, 0), r) | [] => none)
        else if version = 3 then
          (match r0 with | fs :: bp :: _ :: _ :: _ :: r => some ((fs.toNat, byteI8 bp), r) | _ => none)
        else none
      match ext with
      | none => none
      | some ((flagSize, basePrio), r1) =>
        if ekl ≠ 16 then none else
        if flagSize > 4 then none else
        let hasCks := hc ≠ 0
        match parseMany (parseDEntry hasCks flagSize) entryCount r1 with
        | none => none
        | some (entries, r2) =>
          match parseMany (parseTag entryCount) tagCount r2 with
          | none => none
          | some (tags, _) => some ⟨version, hasCks, flagSize, basePrio, entries, tags⟩
    | _ => none

/-! ### download queries (download/manifest.rs, entry.rs, priority.rs) -/

def DManifest.byTag (m : DManifest) (name : Bytes) : List (Nat × DEntry) :=
  match findTag m.tags name with
  | none => []
  | some t => selectIdx (hasFile t.mask) 0 m.entries

/-- `entries_by_tags` (all-of): the empty request selects every entry. -/
def DManifest.byTags (m : DManifest) (names : List Bytes) : List (Nat × DEntry) :=
  if names.isEmpty then selectIdx (fun _ => true) 0 m.entries else
  let ts := resolve m.tags names
  if ts.length ≠ names.length then []
  else selectIdx (fun i => ts.all fun t => hasFile t.mask i) 0 m.entries

def DManifest.sizeForTags (m : DManifest) (names : List Bytes) : Nat :=
  ((m.byTags names).map fun p => p.2.size).sum

def DManifest.totalSize (m : DManifest) : Nat := (m.entries.map (·.size)).sum

/-- `i8::saturating_sub` -/
def satSub8 (a b : Int) : Int :=
  let d := a - b
  if d < -128 then -128 else if d > 127 then 127 else d

/-- `effective_priority` -/
def effPrio (m : DManifest) (e : DEntry) : Int :=
  if m.version = 3 then satSub8 e.prio m.basePrio else e.prio

/-- `PriorityCategory::from_priority` as 0 Critical, 1 Essential, 2 High, 3 Normal, 4 Low -/
def prioCat (p : Int) : Nat :=
  if p < 0 then 0 else if p = 0 then 1 else if p ≤ 2 then 2 else if p ≤ 5 then 3 else 4

/-- `entries.iter().enumerate().filter(|(_, e)| q(e)).collect()` -/
def selectEnt {α : Type} (q : α → Bool) : Nat → List α → List (Nat × α)
  | _, [] => []
  | i, e :: es => if q e then (i, e) :: selectEnt q (i + 1) es else selectEnt q (i + 1) es

def DManifest.byPriority (m : DManifest) (cat : Nat) : List (Nat × DEntry) :=
  selectEnt (fun e => prioCat (effPrio m e) == cat) 0 m.entries

def DManifest.byPriorityRange (m : DManifest) (lo hi : Int) : List (Nat × DEntry) :=
  selectEnt (fun e => decide (lo ≤ effPrio m e) && decide (effPrio m e ≤ hi)) 0 m.entries

def DManifest.essentialSize (m : DManifest) : Nat :=
  ((m.entries.filter fun e => decide (effPrio m e ≤ 0)).map (·.size)).sum

/-! ### size manifest builder, mask part (size/builder.rs) -/

/-- `tag_file(tag_index, file_index)`: grow to `(file_index+1).div_ceil(8)`, then `add_file`. -/
def sizeTagFile (tags : List Tag) (ti fi : Nat) : Except Err (List Tag) :=
  modTag tags ti fun m =>
    let need := maskSize (fi + 1)
    addFile (if m.length < need then resizeZ m need else m) fi

/-- `build`: every mask is `resize`d (grown or truncated) to `entry_count.div_ceil(8)`. -/
def sizeBuildTags (tags : List Tag) (n : Nat) : List Tag :=
  tags.map fun t => { t with mask := resizeZ t.mask (maskSize n) }

end Cascette.Model.Manifest
