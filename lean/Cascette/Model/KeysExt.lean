/-
Model/KeysExt — further string → path / URL / cache-key builders of the C20 property, as written in
  crates/cascette-cache/src/key.rs                 (every PUBLIC CONSTRUCTOR of the ten typed keys; the
                                                    memoised `cached_key` behind `as_cache_key`)
  crates/cascette-protocol/src/optimized.rs        (`format_cache_key(prefix, endpoint)`)
  crates/cascette-protocol/src/cdn/range.rs        (`RangeDownloader::download_archive_content` URL)
  crates/cascette-cache/src/disk_cache.rs          (`DiskCache::remove` of a key that is not indexed)
  crates/cascette-client-storage/src/storage/segment.rs (`segment_data_path`)
  crates/cascette-client-storage/src/index/mod.rs  (temporary name of an index file)
Kept apart from Model/CacheKeys so that the files other properties import stay untouched.
-/
import Cascette.Model.CacheKeys
import Cascette.Model.DiskFs
namespace Cascette.Model.KeysExt
open Cascette.Model.Path Cascette.Model.CacheKeys Cascette.Model.DiskFs

/-! ### the public constructors of key.rs, one Lean constructor each -/

inductive Ctor where
  /-- `RibbitKey::new(endpoint, region)` -/
  | ribbitNew (endpoint region : Str)
  /-- `RibbitKey::with_product(endpoint, region, product)` -/
  | ribbitWithProduct (endpoint region product : Str)
  /-- `ConfigKey::new(config_type, hash)` -/
  | configNew (configType hash : Str)
  /-- `BlteKey::new(encoding_key)` -/
  | blteNew (ekey : Str)
  /-- `BlteKey::with_block(encoding_key, block_index: u32)` -/
  | blteWithBlock (ekey : Str) (block : Nat)
  /-- `ContentCacheKey::new(content_key)` -/
  | contentNew (ckey : Str)
  /-- `ArchiveIndexKey::new(archive_name, index_hash)` -/
  | archiveIndexNew (archiveName indexHash : Str)
  /-- `ManifestKey::new(manifest_type, content_key)` -/
  | manifestNew (manifestType ckey : Str)
  /-- `ManifestKey::with_version(manifest_type, content_key, version)` -/
  | manifestWithVersion (manifestType ckey version : Str)
  /-- `RootFileKey::new_raw(content_key)` -/
  | rootNewRaw (ckey : Str)
  /-- `RootFileKey::new_parsed(content_key)` -/
  | rootNewParsed (ckey : Str)
  /-- `RootFileKey::with_version(content_key, is_parsed, version: u8)` -/
  | rootWithVersion (ckey : Str) (parsed : Bool) (version : Nat)
  /-- `EncodingFileKey::new_raw(encoding_key)` -/
  | encodingNewRaw (ekey : Str)
  /-- `EncodingFileKey::new_parsed(encoding_key)` -/
  | encodingNewParsed (ekey : Str)
  /-- `EncodingFileKey::with_page(encoding_key, page: u32, is_parsed)` -/
  | encodingWithPage (ekey : Str) (page : Nat) (parsed : Bool)
  /-- `ArchiveRangeKey::new(archive_id, start_offset: u64, length: u32)` -/
  | archiveRangeNew (archiveId : Str) (start length : Nat)
  /-- `BlteBlockKey::new_raw(content_key, block_index: u32)` -/
  | blteBlockNewRaw (ckey : Str) (block : Nat)
  /-- `BlteBlockKey::new_decompressed(content_key, block_index: u32)` -/
  | blteBlockNewDecompressed (ckey : Str) (block : Nat)
  deriving DecidableEq, Repr

/-- the field values the constructor stores (the struct literal in its body). -/
def Ctor.key : Ctor → Key
  | .ribbitNew e r => .ribbit e r none
  | .ribbitWithProduct e r p => .ribbit e r (some p)
  | .configNew t h => .config t h
  | .blteNew e => .blte e none
  | .blteWithBlock e b => .blte e (some b)
  | .contentNew c => .content c
  | .archiveIndexNew n h => .archiveIndex n h
  | .manifestNew t c => .manifest t c none
  | .manifestWithVersion t c v => .manifest t c (some v)
  | .rootNewRaw c => .rootFile c false none
  | .rootNewParsed c => .rootFile c true none
  | .rootWithVersion c p v => .rootFile c p (some v)
  | .encodingNewRaw e => .encodingFile e none false
  | .encodingNewParsed e => .encodingFile e none true
  | .encodingWithPage e pg p => .encodingFile e (some pg) p
  | .archiveRangeNew id s l => .archiveRange id s l
  | .blteBlockNewRaw c b => .blteBlock c b false
  | .blteBlockNewDecompressed c b => .blteBlock c b true

/-- the constructor call that produces given field values (every `Key` is reachable). -/
def Ctor.ofKey : Key → Ctor
  | .ribbit e r none => .ribbitNew e r
  | .ribbit e r (some p) => .ribbitWithProduct e r p
  | .config t h => .configNew t h
  | .blte e none => .blteNew e
  | .blte e (some b) => .blteWithBlock e b
  | .content c => .contentNew c
  | .archiveIndex n h => .archiveIndexNew n h
  | .manifest t c none => .manifestNew t c
  | .manifest t c (some v) => .manifestWithVersion t c v
  | .rootFile c p (some v) => .rootWithVersion c p v
  | .rootFile c false none => .rootNewRaw c
  | .rootFile c true none => .rootNewParsed c
  | .encodingFile e (some pg) p => .encodingWithPage e pg p
  | .encodingFile e none false => .encodingNewRaw e
  | .encodingFile e none true => .encodingNewParsed e
  | .archiveRange id s l => .archiveRangeNew id s l
  | .blteBlock c b false => .blteBlockNewRaw c b
  | .blteBlock c b true => .blteBlockNewDecompressed c b

/-! ### the memoised key text (`cached_key: OnceLock<String>` next to PUBLIC fields) -/

/-- a typed key value: its (public, assignable) fields and the memo `as_cache_key` fills. -/
structure Memo where
  key : Key
  cached : Option Str
  deriving DecidableEq, Repr

/-- what every constructor returns: `cached_key: OnceLock::new()`. -/
def Memo.new (c : Ctor) : Memo := { key := c.key, cached := none }

/-- `as_cache_key(&self)`: `cached_key.get_or_init(|| format…)`. -/
def Memo.asCacheKey (m : Memo) : Str × Memo :=
  match m.cached with
  | some t => (t, m)
  | none => (cacheKey m.key, { m with cached := some (cacheKey m.key) })

/-- assignment to public fields (`k.region = …`): the memo is not reset.  `Clone` copies both
parts, `PartialEq`/`Hash` look at `key` only. -/
def Memo.setFields (m : Memo) (k : Key) : Memo := { m with key := k }

/-- the memo is empty or holds the text of the current fields. -/
def Memo.fresh (m : Memo) : Prop := m.cached = none ∨ m.cached = some (cacheKey m.key)

/-! ### `cascette_protocol::format_cache_key(prefix, endpoint)` (optimized.rs) -/

/-- `buf.push_str(prefix); buf.push(':'); buf.push_str(endpoint)`. -/
def protoCacheKey (pfx endpoint : Str) : Str := pfx ++ ':' :: endpoint

/-! ### `RangeDownloader::download_archive_content` (cdn/range.rs) -/

/-- `{path}[/{product_path}]/data/{name[0..2]}/{name[2..4]}/{name}` — the CDN path is used as it
is (no `trim_end_matches`), the scheme is always "https". -/
def archiveContentTail (path : Str) (ppath : Option Str) (name : Str) : Option Str :=
  (slice24 name).map fun (a, b) => joinSep '/' ([path] ++ optMap id ppath ++ [sData, a, b, name])

/-- with the `fix:` name check in front of the slicing (same rule as `check_archive_key`). -/
def archiveContentUrl (host path : Str) (ppath : Option Str) (name : Str) : Outcome Str :=
  if !archiveKeyOk name then .invalidKey
  else match archiveContentTail path ppath name with
    | some t => .ok (sHttps ++ [':', '/', '/'] ++ host ++ '/' :: t)
    | none => .panic

/-- the code before the fix. -/
def archiveContentUrlPinned (host path : Str) (ppath : Option Str) (name : Str) : Outcome Str :=
  match archiveContentTail path ppath name with
  | some t => .ok (sHttps ++ [':', '/', '/'] ++ host ++ '/' :: t)
  | none => .panic

/-- `CdnClient::download_range`: `format!("bytes={}-{}", offset, offset + length - 1)`. -/
def rangeHeader (offset length : Nat) : Str :=
  ['b', 'y', 't', 'e', 's', '='] ++ dec offset ++ '-' :: dec (rangeEnd offset length)

/-! ### `DiskCache::remove` of a key that is not in the index (disk_cache.rs) -/

/-- `file_path.is_file() && remove_file(&file_path)` with `file_path = get_file_path(key)`: the
file that is deleted, if any.  `is_file` resolves the path exactly like the `open` of a cold
`get` (a trailing "/" or "/." never names a regular file). -/
def removeCold (fs : Fs) (root : APath) (sub : List Comp) (key : Str) : Option APath :=
  getCold fs root sub key

/-! ### fixed-format names of the local storage (segment.rs, index/mod.rs) -/

/-- `{n:03}`: decimal, zero-padded to at least three digits. -/
def pad3 (n : Nat) : Str := List.replicate (3 - (dec n).length) '0' ++ dec n

/-- `segment_data_path(base_dir, segment_index: u16)`: `base_dir.join(format!("data.{:03}"))`. -/
def segmentDataPath (base : APath) (idx : Nat) : APath := base ++ [sData ++ '.' :: pad3 idx]

/-- temporary file of `IndexManager::save_index`: `path.with_extension("tmp")` of
`base/{bucket:02x}{version:08x}.idx`. -/
def indexTmpPath (base : APath) (bucket version : Nat) : APath :=
  withExtTmp (base ++ [indexFileName bucket version])

end Cascette.Model.KeysExt
