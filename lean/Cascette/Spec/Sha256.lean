/-
Spec/Sha256 — FIPS 180-4 SHA-256, transcribed (padding §5.1.1, message schedule and compression
§6.2.2, big-endian words).  Executable.  The C07 theorems treat every checksum as an arbitrary
function `H`; the C07 driver instantiates `H` with this function for the V1 `Checksum:` line so the
model accepts exactly the responses the real code accepts.  Checked against the FIPS 180-4 /
NIST example vectors ("abc", "") by kernel evaluation below (tests of the transcription) and against
the `sha2` crate by the correspondence run.
-/
import Cascette.Base.Bytes
namespace Cascette.Spec.Sha256
open Cascette

/-- §4.2.2 round constants. -/
def K : Array W32 := #[
  0x428a2f98, 0x71374491, 0xb5c0fbcf, 0xe9b5dba5, 0x3956c25b, 0x59f111f1, 0x923f82a4, 0xab1c5ed5,
  0xd807aa98, 0x12835b01, 0x243185be, 0x550c7dc3, 0x72be5d74, 0x80deb1fe, 0x9bdc06a7, 0xc19bf174,
  0xe49b69c1, 0xefbe4786, 0x0fc19dc6, 0x240ca1cc, 0x2de92c6f, 0x4a7484aa, 0x5cb0a9dc, 0x76f988da,
  0x983e5152, 0xa831c66d, 0xb00327c8, 0xbf597fc7, 0xc6e00bf3, 0xd5a79147, 0x06ca6351, 0x14292967,
  0x27b70a85, 0x2e1b2138, 0x4d2c6dfc, 0x53380d13, 0x650a7354, 0x766a0abb, 0x81c2c92e, 0x92722c85,
  0xa2bfe8a1, 0xa81a664b, 0xc24b8b70, 0xc76c51a3, 0xd192e819, 0xd6990624, 0xf40e3585, 0x106aa070,
  0x19a4c116, 0x1e376c08, 0x2748774c, 0x34b0bcb5, 0x391c0cb3, 0x4ed8aa4a, 0x5b9cca4f, 0x682e6ff3,
  0x748f82ee, 0x78a5636f, 0x84c87814, 0x8cc70208, 0x90befffa, 0xa4506ceb, 0xbef9a3f7, 0xc67178f2]

/-- §5.3.3 initial hash value. -/
def H0 : List W32 :=
  [0x6a09e667, 0xbb67ae85, 0x3c6ef372, 0xa54ff53a, 0x510e527f, 0x9b05688c, 0x1f83d9ab, 0x5be0cd19]

def rotr (x : W32) (n : Nat) : W32 := x.rotateRight n
def bsig0 (x : W32) : W32 := rotr x 2 ^^^ rotr x 13 ^^^ rotr x 22
def bsig1 (x : W32) : W32 := rotr x 6 ^^^ rotr x 11 ^^^ rotr x 25
def ssig0 (x : W32) : W32 := rotr x 7 ^^^ rotr x 18 ^^^ (x >>> 3)
def ssig1 (x : W32) : W32 := rotr x 17 ^^^ rotr x 19 ^^^ (x >>> 10)
def ch (x y z : W32) : W32 := (x &&& y) ^^^ (~~~x &&& z)
def maj (x y z : W32) : W32 := (x &&& y) ^^^ (x &&& z) ^^^ (y &&& z)

/-- big-endian 32-bit word. -/
def be32 (b0 b1 b2 b3 : Byte) : W32 :=
  BitVec.ofNat 32 (16777216 * b0.toNat + 65536 * b1.toNat + 256 * b2.toNat + b3.toNat)

def toBe32 (w : W32) : Bytes := [byteOf w 3, byteOf w 2, byteOf w 1, byteOf w 0]

/-- sixteen big-endian words of a 64-byte block. -/
def words : Bytes → List W32
  | b0 :: b1 :: b2 :: b3 :: rest => be32 b0 b1 b2 b3 :: words rest
  | _ => []

/-- §6.2.2 step 1: extend the schedule to 64 words. -/
def schedule (w : Array W32) : Array W32 :=
  (List.range 48).foldl (fun w i =>
    let t := i + 16
    w.push (ssig1 (w.getD (t - 2) 0) + w.getD (t - 7) 0 + ssig0 (w.getD (t - 15) 0) + w.getD (t - 16) 0)) w

structure St where
  a : W32
  b : W32
  c : W32
  d : W32
  e : W32
  f : W32
  g : W32
  h : W32
deriving DecidableEq, Repr

def round (w : Array W32) (s : St) (t : Nat) : St :=
  let t1 := s.h + bsig1 s.e + ch s.e s.f s.g + K.getD t 0 + w.getD t 0
  let t2 := bsig0 s.a + maj s.a s.b s.c
  ⟨t1 + t2, s.a, s.b, s.c, s.d + t1, s.e, s.f, s.g⟩

def block (s : St) (blk : Bytes) : St :=
  let w := schedule (words blk).toArray
  let r := (List.range 64).foldl (round w) s
  ⟨s.a + r.a, s.b + r.b, s.c + r.c, s.d + r.d, s.e + r.e, s.f + r.f, s.g + r.g, s.h + r.h⟩

/-- §5.1.1 padding: `0x80`, zeros to 56 mod 64, 64-bit big-endian bit length. -/
def pad (msg : Bytes) : Bytes :=
  let n := msg.length
  let z := (119 - n % 64) % 64
  let bits := 8 * n
  msg ++ [0x80] ++ List.replicate z 0 ++
    (List.range 8).reverse.map fun i => BitVec.ofNat 8 (bits / 256 ^ i)

def blocks : Nat → St → Bytes → St
  | 0, s, _ => s
  | n + 1, s, bs => blocks n (block s (bs.take 64)) (bs.drop 64)

def init : St := ⟨0x6a09e667, 0xbb67ae85, 0x3c6ef372, 0xa54ff53a, 0x510e527f, 0x9b05688c, 0x1f83d9ab, 0x5be0cd19⟩

/-- SHA-256 digest (32 bytes). -/
def sha256 (msg : Bytes) : Bytes :=
  let p := pad msg
  let s := blocks (p.length / 64) init p
  toBe32 s.a ++ toBe32 s.b ++ toBe32 s.c ++ toBe32 s.d ++ toBe32 s.e ++ toBe32 s.f ++ toBe32 s.g ++ toBe32 s.h

theorem sha256_length (msg : Bytes) : (sha256 msg).length = 32 := by
  simp [sha256, toBe32]

end Cascette.Spec.Sha256

/-! ## Tests of the transcription (FIPS 180-4 examples), kernel-evaluated; labelled as tests. -/
namespace Cascette.Spec.Sha256
-- SHA-256("abc") = ba7816bf 8f01cfea 414140de 5dae2223 b00361a3 96177a9c b410ff61 f20015ad
example : sha256 [0x61,0x62,0x63] =
    [0xba,0x78,0x16,0xbf,0x8f,0x01,0xcf,0xea,0x41,0x41,0x40,0xde,0x5d,0xae,0x22,0x23,
     0xb0,0x03,0x61,0xa3,0x96,0x17,0x7a,0x9c,0xb4,0x10,0xff,0x61,0xf2,0x00,0x15,0xad] := by
  decide +kernel
-- SHA-256("") = e3b0c442 98fc1c14 9afbf4c8 996fb924 27ae41e4 649b934c a495991b 7852b855
example : sha256 [] =
    [0xe3,0xb0,0xc4,0x42,0x98,0xfc,0x1c,0x14,0x9a,0xfb,0xf4,0xc8,0x99,0x6f,0xb9,0x24,
     0x27,0xae,0x41,0xe4,0x64,0x9b,0x93,0x4c,0xa4,0x95,0x99,0x1b,0x78,0x52,0xb8,0x55] := by
  decide +kernel
end Cascette.Spec.Sha256
