/-
Spec/Fallback — the fail-over strategy the property describes, over ANY ordered list of
transports (not just three): contact them in order; the first success ends the chain; a
failure that is not transient ends the chain; the last transport's failure always ends it, and
what is reported then is the failure of the transport tried before it (if there was one).
Also the abstract reading of the cache clause: a map from keys to (document, expiry).
-/
import Cascette.Model.Fallback
namespace Cascette.Spec.Fallback
open Cascette.Model.Fallback (Err Tr Config shouldRetry)

variable {τ α : Type}

/-- `last` = the most recent transient failure seen so far. Returns the transports contacted, in
order, and the result. -/
def chain (o : τ → Except Err α) : Option Err → List τ → List τ × Except Err α
  | last, [] => ([], .error (last.getD .allHostsFailed))
  | last, [t] =>
    ([t], match o t with
          | .ok d => .ok d
          | .error e => .error (last.getD e))
  | last, t :: t' :: rest =>
    match o t with
    | .ok d => ([t], .ok d)
    | .error e =>
      if shouldRetry e then
        let r := chain o (some e) (t' :: rest)
        (t :: r.1, r.2)
      else ([t], .error e)

/-- the protocols a configuration permits, in the documented order. -/
def permitted (c : Config) : List Tr :=
  (if c.httpsOn then [Tr.https] else []) ++ (if c.httpOn then [Tr.http] else []) ++ [Tr.tcp]

/-- a transport's outcome is a transient failure. -/
def Transient (o : τ → Except Err α) (t : τ) : Prop :=
  ∃ e, o t = .error e ∧ shouldRetry e = true

/-- the most recent failure among `pre` (all of which failed), else `last`. -/
def lastErr (o : τ → Except Err α) : Option Err → List τ → Option Err
  | last, [] => last
  | last, x :: xs =>
    match o x with
    | .error e => lastErr o (some e) xs
    | .ok _ => lastErr o last xs

end Cascette.Spec.Fallback
