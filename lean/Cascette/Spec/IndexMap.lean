/-
Spec/IndexMap — what C05 asks of the key index: a map from 9-byte key to location with
last-write-wins, truthful booleans, plus a durable copy.

The durable copy `disk` is the map that a restart would see.  `save_all` makes it equal to the
live map.  The implementation may ALSO persist a single bucket at other moments (an explicit
flush with pending updates, or the flush that a mutator performs when the bucket's update
section is full); which moments those are depends on the log capacity, not on the map, so the
spec takes them as an input: `persisted` is the list of buckets written before the operation's
own effect.  Nothing else is left open.
-/
namespace Cascette.Spec.IndexMap

/-- `IndexEntry` (sorted section). -/
structure Entry where
  key : Nat
  id : Nat
  off : Nat
  size : Nat
deriving DecidableEq, Repr, Inhabited

/-- `UpdateStatus::Delete as u8`. -/
def stDelete : Nat := 3

def nBuckets : Nat := 16

/-- byte `i` (0 = first) of a 9-byte key. -/
def keyByte (k : Nat) (i : Nat) : Nat := k / 256 ^ (8 - i) % 256

/-- `get_bucket_index`: XOR of the nine key bytes, then XOR of the two nibbles. -/
def bucketOf (k : Nat) : Nat :=
  let h := (List.range 9).foldl (fun a i => a ^^^ keyByte k i) 0
  (h % 16) ^^^ (h / 16 % 16)

inductive Op
  | add (k id off size : Nat)
  | remove (k : Nat)
  | update (k id off size : Nat)
  | status (k st : Nat)
  | lookup (k : Nat)
  | has (k : Nat)
  | iter
  | count
  | flush (b : Nat)
  | flushAll
  | saveAll
  | clearBucket (b : Nat)
  | reload
deriving Repr

inductive Out
  | ok
  | err
  | bool (b : Bool)
  | entry (e : Option Entry)
  | entries (l : List (Nat × Entry))
  | num (n : Nat)
deriving DecidableEq, Repr


abbrev Map := Nat → Option Entry

structure State where
  mem : Map
  disk : Map

def State.init : State := ⟨fun _ => none, fun _ => none⟩

def Map.set (m : Map) (k : Nat) (v : Option Entry) : Map := fun i => if i = k then v else m i

/-- bucket(s) in `bs` written through to the durable copy. -/
def persist (s : State) (bs : List Nat) : State :=
  { s with disk := fun k => if bucketOf k ∈ bs then s.mem k else s.disk k }

/-- one operation on the map.  `none` as output = "not constrained by the property"
(`clear_bucket` returns a raw slot count; `iter`/`count` are specified by `iter_agrees`). -/
def step (s0 : State) (persisted : List Nat) (op : Op) : State × Option Out :=
  let s := persist s0 persisted
  match op with
  | .add k id off size => ({ s with mem := Map.set s.mem k (some ⟨k, id, off, size⟩) }, some .ok)
  | .remove k =>
    match s.mem k with
    | some _ => ({ s with mem := Map.set s.mem k none }, some (.bool true))
    | none => (s, some (.bool false))
  | .update k id off size =>
    match s.mem k with
    | some _ => ({ s with mem := Map.set s.mem k (some ⟨k, id, off, size⟩) }, some (.bool true))
    | none => (s, some (.bool false))
  | .status k st =>
    match s.mem k with
    | some _ =>
      (if st = stDelete then { s with mem := Map.set s.mem k none } else s, some (.bool true))
    | none => (s, some (.bool false))
  | .lookup k => (s, some (.entry (s.mem k)))
  | .has k => (s, some (.bool (s.mem k).isSome))
  | .iter => (s, none)
  | .count => (s, none)
  | .flush _ => (s, some .ok)
  | .flushAll => (s, some .ok)
  | .saveAll => ({ s with disk := s.mem }, some .ok)
  | .clearBucket b => ({ s with mem := fun k => if bucketOf k = b then none else s.mem k }, none)
  | .reload => ({ s with mem := s.disk }, some .ok)

end Cascette.Spec.IndexMap
