/-
Spec/Sha256Fips — FIPS 180-4 SHA-256, executable (used by the C15 driver for the V1 checksum
epilogue). In the C15 theorems the hash is an arbitrary function `H`; this transcription is only
compared with the `sha2` crate by the run (known answers: "" and "abc" below are evaluated by
the driver's self-test line, and every V1 reply of the real server is compared byte for byte).
-/
namespace Cascette.Spec.Sha256Fips

def K : Array UInt32 := #[
  0x428a2f98, 0x71374491, 0xb5c0fbcf, 0xe9b5dba5, 0x3956c25b, 0x59f111f1, 0x923f82a4, 0xab1c5ed5,
  0xd807aa98, 0x12835b01, 0x243185be, 0x550c7dc3, 0x72be5d74, 0x80deb1fe, 0x9bdc06a7, 0xc19bf174,
  0xe49b69c1, 0xefbe4786, 0x0fc19dc6, 0x240ca1cc, 0x2de92c6f, 0x4a7484aa, 0x5cb0a9dc, 0x76f988da,
  0x983e5152, 0xa831c66d, 0xb00327c8, 0xbf597fc7, 0xc6e00bf3, 0xd5a79147, 0x06ca6351, 0x14292967,
  0x27b70a85, 0x2e1b2138, 0x4d2c6dfc, 0x53380d13, 0x650a7354, 0x766a0abb, 0x81c2c92e, 0x92722c85,
  0xa2bfe8a1, 0xa81a664b, 0xc24b8b70, 0xc76c51a3, 0xd192e819, 0xd6990624, 0xf40e3585, 0x106aa070,
  0x19a4c116, 0x1e376c08, 0x2748774c, 0x34b0bcb5, 0x391c0cb3, 0x4ed8aa4a, 0x5b9cca4f, 0x682e6ff3,
  0x748f82ee, 0x78a5636f, 0x84c87814, 0x8cc70208, 0x90befffa, 0xa4506ceb, 0xbef9a3f7, 0xc67178f2]

def H0 : Array UInt32 := #[
  0x6a09e667, 0xbb67ae85, 0x3c6ef372, 0xa54ff53a, 0x510e527f, 0x9b05688c, 0x1f83d9ab, 0x5be0cd19]

def rotr (x : UInt32) (n : UInt32) : UInt32 := (x >>> n) ||| (x <<< (32 - n))

def pad (msg : ByteArray) : ByteArray := Id.run do
  let bitLen : UInt64 := msg.size.toUInt64 * 8
  let mut m := msg.push 0x80
  while m.size % 64 ≠ 56 do
    m := m.push 0
  for i in [0:8] do
    m := m.push ((bitLen >>> (8 * (7 - i)).toUInt64).toUInt8)
  return m

def schedule (m : ByteArray) (off : Nat) : Array UInt32 := Id.run do
  let mut w : Array UInt32 := Array.mkEmpty 64
  for t in [0:16] do
    let b (k : Nat) : UInt32 := (m.get! (off + 4 * t + k)).toUInt32
    w := w.push ((b 0 <<< 24) ||| (b 1 <<< 16) ||| (b 2 <<< 8) ||| b 3)
  for t in [16:64] do
    let x := w[t - 15]!
    let y := w[t - 2]!
    let s0 := rotr x 7 ^^^ rotr x 18 ^^^ (x >>> 3)
    let s1 := rotr y 17 ^^^ rotr y 19 ^^^ (y >>> 10)
    w := w.push (w[t - 16]! + s0 + w[t - 7]! + s1)
  return w

def compress (h : Array UInt32) (w : Array UInt32) : Array UInt32 := Id.run do
  let mut a := h[0]!
  let mut b := h[1]!
  let mut c := h[2]!
  let mut d := h[3]!
  let mut e := h[4]!
  let mut f := h[5]!
  let mut g := h[6]!
  let mut hh := h[7]!
  for t in [0:64] do
    let s1 := rotr e 6 ^^^ rotr e 11 ^^^ rotr e 25
    let ch := (e &&& f) ^^^ ((~~~ e) &&& g)
    let t1 := hh + s1 + ch + K[t]! + w[t]!
    let s0 := rotr a 2 ^^^ rotr a 13 ^^^ rotr a 22
    let maj := (a &&& b) ^^^ (a &&& c) ^^^ (b &&& c)
    let t2 := s0 + maj
    hh := g; g := f; f := e; e := d + t1; d := c; c := b; b := a; a := t1 + t2
  return #[h[0]! + a, h[1]! + b, h[2]! + c, h[3]! + d, h[4]! + e, h[5]! + f, h[6]! + g, h[7]! + hh]

def digestWords (msg : ByteArray) : Array UInt32 := Id.run do
  let m := pad msg
  let mut h := H0
  for blk in [0:m.size / 64] do
    h := compress h (schedule m (64 * blk))
  return h

def hexNibble (n : Nat) : Char :=
  if n < 10 then Char.ofNat (48 + n) else Char.ofNat (87 + n)

/-- lower-case hex digest (`format!("{:x}", Sha256::digest(..))`). -/
def hexDigest (msg : ByteArray) : List Char :=
  (digestWords msg).toList.flatMap fun w =>
    (List.range 8).map fun i => hexNibble ((w.toNat >>> (4 * (7 - i))) % 16)

end Cascette.Spec.Sha256Fips
