/-
Spec/Interleave — interleaving semantics for property C11.

A concurrent system is a shared state `σ` and a list of threads with local state `τ`; a thread
is a state machine whose every transition is ONE atomic access to the shared state (a map
operation, one counter update, …).  A *schedule* is a list of thread indices: `runSched` lets
the named thread take exactly one step, for every schedule whatsoever; an index that names no
thread, or a thread that has finished, is skipped.  Each step may emit ghost *events* (the
linearisation log); they influence nothing.

The second half is the sequential specification the linearisation log is judged against: a
reference map in which every completed operation takes effect at one instant.  A cache may
forget an entry at any time (`drop`, emitted by eviction), so a `drop` is always legal.
-/
import Cascette.Spec.CacheMap
namespace Cascette.Spec.Interleave

structure Machine (σ τ ε : Type) where
  /-- one atomic step of a thread: new shared state, new local state, ghost events -/
  step : σ → τ → σ × τ × List ε
  /-- the thread has no step left -/
  done : τ → Bool

structure Sys (σ τ ε : Type) where
  shared : σ
  threads : List τ
  /-- ghost: events in the order in which they happened, tagged with the thread index -/
  log : List (Nat × ε)

variable {σ τ ε : Type}

/-- thread `i` takes one step (no-op when `i` names no thread or a finished one) -/
def stepAt (m : Machine σ τ ε) (y : Sys σ τ ε) (i : Nat) : Sys σ τ ε :=
  match y.threads[i]? with
  | none => y
  | some t =>
    if m.done t then y else
    let r := m.step y.shared t
    { shared := r.1, threads := y.threads.set i r.2.1, log := y.log ++ r.2.2.map (fun e => (i, e)) }

/-- the state after ANY schedule -/
def runSched (m : Machine σ τ ε) (y : Sys σ τ ε) (sched : List Nat) : Sys σ τ ε :=
  sched.foldl (stepAt m) y

/-- all threads have finished -/
def quiescent (m : Machine σ τ ε) (y : Sys σ τ ε) : Bool := y.threads.all m.done

/-- index of the first unfinished thread -/
def firstLive (m : Machine σ τ ε) : List τ → Nat → Option Nat
  | [], _ => none
  | t :: ts, i => if m.done t then firstLive m ts (i + 1) else some i

/-- run the lowest-numbered unfinished thread until everybody has finished (bounded by `fuel`;
used by the driver to complete a schedule that stops early) -/
def drain (m : Machine σ τ ε) : Nat → Sys σ τ ε → Sys σ τ ε × List Nat
  | 0, y => (y, [])
  | fuel + 1, y =>
    match firstLive m y.threads 0 with
    | none => (y, [])
    | some i =>
      let r := drain m fuel (stepAt m y i)
      (r.1, i :: r.2)

/-! ## sequential specification of the events (linearisation log) -/

open Cascette.Spec.CacheMap (Key Val Ref)

/-- an operation together with the answer it gave, or an entry forgotten by the cache -/
inductive Ev where
  | get (k : Key) (r : Option Val)
  | contains (k : Key) (r : Bool)
  | put (k : Key) (v : Val)
  | remove (k : Key) (r : Bool)
  | clear
  | drop (k : Key)
  deriving Repr, DecidableEq

/-- the answer is the one a map gives when the operation runs alone at this instant -/
def Ev.legalAt (r : Ref) : Ev → Prop
  | .get k o => o = r k
  | .contains k b => b = (r k).isSome
  | .put _ _ => True
  | .remove k b => b = (r k).isSome
  | .clear => True
  | .drop _ => True

/-- the effect on the reference map -/
def Ev.apply (r : Ref) : Ev → Ref
  | .get _ _ => r
  | .contains _ _ => r
  | .put k v => fun k' => if k' = k then some v else r k'
  | .remove k _ => fun k' => if k' = k then none else r k'
  | .clear => fun _ => none
  | .drop k => fun k' => if k' = k then none else r k'

def applyAll (r : Ref) (l : List Ev) : Ref := l.foldl Ev.apply r

/-- a sequential history in which every answer is right -/
def Legal : Ref → List Ev → Prop
  | _, [] => True
  | r, e :: l => e.legalAt r ∧ Legal (e.apply r) l

end Cascette.Spec.Interleave
