/-
Spec/Salsa20 — D. J. Bernstein, "Salsa20 specification" (2005), transcribed section by section,
plus the CASC nonce rule.  This is the *published algorithm* side of property C09; the model of
the Rust code is in Model/Salsa20.lean and the two are related in Proofs/Salsa20.lean.
-/
import Cascette.Base.Bytes
namespace Cascette.Spec.Salsa20
open Cascette

/-- §3 quarterround. -/
def quarterround (y0 y1 y2 y3 : W32) : W32 × W32 × W32 × W32 :=
  let z1 := y1 ^^^ (y0 + y3).rotateLeft 7
  let z2 := y2 ^^^ (z1 + y0).rotateLeft 9
  let z3 := y3 ^^^ (z2 + z1).rotateLeft 13
  let z0 := y0 ^^^ (z3 + z2).rotateLeft 18
  (z0, z1, z2, z3)

/-- a 16-word Salsa20 matrix. -/
structure S where
  x0 : W32
  x1 : W32
  x2 : W32
  x3 : W32
  x4 : W32
  x5 : W32
  x6 : W32
  x7 : W32
  x8 : W32
  x9 : W32
  x10 : W32
  x11 : W32
  x12 : W32
  x13 : W32
  x14 : W32
  x15 : W32
deriving DecidableEq, Repr

/-- §4 rowround. -/
def rowround (y : S) : S :=
  let (z0, z1, z2, z3) := quarterround y.x0 y.x1 y.x2 y.x3
  let (z5, z6, z7, z4) := quarterround y.x5 y.x6 y.x7 y.x4
  let (z10, z11, z8, z9) := quarterround y.x10 y.x11 y.x8 y.x9
  let (z15, z12, z13, z14) := quarterround y.x15 y.x12 y.x13 y.x14
  ⟨z0, z1, z2, z3, z4, z5, z6, z7, z8, z9, z10, z11, z12, z13, z14, z15⟩

/-- §5 columnround. -/
def columnround (x : S) : S :=
  let (y0, y4, y8, y12) := quarterround x.x0 x.x4 x.x8 x.x12
  let (y5, y9, y13, y1) := quarterround x.x5 x.x9 x.x13 x.x1
  let (y10, y14, y2, y6) := quarterround x.x10 x.x14 x.x2 x.x6
  let (y15, y3, y7, y11) := quarterround x.x15 x.x3 x.x7 x.x11
  ⟨y0, y1, y2, y3, y4, y5, y6, y7, y8, y9, y10, y11, y12, y13, y14, y15⟩

/-- §6 doubleround. -/
def doubleround (x : S) : S := rowround (columnround x)

def iter (f : S → S) : Nat → S → S
  | 0, x => x
  | n + 1, x => iter f n (f x)

def add (a b : S) : S :=
  ⟨a.x0 + b.x0, a.x1 + b.x1, a.x2 + b.x2, a.x3 + b.x3, a.x4 + b.x4, a.x5 + b.x5, a.x6 + b.x6,
   a.x7 + b.x7, a.x8 + b.x8, a.x9 + b.x9, a.x10 + b.x10, a.x11 + b.x11, a.x12 + b.x12,
   a.x13 + b.x13, a.x14 + b.x14, a.x15 + b.x15⟩

/-- §8 the Salsa20 hash function on words: `x + doubleround^10(x)`. -/
def core (x : S) : S := add (iter doubleround 10 x) x

/-- §8 output serialisation: each word little-endian, in order. -/
def serialize (x : S) : Bytes :=
  toLe32 x.x0 ++ toLe32 x.x1 ++ toLe32 x.x2 ++ toLe32 x.x3 ++ toLe32 x.x4 ++ toLe32 x.x5 ++
  toLe32 x.x6 ++ toLe32 x.x7 ++ toLe32 x.x8 ++ toLe32 x.x9 ++ toLe32 x.x10 ++ toLe32 x.x11 ++
  toLe32 x.x12 ++ toLe32 x.x13 ++ toLe32 x.x14 ++ toLe32 x.x15

/-- 16-byte key as four little-endian words. -/
structure Key where
  k0 : W32
  k1 : W32
  k2 : W32
  k3 : W32

def keyOfBytes : Bytes → Option Key
  | [a0,a1,a2,a3,b0,b1,b2,b3,c0,c1,c2,c3,d0,d1,d2,d3] =>
      some ⟨le32 a0 a1 a2 a3, le32 b0 b1 b2 b3, le32 c0 c1 c2 c3, le32 d0 d1 d2 d3⟩
  | _ => none

def tau0 : W32 := 0x61707865
def tau1 : W32 := 0x3120646e
def tau2 : W32 := 0x79622d36
def tau3 : W32 := 0x6b206574

/-- §9 expansion for a 16-byte key: Salsa20(τ0,k,τ1,n,τ2,k,τ3) with
`n` = 8-byte nonce (two words) followed by the 64-bit little-endian block counter. -/
def expand16 (k : Key) (v0 v1 : W32) (ctr : BitVec 64) : S :=
  ⟨tau0, k.k0, k.k1, k.k2, k.k3, tau1, v0, v1, ctr.setWidth 32, (ctr >>> 32).setWidth 32,
   tau2, k.k0, k.k1, k.k2, k.k3, tau3⟩

/-- §10: the `i`-th 64-byte block of the stream. -/
def block (k : Key) (v0 v1 : W32) (i : Nat) : Bytes :=
  serialize (core (expand16 k v0 v1 (BitVec.ofNat 64 i)))

/-- byte at absolute stream offset `n`. -/
def streamByte (k : Key) (v0 v1 : W32) (n : Nat) : Byte :=
  (block k v0 v1 (n / 64)).getD (n % 64) 0

/-- XOR `msg` with the stream starting at absolute offset `off`. -/
def xorStream (k : Key) (v0 v1 : W32) : Nat → Bytes → Bytes
  | _, [] => []
  | off, b :: bs => (b ^^^ streamByte k v0 v1 off) :: xorStream k v0 v1 (off + 1) bs

/-- The CASC nonce rule: a 4-byte IV is zero-extended to 8, the low 32 bits of the block index are
XORed into the first nonce word. -/
def cascNonce (iv : Bytes) (blockIndex : Nat) : Option (W32 × W32) :=
  match iv with
  | [a,b,c,d] => some (le32 a b c d ^^^ BitVec.ofNat 32 blockIndex, 0)
  | [a,b,c,d,e,f,g,h] => some (le32 a b c d ^^^ BitVec.ofNat 32 blockIndex, le32 e f g h)
  | _ => none

/-- CASC Salsa20 encryption = decryption. -/
def casc (key iv : Bytes) (blockIndex : Nat) (msg : Bytes) : Option Bytes :=
  match keyOfBytes key, cascNonce iv blockIndex with
  | some k, some (v0, v1) => some (xorStream k v0 v1 0 msg)
  | _, _ => none

end Cascette.Spec.Salsa20

/-! ## Tests of the transcription (labelled as tests: kernel-evaluated known answers from the
Salsa20 specification §3 and the ECRYPT Salsa20/20 128-bit key set 1 vector 0). -/
namespace Cascette.Spec.Salsa20
example : quarterround 0 0 0 0 = (0, 0, 0, 0) := by decide
example : quarterround 1 0 0 0 = (0x08008145, 0x00000080, 0x00010200, 0x20500000) := by decide
example : quarterround 0 1 0 0 = (0x88000100, 0x00000001, 0x00000200, 0x00402000) := by decide
example : quarterround 0 0 1 0 = (0x80040000, 0x00000000, 0x00000001, 0x00002000) := by decide
example : quarterround 0 0 0 1 = (0x00048044, 0x00000080, 0x00010000, 0x20100001) := by decide
example : quarterround 0xe7e8c006 0xc4f9417d 0x6479b4b2 0x68c67137 =
    (0xe876d72b, 0x9361dfd5, 0xf1460244, 0x948541a3) := by decide
example : quarterround 0xd3917c5b 0x55f1c407 0x52a58a7a 0x8f887a3b =
    (0x3e2f308c, 0xd90a8f36, 0x6ab2a923, 0x2883524c) := by decide
end Cascette.Spec.Salsa20
