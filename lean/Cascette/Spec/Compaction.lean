/-
Spec/Compaction — what C18 demands, in the simplest terms: spans, the crate's own public
overlap relation (`DataSpan::overlaps`), byte slices of a file, `memmove`, and "the live spans'
original bytes concatenated".
-/
import Cascette.Base.Bytes
namespace Cascette.Spec.Compaction
open Cascette

/-- `DataSpan { offset, length }`. -/
structure Span where
  off : Nat
  len : Nat
deriving DecidableEq, Repr, Inhabited

/-- `DataSpan::end` (exclusive). -/
def Span.stop (s : Span) : Nat := s.off + s.len

/-- `DataSpan::overlaps`: the half-open ranges intersect. -/
def Span.overlaps (a b : Span) : Bool :=
  decide (a.off < b.off + b.len) && decide (b.off < a.off + a.len)

/-- a span set is acceptable iff no two of its members (at different positions) overlap. -/
def Disjoint (spans : List Span) : Prop := spans.Pairwise (fun a b => a.overlaps b = false)

/-- every span lies inside a file of `n` bytes. -/
def InBounds (n : Nat) (spans : List Span) : Prop := ∀ s ∈ spans, s.stop ≤ n

/-- the spans are listed in offset order. -/
def OffsetOrdered (spans : List Span) : Prop := spans.Pairwise (fun a b => a.off ≤ b.off)

/-- bytes `[off, off+len)` of `f`. -/
def slice (f : Bytes) (off len : Nat) : Bytes := (f.drop off).take len

/-- the original bytes of the spans, concatenated in the order listed. -/
def concatLive (f : Bytes) (spans : List Span) : Bytes := spans.flatMap fun s => slice f s.off s.len

/-- `memmove(f+dst, f+src, len)` on a byte list (`src+len ≤ |f|`, `dst ≤ src`). -/
def memmove (f : Bytes) (src dst len : Nat) : Bytes :=
  f.take dst ++ slice f src len ++ f.drop (dst + len)

end Cascette.Spec.Compaction
