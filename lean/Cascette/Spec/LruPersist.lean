/-
Spec/LruPersist — the persistence clause of C17 in HISTORY order: what a reload through "the
newest checkpoint" (`run_cycle`, `find_latest_lru_file`) must see is the state saved by the
checkpoint that was written LAST in the history — whatever generation numbers the manager used
for its file names.

`Spec/Lru` keys checkpoints by generation (as the code names its files) and `run_cycle` there
reads "the largest generation present"; that is the mechanism, shared with the models.  The
clause here is about the mechanism's purpose, and is stated with a ghost that knows no ordering
of generations at all:

* `Track.last`  the checkpoint written last (the NAME it was written under — used only as a
                name, never compared by `<` — and the recency order it holds);
* `Track.sync`  has the manager in memory seen the directory since it was constructed / since
                it was pointed at another file?  (`new` starts at generation 1 without looking at
                the directory, `load_from_disk(g)` adopts `g`: a manager that then checkpoints
                without having adopted the newest file writes under a name of its own choosing;
                such histories are outside the clause — `allowed`.)

Also here: `shutdown` (`bump_generation(); checkpoint_to_disk().await?; scan_directory()`), the
third entry point that writes a checkpoint.  It is not an operation of the quantifier of C17, so
it is added on top of `Spec.Lru.Op` (`XOp`) instead of inside it.
-/
import Cascette.Spec.Lru
namespace Cascette.Spec.Lru

/-- the operations of `Spec.Lru.Op` plus `shutdown`. -/
inductive XOp (κ : Type) where
  | op (o : Op κ)
  | shutdown
  deriving Repr, DecidableEq

section
variable {κ : Type} [DecidableEq κ]

/-- `scan_directory` on its own (inside `run_cycle` it is part of `step`). -/
def Store.scanDir (s : Store κ) : Store κ := { s with files := Files.scan s.files s.gen s.prev }

/-- `shutdown`: bump, checkpoint, scan. -/
def Store.shutdown (s : Store κ) : Store κ := ((step (step s .bump).1 .checkpoint).1).scanDir

def xstep (s : Store κ) : XOp κ → Store κ × Out
  | .op o => step s o
  | .shutdown => (s.shutdown, .ok)

def xrun (s : Store κ) : List (XOp κ) → Store κ × List Out
  | [] => (s, [])
  | op :: ops =>
    let r := xstep s op
    let rest := xrun r.1 ops
    (rest.1, r.2 :: rest.2)

/-! ### the ghost of the persistence clause -/

structure Track (κ : Type) where
  /-- the checkpoint written last in history order: file name (a generation, used as a name only)
  and the recency order saved in it -/
  last : Option (Nat × List κ)
  /-- the manager in memory has adopted the newest file of the directory (or there is none) -/
  sync : Bool
  deriving Repr, DecidableEq

def Track.init : Track κ := { last := none, sync := true }

def Track.name (t : Track κ) : Option Nat := t.last.map (·.1)

/-- histories of the clause: checkpoints are written only by a manager that has seen the
directory.  Everything else — every in-memory operation, `reset`, `bump_generation` any number of
times, reloads of any generation, `reopen`, `run_cycle` — is allowed anywhere. -/
def allowed (t : Track κ) : XOp κ → Bool
  | .op .checkpoint => t.sync
  | .shutdown => t.sync
  | _ => true

/-- the ghost's step (`s` = the store BEFORE the operation). -/
def track (s : Store κ) (t : Track κ) : XOp κ → Track κ
  | .op .checkpoint => { t with last := some (s.gen, s.order) }
  | .shutdown => { t with last := some (nextGen s.gen, s.order) }
  | .op .reopen => { t with sync := t.last.isNone }
  | .op (.load g) =>
    if (Files.lookup s.files g).isSome then { t with sync := decide (t.name = some g) } else t
  | .op (.runCycle _ _) => { t with sync := true }
  | _ => t

/-- run a history with the ghost beside it; `none` = the history leaves the clause's domain. -/
def trackRun (s : Store κ) (t : Track κ) : List (XOp κ) → Option (Store κ × Track κ)
  | [] => some (s, t)
  | o :: os => if allowed t o then trackRun (xstep s o).1 (track s t o) os else none

end
end Cascette.Spec.Lru
