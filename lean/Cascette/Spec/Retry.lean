/-
Spec/Retry — what the property C14 says about a retried operation, as plainly as possible.

An attempt's outcome is seen only through its class: success, an error that may be retried
(optionally carrying the server's Retry-After hint, in nanoseconds) or an error that must not be
retried. The specification fixes
  * how many attempts are made (`attempts`): up to and including the first outcome that is not
    retryable, and never more than `max + 1`;
  * the ideal backoff sequence (`backoffAt`): start value, then a step function, nothing else.
No durations arithmetic, no jitter source, no error taxonomy here — those belong to the model.
-/
namespace Cascette.Spec.Retry

/-- class of one attempt's outcome -/
inductive Class
  | ok
  | retry (hint : Option Nat)
  | fatal
  deriving DecidableEq, Repr

/-- Number of attempts made on the outcome classes `cs` (the k-th element is what the k-th call
would return) when `budget` retries are left: stop at the first `ok`/`fatal`, stop when the budget
is used up, stop when the script ends. -/
def attempts : Nat → List Class → Nat
  | _, [] => 0
  | 0, _ :: _ => 1
  | b + 1, .retry _ :: rest => 1 + attempts b rest
  | _ + 1, _ :: _ => 1

/-- Backoff value in force at the k-th retry: `b`, `next b`, `next (next b)`, … -/
def backoffAt (next : Nat → Nat) (b : Nat) : Nat → Nat
  | 0 => b
  | k + 1 => backoffAt next (next b) k

/-- The wait before a retry: the server's hint when the failed attempt carried one, otherwise the
backoff value in force. -/
def baseDelay (hint : Option Nat) (backoff : Nat) : Nat :=
  match hint with
  | some h => h
  | none => backoff

end Cascette.Spec.Retry
