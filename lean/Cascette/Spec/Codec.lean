/-
Spec/Codec — the abstract statement of property C08 for one format: a parser, a builder and a
well-formedness predicate. `Stable` is the property as stated ("for every input the parser
accepts, writing the parsed value back out and parsing that output succeeds, and writing it out
again gives identical bytes with identical logical content"). `Lawful` is what is proved per
format (`parse_build`, `parse_wf`); `Lawful → Stable` is proved once, here.
-/
namespace Cascette.Spec.Codec

structure Codec (β V : Type) where
  parse : β → Option V
  build : V → Option β

/-- C08 for one accepted input: the first build succeeds, re-parsing it succeeds with the same
logical content, and the second build gives the same bytes. -/
def FixedPointAt {β V : Type} (c : Codec β V) (_b : β) (v : V) : Prop :=
  ∃ y, c.build v = some y ∧ c.parse y = some v ∧
    ∀ v2, c.parse y = some v2 → v2 = v ∧ c.build v2 = some y

/-- C08 for a format: every accepted input is a fixed point after one rebuild. -/
def Stable {β V : Type} (c : Codec β V) : Prop :=
  ∀ b v, c.parse b = some v → FixedPointAt c b v

/-- the two per-format laws (`WF` = well-formedness of values) -/
structure Lawful {β V : Type} (c : Codec β V) (WF : V → Prop) : Prop where
  /-- `F_parse_wf`: an accepted input parses to a well-formed value -/
  parse_wf : ∀ b v, c.parse b = some v → WF v
  /-- `F_parse_build`: a well-formed value builds, and its serialisation parses back to it -/
  parse_build : ∀ v, WF v → ∃ y, c.build v = some y ∧ c.parse y = some v

/-- `F_fixed_point` — the corollary, once for all formats -/
theorem stable_of_lawful {β V : Type} (c : Codec β V) (WF : V → Prop) (h : Lawful c WF) :
    Stable c := by
  intro b v hp
  obtain ⟨y, hb, hy⟩ := h.parse_build v (h.parse_wf b v hp)
  refine ⟨y, hb, hy, ?_⟩
  intro v2 h2
  rw [hy] at h2
  cases h2
  exact ⟨rfl, hb⟩

end Cascette.Spec.Codec
