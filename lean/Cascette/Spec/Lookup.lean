/-
Spec/Lookup — the reference semantics every lookup flavour of C03 is compared with: a linear scan
of the inserted entries for the first one whose key equals the probe. For key sets without
duplicates this is "the value that was inserted, or nothing".
-/
namespace Cascette.Spec.Lookup

def lookup {ε : Type} (key : ε → List Nat) (es : List ε) (k : List Nat) : Option ε :=
  es.find? (fun e => key e == k)

end Cascette.Spec.Lookup
