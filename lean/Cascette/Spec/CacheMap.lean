/-
Spec/CacheMap — the abstract specification of a cache for property C10: an unbounded map from
keys to the value of the most recent successful put, from which `remove`, `clear` and the end of
a time-to-live delete.  A cache may forget anything at any time (eviction), so the specification
of `get` is "the reference value or nothing".

Time is abstracted the way the property's quantifier does it: a TTL is either far above the
elapsed time (`live = true`: never expires in the history) or far below it (`live = false`: has
expired before the next operation starts).
-/
namespace Cascette.Spec.CacheMap

abbrev Key := Nat
abbrev Val := List Nat

/-- the operations that change what a key maps to. `other` = get / contains / size / stats /
drop-and-recreate: no effect on the reference map. -/
inductive Op where
  | put (k : Key) (v : Val) (live : Bool)
  | remove (k : Key)
  | clear
  | other
  deriving Repr, DecidableEq

abbrev Ref := Key → Option Val

def empty : Ref := fun _ => none

def step (r : Ref) : Op → Ref
  | .put k v live => fun k' => if k' = k then (if live then some v else none) else r k'
  | .remove k => fun k' => if k' = k then none else r k'
  | .clear => fun _ => none
  | .other => r

def run (r : Ref) (ops : List Op) : Ref := ops.foldl step r

/-- value of the most recent put for the key, whatever happened afterwards (used for the claim
"never another key's value, never a replaced value", which needs no notion of time). -/
def stepLastPut (r : Ref) : Op → Ref
  | .put k v _ => fun k' => if k' = k then some v else r k'
  | _ => r

def runLastPut (r : Ref) (ops : List Op) : Ref := ops.foldl stepLastPut r

end Cascette.Spec.CacheMap
