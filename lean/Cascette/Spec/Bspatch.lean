/-
Spec/Bspatch — block-level meaning of a bsdiff/ZBSDIFF patch (Percival's bspatch, as specialised
by the format documentation the Rust follows: reads beyond the end of `old` give 0, the old-file
position never goes below 0 and saturates at `usize::MAX`).

A patch is a list of control triples `(diff, extra, seek)` plus a diff block and an extra block.
For each triple, in order:
  1. `diff` bytes of output = next `diff` bytes of the diff block, added byte-wise (mod 256) to
     the `diff` bytes of `old` starting at the current old position (0 beyond the end);
     the old position advances by `diff`;
  2. `extra` bytes of output = next `extra` bytes of the extra block;
  3. the old position moves by the RELATIVE signed amount `seek`.
Running out of diff or extra bytes is an error; so is a total length different from the size
stated in the header.
This is the independent bspatch that the correspondence run evaluates on the blocks recovered
from the patch bytes the Rust builders return.
-/
import Cascette.Base.Bytes
namespace Cascette.Spec.Bspatch
open Cascette

/-- one control triple (sizes already validated non-negative). -/
structure Ctl where
  diff : Nat
  extra : Nat
  seek : Int
deriving DecidableEq, Repr, Inhabited

/-- `n` bytes from the front of `l`, zero-filled when `l` is shorter. -/
def padTake : Nat → Bytes → Bytes
  | 0, _ => []
  | n + 1, [] => 0 :: padTake n []
  | n + 1, x :: xs => x :: padTake n xs

def addBytes (a b : Bytes) : Bytes := List.zipWith (· + ·) a b
def subBytes (a b : Bytes) : Bytes := List.zipWith (· - ·) a b

def usizeMax : Nat := 2 ^ 64 - 1

/-- relative seek: `saturating_sub` below 0, `saturating_add` at `usize::MAX`. -/
def seekPos (p : Nat) (s : Int) : Nat :=
  if s ≤ 0 then p - s.natAbs else min (p + s.toNat) usizeMax

/-- output of the control list from old position `p` with the remaining diff / extra bytes;
`none` = a block ran out. -/
def applyFrom (old : Bytes) : List Ctl → Nat → Bytes → Bytes → Option Bytes
  | [], _, _, _ => some []
  | c :: cs, p, d, e =>
    if d.length < c.diff ∨ e.length < c.extra then none else
    match applyFrom old cs (seekPos (p + c.diff) c.seek) (d.drop c.diff) (e.drop c.extra) with
    | none => none
    | some rest => some (addBytes (padTake c.diff (old.drop p)) (d.take c.diff) ++ (e.take c.extra ++ rest))

inductive Res where
  | ok (out : Bytes)
  | short          -- diff or extra block exhausted
  | size           -- produced length ≠ header.output_size
deriving DecidableEq, Repr

def apply (old : Bytes) (ctl : List Ctl) (diff extra : Bytes) (outSize : Nat) : Res :=
  match applyFrom old ctl 0 diff extra with
  | none => .short
  | some out => if out.length = outSize then .ok out else .size

end Cascette.Spec.Bspatch
