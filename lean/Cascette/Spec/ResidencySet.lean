/-
Spec/ResidencySet — what C05 asks of the residency database: a set of resident 16-byte keys
(`mem k = true` iff the latest mark of `k` says resident) and its saved copy.
-/
namespace Cascette.Spec.ResidencySet

/-- padding key number `i` of a `delpad` request (the harness uses the same formula). -/
def padKey (i : Nat) : Nat := 0xFEED * 2 ^ 112 + i

/-- the key list of a `delete_keys` call: `pad` padding keys followed by `ks`. -/
def delKeys (pad : Nat) (ks : List Nat) : List Nat := (List.range pad).map padKey ++ ks

inductive Op
  | mark (k : Nat)
  | unmark (k : Nat)
  | span (k : Nat)
  /-- `delete_keys` on `pad` padding keys followed by `ks` -/
  | delete (pad : Nat) (ks : List Nat)
  | isResident (k : Nat)
  | scan
  | count
  | save
  | load
deriving Repr

inductive Out
  | ok
  | bool (b : Bool)
  | keys (l : List Nat)
  | num (n : Nat)
deriving DecidableEq, Repr

structure State where
  mem : Nat → Bool
  disk : Nat → Bool

def State.init : State := ⟨fun _ => false, fun _ => false⟩

def set (m : Nat → Bool) (k : Nat) (v : Bool) : Nat → Bool := fun i => if i = k then v else m i

/-- one operation; output `none` = specified elsewhere (`scan`: exactly the resident keys) or not
constrained (`count`, see the recorded finding). -/
def step (S : State) : Op → State × Option Out
  | .mark k => ({ S with mem := set S.mem k true }, some .ok)
  | .unmark k => ({ S with mem := set S.mem k false }, some .ok)
  | .span k => ({ S with mem := set S.mem k false }, some .ok)
  | .delete pad ks =>
    ({ S with mem := fun k => if (delKeys pad ks).contains k then false else S.mem k }, some .ok)
  | .isResident k => (S, some (.bool (S.mem k)))
  | .scan => (S, none)
  | .count => (S, none)
  | .save => ({ S with disk := S.mem }, some .ok)
  | .load => ({ S with mem := S.disk }, some .ok)

def run : State → List Op → State × List (Option Out)
  | S, [] => (S, [])
  | S, op :: ops =>
    let r := step S op
    let rest := run r.1 ops
    (rest.1, r.2 :: rest.2)

end Cascette.Spec.ResidencySet
