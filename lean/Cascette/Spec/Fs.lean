/-
Spec/Fs — the file-system and crash model used by C06 (DESIGN.md §6 C06, §3 trusted base).

A directory maps names to files; a file is its content as the running process sees it plus the
length of the prefix that is known to be on stable storage (`synced`). The write-side calls the
save routines make are `Op`s. The crash relation is pessimistic about DATA and exact about the
DIRECTORY:

* a crash can happen before any operation, after any operation and inside any `write`
  (`Cut`: the executed prefix, its last write possibly torn at any byte);
* after the crash a file's synced prefix is intact, and everything behind it is ARBITRARY bytes of
  any length up to what was written (`FileImage`) — this covers "un-synced content replaced by
  every prefix, by zeros, and by stale bytes" of the property text in one clause;
* directory operations (create, rename, unlink) are atomic and are persistent in program order:
  the directory after the crash is the directory after the executed prefix (a `rename` is
  "persisted or not" through the choice of the cut before / after it).

Assumptions of this model (trusted base): rename is atomic; data is durable only after `fsync`;
metadata operations reach the disk in order (journalled file system); `fsync` of a file makes its
whole content durable. Not expressible: reordering inside an fsynced range, `mmap` writes.
-/
import Cascette.Base.Bytes
namespace Cascette.Spec.Fs
open Cascette

structure File where
  data : Bytes
  /-- length of the prefix of `data` that is on stable storage -/
  synced : Nat
  deriving Repr, DecidableEq

abbrev Dir (N : Type) := N → Option File

inductive Op (N : Type) where
  /-- `open(O_WRONLY|O_CREAT|O_TRUNC)` -/
  | create (n : N)
  /-- `open(O_APPEND|O_CREAT)` -/
  | openAppend (n : N)
  /-- sequential `write` at the end of the file -/
  | write (n : N) (bs : Bytes)
  | fsync (n : N)
  | rename (a b : N)
  | unlink (n : N)
  deriving Repr, DecidableEq

def upd {N : Type} [DecidableEq N] (d : Dir N) (n : N) (v : Option File) : Dir N :=
  fun m => if m = n then v else d m

def step {N : Type} [DecidableEq N] (d : Dir N) : Op N → Dir N
  | .create n => upd d n (some ⟨[], 0⟩)
  | .openAppend n =>
    match d n with
    | some _ => d
    | none => upd d n (some ⟨[], 0⟩)
  | .write n bs =>
    match d n with
    | some f => upd d n (some { f with data := f.data ++ bs })
    | none => d
  | .fsync n =>
    match d n with
    | some f => upd d n (some { f with synced := f.data.length })
    | none => d
  | .rename a b =>
    if a = b then d else
    match d a with
    | some f => upd (upd d b (some f)) a none
    | none => d
  | .unlink n => upd d n none

def run {N : Type} [DecidableEq N] (d : Dir N) (ops : List (Op N)) : Dir N := ops.foldl step d

/-- `Cut t p`: `p` is what has been executed of trace `t` when the process dies. -/
inductive Cut {N : Type} : List (Op N) → List (Op N) → Prop where
  | stop (t : List (Op N)) : Cut t []
  | tear (n : N) (bs : Bytes) (k : Nat) (t : List (Op N)) : Cut (.write n bs :: t) [.write n (bs.take k)]
  | next (o : Op N) {t p : List (Op N)} : Cut t p → Cut (o :: t) (o :: p)

/-- what a file may hold after a crash: the synced prefix, then arbitrary bytes, never longer than
what was written. -/
def FileImage (f : File) (b : Bytes) : Prop :=
  b.length ≤ f.data.length ∧ b.take f.synced = f.data.take f.synced

/-- what the directory may hold after a crash in (volatile) state `d`. -/
def CrashImage {N : Type} (d : Dir N) (img : N → Option Bytes) : Prop :=
  ∀ n, match d n with
    | none => img n = none
    | some f => ∃ b, img n = some b ∧ FileImage f b

/-- `img` is a possible on-disk state after a crash somewhere in `t` started from `d0`. -/
def Crash {N : Type} [DecidableEq N] (t : List (Op N)) (d0 : Dir N) (img : N → Option Bytes) : Prop :=
  ∃ p, Cut t p ∧ CrashImage (run d0 p) img

/-- a file all of whose content is on stable storage. -/
def Durable {N : Type} (d : Dir N) (n : N) : Prop := ∀ f, d n = some f → f.data.length ≤ f.synced

/-- the content of every file as the process sees it (= the disk when everything is durable). -/
def dataOf {N : Type} (d : Dir N) : N → Option Bytes := fun n => (d n).map (·.data)

/-- a directory whose files are all durable, from plain contents. -/
def ofData {N : Type} (c : N → Option Bytes) : Dir N := fun n => (c n).map fun b => ⟨b, b.length⟩

/-! ### executable enumeration (used by the driver and mirrored by the harness) -/

/-- the executed prefix: the first `i` operations and the first `k` bytes of operation `i` when
that is a write (`k = 0`: nothing of it). -/
def cutAt {N : Type} (t : List (Op N)) (i k : Nat) : List (Op N) :=
  t.take i ++
    (match t.drop i with
     | .write n bs :: _ => if k = 0 then [] else [.write n (bs.take k)]
     | _ => [])

inductive Variant where
  /-- everything written reached the disk -/
  | asis
  /-- nothing behind the synced prefix reached the disk -/
  | trunc
  /-- the file has its new length but the un-synced range reads as zeros -/
  | zeros
  deriving Repr, DecidableEq

def imageOf (v : Variant) (f : File) : Bytes :=
  match v with
  | .asis => f.data
  | .trunc => f.data.take f.synced
  | .zeros => f.data.take f.synced ++ List.replicate (f.data.length - f.synced) 0

def dirImage {N : Type} (v : Variant) (d : Dir N) : N → Option Bytes := fun n => (d n).map (imageOf v)

end Cascette.Spec.Fs
