/-
Spec/Rc4 — RC4 as published (Schneier, Applied Cryptography §17.1; the 1994 "alleged RC4" posting),
over a permutation FUNCTION `S : Nat → Nat` on `0..255` with explicit `mod 256` arithmetic.
No arrays, no machine integers, no default values: the state is `(S, i, j)`.

    for i from 0 to 255: S[i] := i
    j := 0
    for i from 0 to 255:
        j := (j + S[i] + key[i mod keylength]) mod 256
        swap S[i], S[j]

    i := 0; j := 0
    for each output byte:
        i := (i + 1) mod 256
        j := (j + S[i]) mod 256
        swap S[i], S[j]
        output S[(S[i] + S[j]) mod 256]

Key lengths 1..256 bytes (RC4's definition); anything else has no output.
-/
import Cascette.Base.Bytes
namespace Cascette.Spec.Rc4
open Cascette

/-- the S-box as a function; only its values on `0..255` are ever read. -/
abbrev Perm := Nat → Nat

/-- `swap S[i], S[j]`. -/
def swap (S : Perm) (i j : Nat) : Perm :=
  fun x => if x = i then S j else if x = j then S i else S x

/-- the key-scheduling loop from `i` on, `n` iterations left. The key is indexed with its proof of
being in range (no default value). -/
def ksaLoop (key : Bytes) (hk : 0 < key.length) : Nat → Nat → Nat → Perm → Perm
  | 0, _, _, S => S
  | n + 1, i, j, S =>
    let j' := (j + S i + (key[i % key.length]'(Nat.mod_lt _ hk)).toNat) % 256
    ksaLoop key hk n (i + 1) j' (swap S i j')

structure State where
  S : Perm
  i : Nat
  j : Nat

/-- KSA: identity permutation, 256 iterations, then `i = j = 0`. -/
def init (key : Bytes) (hk : 0 < key.length) : State :=
  { S := ksaLoop key hk 256 0 0 (fun x => x), i := 0, j := 0 }

/-- one PRGA step: the new state and the output byte. -/
def next (st : State) : State × Nat :=
  let i := (st.i + 1) % 256
  let j := (st.j + st.S i) % 256
  let S := swap st.S i j
  ({ S := S, i := i, j := j }, S ((S i + S j) % 256))

/-- the first `n` keystream bytes from `st`. -/
def keystream : State → Nat → List Nat
  | _, 0 => []
  | st, n + 1 => (next st).2 :: keystream (next st).1 n

/-- the state after `n` output bytes. -/
def after : State → Nat → State
  | st, 0 => st
  | st, n + 1 => after (next st).1 n

/-- RC4 encryption = decryption: message XOR keystream. -/
def crypt (key msg : Bytes) : Option Bytes :=
  if h : 1 ≤ key.length ∧ key.length ≤ 256 then
    some (List.zipWith (fun m k => m ^^^ BitVec.ofNat 8 k) msg
      (keystream (init key (by omega)) msg.length))
  else none

/-- a permutation of `0..255`: maps the range into itself, injectively. -/
def IsPerm (S : Perm) : Prop :=
  (∀ x, x < 256 → S x < 256) ∧ (∀ x y, x < 256 → y < 256 → S x = S y → x = y)

end Cascette.Spec.Rc4
