/-
Spec/TagSets — the abstract specification C19 is stated against.

A manifest under construction is a list of files and a list of tags; a tag is a name, a type and
a membership vector `mem : List Bool` with one entry per file (`mem[i] = true` ⇔ file `i` is
associated with the tag).  Builder programs act on it in the obvious way: a new file appends
`false` to every vector, removing file `k` deletes position `k` of every vector (everything after
it is renumbered), associating sets one position.  Queries are plain filters over file indices.

`msbBit` / `readBits` are the on-disk convention other NGDP tools use: file `i` of a tag is bit
`7 - i % 8` (most significant first) of mask byte `i / 8`, written with division arithmetic so
that it shares nothing with the model's `0x80 >> k` masks.
-/
import Cascette.Base.Bytes
namespace Cascette.Spec.TagSets
open Cascette

/-- bit `k` (0 = most significant) of a byte, by arithmetic -/
def msbBit (b : Byte) (k : Nat) : Bool := b.toNat / 2 ^ (7 - k) % 2 == 1

/-- the first `n` membership bits of an on-disk mask, MSB first; `none` if the mask is too short -/
def readBits (mask : Bytes) : Nat → Option (List Bool)
  | 0 => some []
  | n + 1 =>
    match readBits mask n, mask[n / 8]? with
    | some l, some b => some (l ++ [msbBit b (n % 8)])
    | _, _ => none

structure STag where
  name : Bytes
  typ : Nat
  mem : List Bool
deriving DecidableEq, Repr

structure SState (α : Type) where
  files : List α
  tags : List STag
deriving Repr

/-- builder programs (the quantifier of C19) -/
inductive Op (α : Type) where
  | addTag (name : Bytes) (typ : Nat)
  | addFile (f : α)
  | assoc (i : Nat) (name : Bytes)
  | dissoc (i : Nat) (name : Bytes)
  | removeFile (k : Nat)
  | removeTag (name : Bytes)
deriving Repr

def SState.empty {α : Type} : SState α := ⟨[], []⟩

def hasName {α : Type} (s : SState α) (name : Bytes) : Bool := s.tags.any fun t => t.name = name

def setMem (tags : List STag) (i : Nat) (name : Bytes) (v : Bool) : List STag :=
  tags.map fun t => if t.name = name then { t with mem := t.mem.set i v } else t

/-- One step. `none` = the program leaves the domain of the specification (a second `addTag` of
a name that is already present: tag names identify tags). A rejected operation (index out of
range, unknown tag) leaves the state unchanged, as the builders' `Err` results do. -/
def step {α : Type} (s : SState α) : Op α → Option (SState α)
  | .addTag name typ =>
    if hasName s name then none
    else some { s with tags := s.tags ++ [⟨name, typ, List.replicate s.files.length false⟩] }
  | .addFile f =>
    some { files := s.files ++ [f], tags := s.tags.map fun t => { t with mem := t.mem ++ [false] } }
  | .assoc i name =>
    if i < s.files.length ∧ hasName s name then some { s with tags := setMem s.tags i name true }
    else some s
  | .dissoc i name =>
    if i < s.files.length ∧ hasName s name then some { s with tags := setMem s.tags i name false }
    else some s
  | .removeFile k =>
    if k < s.files.length then
      some { files := s.files.eraseIdx k,
             tags := s.tags.map fun t => { t with mem := t.mem.eraseIdx k } }
    else some s
  | .removeTag name => some { s with tags := s.tags.filter fun t => t.name ≠ name }

def run {α : Type} : SState α → List (Op α) → Option (SState α)
  | s, [] => some s
  | s, op :: ops => match step s op with | none => none | some s' => run s' ops

/-! ### queries -/

def find (tags : List STag) (name : Bytes) : Option STag := tags.find? fun t => t.name = name

/-- is file `i` a member of the tag? (`false` outside the vector) -/
def STag.has (t : STag) (i : Nat) : Bool := t.mem[i]? = some true

/-- files of one tag -/
def filesOf (tags : List STag) (n : Nat) (name : Bytes) : List Nat :=
  match find tags name with
  | none => []
  | some t => (List.range n).filter t.has

/-- all-of: files that are members of EVERY named tag (intersection); defined when every name
exists. -/
def allOf (tags : List STag) (n : Nat) (names : List Bytes) : Option (List Nat) :=
  if names.all (fun nm => (find tags nm).isSome) then
    some ((List.range n).filter fun i => names.all fun nm =>
      match find tags nm with | some t => t.has i | none => false)
  else none

/-- any-of: files that are members of SOME named tag (union); unknown names contribute nothing -/
def anyOf (tags : List STag) (n : Nat) (names : List Bytes) : List Nat :=
  (List.range n).filter fun i => names.any fun nm =>
    match find tags nm with | some t => t.has i | none => false

/-- sum of `size` over a list of file indices -/
def sumOver (sizes : List Nat) (idx : List Nat) : Nat :=
  (idx.filterMap fun i => sizes[i]?).sum

end Cascette.Spec.TagSets
