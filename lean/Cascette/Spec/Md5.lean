/-
Spec/Md5 — RFC 1321 MD5, transcribed (padding, four rounds of sixteen steps, little-endian
words).  Executable; the BLTE theorems treat the chunk checksum as an arbitrary function `H`, and
the C01 driver instantiates `H` with this function so that the model writes the same 16 checksum
bytes as the real code.  Checked against the RFC 1321 appendix A.5 test suite by kernel evaluation
below (tests of the transcription) and against the `md-5` crate by the correspondence run.
-/
import Cascette.Base.Bytes
namespace Cascette.Spec.Md5
open Cascette

/-- RFC 1321 §3.4: `T[i] = floor(2^32 * |sin(i+1)|)`. -/
def T : Array W32 := #[0xd76aa478, 0xe8c7b756, 0x242070db, 0xc1bdceee, 0xf57c0faf, 0x4787c62a, 0xa8304613, 0xfd469501, 0x698098d8, 0x8b44f7af, 0xffff5bb1, 0x895cd7be, 0x6b901122, 0xfd987193, 0xa679438e, 0x49b40821, 0xf61e2562, 0xc040b340, 0x265e5a51, 0xe9b6c7aa, 0xd62f105d, 0x02441453, 0xd8a1e681, 0xe7d3fbc8, 0x21e1cde6, 0xc33707d6, 0xf4d50d87, 0x455a14ed, 0xa9e3e905, 0xfcefa3f8, 0x676f02d9, 0x8d2a4c8a, 0xfffa3942, 0x8771f681, 0x6d9d6122, 0xfde5380c, 0xa4beea44, 0x4bdecfa9, 0xf6bb4b60, 0xbebfbc70, 0x289b7ec6, 0xeaa127fa, 0xd4ef3085, 0x04881d05, 0xd9d4d039, 0xe6db99e5, 0x1fa27cf8, 0xc4ac5665, 0xf4292244, 0x432aff97, 0xab9423a7, 0xfc93a039, 0x655b59c3, 0x8f0ccc92, 0xffeff47d, 0x85845dd1, 0x6fa87e4f, 0xfe2ce6e0, 0xa3014314, 0x4e0811a1, 0xf7537e82, 0xbd3af235, 0x2ad7d2bb, 0xeb86d391]

/-- per-step left-rotation amounts. -/
def S : Array Nat := #[7, 12, 17, 22, 7, 12, 17, 22, 7, 12, 17, 22, 7, 12, 17, 22, 5, 9, 14, 20, 5, 9, 14, 20, 5, 9, 14, 20, 5, 9, 14, 20, 4, 11, 16, 23, 4, 11, 16, 23, 4, 11, 16, 23, 4, 11, 16, 23, 6, 10, 15, 21, 6, 10, 15, 21, 6, 10, 15, 21, 6, 10, 15, 21]

structure St where
  a : W32
  b : W32
  c : W32
  d : W32
deriving DecidableEq, Repr

def init : St := ⟨0x67452301, 0xefcdab89, 0x98badcfe, 0x10325476⟩

/-- one of the 64 steps on block words `m`. -/
def stepFn (m : Array W32) (s : St) (i : Nat) : St :=
  let (f, g) : W32 × Nat :=
    if i < 16 then ((s.b &&& s.c) ||| (~~~s.b &&& s.d), i)
    else if i < 32 then ((s.d &&& s.b) ||| (~~~s.d &&& s.c), (5 * i + 1) % 16)
    else if i < 48 then (s.b ^^^ s.c ^^^ s.d, (3 * i + 5) % 16)
    else (s.c ^^^ (s.b ||| ~~~s.d), (7 * i) % 16)
  let x := f + s.a + T.getD i 0 + m.getD g 0
  ⟨s.d, s.b + x.rotateLeft (S.getD i 0), s.b, s.c⟩

/-- sixteen little-endian words of a 64-byte block. -/
def words : Bytes → List W32
  | b0 :: b1 :: b2 :: b3 :: rest => le32 b0 b1 b2 b3 :: words rest
  | _ => []

def block (s : St) (blk : Bytes) : St :=
  let m := (words blk).toArray
  let r := (List.range 64).foldl (stepFn m) s
  ⟨s.a + r.a, s.b + r.b, s.c + r.c, s.d + r.d⟩

/-- §3.1–3.2 padding: `0x80`, zeros to 56 mod 64, 64-bit little-endian bit length. -/
def pad (msg : Bytes) : Bytes :=
  let n := msg.length
  let z := (119 - n % 64) % 64
  let bits := 8 * n
  msg ++ [0x80] ++ List.replicate z 0 ++
    (List.range 8).map fun i => BitVec.ofNat 8 (bits / 256 ^ i)

def blocks : Nat → St → Bytes → St
  | 0, s, _ => s
  | n + 1, s, bs => blocks n (block s (bs.take 64)) (bs.drop 64)

/-- MD5 digest (16 bytes). -/
def md5 (msg : Bytes) : Bytes :=
  let p := pad msg
  let s := blocks (p.length / 64) init p
  toLe32 s.a ++ toLe32 s.b ++ toLe32 s.c ++ toLe32 s.d

theorem md5_length (msg : Bytes) : (md5 msg).length = 16 := by
  simp [md5, toLe32]

end Cascette.Spec.Md5

/-! ## Tests of the transcription (RFC 1321 A.5), kernel-evaluated; labelled as tests. -/
namespace Cascette.Spec.Md5
-- MD5("") = d41d8cd98f00b204e9800998ecf8427e
example : md5 [] = [0xd4,0x1d,0x8c,0xd9,0x8f,0x00,0xb2,0x04,0xe9,0x80,0x09,0x98,0xec,0xf8,0x42,0x7e] := by
  decide +kernel
-- MD5("abc") = 900150983cd24fb0d6963f7d28e17f72
example : md5 [0x61,0x62,0x63] =
    [0x90,0x01,0x50,0x98,0x3c,0xd2,0x4f,0xb0,0xd6,0x96,0x3f,0x7d,0x28,0xe1,0x7f,0x72] := by
  decide +kernel
end Cascette.Spec.Md5
