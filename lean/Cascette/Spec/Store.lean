/-
Spec/Store — what C04 asks of local storage: a map from (9-byte) encoding key to the bytes that
were written under it.  A write binds the key, a read of a bound key returns exactly those bytes
(cut to the caller's buffer), a removed or never-written key is not found, and nothing else —
later writes of any size, flush / persist, close and reopen (`sync`) — changes the map.
-/
import Cascette.Base.Bytes
namespace Cascette.Spec.Store
open Cascette

abbrev Map := Nat → Option Bytes

def Map.empty : Map := fun _ => none
def Map.set (m : Map) (k : Nat) (v : Option Bytes) : Map := fun i => if i = k then v else m i

inductive Op
  | write (k : Nat) (d : Bytes)
  | read (k : Nat) (buf : Nat)
  | query (k : Nat)
  | remove (k : Nat)
  /-- flush, persist, close + reopen: no effect on the map -/
  | sync
deriving Repr

inductive Out
  | ok
  | bytes (b : Bytes)
  | bool (b : Bool)
  | notFound
deriving DecidableEq, Repr

def step (m : Map) : Op → Map × Out
  | .write k d => (Map.set m k (some d), .ok)
  | .read k buf =>
    match m k with
    | some d => (m, .bytes (d.take buf))
    | none => (m, .notFound)
  | .query k => (m, .bool (m k).isSome)
  | .remove k => (Map.set m k none, .ok)
  | .sync => (m, .ok)

def run : Map → List Op → Map × List Out
  | m, [] => (m, [])
  | m, op :: ops =>
    let r := step m op
    let rest := run r.1 ops
    (rest.1, r.2 :: rest.2)

end Cascette.Spec.Store
