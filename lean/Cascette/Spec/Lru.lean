/-
Spec/Lru — the textbook LRU of property C17 and the (trivial) persistence it is asked to
survive: a checkpoint stores the current recency order under the current generation, a reload
puts a stored order back.

`order` lists the keys from the least recently used (the LRU tail, evicted first) to the most
recently used (the MRU head).  No slots, no pointers, no free list: capacity is the single
number `cap`, and "full" means `order.length = cap`.

The generation / file bookkeeping (`Files`, `nextGen`) is shared with the models: it is the
documented behaviour of `bump_generation`, `checkpoint_to_disk` (write current generation,
delete the previous one), `find_latest_lru_file` (largest generation) and `scan_directory`
(keep current and previous generation only), none of which is about recency.
-/
namespace Cascette.Spec.Lru

/-- operations of the quantifier of C17 (`reopen` = drop the manager and construct a new one of
the same capacity over the same directory). -/
inductive Op (κ : Type) where
  | touch (k : κ)
  | remove (k : κ)
  | evictTail
  | evictTo (target avg : Nat)
  | bump
  | checkpoint
  | load (g : Nat)
  | runCycle (limit avg : Nat)
  | reset
  | reopen
  deriving Repr, DecidableEq

/-- canonical results (slot numbers returned by `evict_tail` are not observable). -/
inductive Out where
  | bool (b : Bool)
  | evicted (n freed : Nat)
  | ok
  | err
  | cycle (loaded evicted freed active : Nat)
  deriving Repr, DecidableEq

/-! ### generation-numbered files (shared by spec and models; `σ` = what a file holds) -/

abbrev Files (σ : Type) := List (Nat × σ)

namespace Files
variable {σ : Type}

def lookup : Files σ → Nat → Option σ
  | [], _ => none
  | (g', v) :: rest, g => if g' = g then some v else lookup rest g

def delete (fs : Files σ) (g : Nat) : Files σ := fs.filter (fun p => p.1 ≠ g)

/-- `fs::write` of generation `g` (create or replace). -/
def write (fs : Files σ) (g : Nat) (v : σ) : Files σ := (g, v) :: delete fs g

/-- `find_latest_lru_file`: the largest generation present. -/
def latest : Files σ → Option Nat
  | [] => none
  | (g, _) :: rest =>
    match latest rest with
    | none => some g
    | some m => some (if m < g then g else m)

/-- `scan_directory`: every file that is neither the current nor the previous generation goes. -/
def scan (fs : Files σ) (gen prev : Nat) : Files σ := fs.filter (fun p => p.1 = gen ∨ p.1 = prev)

end Files

/-- `bump_generation`: `wrapping_add(1)` on a `u64`, skipping 0. -/
def nextGen (g : Nat) : Nat := if g + 1 ≥ 2 ^ 64 then 1 else g + 1

/-! ### the textbook LRU on a recency list -/

section
variable {κ : Type} [DecidableEq κ]

/-- touch: a present key becomes most recent; an absent key is appended, evicting the least
recent one first when full; with nothing to evict (capacity 0) the touch is refused. -/
def touch (cap : Nat) (o : List κ) (k : κ) : List κ × Bool :=
  if k ∈ o then (o.erase k ++ [k], true)
  else if o.length < cap then (o ++ [k], true)
  else match o with
    | [] => ([], false)
    | _ :: t => (t ++ [k], true)

def remove (o : List κ) (k : κ) : List κ × Bool :=
  if k ∈ o then (o.erase k, true) else (o, false)

def evictTail : List κ → List κ × Bool
  | [] => ([], false)
  | _ :: t => (t, true)

/-- `evict_to_target`: evict least-recent entries while `freed < target`, each one counting
`avg` bytes.  Returns (remaining order, entries evicted, bytes freed); `freed` is the running
total on entry. -/
def evictTo (target avg : Nat) : List κ → Nat → List κ × Nat × Nat
  | [], freed => ([], 0, freed)
  | x :: t, freed =>
    if freed < target then
      let r := evictTo target avg t (freed + avg)
      (r.1, r.2.1 + 1, r.2.2)
    else (x :: t, 0, freed)

/-- the textbook LRU with checkpoints. -/
structure Store (κ : Type) where
  cap : Nat
  order : List κ
  gen : Nat
  prev : Nat
  files : Files (List κ)
  deriving Repr, DecidableEq

def Store.init (cap : Nat) : Store κ := { cap := cap, order := [], gen := 1, prev := 0, files := [] }

def Store.contains (s : Store κ) (k : κ) : Bool := decide (k ∈ s.order)
def Store.len (s : Store κ) : Nat := s.order.length

/-- eviction step of `run_cycle` (nothing happens unless both numbers are positive and the
table is over the limit). -/
def cycleEvict (limit avg : Nat) (o : List κ) : List κ × Nat × Nat :=
  if 0 < limit ∧ 0 < avg then
    if limit < o.length * avg then evictTo (o.length * avg - limit) avg o 0 else (o, 0, 0)
  else (o, 0, 0)

def step (s : Store κ) : Op κ → Store κ × Out
  | .touch k => let r := touch s.cap s.order k; ({ s with order := r.1 }, .bool r.2)
  | .remove k => let r := remove s.order k; ({ s with order := r.1 }, .bool r.2)
  | .evictTail => let r := evictTail s.order; ({ s with order := r.1 }, .bool r.2)
  | .evictTo target avg =>
    let r := evictTo target avg s.order 0
    ({ s with order := r.1 }, .evicted r.2.1 r.2.2)
  | .bump => ({ s with prev := s.gen, gen := nextGen s.gen }, .ok)
  | .checkpoint =>
    let fs := Files.write s.files s.gen s.order
    ({ s with files := if s.prev ≠ 0 ∧ s.prev ≠ s.gen then Files.delete fs s.prev else fs }, .ok)
  | .load g =>
    match Files.lookup s.files g with
    | none => (s, .err)
    | some snap => ({ s with order := snap, gen := g }, .ok)
  | .runCycle limit avg =>
    match Files.latest s.files with
    | none =>
      let r := cycleEvict limit avg s.order
      ({ s with order := r.1, files := Files.scan s.files s.gen s.prev }, .cycle 0 r.2.1 r.2.2 r.1.length)
    | some g =>
      match Files.lookup s.files g with
      | none => (s, .err)
      | some snap =>
        let r := cycleEvict limit avg snap
        ({ s with order := r.1, gen := g, files := Files.scan s.files g s.prev },
          .cycle snap.length r.2.1 r.2.2 r.1.length)
  | .reset => ({ s with order := [] }, .ok)
  | .reopen => ({ s with order := [], gen := 1, prev := 0 }, .ok)

/-- run a history, collecting the results. -/
def run (s : Store κ) : List (Op κ) → Store κ × List Out
  | [] => (s, [])
  | op :: ops =>
    let r := step s op
    let rest := run r.1 ops
    (rest.1, r.2 :: rest.2)

end
end Cascette.Spec.Lru
