/-
Spec/Lookup3 — Bob Jenkins, lookup3.c (2006), `hashlittle` and `hashlittle2`, stated once and
generically: 12-byte blocks while more than 12 bytes remain, then the remaining 1..12 bytes
zero-padded to three little-endian words, `final`; an empty remainder skips `final`.
-/
import Cascette.Base.Bytes
namespace Cascette.Spec.Lookup3
open Cascette

def rot (x : W32) (k : Nat) : W32 := x.rotateLeft k

/-- lookup3.c `mix(a,b,c)`. -/
def mix (a b c : W32) : W32 × W32 × W32 :=
  let a := a - c; let a := a ^^^ rot c 4;  let c := c + b
  let b := b - a; let b := b ^^^ rot a 6;  let a := a + c
  let c := c - b; let c := c ^^^ rot b 8;  let b := b + a
  let a := a - c; let a := a ^^^ rot c 16; let c := c + b
  let b := b - a; let b := b ^^^ rot a 19; let a := a + c
  let c := c - b; let c := c ^^^ rot b 4;  let b := b + a
  (a, b, c)

/-- lookup3.c `final(a,b,c)`. -/
def final (a b c : W32) : W32 × W32 × W32 :=
  let c := c ^^^ b; let c := c - rot b 14
  let a := a ^^^ c; let a := a - rot c 11
  let b := b ^^^ a; let b := b - rot a 25
  let c := c ^^^ b; let c := c - rot b 16
  let a := a ^^^ c; let a := a - rot c 4
  let b := b ^^^ a; let b := b - rot a 14
  let c := c ^^^ b; let c := c - rot b 24
  (a, b, c)

/-- the first three little-endian words of `k` zero-padded to 12 bytes. -/
def words3 (k : Bytes) : W32 × W32 × W32 :=
  match k ++ List.replicate 12 (0 : Byte) with
  | k0 :: k1 :: k2 :: k3 :: k4 :: k5 :: k6 :: k7 :: k8 :: k9 :: k10 :: k11 :: _ =>
      (le32 k0 k1 k2 k3, le32 k4 k5 k6 k7, le32 k8 k9 k10 k11)
  | _ => (0, 0, 0)

/-- main loop + tail; returns `(a, b, c)` after `final`, or untouched when nothing remains. -/
def absorb (k : Bytes) (a b c : W32) : W32 × W32 × W32 :=
  if _h : k.length > 12 then
    let (w0, w1, w2) := words3 k
    let (a, b, c) := mix (a + w0) (b + w1) (c + w2)
    absorb (k.drop 12) a b c
  else if k.length = 0 then (a, b, c)
  else
    let (w0, w1, w2) := words3 k
    final (a + w0) (b + w1) (c + w2)
termination_by k.length
decreasing_by simp only [List.length_drop]; omega

/-- `hashlittle2(key, length, &pc, &pb)`: returns the new `(pc, pb)`. `length` is a `uint32_t`
quantity in the initialisation (`(uint32_t)length`). -/
def hashlittle2 (k : Bytes) (pc pb : W32) : W32 × W32 :=
  let i : W32 := 0xdeadbeef + BitVec.ofNat 32 k.length + pc
  let (_, b, c) := absorb k i i (i + pb)
  (c, b)

/-- `hashlittle(key, length, initval)`. -/
def hashlittle (k : Bytes) (initval : W32) : W32 :=
  let i : W32 := 0xdeadbeef + BitVec.ofNat 32 k.length + initval
  (absorb k i i i).2.2

end Cascette.Spec.Lookup3
