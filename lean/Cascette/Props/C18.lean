/-
Props/C18 — "Compaction never loses or overwrites live data".

Model: `Model/Compaction.lean` (of `storage/compaction.rs` after the two `fix:` commits listed in
KNOWN_FINDINGS.txt, and of the truncation in `ArchiveManager::compact`). Spec:
`Spec/Compaction.lean` (`Disjoint` = pairwise `DataSpan::overlaps` is false, `concatLive`,
`memmove`). All statements are over `Nat` offsets: on the Rust side they need
`offset + length < 2^64` and, for the planner, write positions and segment size `< 2^63`
(unchecked `u64` additions) — listed as assumptions in `lib/cfg/C18.py`.

Changes against DESIGN.md §6: `validate_iff_disjoint` is stated against the crate's own
`DataSpan::overlaps` (which made the equal-offset/zero-length defect visible, now fixed);
`compact_eq_concat_live` is false for the empty span set on the tree as it is (finding
`empty-span-set-noop`), so it appears as counter-witness + `_partial` + exact description of
the empty case; "offset order" is any arrangement non-decreasing in offset, not the model's own
sort; the four planner theorems are proved for every population of at most 65536 segments
(`u16` index) after the one-line repair, plus four more (`plan_never_panics`,
`plan_moves_whole_frozen_sources`, `plan_sources_moved_once`, `plan_total_truthful`).
-/
import Cascette.Proofs.Compaction
import Cascette.Proofs.CompactionPlan
namespace Cascette.Props.C18
open Cascette Cascette.Spec.Compaction Cascette.Model.Compaction
open Cascette.Proofs.Compaction Cascette.Proofs.CompactionPlan

/-! ## span validation -/

/-- `validate_spans` accepts a span list exactly when no two of its members overlap
(`DataSpan::overlaps`), for every list: unsorted, adjacent, zero-length, equal offsets. -/
theorem validate_iff_disjoint (spans : List Span) :
    (validateSpans spans).2 = true ↔ Disjoint spans :=
  validate_ok_iff spans

/-- the slice left behind by `validate_spans` is a rearrangement of the input, and when the call
succeeds it is in offset order with every span ending before the next one starts. -/
theorem validate_sorts (spans : List Span) :
    (validateSpans spans).1.Perm spans ∧
    ((validateSpans spans).2 = true →
      OffsetOrdered (validateSpans spans).1 ∧
      (validateSpans spans).1.Pairwise (fun a b => a.stop ≤ b.off)) :=
  ⟨validate_perm spans, fun h => ⟨validate_offsetOrdered spans h, validate_chain spans h⟩⟩

/-- an overlapping span set is refused and the file is left exactly as it was — for every file,
every mover (buffer size) and every such span set. -/
theorem refuse_leaves_file (m : Mover) (f : Bytes) (spans : List Span) (h : ¬ Disjoint spans) :
    extractCompact m f spans = ⟨f, none⟩ :=
  extractCompact_refuse m f spans h

/-! ## the buffered in-place copy -/

/-- every budget gives a buffer of at least 128 KiB (in particular non-zero, so the chunk loops
make progress), 1..16 buffers, and never more than the clamped budget in total. -/
theorem mover_buffer_sizing (budget : Nat) :
    MIN_BUFFER_SIZE ≤ (moverNew budget).bufSize ∧
    1 ≤ (moverNew budget).bufCount ∧ (moverNew budget).bufCount ≤ MAX_BUFFERS ∧
    (moverNew budget).bufSize * (moverNew budget).bufCount ≤ max budget MIN_BUFFER_SIZE :=
  ⟨moverNew_bufSize_ge budget, (moverNew_bufCount budget).1, (moverNew_bufCount budget).2,
    moverNew_within_budget budget⟩

/-- the chunk loop of `compact_in_place`, for EVERY buffer size `buf ≥ 1`, every file and every
geometry with `dst ≤ src` and the source range inside the file (overlapping ranges, spans many
buffers long, gap smaller than the buffer …): the result is `memmove`, every byte is counted and
no I/O call fails. -/
theorem chunked_forward_copy_safe (buf : Nat) (hbuf : 0 < buf) (f : Bytes)
    (src dst len moved : Nat) (hd : dst ≤ src) (hb : src + len ≤ f.length) :
    copyLoop buf hbuf f src dst len moved = (memmove f src dst len, moved + len, true) :=
  copyLoop_forward buf hbuf f src dst len moved hd hb

/-- the same for the public entry point, including its `src == dst` early return. -/
theorem compact_in_place_safe (m : Mover) (f : Bytes) (src dst len : Nat) (hd : dst ≤ src)
    (hb : src + len ≤ f.length) :
    (compactInPlace m f src dst len).1 = memmove f src dst len ∧
    (compactInPlace m f src dst len).2.2 = true := by
  by_cases h : src = dst
  · subst h
    unfold compactInPlace
    rw [if_pos rfl, memmove_self f src len hb]
    exact ⟨rfl, rfl⟩
  · rw [compactInPlace_forward m f src dst len (by omega) hb]
    exact ⟨rfl, rfl⟩

/-- `move_data` (the executor of merge-plan moves, two different files), for EVERY buffer size:
an in-bounds source range of any length lands in the destination exactly as one `write_all` of
the whole range at `dest_offset` would put it (bytes outside `[dest_offset, dest_offset+len)`
are kept; a hole past the end is zero-filled), every byte is counted, no I/O call fails. -/
theorem chunked_move_data_safe (buf : Nat) (hbuf : 0 < buf) (s d : Bytes)
    (so dof len moved : Nat) (hpos : 0 < len) (hb : so + len ≤ s.length) :
    moveLoop buf hbuf s d so dof len moved = (writeAt d dof (slice s so len), moved + len, true) :=
  moveLoop_spec buf hbuf s d so dof len moved hpos hb

/-! ## extract-compact

FULL STATEMENT (what the property says; FALSE on the tree for `spans = []`, see
`compact_empty_set_counterexample`; finding `empty-span-set-noop`):

  theorem compact_eq_concat_live (m f spans t) (hd : Disjoint spans)
      (hb : InBounds f.length spans) (hp : t.Perm spans) (ho : OffsetOrdered t) :
      extractCompact m f spans = ⟨concatLive f t, some (f.length - (concatLive f t).length)⟩
-/

/-- counter-witness to the full statement: with NO live span the one-byte file is kept and
0 bytes are reported saved, where the property asks for the empty concatenation (1 byte saved). -/
theorem compact_empty_set_counterexample (m : Mover) :
    extractCompact m [0x2a] [] ≠ ⟨concatLive [0x2a] [], some (1 - (concatLive [0x2a] []).length)⟩ := by
  intro h
  have := congrArg XcOut.file h
  simp [extractCompact, concatLive] at this

/-- exactly what the code does with an empty span list: nothing (explicit early return). -/
theorem compact_empty_set_noop (m : Mover) (f : Bytes) : extractCompact m f [] = ⟨f, some 0⟩ := rfl

/-- for every file, every mover (budget), every NON-EMPTY span list that is pairwise
non-overlapping and inside the file — given in any order, with adjacent, gapped, zero-length
spans, spans starting after offset 0, spans longer than the buffer — the call succeeds, the file
becomes the spans' ORIGINAL bytes concatenated in offset order (`t` is any arrangement of the
spans that is non-decreasing in offset), and the reported saving is the original length minus
the new length. -/
theorem compact_eq_concat_live_partial (m : Mover) (f : Bytes) (spans t : List Span)
    (hne : spans ≠ []) (hd : Disjoint spans) (hb : InBounds f.length spans)
    (hp : t.Perm spans) (ho : OffsetOrdered t) :
    extractCompact m f spans = ⟨concatLive f t, some (f.length - (concatLive f t).length)⟩ := by
  obtain ⟨he, _⟩ := extractCompact_ok m f spans hne hd hb
  have hv : (validateSpans spans).2 = true := (validate_ok_iff spans).2 hd
  have hperm := validate_perm spans
  have hdt : Disjoint t := (hp.pairwise_iff (fun h => overlaps_symm h)).2 hd
  have hcl : concatLive f t = concatLive f (validateSpans spans).1 :=
    concatLive_order_irrelevant f t _ (hp.trans hperm.symm) ho (validate_offsetOrdered spans hv) hdt
  have hbt : InBounds f.length t := fun s hs => hb s (hp.subset hs)
  rw [he, hcl, ← hcl, concatLive_length f t hbt, sumLen_perm hp]

/-- live bytes are never more than the file: the concatenation fits. -/
theorem live_bytes_fit (m : Mover) (f : Bytes) (spans : List Span) (hne : spans ≠ [])
    (hd : Disjoint spans) (hb : InBounds f.length spans) : sumLen spans ≤ f.length :=
  (extractCompact_ok m f spans hne hd hb).2

/-- for EVERY span list (also out-of-bounds or empty ones): whenever the call returns
`Ok(saved)`, `saved` is exactly the number of bytes by which the file shrank, and the file never
grows. -/
theorem bytes_saved_truthful (m : Mover) (f : Bytes) (spans : List Span) (f' : Bytes) (saved : Nat)
    (h : extractCompact m f spans = ⟨f', some saved⟩) :
    saved = f.length - f'.length ∧ f'.length ≤ f.length :=
  extractCompact_saved m f spans f' saved h

/-! ## the merge planner (after the repair of the first destination cursor) -/

/-- the index expression `sources[dest_idx]` never panics: a plan is always produced. -/
theorem plan_never_panics (isSource : Nat → Bool) (segSize : Nat) (segs : List Seg)
    (hlen : segs.length ≤ 65536) : ∃ plan, planMerge isSource segSize segs = some plan := by
  obtain ⟨plan, h, _⟩ := planMerge_spec isSource segSize segs hlen
  exact ⟨plan, h⟩

/-- no move is directed onto bytes its destination segment already uses — for every population,
every utilisation test (threshold, f64 rounding) and every segment size. -/
theorem plan_no_clobber (isSource : Nat → Bool) (segSize : Nat) (segs : List Seg)
    (hlen : segs.length ≤ 65536) (plan : Plan) (h : planMerge isSource segSize segs = some plan) :
    ∀ m ∈ plan.moves, ∃ sd, segs[m.dst]? = some sd ∧ sd.used ≤ m.dstOff := by
  obtain ⟨plan', h', hm, _⟩ := planMerge_spec isSource segSize segs hlen
  rw [h] at h'; cases h'
  intro m hmem
  obtain ⟨sd, ss, h1, _, h3, _⟩ := hm m hmem
  exact ⟨sd, h1, h3⟩

/-- two moves into one segment never overlap: the later one starts where the earlier one ended
or beyond. -/
theorem plan_moves_disjoint (isSource : Nat → Bool) (segSize : Nat) (segs : List Seg)
    (hlen : segs.length ≤ 65536) (plan : Plan) (h : planMerge isSource segSize segs = some plan) :
    plan.moves.Pairwise (fun a b => a.dst = b.dst → a.dstOff + a.len ≤ b.dstOff) := by
  obtain ⟨plan', h', _, ho, _⟩ := planMerge_spec isSource segSize segs hlen
  rw [h] at h'; cases h'
  exact ho

/-- no move ends beyond the segment size. -/
theorem plan_within_size (isSource : Nat → Bool) (segSize : Nat) (segs : List Seg)
    (hlen : segs.length ≤ 65536) (plan : Plan) (h : planMerge isSource segSize segs = some plan) :
    ∀ m ∈ plan.moves, m.dstOff + m.len ≤ segSize := by
  obtain ⟨plan', h', hm, _⟩ := planMerge_spec isSource segSize segs hlen
  rw [h] at h'; cases h'
  intro m hmem
  obtain ⟨sd, ss, _, _, _, h4, _⟩ := hm m hmem
  exact h4

/-- no segment is moved onto itself. -/
theorem plan_src_ne_dst (isSource : Nat → Bool) (segSize : Nat) (segs : List Seg)
    (hlen : segs.length ≤ 65536) (plan : Plan) (h : planMerge isSource segSize segs = some plan) :
    ∀ m ∈ plan.moves, m.src ≠ m.dst := by
  obtain ⟨plan', h', hm, _⟩ := planMerge_spec isSource segSize segs hlen
  rw [h] at h'; cases h'
  intro m hmem
  obtain ⟨sd, ss, _, _, _, _, h5, _⟩ := hm m hmem
  exact h5

/-- every move takes the whole used range `[0, used)` of a frozen, non-empty source that passed
the utilisation test, into a frozen segment that passed it too; so inside a segment that is both
a source and a destination the bytes read (`< used`) and the bytes written (`≥ used`) are
disjoint. -/
theorem plan_moves_whole_frozen_sources (isSource : Nat → Bool) (segSize : Nat) (segs : List Seg)
    (hlen : segs.length ≤ 65536) (plan : Plan) (h : planMerge isSource segSize segs = some plan) :
    ∀ m ∈ plan.moves, ∃ sd ss, segs[m.dst]? = some sd ∧ segs[m.src]? = some ss ∧
      m.srcOff = 0 ∧ m.len = ss.used ∧ 0 < ss.used ∧ ss.frozen = true ∧ sd.frozen = true ∧
      isSource ss.used = true ∧ isSource sd.used = true := by
  obtain ⟨plan', h', hm, _⟩ := planMerge_spec isSource segSize segs hlen
  rw [h] at h'; cases h'
  intro m hmem
  obtain ⟨sd, ss, h1, h2, _, _, _, h6, h7, h8, h9, h10, h11, h12⟩ := hm m hmem
  exact ⟨sd, ss, h1, h2, h6, h7, h8, h9, h10, h11, h12⟩

/-- no segment is moved twice. -/
theorem plan_sources_moved_once (isSource : Nat → Bool) (segSize : Nat) (segs : List Seg)
    (hlen : segs.length ≤ 65536) (plan : Plan) (h : planMerge isSource segSize segs = some plan) :
    plan.moves.Pairwise (fun a b => a.src ≠ b.src) := by
  obtain ⟨plan', h', _, _, hs, _⟩ := planMerge_spec isSource segSize segs hlen
  rw [h] at h'; cases h'
  exact hs

/-- `total_bytes` is the sum of the move lengths. -/
theorem plan_total_truthful (isSource : Nat → Bool) (segSize : Nat) (segs : List Seg)
    (hlen : segs.length ≤ 65536) (plan : Plan) (h : planMerge isSource segSize segs = some plan) :
    plan.total = (plan.moves.map (·.len)).sum := by
  obtain ⟨plan', h', _, _, _, ht⟩ := planMerge_spec isSource segSize segs hlen
  rw [h] at h'; cases h'
  exact ht

/-! ## `ArchiveManager::compact` — truncation to the write position -/

/-- whatever the utilisation test answers, truncating to the write position keeps every byte
below the write position (and the write position itself). -/
theorem archive_compact_keeps_written (utilLow : Nat → Nat → Bool) (a : Arch)
    (h : a.used ≤ a.file.length) :
    (archCompact utilLow a).1.file.take a.used = a.file.take a.used ∧
    (archCompact utilLow a).1.used = a.used :=
  archCompact_keeps utilLow a h

/-- on every state the manager can reach by `open_archive` and any sequence of `write_content`
(any remap decisions), `compact()` leaves the archive untouched and reclaims 0 bytes: the recorded
size never exceeds the write position, so the truncating branch is dead. -/
theorem archive_compact_noop_on_reachable (grew utilLow : Nat → Nat → Bool) (f : Bytes)
    (recs : List Bytes) :
    let a := recs.foldl (archWrite grew) (archOpen f)
    (archCompact utilLow a).1 = a ∧ (archCompact utilLow a).2.2 = 0 :=
  archCompact_noop utilLow _ (arch_history_inv grew recs _ (archOpen_inv f))

/-! ## hypotheses are satisfiable / the recorded witnesses (instances, not new claims) -/

/-- a non-trivial instance of the hypotheses of `compact_eq_concat_live_partial`: unsorted input,
a gap before the first span, a zero-length span sharing an offset with a non-empty one. -/
example : ([⟨8, 4⟩, ⟨2, 3⟩, ⟨8, 0⟩] : List Span) ≠ [] ∧ Disjoint [⟨8, 4⟩, ⟨2, 3⟩, ⟨8, 0⟩] ∧
    InBounds 16 [⟨8, 4⟩, ⟨2, 3⟩, ⟨8, 0⟩] ∧
    ([⟨2, 3⟩, ⟨8, 0⟩, ⟨8, 4⟩] : List Span).Perm [⟨8, 4⟩, ⟨2, 3⟩, ⟨8, 0⟩] ∧
    OffsetOrdered [⟨2, 3⟩, ⟨8, 0⟩, ⟨8, 4⟩] := by
  refine ⟨by simp, by unfold Disjoint; decide, by unfold InBounds; decide, by decide, ?_⟩
  unfold OffsetOrdered; decide

/-- the span list refused before commit "validate_spans orders equal offsets by length" is
accepted now (instance of `validate_iff_disjoint`; replayed on the real code by
corpus/C18/zero-length-tie.case). -/
example : (validateSpans [⟨3, 10⟩, ⟨3, 0⟩]).2 = true :=
  (validate_iff_disjoint _).2 (by unfold Disjoint; decide)

/-- the DESIGN §8 population (30 and 40 of 100 used): whatever plan comes out, nothing lands
below offset 30 of segment 0 (instance of `plan_no_clobber`; replayed by
corpus/C18/first-dest-cursor.case). -/
example (plan : Plan) (h : planMerge (fun _ => true) 100 [⟨true, 30⟩, ⟨true, 40⟩] = some plan) :
    ∀ m ∈ plan.moves, m.dst = 0 → 30 ≤ m.dstOff := by
  intro m hm hd
  obtain ⟨sd, h1, h2⟩ := plan_no_clobber _ 100 _ (by decide) plan h m hm
  rw [hd] at h1
  cases h1
  exact h2

end Cascette.Props.C18
