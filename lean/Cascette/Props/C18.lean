/-
Props/C18 — "Compaction never loses or overwrites live data".

Model: `Model/Compaction.lean` (of `storage/compaction.rs` after the four `fix:` commits listed
in KNOWN_FINDINGS.txt, and of the truncation in `ArchiveManager::compact`). Spec:
`Spec/Compaction.lean` (`Disjoint` = pairwise `DataSpan::overlaps` is false, `concatLive`,
`memmove`). Span code: statements over `Nat` offsets first, then the section "`u64` arithmetic"
proves that the code as compiled (wrapping additions behind the `checked_add` guard) computes the
same on EVERY input — so `offset + length < 2^64` is no longer an assumption. The planner is over
`Nat` and needs write positions and segment size `< 2^63` (unchecked `u64` additions) — listed
as an assumption in `lib/cfg/C18.py`; the real limits (1023 segments of 2^30) are inside
(`source_constants_tie`).

Changes against DESIGN.md §6: `validate_iff_disjoint` is stated against the crate's own
`DataSpan::overlaps` (which made the equal-offset/zero-length defect visible, now fixed);
`compact_eq_concat_live` is a full theorem since the empty-list early return was removed
(former finding `empty-span-set-noop`, /repo 79c672c); "offset order" is any arrangement
non-decreasing in offset, not the model's own sort; the four planner theorems are proved for
every population of at most 65536 segments (`u16` index) after the one-line repair, plus four
more (`plan_never_panics`, `plan_moves_whole_frozen_sources`, `plan_sources_moved_once`,
`plan_total_truthful`), plus `plan_execution_in_order_safe` (what an executor may assume) and
the witness `plan_source_may_also_be_target` (what it may not); the `source_*_tie` theorems tie
the model's constants and small expressions to the Rust text (Generated/CompactionSrc.lean).
-/
import Cascette.Proofs.Compaction
import Cascette.Proofs.CompactionU64
import Cascette.Proofs.CompactionPlan
import Cascette.Proofs.CompactionExec
import Cascette.Proofs.CompactionTie
namespace Cascette.Props.C18
open Cascette Cascette.Spec.Compaction Cascette.Model.Compaction
open Cascette.Proofs.Compaction Cascette.Proofs.CompactionU64 Cascette.Proofs.CompactionPlan
open Cascette.Proofs.CompactionExec

/-! ## span validation -/

/-- `validate_spans` accepts a span list exactly when no two of its members overlap
(`DataSpan::overlaps`), for every list: unsorted, adjacent, zero-length, equal offsets. -/
theorem validate_iff_disjoint (spans : List Span) :
    (validateSpans spans).2 = true ↔ Disjoint spans :=
  validate_ok_iff spans

/-- the slice left behind by `validate_spans` is a rearrangement of the input, and when the call
succeeds it is in offset order with every span ending before the next one starts. -/
theorem validate_sorts (spans : List Span) :
    (validateSpans spans).1.Perm spans ∧
    ((validateSpans spans).2 = true →
      OffsetOrdered (validateSpans spans).1 ∧
      (validateSpans spans).1.Pairwise (fun a b => a.stop ≤ b.off)) :=
  ⟨validate_perm spans, fun h => ⟨validate_offsetOrdered spans h, validate_chain spans h⟩⟩

/-- an overlapping span set is refused and the file is left exactly as it was — for every file,
every mover (buffer size) and every such span set. -/
theorem refuse_leaves_file (m : Mover) (f : Bytes) (spans : List Span) (h : ¬ Disjoint spans) :
    extractCompact m f spans = ⟨f, none⟩ :=
  extractCompact_refuse m f spans h

/-! ## the buffered in-place copy -/

/-- every budget gives a buffer of at least 128 KiB (in particular non-zero, so the chunk loops
make progress), 1..16 buffers, and never more than the clamped budget in total. -/
theorem mover_buffer_sizing (budget : Nat) :
    MIN_BUFFER_SIZE ≤ (moverNew budget).bufSize ∧
    1 ≤ (moverNew budget).bufCount ∧ (moverNew budget).bufCount ≤ MAX_BUFFERS ∧
    (moverNew budget).bufSize * (moverNew budget).bufCount ≤ max budget MIN_BUFFER_SIZE :=
  ⟨moverNew_bufSize_ge budget, (moverNew_bufCount budget).1, (moverNew_bufCount budget).2,
    moverNew_within_budget budget⟩

/-- the chunk loop of `compact_in_place`, for EVERY buffer size `buf ≥ 1`, every file and every
geometry with `dst ≤ src` and the source range inside the file (overlapping ranges, spans many
buffers long, gap smaller than the buffer …): the result is `memmove`, every byte is counted and
no I/O call fails. -/
theorem chunked_forward_copy_safe (buf : Nat) (hbuf : 0 < buf) (f : Bytes)
    (src dst len moved : Nat) (hd : dst ≤ src) (hb : src + len ≤ f.length) :
    copyLoop buf hbuf f src dst len moved = (memmove f src dst len, moved + len, true) :=
  copyLoop_forward buf hbuf f src dst len moved hd hb

/-- the same for the public entry point, including its `src == dst` early return. -/
theorem compact_in_place_safe (m : Mover) (f : Bytes) (src dst len : Nat) (hd : dst ≤ src)
    (hb : src + len ≤ f.length) :
    (compactInPlace m f src dst len).1 = memmove f src dst len ∧
    (compactInPlace m f src dst len).2.2 = true := by
  by_cases h : src = dst
  · subst h
    unfold compactInPlace
    rw [if_pos rfl, memmove_self f src len hb]
    exact ⟨rfl, rfl⟩
  · rw [compactInPlace_forward m f src dst len (by omega) hb]
    exact ⟨rfl, rfl⟩

/-- `move_data` (the executor of merge-plan moves, two different files), for EVERY buffer size:
an in-bounds source range of any length lands in the destination exactly as one `write_all` of
the whole range at `dest_offset` would put it (bytes outside `[dest_offset, dest_offset+len)`
are kept; a hole past the end is zero-filled), every byte is counted, no I/O call fails. -/
theorem chunked_move_data_safe (buf : Nat) (hbuf : 0 < buf) (s d : Bytes)
    (so dof len moved : Nat) (hpos : 0 < len) (hb : so + len ≤ s.length) :
    moveLoop buf hbuf s d so dof len moved = (writeAt d dof (slice s so len), moved + len, true) :=
  moveLoop_spec buf hbuf s d so dof len moved hpos hb

/-! ## extract-compact (after the repair of the empty-list early return, commit 79c672c) -/

/-- THE FULL STATEMENT: for every file, every mover (budget), every span list that is pairwise
non-overlapping and inside the file — given in any order, EMPTY, with adjacent, gapped,
zero-length spans, spans starting after offset 0, spans longer than the buffer — the call
succeeds, the file becomes the spans' ORIGINAL bytes concatenated in offset order (`t` is any
arrangement of the spans that is non-decreasing in offset), and the reported saving is the
original length minus the new length. -/
theorem compact_eq_concat_live (m : Mover) (f : Bytes) (spans t : List Span)
    (hd : Disjoint spans) (hb : InBounds f.length spans)
    (hp : t.Perm spans) (ho : OffsetOrdered t) :
    extractCompact m f spans = ⟨concatLive f t, some (f.length - (concatLive f t).length)⟩ := by
  obtain ⟨he, _⟩ := extractCompact_ok m f spans hd hb
  have hv : (validateSpans spans).2 = true := (validate_ok_iff spans).2 hd
  have hperm := validate_perm spans
  have hdt : Disjoint t := (hp.pairwise_iff (fun h => overlaps_symm h)).2 hd
  have hcl : concatLive f t = concatLive f (validateSpans spans).1 :=
    concatLive_order_irrelevant f t _ (hp.trans hperm.symm) ho (validate_offsetOrdered spans hv) hdt
  have hbt : InBounds f.length t := fun s hs => hb s (hp.subset hs)
  rw [he, hcl, ← hcl, concatLive_length f t hbt, sumLen_perm hp]

/-- the former witness of finding `empty-span-set-noop` (corpus/C18/empty-span-set.case), now an
instance of the full statement: with NO live span every file is cut to nothing and its whole
length is reported saved — exactly what a single zero-length span does. -/
theorem compact_empty_set_truncates (m : Mover) (f : Bytes) (o : Nat) :
    extractCompact m f [] = ⟨[], some f.length⟩ ∧
    extractCompact m f [⟨o, 0⟩] = extractCompact m f [] := by
  have h0 : extractCompact m f [] = ⟨[], some f.length⟩ := by
    have := compact_eq_concat_live m f [] [] List.Pairwise.nil (fun _ h => nomatch h)
      (List.Perm.refl _) List.Pairwise.nil
    simpa [concatLive] using this
  refine ⟨h0, ?_⟩
  rw [h0]
  have key : ∀ (g : Bytes) (mm : Mover), compactInPlace mm g o 0 0 = (g, mm, true) ∨ o = 0 := by
    intro g mm
    by_cases ho : o = 0
    · exact Or.inr ho
    · left
      unfold compactInPlace
      rw [if_neg ho]
      unfold copyLoop
      rfl
  unfold extractCompact validateSpans
  simp only [List.length_singleton, Nat.le_refl, if_true]
  unfold compactLoop
  by_cases ho : o > 0
  · rw [if_pos ho]
    rcases key f m with hk | hk
    · rw [hk]
      simp only [compactLoop, Nat.zero_add, Nat.sub_zero]
      by_cases hl : f.length > 0
      · rw [if_pos hl]; simp [setLen]
      · rw [if_neg hl]
        have : f = [] := List.eq_nil_of_length_eq_zero (by omega)
        subst this; rfl
    · omega
  · rw [if_neg ho]
    simp only [compactLoop, Nat.zero_add, Nat.sub_zero]
    by_cases hl : f.length > 0
    · rw [if_pos hl]; simp [setLen]
    · rw [if_neg hl]
      have : f = [] := List.eq_nil_of_length_eq_zero (by omega)
      subst this; rfl

/-- (kept name, now a corollary of `compact_eq_concat_live`) the statement for NON-EMPTY lists,
which is what could be proved before the repair. -/
theorem compact_eq_concat_live_partial (m : Mover) (f : Bytes) (spans t : List Span)
    (_hne : spans ≠ []) (hd : Disjoint spans) (hb : InBounds f.length spans)
    (hp : t.Perm spans) (ho : OffsetOrdered t) :
    extractCompact m f spans = ⟨concatLive f t, some (f.length - (concatLive f t).length)⟩ :=
  compact_eq_concat_live m f spans t hd hb hp ho

/-- live bytes are never more than the file: the concatenation fits. -/
theorem live_bytes_fit (m : Mover) (f : Bytes) (spans : List Span) (_hne : spans ≠ [])
    (hd : Disjoint spans) (hb : InBounds f.length spans) : sumLen spans ≤ f.length :=
  (extractCompact_ok m f spans hd hb).2

/-- for EVERY span list (also out-of-bounds or empty ones): whenever the call returns
`Ok(saved)`, `saved` is exactly the number of bytes by which the file shrank, and the file never
grows. -/
theorem bytes_saved_truthful (m : Mover) (f : Bytes) (spans : List Span) (f' : Bytes) (saved : Nat)
    (h : extractCompact m f spans = ⟨f', some saved⟩) :
    saved = f.length - f'.length ∧ f'.length ≤ f.length :=
  extractCompact_saved m f spans f' saved h

/-! ## `u64` arithmetic: the code as compiled (after the `checked_add` guard, commit 5594e7b)

`validateSpansU64` / `extractCompactU64` perform every addition of the Rust text
(`DataSpan::end`, `write_pos += length`, `src_pos += chunk`, `dest_pos += chunk`) modulo 2^64.
No range hypothesis on the spans below: they hold for EVERY pair of `u64` (indeed every `Nat`). -/

/-- `validate_spans` as compiled accepts exactly the lists in which no span's end leaves `u64`
and no two spans overlap (true, unbounded overlap — not the wrapped one). -/
theorem validate_u64_iff (spans : List Span) :
    (validateSpansU64 spans).2 = true ↔ NoOverflow spans ∧ Disjoint spans := by
  by_cases h : NoOverflow spans
  · rw [validateSpansU64_eq spans h, validate_ok_iff]
    exact ⟨fun hd => ⟨h, hd⟩, fun hd => hd.2⟩
  · rw [validateSpansU64_overflow spans h]
    constructor
    · intro hf; cases hf
    · intro hd; exact absurd hd.1 h

/-- a list with an overflowing span, or with two overlapping spans, is refused and the file is
left exactly as it was — for every file, mover and list. (On the pinned tree the wrapped `end()`
let such lists through: `pinned_wrapping_scan_accepts_overlap`.) -/
theorem overflowing_or_overlapping_refused (m : Mover) (f : Bytes) (spans : List Span)
    (h : ¬ (NoOverflow spans ∧ Disjoint spans)) : extractCompactU64 m f spans = ⟨f, none⟩ := by
  by_cases hn : NoOverflow spans
  · rw [extractCompactU64_eq m f spans hn]
    exact extractCompact_refuse m f spans (fun hd => h ⟨hn, hd⟩)
  · exact extractCompactU64_overflow m f spans hn

/-- behind the guard NO `u64` addition of `validate_spans` / `extract_compact_segment` /
`compact_in_place` wraps (release) or panics (debug): the code as compiled computes exactly what
the `Nat` model computes, so every theorem of this file about `extractCompact` is a theorem about
the compiled code. This discharges the former assumption `offset + length < 2^64`. -/
theorem extract_u64_refines_nat (m : Mover) (f : Bytes) (spans : List Span) :
    extractCompactU64 m f spans =
      if spans.any Span.overflows then ⟨f, none⟩ else extractCompact m f spans := by
  cases h : spans.any Span.overflows with
  | false =>
    rw [extractCompactU64_eq m f spans ((any_overflows_false_iff spans).1 h)]
    rfl
  | true =>
    rw [extractCompactU64_overflow m f spans
      (fun hn => by rw [(any_overflows_false_iff spans).2 hn] at h; cases h)]
    rfl

/-- the property's extract clause for the code as compiled: a file shorter than 2^64 bytes
(`metadata().len()` is a `u64`) and any pairwise non-overlapping in-bounds span list. -/
theorem compact_eq_concat_live_u64 (m : Mover) (f : Bytes) (spans t : List Span)
    (hf : f.length < 2 ^ 64) (hd : Disjoint spans) (hb : InBounds f.length spans)
    (hp : t.Perm spans) (ho : OffsetOrdered t) :
    extractCompactU64 m f spans = ⟨concatLive f t, some (f.length - (concatLive f t).length)⟩ := by
  have hn : NoOverflow spans := fun s hs => by
    have := hb s hs
    unfold Span.stop at this
    omega
  rw [extractCompactU64_eq m f spans hn]
  exact compact_eq_concat_live m f spans t hd hb hp ho

/-- `bytes_saved_truthful` for the code as compiled, every span list. -/
theorem bytes_saved_truthful_u64 (m : Mover) (f : Bytes) (spans : List Span) (f' : Bytes)
    (saved : Nat) (h : extractCompactU64 m f spans = ⟨f', some saved⟩) :
    saved = f.length - f'.length ∧ f'.length ≤ f.length := by
  by_cases hn : NoOverflow spans
  · rw [extractCompactU64_eq m f spans hn] at h
    exact extractCompact_saved m f spans f' saved h
  · rw [extractCompactU64_overflow m f spans hn] at h
    cases h

/-- WITNESS (pinned tree, before the guard): the wrapping scan accepts the sorted list
`[(2^63, 2^63+10), (2^63+5, 1)]` although the second span lies inside the first — `end()` of the
first wraps to 10. Replayed on the real code by corpus/C18/u64-wrap-overlap.case (refused now). -/
theorem pinned_wrapping_scan_accepts_overlap :
    let a : Span := ⟨2 ^ 63, 2 ^ 63 + 10⟩
    let b : Span := ⟨2 ^ 63 + 5, 1⟩
    Model.Compaction.Span.le a b = true ∧ adjacentOkW [a, b] = true ∧ a.overlaps b = true ∧
    (validateSpansU64 [a, b]).2 = false := by
  refine ⟨by decide, by decide, by decide, ?_⟩
  have : ¬ NoOverflow [⟨2 ^ 63, 2 ^ 63 + 10⟩, ⟨2 ^ 63 + 5, 1⟩] := fun h => by
    have := h ⟨2 ^ 63, 2 ^ 63 + 10⟩ List.mem_cons_self
    simp only at this
    omega
  rw [validateSpansU64_overflow _ this]

/-- WITNESS (pinned tree): without the guard the "live" list `[(0, 2^63), (2^63, 2^63)]` (sorted,
no pair overlapping, no data to move) wraps `write_pos` to 0, after which the pinned code
truncated the whole file to 0 bytes and answered `Ok(len)`; now it is refused
(corpus/C18/u64-wrap-truncate.case). -/
theorem pinned_wrapping_write_pos_zero (m : Mover) (f : Bytes) :
    compactLoopW m f [⟨0, 2 ^ 63⟩, ⟨2 ^ 63, 2 ^ 63⟩] 0 = (f, m, 0, true) ∧
    extractCompactU64 m f [⟨0, 2 ^ 63⟩, ⟨2 ^ 63, 2 ^ 63⟩] = ⟨f, none⟩ := by
  constructor
  · simp [compactLoopW, addW]
  · apply extractCompactU64_overflow
    intro h
    have := h ⟨2 ^ 63, 2 ^ 63⟩ (by simp)
    simp only at this
    omega

/-! ## the merge planner (after the repair of the first destination cursor) -/

/-- the index expression `sources[dest_idx]` never panics: a plan is always produced. -/
theorem plan_never_panics (isSource : Nat → Bool) (segSize : Nat) (segs : List Seg)
    (hlen : segs.length ≤ 65536) : ∃ plan, planMerge isSource segSize segs = some plan := by
  obtain ⟨plan, h, _⟩ := planMerge_spec isSource segSize segs hlen
  exact ⟨plan, h⟩

/-- no move is directed onto bytes its destination segment already uses — for every population,
every utilisation test (threshold, f64 rounding) and every segment size. -/
theorem plan_no_clobber (isSource : Nat → Bool) (segSize : Nat) (segs : List Seg)
    (hlen : segs.length ≤ 65536) (plan : Plan) (h : planMerge isSource segSize segs = some plan) :
    ∀ m ∈ plan.moves, ∃ sd, segs[m.dst]? = some sd ∧ sd.used ≤ m.dstOff := by
  obtain ⟨plan', h', hm, _⟩ := planMerge_spec isSource segSize segs hlen
  rw [h] at h'; cases h'
  intro m hmem
  obtain ⟨sd, ss, h1, _, h3, _⟩ := hm m hmem
  exact ⟨sd, h1, h3⟩

/-- two moves into one segment never overlap: the later one starts where the earlier one ended
or beyond. -/
theorem plan_moves_disjoint (isSource : Nat → Bool) (segSize : Nat) (segs : List Seg)
    (hlen : segs.length ≤ 65536) (plan : Plan) (h : planMerge isSource segSize segs = some plan) :
    plan.moves.Pairwise (fun a b => a.dst = b.dst → a.dstOff + a.len ≤ b.dstOff) := by
  obtain ⟨plan', h', _, ho, _⟩ := planMerge_spec isSource segSize segs hlen
  rw [h] at h'; cases h'
  exact ho

/-- no move ends beyond the segment size. -/
theorem plan_within_size (isSource : Nat → Bool) (segSize : Nat) (segs : List Seg)
    (hlen : segs.length ≤ 65536) (plan : Plan) (h : planMerge isSource segSize segs = some plan) :
    ∀ m ∈ plan.moves, m.dstOff + m.len ≤ segSize := by
  obtain ⟨plan', h', hm, _⟩ := planMerge_spec isSource segSize segs hlen
  rw [h] at h'; cases h'
  intro m hmem
  obtain ⟨sd, ss, _, _, _, h4, _⟩ := hm m hmem
  exact h4

/-- no segment is moved onto itself. -/
theorem plan_src_ne_dst (isSource : Nat → Bool) (segSize : Nat) (segs : List Seg)
    (hlen : segs.length ≤ 65536) (plan : Plan) (h : planMerge isSource segSize segs = some plan) :
    ∀ m ∈ plan.moves, m.src ≠ m.dst := by
  obtain ⟨plan', h', hm, _⟩ := planMerge_spec isSource segSize segs hlen
  rw [h] at h'; cases h'
  intro m hmem
  obtain ⟨sd, ss, _, _, _, _, h5, _⟩ := hm m hmem
  exact h5

/-- every move takes the whole used range `[0, used)` of a frozen, non-empty source that passed
the utilisation test, into a frozen segment that passed it too; so inside a segment that is both
a source and a destination the bytes read (`< used`) and the bytes written (`≥ used`) are
disjoint. -/
theorem plan_moves_whole_frozen_sources (isSource : Nat → Bool) (segSize : Nat) (segs : List Seg)
    (hlen : segs.length ≤ 65536) (plan : Plan) (h : planMerge isSource segSize segs = some plan) :
    ∀ m ∈ plan.moves, ∃ sd ss, segs[m.dst]? = some sd ∧ segs[m.src]? = some ss ∧
      m.srcOff = 0 ∧ m.len = ss.used ∧ 0 < ss.used ∧ ss.frozen = true ∧ sd.frozen = true ∧
      isSource ss.used = true ∧ isSource sd.used = true := by
  obtain ⟨plan', h', hm, _⟩ := planMerge_spec isSource segSize segs hlen
  rw [h] at h'; cases h'
  intro m hmem
  obtain ⟨sd, ss, h1, h2, _, _, _, h6, h7, h8, h9, h10, h11, h12⟩ := hm m hmem
  exact ⟨sd, ss, h1, h2, h6, h7, h8, h9, h10, h11, h12⟩

/-- no segment is moved twice. -/
theorem plan_sources_moved_once (isSource : Nat → Bool) (segSize : Nat) (segs : List Seg)
    (hlen : segs.length ≤ 65536) (plan : Plan) (h : planMerge isSource segSize segs = some plan) :
    plan.moves.Pairwise (fun a b => a.src ≠ b.src) := by
  obtain ⟨plan', h', _, _, hs, _⟩ := planMerge_spec isSource segSize segs hlen
  rw [h] at h'; cases h'
  exact hs

/-- `total_bytes` is the sum of the move lengths. -/
theorem plan_total_truthful (isSource : Nat → Bool) (segSize : Nat) (segs : List Seg)
    (hlen : segs.length ≤ 65536) (plan : Plan) (h : planMerge isSource segSize segs = some plan) :
    plan.total = (plan.moves.map (·.len)).sum := by
  obtain ⟨plan', h', _, _, _, ht⟩ := planMerge_spec isSource segSize segs hlen
  rw [h] at h'; cases h'
  exact ht

/-! ## executing a plan: what an executor may and may not assume

The crate has no executor; `execPlan` performs the moves with `move_data` in plan order (the
harness does the same with the real `move_data` on real segment files). -/

/-- MAY ASSUME. For every population, utilisation test, segment size, mover (buffer size) and
segment files whose lengths are the write positions: executing the moves IN PLAN ORDER never
fails, never reads a byte an earlier move has written (each move delivers its source's ORIGINAL
bytes: `slice c dstOff len = o` with `o` the source file before the run), and never overwrites a
byte a segment used before the run (`c.take o.length = o` for every segment, source or
destination or both). -/
theorem plan_execution_in_order_safe (isSource : Nat → Bool) (segSize : Nat) (segs : List Seg)
    (hlen : segs.length ≤ 65536) (plan : Plan) (h : planMerge isSource segSize segs = some plan)
    (m0 : Mover) (files : List Bytes) (hf : files.map List.length = segs.map Seg.used) :
    ∃ final m', execPlan m0 files plan.moves = some (final, m') ∧ final.length = files.length ∧
      (∀ (i : Nat) (o : Bytes), files[i]? = some o →
        ∃ c : Bytes, final[i]? = some c ∧ c.take o.length = o) ∧
      (∀ mv ∈ plan.moves, ∃ c o : Bytes, final[mv.dst]? = some c ∧ files[mv.src]? = some o ∧
        slice c mv.dstOff mv.len = o ∧ mv.len = o.length) := by
  obtain ⟨plan', h', hm, ho, _⟩ := planMerge_spec isSource segSize segs hlen
  rw [h] at h'; cases h'
  have hinit : Inv files files [] :=
    ⟨rfl, fun i o hio => ⟨o, hio, List.take_length⟩, fun a ha => nomatch ha⟩
  obtain ⟨final, m', he, hinv⟩ := exec_inv files plan.moves [] files m0 hinit
    (fun mv hmv => moveSafe_execOk hf (hm mv hmv)) (fun a ha => nomatch ha) ho
  rw [List.nil_append] at hinv
  exact ⟨final, m', he, hinv.len, hinv.prefix_kept, hinv.moved⟩

/-- MAY NOT ASSUME that `source_segments` and `target_segments` are disjoint, i.e. that every
listed source segment is empty ("can be deleted") after the run. Kernel-checked witness: five
frozen segments using 10, 20, 60, 70, 80 of 100. Segment 1 is first moved into segment 0 and —
when segment 0 is full and the destination cursor advances — becomes the destination of
segment 4, with the cursor after its 20 (by then stale) bytes. Deleting segment 1 after the run
would lose segment 4's data. Not an oracle failure of C18 (no live byte is lost or overwritten by
the moves themselves, previous theorem); reported by the run as
`plan-segment-both-source-and-target` and replayed by corpus/C18/source-also-target.case. -/
theorem plan_source_may_also_be_target :
    planMerge (fun _ => true) 100 [⟨true, 10⟩, ⟨true, 20⟩, ⟨true, 60⟩, ⟨true, 70⟩, ⟨true, 80⟩] =
      some { moves := [⟨1, 0, 0, 10, 20⟩, ⟨2, 0, 0, 30, 60⟩, ⟨4, 0, 1, 20, 80⟩], total := 160,
             srcs := [1, 2, 4], tgts := [0, 1] } := by
  have hs : sortSources [(0, 10), (1, 20), (2, 60), (3, 70), (4, 80)] =
      [(0, 10), (1, 20), (2, 60), (3, 70), (4, 80)] := List.mergeSort_of_pairwise (by decide)
  have hc : collectSources (fun _ => true)
      [⟨true, 10⟩, ⟨true, 20⟩, ⟨true, 60⟩, ⟨true, 70⟩, ⟨true, 80⟩] 0 =
      [(0, 10), (1, 20), (2, 60), (3, 70), (4, 80)] := by decide
  unfold planMerge
  simp only [hc, hs]
  decide

/-! ## `ArchiveManager::compact` — truncation to the write position -/

/-- whatever the utilisation test answers, truncating to the write position keeps every byte
below the write position (and the write position itself). -/
theorem archive_compact_keeps_written (utilLow : Nat → Nat → Bool) (a : Arch)
    (h : a.used ≤ a.file.length) :
    (archCompact utilLow a).1.file.take a.used = a.file.take a.used ∧
    (archCompact utilLow a).1.used = a.used :=
  archCompact_keeps utilLow a h

/-- on every state the manager can reach by `open_archive` and any sequence of `write_content`
(any remap decisions), `compact()` leaves the archive untouched and reclaims 0 bytes: the recorded
size never exceeds the write position, so the truncating branch is dead. -/
theorem archive_compact_noop_on_reachable (grew utilLow : Nat → Nat → Bool) (f : Bytes)
    (recs : List Bytes) :
    let a := recs.foldl (archWrite grew) (archOpen f)
    (archCompact utilLow a).1 = a ∧ (archCompact utilLow a).2.2 = 0 :=
  archCompact_noop utilLow _ (arch_history_inv grew recs _ (archOpen_inv f))

/-! ## tie to the Rust text (Generated/CompactionSrc.lean is re-extracted from /repo on every run)

These say that the model above computes with exactly the constants and expressions found in the
current source; they fail to check when the source changes one of them. -/

open Cascette.Generated in
/-- 128 KiB minimum, at most 16 buffers, shift 17, the `len() <= 1` shortcut, at least 2 merge
sources, `source_offset: 0`, and the real `MAX_SEGMENTS` / `SEGMENT_SIZE` lie inside the ranges
the planner theorems are proved for (≤ 65536 segments; 1023 × 2^30 < 2^62). -/
theorem source_constants_tie :
    MIN_BUFFER_SIZE = CompactionSrc.min_buffer_size ∧ MAX_BUFFERS = CompactionSrc.max_buffers ∧
    CompactionSrc.buffer_size_shift = 17 ∧ CompactionSrc.min_buffer_size = 2 ^ 17 ∧
    CompactionSrc.validate_shortcut_len = 1 ∧ CompactionSrc.min_sources = 2 ∧
    CompactionSrc.move_source_offset = 0 ∧
    CompactionSrc.max_segments ≤ 65536 ∧ CompactionSrc.segment_size = 2 ^ 30 ∧
    CompactionSrc.max_segments * CompactionSrc.segment_size < 2 ^ 62 := by decide

open Cascette.Generated in
/-- `CompactionFileMover::new`: buffer size and count are the extracted expressions. -/
theorem source_mover_tie (budget : Nat) :
    (moverNew budget).bufSize = CompactionSrc.mover_per_buf (CompactionSrc.mover_total budget) ∧
    (moverNew budget).bufCount = CompactionSrc.mover_count (CompactionSrc.mover_total budget) ∧
    (moverNew budget).moved = 0 :=
  Proofs.CompactionTie.moverNew_tie budget

open Cascette.Generated in
/-- the model's span order is the lexicographic order of the extracted `sort_by_key` tuple. -/
theorem source_sort_key_tie (a b : Span) :
    Model.Compaction.Span.le a b = true ↔
      (CompactionSrc.span_sort_key a.off a.len).1 < (CompactionSrc.span_sort_key b.off b.len).1 ∨
      ((CompactionSrc.span_sort_key a.off a.len).1 = (CompactionSrc.span_sort_key b.off b.len).1 ∧
       (CompactionSrc.span_sort_key a.off a.len).2 ≤ (CompactionSrc.span_sort_key b.off b.len).2) :=
  Proofs.CompactionTie.sort_key_tie a b

open Cascette.Generated in
/-- `validate_spans`: guard, shortcut, sort, scan — in this order, with the extracted tests. -/
theorem source_validate_tie (spans : List Span) (a b : Span) (rest : List Span) :
    (validateSpansU64 spans =
      if spans.any (fun s => CompactionSrc.span_overflows s.off s.len) then (spans, false)
      else if spans.length ≤ CompactionSrc.validate_shortcut_len then (spans, true)
      else (sortSpans spans, adjacentOkW (sortSpans spans))) ∧
    adjacentOkW (a :: b :: rest) =
      (!CompactionSrc.adjacent_bad a.off a.len b.off && adjacentOkW (b :: rest)) :=
  ⟨Proofs.CompactionTie.validate_shape_tie spans, Proofs.CompactionTie.adjacent_scan_tie a b rest⟩

open Cascette.Generated in
/-- `extract_compact_segment`: the span loop's gap test and `write_pos` update. -/
theorem source_span_loop_tie (m : Mover) (f : Bytes) (s : Span) (rest : List Span) (w : Nat) :
    compactLoopW m f (s :: rest) w =
      if CompactionSrc.gap_test s.off w = true then
        match compactInPlaceW m f s.off w s.len with
        | (f', m', true) => compactLoopW m' f' rest (CompactionSrc.write_pos_next w s.len)
        | (f', m', false) => (f', m', w, false)
      else compactLoopW m f rest (CompactionSrc.write_pos_next w s.len) :=
  Proofs.CompactionTie.span_loop_tie m f s rest w

open Cascette.Generated in
/-- `plan_archive_merge`: source test, minimum of two sources, sort key, destination cursor
starting at the destination's own used bytes, fit test. -/
theorem source_planner_tie (p : Nat → Bool) (segSize : Nat) (segs : List Seg) (s : Seg)
    (r : List Seg) (i : Nat) :
    (collectSources p (s :: r) i =
      if CompactionSrc.is_source s.frozen (p s.used) s.used = true then
        (u16idx i, s.used) :: collectSources p r (i + 1)
      else collectSources p r (i + 1)) ∧
    (planMerge p segSize segs =
      (let sources := collectSources p segs 0
       if sources.length < CompactionSrc.min_sources then some {}
       else
         match sortSources sources with
         | [] => some {}
         | first :: rest =>
           greedy (first :: rest) segSize rest 0 (CompactionSrc.dest_cursor_init first.2) {})) :=
  ⟨Proofs.CompactionTie.collect_tie p s r i, Proofs.CompactionTie.plan_shape_tie p segSize segs⟩

open Cascette.Generated in
/-- `should_compact_archive`: non-empty, utilisation test, size above the extracted floor. -/
theorem source_arch_tie (utilLow : Nat → Nat → Bool) (a : Arch) :
    archCompact utilLow a =
      if CompactionSrc.arch_should a.used a.mapped (utilLow a.used a.mapped) = true then
        if a.used < a.mapped then
          ({ file := setLen a.file a.used, mapped := a.used, used := a.used }, 1, a.mapped - a.used)
        else (a, 1, 0)
      else (a, 0, 0) :=
  Proofs.CompactionTie.arch_should_tie utilLow a

/-! ## hypotheses are satisfiable / the recorded witnesses (instances, not new claims) -/

/-- a non-trivial instance of the hypotheses of `compact_eq_concat_live_partial`: unsorted input,
a gap before the first span, a zero-length span sharing an offset with a non-empty one. -/
example : ([⟨8, 4⟩, ⟨2, 3⟩, ⟨8, 0⟩] : List Span) ≠ [] ∧ Disjoint [⟨8, 4⟩, ⟨2, 3⟩, ⟨8, 0⟩] ∧
    InBounds 16 [⟨8, 4⟩, ⟨2, 3⟩, ⟨8, 0⟩] ∧
    ([⟨2, 3⟩, ⟨8, 0⟩, ⟨8, 4⟩] : List Span).Perm [⟨8, 4⟩, ⟨2, 3⟩, ⟨8, 0⟩] ∧
    OffsetOrdered [⟨2, 3⟩, ⟨8, 0⟩, ⟨8, 4⟩] := by
  refine ⟨by simp, by unfold Disjoint; decide, by unfold InBounds; decide, by decide, ?_⟩
  unfold OffsetOrdered; decide

/-- `overflowing_or_overlapping_refused`: both ways to fail its hypothesis occur — an overflowing
list without any overlap, and an overlapping list without overflow. -/
example : ¬ (NoOverflow [⟨2 ^ 64 - 1, 1⟩] ∧ Disjoint [⟨2 ^ 64 - 1, 1⟩]) ∧
    Disjoint [⟨2 ^ 64 - 1, 1⟩] ∧
    ¬ (NoOverflow [⟨0, 5⟩, ⟨4, 1⟩] ∧ Disjoint [⟨0, 5⟩, ⟨4, 1⟩]) ∧ NoOverflow [⟨0, 5⟩, ⟨4, 1⟩] := by
  refine ⟨fun h => ?_, by unfold Disjoint; decide, fun h => ?_, ?_⟩
  · have := h.1 ⟨2 ^ 64 - 1, 1⟩ List.mem_cons_self
    simp only at this
    omega
  · have := h.2
    unfold Disjoint at this
    revert this
    decide
  · intro s hs
    simp only [List.mem_cons, List.not_mem_nil, or_false] at hs
    rcases hs with rfl | rfl <;> simp only <;> omega

/-- `compact_eq_concat_live_u64` / `bytes_saved_truthful_u64`: an instance with a gap, computed
through the wrapping model (7-byte file, live spans (4,2) and (1,2) given out of order). -/
example (m : Mover) : extractCompactU64 m [10, 11, 12, 13, 14, 15, 16] [⟨4, 2⟩, ⟨1, 2⟩] =
    ⟨[11, 12, 14, 15], some 3⟩ := by
  have := compact_eq_concat_live_u64 m [10, 11, 12, 13, 14, 15, 16] [⟨4, 2⟩, ⟨1, 2⟩]
    [⟨1, 2⟩, ⟨4, 2⟩] (by decide) (by unfold Disjoint; decide) (by unfold InBounds; decide)
    (by decide) (by unfold OffsetOrdered; decide)
  simpa [concatLive, slice] using this

/-- `plan_execution_in_order_safe`: its hypotheses hold for the population of
`plan_source_may_also_be_target` (three moves, one segment both source and destination) with
segment files of the right lengths. -/
example : ∃ (plan : Plan) (files : List Bytes), planMerge (fun _ => true) 100
      [⟨true, 10⟩, ⟨true, 20⟩, ⟨true, 60⟩, ⟨true, 70⟩, ⟨true, 80⟩] = some plan ∧
    plan.moves.length = 3 ∧
    files.map List.length =
      ([⟨true, 10⟩, ⟨true, 20⟩, ⟨true, 60⟩, ⟨true, 70⟩, ⟨true, 80⟩] : List Seg).map Seg.used :=
  ⟨_, [List.replicate 10 1, List.replicate 20 2, List.replicate 60 3, List.replicate 70 4,
      List.replicate 80 5], plan_source_may_also_be_target, rfl, by decide⟩

/-- the span list refused before commit "validate_spans orders equal offsets by length" is
accepted now (instance of `validate_iff_disjoint`; replayed on the real code by
corpus/C18/zero-length-tie.case). -/
example : (validateSpans [⟨3, 10⟩, ⟨3, 0⟩]).2 = true :=
  (validate_iff_disjoint _).2 (by unfold Disjoint; decide)

/-- the DESIGN §8 population (30 and 40 of 100 used): whatever plan comes out, nothing lands
below offset 30 of segment 0 (instance of `plan_no_clobber`; replayed by
corpus/C18/first-dest-cursor.case). -/
example (plan : Plan) (h : planMerge (fun _ => true) 100 [⟨true, 30⟩, ⟨true, 40⟩] = some plan) :
    ∀ m ∈ plan.moves, m.dst = 0 → 30 ≤ m.dstOff := by
  intro m hm hd
  obtain ⟨sd, h1, h2⟩ := plan_no_clobber _ 100 _ (by decide) plan h m hm
  rw [hd] at h1
  cases h1
  exact h2

end Cascette.Props.C18
