/-
Props/C19 — Install and download manifests select exactly the tagged files.
Property theorems only; helper lemmas are in Proofs/Manifest{Bits,Ser,Builder,Query}.
Model = Model/Manifest (the Rust builders, masks, serialiser, parser, queries as written);
Spec = Spec/TagSets (tag ↦ membership vector, `eraseIdx` for file removal, MSB-first `msbBit`).
-/
import Cascette.Proofs.ManifestBits
import Cascette.Proofs.ManifestSer
import Cascette.Proofs.ManifestBuilder
import Cascette.Proofs.ManifestQuery
namespace Cascette.Props.C19
open Cascette Cascette.Model.Manifest Cascette.Proofs.Manifest

/-! ### the on-disk bit -/

/-- `bit_is_msb_first`. For every mask and every file index, `has_file` reads bit `7 - i % 8`
(most significant first) of byte `i / 8`, computed the way other tools do (division arithmetic,
`Spec.TagSets.msbBit`); beyond the mask it is `false`. Any file count, multiple of eight or not. -/
theorem bit_is_msb_first (m : Bytes) (i : Nat) :
    hasFile m i = match m[i / 8]? with
      | none => false
      | some b => Spec.TagSets.msbBit b (i % 8) := by
  unfold hasFile
  cases m[i / 8]? with
  | none => rfl
  | some b => exact and_mask_msb b (i % 8) (Nat.mod_lt _ (by omega))

/-- the same bit inside the SERIALISED tag: byte `name.len + 1 + 2 + i/8` of `serTag t`. -/
theorem bit_is_msb_first_serialised (t : Tag) (i : Nat) (hi : i / 8 < t.mask.length) :
    ∃ b, (serTag t)[t.name.length + 3 + i / 8]? = some b ∧
      hasFile t.mask i = Spec.TagSets.msbBit b (i % 8) := by
  refine ⟨t.mask[i / 8], ?_, ?_⟩
  · unfold serTag be16
    rw [List.getElem?_append_right (by simp)]
    simp only [List.length_append, List.length_cons, List.length_nil]
    rw [show t.name.length + 3 + i / 8 - (t.name.length + (0 + 1) + (0 + 1 + 1)) = i / 8 by omega]
    exact List.getElem?_eq_getElem hi
  · rw [bit_is_msb_first, List.getElem?_eq_getElem hi]

/-- `readBits` (the independent reader of Spec/TagSets, used by the driver on the bytes the real
code wrote) returns exactly the model's membership vector whenever the mask is long enough. -/
theorem independent_reader_agrees (m : Bytes) (n : Nat) (h : n ≤ m.length * 8) :
    Spec.TagSets.readBits m n = some (memOf n m) := by
  induction n with
  | zero => rfl
  | succ k ih =>
    have hk : k / 8 < m.length := by omega
    unfold Spec.TagSets.readBits
    rw [ih (by omega), List.getElem?_eq_getElem hk]
    simp only
    unfold memOf
    rw [List.range_succ, List.map_append, List.map_cons, List.map_nil, bit_is_msb_first,
      List.getElem?_eq_getElem hk]

/-! ### single-bit updates -/

/-- `add_file i` sets bit `i` and changes no other bit (including the auto-resize branch). -/
theorem add_file_sets_one_bit (m : Bytes) (i j : Nat) :
    hasFile (addFile m i) j = (hasFile m j || j == i) := hasFile_addFile m i j

/-- `remove_file i` clears bit `i` and changes no other bit. -/
theorem remove_file_clears_one_bit (m : Bytes) (i j : Nat) :
    hasFile (removeFile m i) j = (hasFile m j && j != i) := hasFile_removeFile m i j

/-! ### mask length and file removal (per operation; program level below) -/

/-- `mask_len_inv`, `add_tag`: a fresh mask has `⌈n/8⌉` bytes, no bit set. -/
theorem mask_len_new_tag (n : Nat) :
    MaskOk n (List.replicate (maskSize n) 0) ∧
    memOf n (List.replicate (maskSize n) 0) = List.replicate n false :=
  ⟨maskOk_zero n, memOf_zero n _⟩

/-- `mask_len_inv`, `add_file`: after the resize step the mask has `⌈(n+1)/8⌉` bytes, the new
file is not a member, all other memberships are unchanged. -/
theorem mask_len_add_file (n : Nat) (m : Bytes) (h : MaskOk n m) :
    MaskOk (n + 1) (growMask m (maskSize (n + 1))) ∧
    memOf (n + 1) (growMask m (maskSize (n + 1))) = memOf n m ++ [false] := growMask_ok n m h

/-- associate: length kept, membership vector updated at `i` only. -/
theorem associate_sets_member (n i : Nat) (m : Bytes) (hi : i < n) (h : MaskOk n m) :
    MaskOk n (addFile m i) ∧ memOf n (addFile m i) = (memOf n m).set i true := addFile_ok n i m hi h

/-- dissociate: length kept, membership vector updated at `i` only. -/
theorem dissociate_clears_member (n i : Nat) (m : Bytes) (hi : i < n) (h : MaskOk n m) :
    MaskOk n (removeFile m i) ∧ memOf n (removeFile m i) = (memOf n m).set i false :=
  removeFile_ok n i m hi h

/-- `remove_file_shift` (install builder's byte-by-byte rebuild): removing file `k` of `n` gives a
mask of `⌈(n-1)/8⌉` bytes whose membership vector is the old one with position `k` deleted — every
file after `k` is renumbered down by one, nothing else moves, for every `n` and `k < n`. -/
theorem remove_file_shift_install (n k : Nat) (m : Bytes) (hk : k < n) (h : MaskOk n m) :
    MaskOk (n - 1) (instRemoveMask m k (n - 1)) ∧
    memOf (n - 1) (instRemoveMask m k (n - 1)) = (memOf n m).eraseIdx k := instRemove_ok n k m hk h

/-- `remove_file_shift` (download builder's running-output-position loop). -/
theorem remove_file_shift_download (n k : Nat) (m : Bytes) (hk : k < n) (h : MaskOk n m) :
    MaskOk (n - 1) (dlRemoveMask m k (n - 1)) ∧
    memOf (n - 1) (dlRemoveMask m k (n - 1)) = (memOf n m).eraseIdx k := dlRemove_ok n k m hk h

/-- size manifest builder: `build` resizes (grows or TRUNCATES) every mask to `⌈n/8⌉`; every
file below `n` keeps its membership. -/
theorem size_build_keeps_bits (m : Bytes) (n i : Nat) (hi : i < n) :
    hasFile (resizeZ m (maskSize n)) i = hasFile m i := by
  rw [hasFile_resizeZ]
  have : i / 8 < maskSize n := by unfold maskSize; omega
  simp [this]

/-! ### queries -/

/-- per-tag query: exactly the indices `< n` whose bit is set, in increasing order. -/
theorem files_for_tag_exact (m : IManifest) (name : Bytes) (t : Tag) (h : findTag m.tags name = some t) :
    (m.filesForTag name).map (·.1) = (List.range m.entries.length).filter (hasFile t.mask) := by
  unfold IManifest.filesForTag
  rw [h]
  exact selectIdx_fst0 _ _

/-- `all_of_eq_inter`: when every requested name resolves (and the request is not empty), the
all-of query returns exactly the indices that are members of EVERY resolved tag. -/
theorem all_of_eq_inter (m : IManifest) (names : List Bytes)
    (h1 : (resolve m.tags names).isEmpty = false)
    (h2 : (resolve m.tags names).length = names.length) :
    (m.allOf names).map (·.1) =
      (List.range m.entries.length).filter fun i => (resolve m.tags names).all fun t => hasFile t.mask i := by
  unfold IManifest.allOf
  simp only [h1, h2, Bool.false_eq_true, ne_eq, not_true_eq_false, or_self, if_false]
  exact selectIdx_fst0 _ _

/-- an unknown name (or the empty request) selects nothing in the install manifest. -/
theorem all_of_unknown_empty (m : IManifest) (names : List Bytes)
    (h : (resolve m.tags names).isEmpty = true ∨ (resolve m.tags names).length ≠ names.length) :
    m.allOf names = [] := by
  unfold IManifest.allOf
  rw [if_pos h]

/-- `any_of_eq_union`: the any-of query returns exactly the indices that are members of SOME
resolved tag. -/
theorem any_of_eq_union (m : IManifest) (names : List Bytes) :
    (m.anyOf names).map (·.1) =
      (List.range m.entries.length).filter fun i => (resolve m.tags names).any fun t => hasFile t.mask i := by
  unfold IManifest.anyOf
  by_cases h : (resolve m.tags names).isEmpty = true
  · rw [if_pos h]
    have : resolve m.tags names = [] := by simpa using h
    simp [this]
  · rw [if_neg h]
    exact selectIdx_fst0 _ _

/-- download all-of (`entries_by_tags`): same statement; the empty request selects all entries. -/
theorem download_all_of_eq_inter (m : DManifest) (names : List Bytes)
    (h2 : (resolve m.tags names).length = names.length) :
    (m.byTags names).map (·.1) =
      (List.range m.entries.length).filter fun i => (resolve m.tags names).all fun t => hasFile t.mask i := by
  unfold DManifest.byTags
  by_cases h : names.isEmpty = true
  · rw [if_pos h]
    have : names = [] := by simpa using h
    subst this
    rw [selectIdx_fst0]
    simp [resolve]
  · rw [if_neg h]
    simp only [h2, ne_eq, not_true_eq_false, if_false]
    exact selectIdx_fst0 _ _

/-- `size_eq_sum` (install): the size total is the sum of `file_size` over exactly the
(index, entry) pairs of the canonical enumeration whose index is in the all-of selection. -/
theorem size_eq_sum (m : IManifest) (names : List Bytes)
    (h1 : (resolve m.tags names).isEmpty = false)
    (h2 : (resolve m.tags names).length = names.length) :
    m.installSize names =
      ((((List.range m.entries.length).zip m.entries).filter fun q =>
          (resolve m.tags names).all fun t => hasFile t.mask q.1).map fun q => q.2.size).sum := by
  unfold IManifest.installSize IManifest.allOf
  simp only [h1, h2, Bool.false_eq_true, ne_eq, not_true_eq_false, or_self, if_false]
  rw [selectIdx_eq, List.range_eq_range']

/-- `size_eq_sum` (download, 40-bit sizes). -/
theorem download_size_eq_sum (m : DManifest) (names : List Bytes) (hne : names.isEmpty = false)
    (h2 : (resolve m.tags names).length = names.length) :
    m.sizeForTags names =
      ((((List.range m.entries.length).zip m.entries).filter fun q =>
          (resolve m.tags names).all fun t => hasFile t.mask q.1).map fun q => q.2.size).sum := by
  unfold DManifest.sizeForTags DManifest.byTags
  simp only [hne, Bool.false_eq_true, if_false, h2, ne_eq, not_true_eq_false]
  rw [selectIdx_eq, List.range_eq_range']

/-- priority filter: exactly the enumerated entries whose effective priority (V3: saturating
`priority - base`) falls in the category. -/
theorem priority_filter_exact (m : DManifest) (cat : Nat) :
    m.byPriority cat =
      (((List.range m.entries.length).zip m.entries).filter fun q => prioCat (effPrio m q.2) == cat) := by
  unfold DManifest.byPriority
  rw [selectEnt_eq, List.range_eq_range']

/-- the byte-wise `intersect` / `union` of two masks are pointwise AND / OR of memberships -/
theorem intersect_union_pointwise (a b : Bytes) (i : Nat) :
    hasFile (intersect a b) i = (hasFile a i && hasFile b i) ∧
    hasFile (union a b) i = (hasFile a i || hasFile b i) :=
  ⟨hasFile_intersect a b i, hasFile_union a b i⟩

/-! ### serialise / parse -/

/-- `parse_build_tags` (install): parse ∘ build = id on every well-formed manifest, V1 and V2, any
tag and entry count; hence every query on the re-parsed manifest is the query on the built one. -/
theorem parse_build_install (m : IManifest) (h : IManifestWf m) (trailing : Bytes) :
    parseInstall (serInstall m ++ trailing) = some m := parseInstall_ser m h trailing

/-- `parse_build_tags` (download): versions 1, 2, 3, with/without checksums, flag sizes 0–4. -/
theorem parse_build_download (m : DManifest) (h : DManifestWf m) (trailing : Bytes) :
    parseDownload (serDownload m ++ trailing) = some m := parseDownload_ser m h trailing

/-- `u40_roundtrip`: every size `≤ 2^40 - 1` survives `to_bytes` / `from_bytes`; larger sizes are
rejected by `add_file`. -/
theorem u40_roundtrip (n : Nat) :
    (n ≤ max40 → rdBe (be40 n) = n) ∧
    (∀ b key p, n > max40 → DBuilder.addFile b key n p = .error .size) := by
  refine ⟨rdBe_be40 n, fun b key p h => ?_⟩
  unfold DBuilder.addFile
  rw [if_pos h]

/-- `priority_roundtrip`: every `i8` priority survives its byte. -/
theorem priority_roundtrip (p : Int) (h1 : -128 ≤ p) (h2 : p ≤ 127) : byteI8 (i8Byte p) = p :=
  byteI8_i8Byte p h1 h2

/-! ### whole builder programs (install builder) -/

/-- `builder_refines_sets` + `mask_len_inv`, program level. For EVERY program over
add tag / add file / associate / dissociate / remove file / remove tag (any order, any length,
valid or rejected arguments) that stays inside the specification's domain (no second `add_tag` of
a live name — see the witness below), the `InstallManifestBuilder` model run from the empty
builder (i) keeps every tag mask at exactly `⌈n/8⌉` bytes with no bit at or beyond `n`, keeps live
names distinct and the name map exact, and (ii) its abstraction — entries, and per tag the name,
type and membership vector read off the mask with `has_file` — is exactly the state the abstract
program computes (`Spec.TagSets.run`: append `false` on add file, delete position `k` on remove
file, set one position on associate / dissociate, drop the tag on remove tag). -/
theorem builder_refines_sets (ops : List (Spec.TagSets.Op IEntry)) (s : Spec.TagSets.SState IEntry)
    (h : Spec.TagSets.run Spec.TagSets.SState.empty ops = some s) :
    IInv (irun IBuilder.empty ops) ∧ absI (irun IBuilder.empty ops) = s :=
  irun_refines ops IBuilder.empty iinv_empty s h

/-- `mask_len_inv` as a corollary: after every such program `build` succeeds on the mask check —
each mask has `entry_count.div_ceil(8)` bytes. -/
theorem mask_len_inv (ops : List (Spec.TagSets.Op IEntry)) (s : Spec.TagSets.SState IEntry)
    (h : Spec.TagSets.run Spec.TagSets.SState.empty ops = some s) :
    ∀ t ∈ (irun IBuilder.empty ops).tags,
      t.mask.length = maskSize (irun IBuilder.empty ops).entries.length ∧
      ∀ j, (irun IBuilder.empty ops).entries.length ≤ j → hasFile t.mask j = false :=
  fun t ht =>
    let inv := (builder_refines_sets ops s h).1.masks t ht
    ⟨inv.len, inv.clean⟩

/-- Counter-witness to the full-strength statement (all programs, duplicate names included),
kernel-checked on the model, replayed on the real code by corpus/C19/dup-tag-name-install.case:
`add_tag W; add_tag W; add_file; associate(0, W)` is accepted, yet the by-name query of the built
manifest reports no file for `W` (the association went to the second tag, the query reads the
first). Hence the hypothesis of `builder_refines_sets`. KNOWN FINDING `tag-set-dupname`. -/
theorem duplicate_name_shadows_witness :
    let b := irun IBuilder.empty
      [.addTag [0x57] 1, .addTag [0x57] 1, .addFile ⟨[0x61], List.replicate 16 0, 10, none⟩, .assoc 0 [0x57]]
    (match IBuilder.assoc (irun IBuilder.empty [.addTag [0x57] 1, .addTag [0x57] 1,
        .addFile ⟨[0x61], List.replicate 16 0, 10, none⟩]) 0 [0x57] with | .ok _ => true | .error _ => false) = true ∧
    (match b.build with
     | .ok m => (m.filesForTag [0x57]).map (·.1)
     | .error _ => [99]) = [] := by decide

/-- …and the same program is outside the specification's domain. -/
theorem duplicate_name_outside_spec :
    Spec.TagSets.run (Spec.TagSets.SState.empty (α := IEntry))
      [.addTag [0x57] 1, .addTag [0x57] 1] = none := by decide

/-! ### non-vacuity -/

example : MaskOk 9 [0x80, 0x80] := ⟨rfl, fun j hj => by
  by_cases h : j / 8 < 2
  · have : j < 16 := by omega
    have : j = 9 ∨ j = 10 ∨ j = 11 ∨ j = 12 ∨ j = 13 ∨ j = 14 ∨ j = 15 := by omega
    rcases this with h | h | h | h | h | h | h <;> subst h <;> decide
  · exact hasFile_of_length_le _ _ (by simp; omega)⟩
example : memOf 9 [0x80, 0x80] = [true, false, false, false, false, false, false, false, true] := by decide
example : memOf 8 (instRemoveMask [0x80, 0x80] 3 8) = [true, false, false, false, false, false, false, true] := by decide
example : memOf 8 (dlRemoveMask [0x80, 0x80] 3 8) = [true, false, false, false, false, false, false, true] := by decide

/-- a non-trivial program inside the domain: two tags, nine files, associations, a removal that
crosses the byte boundary -/
example : (Spec.TagSets.run (Spec.TagSets.SState.empty (α := Nat))
    [.addTag [1] 1, .addFile 0, .addFile 1, .addTag [2] 2, .assoc 1 [2], .assoc 0 [1], .removeFile 0]).isSome = true := by decide

end Cascette.Props.C19
