/-
Props/C19 — Install and download manifests select exactly the tagged files.
Property theorems only; helper lemmas are in Proofs/Manifest{Bits,Ser,Builder,Query,Download,Ext}.
Model = Model/Manifest (the Rust builders, masks, serialiser, parser, queries as written) +
Model/ManifestExt (whole SizeManifestBuilder, UTF-8 checks inside the readers) over the size-manifest
wire format and `validUtf8` of Model/Serial (property C08, imported);
Spec = Spec/TagSets (tag ↦ membership vector, `eraseIdx` for file removal, MSB-first `msbBit`).
-/
import Cascette.Proofs.ManifestBits
import Cascette.Proofs.ManifestSer
import Cascette.Proofs.ManifestBuilder
import Cascette.Proofs.ManifestQuery
import Cascette.Proofs.ManifestDownload
import Cascette.Proofs.ManifestExt
import Cascette.Proofs.ManifestMut
namespace Cascette.Props.C19
open Cascette Cascette.Model.Manifest Cascette.Proofs.Manifest
open Cascette.Model.Serial Cascette.Model.ManifestExt Cascette.Model.ManifestMut

/-! ### the on-disk bit -/

/-- `bit_is_msb_first`. For every mask and every file index, `has_file` reads bit `7 - i % 8`
(most significant first) of byte `i / 8`, computed the way other tools do (division arithmetic,
`Spec.TagSets.msbBit`); beyond the mask it is `false`. Any file count, multiple of eight or not. -/
theorem bit_is_msb_first (m : Bytes) (i : Nat) :
    hasFile m i = match m[i / 8]? with
      | none => false
      | some b => Spec.TagSets.msbBit b (i % 8) := by
  unfold hasFile
  cases m[i / 8]? with
  | none => rfl
  | some b => exact and_mask_msb b (i % 8) (Nat.mod_lt _ (by omega))

/-- the same bit inside the SERIALISED tag: byte `name.len + 1 + 2 + i/8` of `serTag t`. -/
theorem bit_is_msb_first_serialised (t : Tag) (i : Nat) (hi : i / 8 < t.mask.length) :
    ∃ b, (serTag t)[t.name.length + 3 + i / 8]? = some b ∧
      hasFile t.mask i = Spec.TagSets.msbBit b (i % 8) := by
  refine ⟨t.mask[i / 8], ?_, ?_⟩
  · unfold serTag be16
    rw [List.getElem?_append_right (by simp)]
    simp only [List.length_append, List.length_cons, List.length_nil]
    rw [show t.name.length + 3 + i / 8 - (t.name.length + (0 + 1) + (0 + 1 + 1)) = i / 8 by omega]
    exact List.getElem?_eq_getElem hi
  · rw [bit_is_msb_first, List.getElem?_eq_getElem hi]

/-- `readBits` (the independent reader of Spec/TagSets, used by the driver on the bytes the real
code wrote) returns exactly the model's membership vector whenever the mask is long enough. -/
theorem independent_reader_agrees (m : Bytes) (n : Nat) (h : n ≤ m.length * 8) :
    Spec.TagSets.readBits m n = some (memOf n m) := by
  induction n with
  | zero => rfl
  | succ k ih =>
    have hk : k / 8 < m.length := by omega
    unfold Spec.TagSets.readBits
    rw [ih (by omega), List.getElem?_eq_getElem hk]
    simp only
    unfold memOf
    rw [List.range_succ, List.map_append, List.map_cons, List.map_nil, bit_is_msb_first,
      List.getElem?_eq_getElem hk]

/-! ### single-bit updates -/

/-- `add_file i` sets bit `i` and changes no other bit (including the auto-resize branch). -/
theorem add_file_sets_one_bit (m : Bytes) (i j : Nat) :
    hasFile (addFile m i) j = (hasFile m j || j == i) := hasFile_addFile m i j

/-- `remove_file i` clears bit `i` and changes no other bit. -/
theorem remove_file_clears_one_bit (m : Bytes) (i j : Nat) :
    hasFile (removeFile m i) j = (hasFile m j && j != i) := hasFile_removeFile m i j

/-! ### mask length and file removal (per operation; program level below) -/

/-- `mask_len_inv`, `add_tag`: a fresh mask has `⌈n/8⌉` bytes, no bit set. -/
theorem mask_len_new_tag (n : Nat) :
    MaskOk n (List.replicate (maskSize n) 0) ∧
    memOf n (List.replicate (maskSize n) 0) = List.replicate n false :=
  ⟨maskOk_zero n, memOf_zero n _⟩

/-- `mask_len_inv`, `add_file`: after the resize step the mask has `⌈(n+1)/8⌉` bytes, the new
file is not a member, all other memberships are unchanged. -/
theorem mask_len_add_file (n : Nat) (m : Bytes) (h : MaskOk n m) :
    MaskOk (n + 1) (growMask m (maskSize (n + 1))) ∧
    memOf (n + 1) (growMask m (maskSize (n + 1))) = memOf n m ++ [false] := growMask_ok n m h

/-- associate: length kept, membership vector updated at `i` only. -/
theorem associate_sets_member (n i : Nat) (m : Bytes) (hi : i < n) (h : MaskOk n m) :
    MaskOk n (addFile m i) ∧ memOf n (addFile m i) = (memOf n m).set i true := addFile_ok n i m hi h

/-- dissociate: length kept, membership vector updated at `i` only. -/
theorem dissociate_clears_member (n i : Nat) (m : Bytes) (hi : i < n) (h : MaskOk n m) :
    MaskOk n (removeFile m i) ∧ memOf n (removeFile m i) = (memOf n m).set i false :=
  removeFile_ok n i m hi h

/-- `remove_file_shift` (install builder's byte-by-byte rebuild): removing file `k` of `n` gives a
mask of `⌈(n-1)/8⌉` bytes whose membership vector is the old one with position `k` deleted — every
file after `k` is renumbered down by one, nothing else moves, for every `n` and `k < n`. -/
theorem remove_file_shift_install (n k : Nat) (m : Bytes) (hk : k < n) (h : MaskOk n m) :
    MaskOk (n - 1) (instRemoveMask m k (n - 1)) ∧
    memOf (n - 1) (instRemoveMask m k (n - 1)) = (memOf n m).eraseIdx k := instRemove_ok n k m hk h

/-- `remove_file_shift` (download builder's running-output-position loop). -/
theorem remove_file_shift_download (n k : Nat) (m : Bytes) (hk : k < n) (h : MaskOk n m) :
    MaskOk (n - 1) (dlRemoveMask m k (n - 1)) ∧
    memOf (n - 1) (dlRemoveMask m k (n - 1)) = (memOf n m).eraseIdx k := dlRemove_ok n k m hk h

/-- size manifest builder: `build` resizes (grows or TRUNCATES) every mask to `⌈n/8⌉`; every
file below `n` keeps its membership. -/
theorem size_build_keeps_bits (m : Bytes) (n i : Nat) (hi : i < n) :
    hasFile (resizeZ m (maskSize n)) i = hasFile m i := by
  rw [hasFile_resizeZ]
  have : i / 8 < maskSize n := by unfold maskSize; omega
  simp [this]

/-! ### queries -/

/-- per-tag query: exactly the indices `< n` whose bit is set, in increasing order. -/
theorem files_for_tag_exact (m : IManifest) (name : Bytes) (t : Tag) (h : findTag m.tags name = some t) :
    (m.filesForTag name).map (·.1) = (List.range m.entries.length).filter (hasFile t.mask) := by
  unfold IManifest.filesForTag
  rw [h]
  exact selectIdx_fst0 _ _

/-- `all_of_eq_inter`: when every requested name resolves (and the request is not empty), the
all-of query returns exactly the indices that are members of EVERY resolved tag. -/
theorem all_of_eq_inter (m : IManifest) (names : List Bytes)
    (h1 : (resolve m.tags names).isEmpty = false)
    (h2 : (resolve m.tags names).length = names.length) :
    (m.allOf names).map (·.1) =
      (List.range m.entries.length).filter fun i => (resolve m.tags names).all fun t => hasFile t.mask i := by
  unfold IManifest.allOf
  simp only [h1, h2, Bool.false_eq_true, ne_eq, not_true_eq_false, or_self, if_false]
  exact selectIdx_fst0 _ _

/-- an unknown name (or the empty request) selects nothing in the install manifest. -/
theorem all_of_unknown_empty (m : IManifest) (names : List Bytes)
    (h : (resolve m.tags names).isEmpty = true ∨ (resolve m.tags names).length ≠ names.length) :
    m.allOf names = [] := by
  unfold IManifest.allOf
  rw [if_pos h]

/-- `any_of_eq_union`: the any-of query returns exactly the indices that are members of SOME
resolved tag. -/
theorem any_of_eq_union (m : IManifest) (names : List Bytes) :
    (m.anyOf names).map (·.1) =
      (List.range m.entries.length).filter fun i => (resolve m.tags names).any fun t => hasFile t.mask i := by
  unfold IManifest.anyOf
  by_cases h : (resolve m.tags names).isEmpty = true
  · rw [if_pos h]
    have : resolve m.tags names = [] := by simpa using h
    simp [this]
  · rw [if_neg h]
    exact selectIdx_fst0 _ _

/-- download all-of (`entries_by_tags`): same statement; the empty request selects all entries. -/
theorem download_all_of_eq_inter (m : DManifest) (names : List Bytes)
    (h2 : (resolve m.tags names).length = names.length) :
    (m.byTags names).map (·.1) =
      (List.range m.entries.length).filter fun i => (resolve m.tags names).all fun t => hasFile t.mask i := by
  unfold DManifest.byTags
  by_cases h : names.isEmpty = true
  · rw [if_pos h]
    have : names = [] := by simpa using h
    subst this
    rw [selectIdx_fst0]
    simp [resolve]
  · rw [if_neg h]
    simp only [h2, ne_eq, not_true_eq_false, if_false]
    exact selectIdx_fst0 _ _

/-- `size_eq_sum` (install): the size total is the sum of `file_size` over exactly the
(index, entry) pairs of the canonical enumeration whose index is in the all-of selection. -/
theorem size_eq_sum (m : IManifest) (names : List Bytes)
    (h1 : (resolve m.tags names).isEmpty = false)
    (h2 : (resolve m.tags names).length = names.length) :
    m.installSize names =
      ((((List.range m.entries.length).zip m.entries).filter fun q =>
          (resolve m.tags names).all fun t => hasFile t.mask q.1).map fun q => q.2.size).sum := by
  unfold IManifest.installSize IManifest.allOf
  simp only [h1, h2, Bool.false_eq_true, ne_eq, not_true_eq_false, or_self, if_false]
  rw [selectIdx_eq, List.range_eq_range']

/-- `size_eq_sum` (download, 40-bit sizes). -/
theorem download_size_eq_sum (m : DManifest) (names : List Bytes) (hne : names.isEmpty = false)
    (h2 : (resolve m.tags names).length = names.length) :
    m.sizeForTags names =
      ((((List.range m.entries.length).zip m.entries).filter fun q =>
          (resolve m.tags names).all fun t => hasFile t.mask q.1).map fun q => q.2.size).sum := by
  unfold DManifest.sizeForTags DManifest.byTags
  simp only [hne, Bool.false_eq_true, if_false, h2, ne_eq, not_true_eq_false]
  rw [selectIdx_eq, List.range_eq_range']

/-- priority filter: exactly the enumerated entries whose effective priority (V3: saturating
`priority - base`) falls in the category. -/
theorem priority_filter_exact (m : DManifest) (cat : Nat) :
    m.byPriority cat =
      (((List.range m.entries.length).zip m.entries).filter fun q => prioCat (effPrio m q.2) == cat) := by
  unfold DManifest.byPriority
  rw [selectEnt_eq, List.range_eq_range']

/-- the byte-wise `intersect` / `union` of two masks are pointwise AND / OR of memberships -/
theorem intersect_union_pointwise (a b : Bytes) (i : Nat) :
    hasFile (intersect a b) i = (hasFile a i && hasFile b i) ∧
    hasFile (union a b) i = (hasFile a i || hasFile b i) :=
  ⟨hasFile_intersect a b i, hasFile_union a b i⟩

/-! ### serialise / parse -/

/-- `parse_build_tags` (install): parse ∘ build = id on every well-formed manifest, V1 and V2, any
tag and entry count; hence every query on the re-parsed manifest is the query on the built one. -/
theorem parse_build_install (m : IManifest) (h : IManifestWf m) (trailing : Bytes) :
    parseInstall (serInstall m ++ trailing) = some m := parseInstall_ser m h trailing

/-- `parse_build_tags` (download): versions 1, 2, 3, with/without checksums, flag sizes 0–4. -/
theorem parse_build_download (m : DManifest) (h : DManifestWf m) (trailing : Bytes) :
    parseDownload (serDownload m ++ trailing) = some m := parseDownload_ser m h trailing

/-- `u40_roundtrip`: every size `≤ 2^40 - 1` survives `to_bytes` / `from_bytes`; larger sizes are
rejected by `add_file`. -/
theorem u40_roundtrip (n : Nat) :
    (n ≤ max40 → rdBe (be40 n) = n) ∧
    (∀ b key p, n > max40 → DBuilder.addFile b key n p = .error .size) := by
  refine ⟨rdBe_be40 n, fun b key p h => ?_⟩
  unfold DBuilder.addFile
  rw [if_pos h]

/-- `priority_roundtrip`: every `i8` priority survives its byte. -/
theorem priority_roundtrip (p : Int) (h1 : -128 ≤ p) (h2 : p ≤ 127) : byteI8 (i8Byte p) = p :=
  byteI8_i8Byte p h1 h2

/-! ### whole builder programs (install builder) -/

/-- `builder_refines_sets` + `mask_len_inv`, program level. For EVERY program over
add tag / add file / associate / dissociate / remove file / remove tag (any order, any length,
valid or rejected arguments) that stays inside the specification's domain (no second `add_tag` of
a live name — see the witness below), the `InstallManifestBuilder` model run from the empty
builder (i) keeps every tag mask at exactly `⌈n/8⌉` bytes with no bit at or beyond `n`, keeps live
names distinct and the name map exact, and (ii) its abstraction — entries, and per tag the name,
type and membership vector read off the mask with `has_file` — is exactly the state the abstract
program computes (`Spec.TagSets.run`: append `false` on add file, delete position `k` on remove
file, set one position on associate / dissociate, drop the tag on remove tag). -/
theorem builder_refines_sets (ops : List (Spec.TagSets.Op IEntry)) (s : Spec.TagSets.SState IEntry)
    (h : Spec.TagSets.run Spec.TagSets.SState.empty ops = some s) :
    IInv (irun IBuilder.empty ops) ∧ absI (irun IBuilder.empty ops) = s :=
  irun_refines ops IBuilder.empty iinv_empty s h

/-- `mask_len_inv` as a corollary: after every such program `build` succeeds on the mask check —
each mask has `entry_count.div_ceil(8)` bytes. -/
theorem mask_len_inv (ops : List (Spec.TagSets.Op IEntry)) (s : Spec.TagSets.SState IEntry)
    (h : Spec.TagSets.run Spec.TagSets.SState.empty ops = some s) :
    ∀ t ∈ (irun IBuilder.empty ops).tags,
      t.mask.length = maskSize (irun IBuilder.empty ops).entries.length ∧
      ∀ j, (irun IBuilder.empty ops).entries.length ≤ j → hasFile t.mask j = false :=
  fun t ht =>
    let inv := (builder_refines_sets ops s h).1.masks t ht
    ⟨inv.len, inv.clean⟩

/-- Counter-witness to the full-strength statement (all programs, duplicate names included),
kernel-checked on the model, replayed on the real code by corpus/C19/dup-tag-name-install.case:
`add_tag W; add_tag W; add_file; associate(0, W)` is accepted, yet the by-name query of the built
manifest reports no file for `W` (the association went to the second tag, the query reads the
first). Hence the hypothesis of `builder_refines_sets`. KNOWN FINDING `tag-set-dupname`. -/
theorem duplicate_name_shadows_witness :
    let b := irun IBuilder.empty
      [.addTag [0x57] 1, .addTag [0x57] 1, .addFile ⟨[0x61], List.replicate 16 0, 10, none⟩, .assoc 0 [0x57]]
    (match IBuilder.assoc (irun IBuilder.empty [.addTag [0x57] 1, .addTag [0x57] 1,
        .addFile ⟨[0x61], List.replicate 16 0, 10, none⟩]) 0 [0x57] with | .ok _ => true | .error _ => false) = true ∧
    (match b.build with
     | .ok m => (m.filesForTag [0x57]).map (·.1)
     | .error _ => [99]) = [] := by decide

/-- …and the same program is outside the specification's domain. -/
theorem duplicate_name_outside_spec :
    Spec.TagSets.run (Spec.TagSets.SState.empty (α := IEntry))
      [.addTag [0x57] 1, .addTag [0x57] 1] = none := by decide

/-! ### whole builder programs (download builder) -/

/-- `download_builder_refines_sets`, program level, for the `DownloadManifestBuilder` model. For
EVERY program over its eleven operations — add tag / add file (40-bit size guard) / associate /
dissociate / remove file (the running-output-position loop) / remove tag (`Vec::remove` + REBUILD
of `tag_name_to_index`) and the setters `with_checksums`, `with_flags`, `with_base_priority`,
`set_file_checksum`, `set_file_flags`, in any order and length, with accepted or rejected
arguments, started from `DownloadManifestBuilder::new(v)` for any accepted version — whose
abstract program (`specProg`: the setters and the rejected oversized `add_file`s dropped, the
rest one to one) stays inside the specification's domain (no second `add_tag` of a live name),
the builder model (i) keeps every mask at exactly `⌈n/8⌉` bytes with no bit at or beyond `n`,
keeps live names distinct and the (rebuilt) name map exact, and (ii) its abstraction — files as
(key, size, priority), per tag the name, type and the membership vector read with `has_file` — is
exactly the state `Spec.TagSets.run` computes. In particular no setter disturbs a mask. -/
theorem download_builder_refines_sets (v : Nat) (b0 : DBuilder) (hv : DBuilder.new v = .ok b0)
    (ops : List DOp) (s : Spec.TagSets.SState DF)
    (h : Spec.TagSets.run Spec.TagSets.SState.empty (specProg ops) = some s) :
    DInv (drun b0 ops) ∧ absD (drun b0 ops) = s := by
  obtain ⟨hI, ha⟩ := dinv_new v b0 hv
  exact drun_refines ops b0 hI s (by rw [ha]; exact h)

/-- `mask_len_inv_download`: after every such program each mask has `entry_count.div_ceil(8)`
bytes and no stale bit, so the mask check of `validate()` / `build()` passes. -/
theorem mask_len_inv_download (v : Nat) (b0 : DBuilder) (hv : DBuilder.new v = .ok b0)
    (ops : List DOp) (s : Spec.TagSets.SState DF)
    (h : Spec.TagSets.run Spec.TagSets.SState.empty (specProg ops) = some s) :
    (∀ t ∈ (drun b0 ops).tags,
      t.mask.length = maskSize (drun b0 ops).entries.length ∧
      ∀ j, (drun b0 ops).entries.length ≤ j → hasFile t.mask j = false) ∧
    (drun b0 ops).tags.all (fun t => t.mask.length == maskSize (drun b0 ops).entries.length) = true := by
  have inv := (download_builder_refines_sets v b0 hv ops s h).1
  refine ⟨fun t ht => ⟨(inv.masks t ht).len, (inv.masks t ht).clean⟩, ?_⟩
  rw [List.all_eq_true]
  intro t ht
  simpa using (inv.masks t ht).len

/-- the setters alone (any sequence of them, accepted or rejected) never change a tag, a mask,
the name map or the (key, size, priority) of a file. -/
theorem download_setters_keep_tags (b : DBuilder) (hI : DInv b) (op : DOp) (hop : op.spec = none)
    (hadd : ∀ k sz p, op ≠ .addFile k sz p) :
    DInv (dstep b op) ∧ absD (dstep b op) = absD b := setter_refines b hI op hop hadd

/-- Counter-witness for the download builder (duplicate live name), kernel-checked on the model,
replayed on the real code by corpus/C19/dup-tag-name-download.case. KNOWN FINDING
`tag-set-dupname`. -/
theorem duplicate_name_shadows_witness_download :
    (match DBuilder.new 1 with
     | .error _ => [98]
     | .ok b0 =>
       match (drun b0 [.addTag [0x57] 1, .addTag [0x57] 1, .addFile (List.replicate 16 0) 10 0,
                       .assoc 0 [0x57]]).build with
       | .ok m => (m.byTag [0x57]).map (·.1)
       | .error _ => [99]) = [] ∧
    Spec.TagSets.run (Spec.TagSets.SState.empty (α := DF))
      (specProg [.addTag [0x57] 1, .addTag [0x57] 1]) = none := by decide

/-! ### size manifest builder (whole builder, header and entry serialisation via the C08 model) -/

/-- `size_builder_refines_sets`. For EVERY program of the `SizeManifestBuilder` model (the four
configuration setters, `add_tag`, `tag_file` by tag index — accepted or panicking —, `add_entry`,
any order and length) whose `build` succeeds: the manifest has one tag per `add_tag` in order
with its name and type, every mask has exactly `⌈n/8⌉` bytes, file `i < n` is a member of tag
`ti` exactly when the program made an accepted `tag_file(ti, i)` call (calls naming files `≥ n`
are dropped or ignored by every query), the entries carry the added esizes in order, and the
header's `total_size` is their sum (the wrapping `u64` sum of the release build). -/
theorem size_builder_refines_sets (ops : List SOp) (f : SFile)
    (h : (srun SBuilder.new ops).build = .ok f) :
    let s := sspecRun SSpec.empty ops
    f.tags.map (fun t => (t.name, t.typ)) = s.names ∧
    f.entries.map (·.esize) = s.sizes ∧
    f.total = s.sizes.sum % 2 ^ 64 ∧
    ∀ ti t, f.tags[ti]? = some t →
      t.mask.length = maskSize f.entries.length ∧
      ∀ i, i < f.entries.length → hasFile t.mask i = s.pairs.contains (ti, i) :=
  sbuild_refines ops f h

/-- `parse_build_size`. Whenever `build` succeeds on a program whose tag names are NUL-free valid
UTF-8 with a known tag type and whose esizes are `u64`s (the Rust parameter types), the manifest
passes `SizeManifest::validate`, and parsing its serialisation (header V1 with esize width 1–8 or
V2 with the 40-bit total, tags, variable-width entries; any trailing bytes) gives back exactly the
built manifest — so the re-parsed manifest reports the memberships and the total of
`size_builder_refines_sets`. (Round trip of the value: C08's `parseSFile_ser`, imported.) -/
theorem parse_build_size (ops : List SOp) (f : SFile)
    (h : (srun SBuilder.new ops).build = .ok f)
    (hnames : ∀ p ∈ (sspecRun SSpec.empty ops).names,
      (0 : Byte) ∉ p.1 ∧ validUtf8 p.1 = true ∧ validType p.2 = true)
    (hu64 : ∀ e ∈ (sspecRun SSpec.empty ops).sizes, e < 2 ^ 64) (trailing : Bytes) :
    buildSFile f = some (serSFile f) ∧ parseSFile (serSFile f ++ trailing) = some f := by
  have hI := srun_inv ops SBuilder.new SSpec.empty sinv_new
  have hwf : Cascette.Proofs.Serial.SWf f := by
    apply sbuild_wf _ f h
    · intro t ht
      exact hnames (t.name, t.typ) (by rw [← hI.names]; exact List.mem_map_of_mem (f := fun t => (t.name, t.typ)) ht)
    · intro e he
      exact hu64 e.esize (by rw [← hI.sizes]; exact List.mem_map_of_mem (f := (·.esize)) he)
  refine ⟨?_, Cascette.Proofs.Serial.parseSFile_ser f hwf trailing⟩
  unfold buildSFile
  rw [Cascette.Proofs.Serial.sfileValid_of_wf f hwf, if_pos rfl]

/-- size totals: when the esizes do not overflow a `u64` the header total IS their sum, and a V2
manifest is only built when that sum fits the 40-bit field. -/
theorem size_total_eq_sum (ops : List SOp) (f : SFile)
    (h : (srun SBuilder.new ops).build = .ok f)
    (hsum : (sspecRun SSpec.empty ops).sizes.sum < 2 ^ 64) :
    f.total = (sspecRun SSpec.empty ops).sizes.sum ∧ (f.version = 2 → f.total ≤ 0xFFFFFFFFFF) := by
  have hb := build_ok _ _ h
  refine ⟨?_, fun hv => hb.total40 (by rw [← hb.version.1]; exact hv)⟩
  rw [(sbuild_refines ops f h).2.2.1]
  exact Nat.mod_eq_of_lt hsum

/-- Counter-witness to "the size total is the sum of the esizes" at full strength (no bound on the
sum), kernel-checked on the model and replayed on the real code by
corpus/C19/size-total-u64-wrap.case: two V1 entries (esize width 8) of `2^63` each build,
serialise and parse with `total_size = 0`. Hence the hypothesis of `size_total_eq_sum`.
KNOWN FINDING `size-total-u64-wrap`. -/
theorem size_total_wraps_witness :
    (match (srun SBuilder.new [.setVersion 1, .setEsizeBytes 8,
        .addEntry (List.replicate 9 1) 9223372036854775808,
        .addEntry (List.replicate 9 2) 9223372036854775808]).build with
     | .ok f => f.total == 0 && (f.entries.map (·.esize)).sum == 18446744073709551616 &&
                (parseSFile (serSFile f) == some f)
     | .error _ => false) = true := by decide +kernel

/-! ### UTF-8 validation of names in the parsers -/

/-- `utf8_parse_install`: on the serialisation of ANY well-formed install manifest value (names
NUL-free byte strings, not assumed to be UTF-8) the parser AS WRITTEN — `String::from_utf8` right
after each NUL-terminated read — accepts iff every tag name and every path is well-formed UTF-8
(`validUtf8`: the Unicode table 3-7 automaton), and then returns the manifest unchanged. -/
theorem utf8_parse_install (m : IManifest) (h : IManifestWf m) (trailing : Bytes) :
    parseInstallV (serInstall m ++ trailing) =
      if (m.tags.all fun t => validUtf8 t.name) && (m.entries.all fun e => validUtf8 e.path)
      then some m else none := by
  rw [parseInstallV_eq]
  unfold parseInstallU
  rw [parseInstall_ser m h trailing]
  rfl

/-- `utf8_parse_download`: the same for the download parser (tag names are its only strings). -/
theorem utf8_parse_download (m : DManifest) (h : DManifestWf m) (trailing : Bytes) :
    parseDownloadV (serDownload m ++ trailing) =
      if (m.tags.all fun t => validUtf8 t.name) then some m else none := by
  rw [parseDownloadV_eq, parseDownload_ser m h trailing]

/-- conversely, on ARBITRARY input: whatever the install parser accepts has only NUL-free,
well-formed UTF-8 tag names and paths (and is a well-formed manifest). -/
theorem utf8_parse_install_accepts_only_valid (bs : Bytes) (m : IManifest)
    (h : parseInstallV bs = some m) :
    (∀ t ∈ m.tags, validUtf8 t.name = true ∧ (0 : Byte) ∉ t.name) ∧
    (∀ e ∈ m.entries, validUtf8 e.path = true ∧ (0 : Byte) ∉ e.path) := by
  rw [parseInstallV_eq] at h
  unfold parseInstallU at h
  cases hp : parseInstall bs with
  | none => rw [hp] at h; cases h
  | some m' =>
    rw [hp] at h
    simp only at h
    split at h
    · rename_i hok
      simp only [Option.some.injEq] at h
      subst h
      have hwf := (Cascette.Proofs.Serial.parseInstall_inv hp).1
      unfold installNamesOk at hok
      rw [Bool.and_eq_true, List.all_eq_true, List.all_eq_true] at hok
      exact ⟨fun t ht => ⟨hok.1 t ht, (hwf.tags t ht).name⟩, fun e he => ⟨hok.2 e he, (hwf.entries e he).path⟩⟩
    · cases h

/-- …and whatever the download parser accepts has only well-formed UTF-8 tag names. -/
theorem utf8_parse_download_accepts_only_valid (bs : Bytes) (m : DManifest)
    (h : parseDownloadV bs = some m) : ∀ t ∈ m.tags, validUtf8 t.name = true := by
  rw [parseDownloadV_eq] at h
  cases hp : parseDownload bs with
  | none => rw [hp] at h; cases h
  | some m' =>
    rw [hp] at h
    simp only at h
    split at h
    · rename_i hok
      simp only [Option.some.injEq] at h
      subst h
      exact List.all_eq_true.mp hok
    · cases h

/-- kernel-checked samples of the automaton (TESTS): ASCII, 2/3/4-byte forms accepted; overlong
`C0 80`, surrogate `ED A0 80`, above U+10FFFF `F4 90 80 80`, truncated `E2 82`, stray `80`
rejected. -/
theorem utf8_samples :
    validUtf8 [0x57, 0xC3, 0xA9, 0xE2, 0x82, 0xAC, 0xF0, 0x9F, 0x98, 0x80] = true ∧
    validUtf8 [0xC0, 0x80] = false ∧ validUtf8 [0xED, 0xA0, 0x80] = false ∧
    validUtf8 [0xF4, 0x90, 0x80, 0x80] = false ∧ validUtf8 [0xE2, 0x82] = false ∧
    validUtf8 [0x80] = false := by decide

/-! ### builder as mutator: `from_manifest` (Model/ManifestMut) -/

/-- `from_manifest_identity_download`. For EVERY well-formed download manifest — version 1, 2 or
3, with or without checksums, every flag size 0–4, every base priority −128..127 (V3), any
entries and tags — `DownloadManifestBuilder::from_manifest` followed by `build` returns exactly
that manifest, and its serialisation parses back to it. Hence every selection of the rebuilt,
re-parsed value (by tag, by tags, by priority category, by priority range, essential size,
effective priorities) IS the selection of the original. -/
theorem from_manifest_identity_download (m : DManifest) (h : DManifestWf m) (trailing : Bytes) :
    (dFromManifest m).build = .ok m ∧ parseDownload (serDownload m ++ trailing) = some m :=
  ⟨dFromManifest_build m h, parseDownload_ser m h trailing⟩

/-- `from_manifest_keeps_header_download`. Load a well-formed manifest, run ANY program of editing
calls (add tag / add file / associate / dissociate / remove file / remove tag / set_file_checksum /
set_file_flags, accepted or rejected — everything but the three configuration setters), build: the
rebuilt manifest carries the source's version, checksum switch, flag size and base priority, and
so gives every entry the effective priority the source gives it. -/
theorem from_manifest_keeps_header_download (m m' : DManifest) (h : DManifestWf m) (ops : List DOp)
    (hops : ∀ op ∈ ops, DOp.isConfig op = false)
    (hb : (drun (dFromManifest m) ops).build = .ok m') :
    m'.version = m.version ∧ m'.hasCks = m.hasCks ∧ m'.flagSize = m.flagSize ∧
    m'.basePrio = m.basePrio ∧ ∀ e, effPrio m' e = effPrio m e :=
  dFromManifest_keeps_header m m' h ops hops hb

/-- `from_manifest_priority_selection`. …therefore the three priority selections of the rebuilt
manifest are selections over ITS entries by the SOURCE's effective priority (saturating
`priority - base` of the source header for V3, the raw priority for V1/V2). -/
theorem from_manifest_priority_selection (m m' : DManifest) (h : DManifestWf m) (ops : List DOp)
    (hops : ∀ op ∈ ops, DOp.isConfig op = false)
    (hb : (drun (dFromManifest m) ops).build = .ok m') :
    (∀ cat, m'.byPriority cat = selectEnt (fun e => prioCat (effPrio m e) == cat) 0 m'.entries) ∧
    (∀ lo hi, m'.byPriorityRange lo hi =
      selectEnt (fun e => decide (lo ≤ effPrio m e) && decide (effPrio m e ≤ hi)) 0 m'.entries) ∧
    m'.essentialSize = ((m'.entries.filter fun e => decide (effPrio m e ≤ 0)).map (·.size)).sum ∧
    effList m' = m'.entries.map (effPrio m) := by
  have heff : effPrio m' = effPrio m :=
    funext (from_manifest_keeps_header_download m m' h ops hops hb).2.2.2.2
  unfold DManifest.byPriority DManifest.byPriorityRange DManifest.essentialSize effList
  rw [heff]
  exact ⟨fun _ => rfl, fun _ _ => rfl, rfl, rfl⟩

/-- `from_manifest_program_refines_download`. A builder loaded from a manifest with exact masks
and distinct tag names satisfies the program invariant, so `download_builder_refines_sets` holds
for programs that START from a loaded manifest: the state after the program is the abstract
program run from the manifest's own tag -> membership-vector state. -/
theorem from_manifest_program_refines_download (m : DManifest)
    (hm : ∀ t ∈ m.tags, MaskOk m.entries.length t.mask) (hnd : (m.tags.map (·.name)).Nodup)
    (ops : List DOp) (s : Spec.TagSets.SState DF)
    (h : Spec.TagSets.run (absDM m) (specProg ops) = some s) :
    DInv (drun (dFromManifest m) ops) ∧ absD (drun (dFromManifest m) ops) = s := by
  obtain ⟨hI, ha⟩ := dinv_fromManifest m hm hnd
  exact drun_refines ops _ hI s (by rw [ha]; exact h)

/-- `from_manifest_identity_install`. For every well-formed install manifest, V1 and V2 (every
content-key-size / entry_count_v2 / unknown byte, every per-entry file-type byte),
`InstallManifestBuilder::from_manifest` followed by `build` returns exactly that manifest, and its
serialisation parses back to it. -/
theorem from_manifest_identity_install (m : IManifest) (h : IManifestWf m) (trailing : Bytes) :
    (IMut.fromManifest m).build = .ok m ∧ parseInstall (serInstall m ++ trailing) = some m :=
  ⟨iFromManifest_build m h, parseInstall_ser m h trailing⟩

/-- `from_manifest_keeps_header_install`. Load a well-formed install manifest, run ANY program of
the six editing calls, build: version and V2 extension fields are the source's, the tags are the
builder's, and the entries are the builder's — under a V2 source every entry carries a file-type
byte (its own if it had one, 0 for an entry added by the program), under a V1 source none is
touched. -/
theorem from_manifest_keeps_header_install (m m' : IManifest) (h : IManifestWf m)
    (ops : List (Spec.TagSets.Op IEntry))
    (hb : IMut.build ⟨irun (IMut.fromManifest m).b ops, (IMut.fromManifest m).src⟩ = .ok m') :
    m'.version = m.version ∧ m'.v2 = m.v2 ∧ m'.tags = (irun (IMut.fromManifest m).b ops).tags ∧
    m'.entries = (if m.version = 2 then (irun (IMut.fromManifest m).b ops).entries.map fillType
                  else (irun (IMut.fromManifest m).b ops).entries) :=
  ibuild_src _ m m' h hb

/-- `from_manifest_program_refines_install`: `builder_refines_sets` for programs that start from
a loaded install manifest. -/
theorem from_manifest_program_refines_install (m : IManifest)
    (hm : ∀ t ∈ m.tags, MaskOk m.entries.length t.mask) (hnd : (m.tags.map (·.name)).Nodup)
    (ops : List (Spec.TagSets.Op IEntry)) (s : Spec.TagSets.SState IEntry)
    (h : Spec.TagSets.run ⟨m.entries, m.tags.map (absTag m.entries.length)⟩ ops = some s) :
    IInv (irun (IMut.fromManifest m).b ops) ∧ absI (irun (IMut.fromManifest m).b ops) = s := by
  obtain ⟨hI, ha⟩ := iinv_fromManifest m hm hnd
  exact irun_refines ops _ hI s (by rw [ha]; exact h)

/-- kernel-checked sample (TEST) of the family the run drives: a V3 manifest with base priority
−10 and priorities −128, −12, −3, −1, 0, 1, 3, 6, 127 (sizes 1000 + i) is loaded, a file of
priority 2 is added and tagged, the builder is rebuilt, serialised and parsed: base priority
still −10, essential size 2001 (entries 0 and 1), and the new file is in the tag. -/
theorem from_manifest_v3_sample :
    let es : List DEntry := [(-128 : Int), -12, -3, -1, 0, 1, 3, 6, 127].mapIdx fun i p =>
      ⟨List.replicate 16 (BitVec.ofNat 8 i), 1000 + i, p, none, none⟩
    let m : DManifest := ⟨3, false, 0, -10, es, [⟨[0x57], 1, [0x80, 0x00]⟩]⟩
    (match (drun (dFromManifest m) [.addFile (List.replicate 16 0xEE) 5000 2, .assoc 9 [0x57]]).build with
     | .ok m' =>
       (match parseDownload (serDownload m') with
        | some p => p.basePrio == -10 && p.essentialSize == 2001 &&
                    (p.byTag [0x57]).map (·.1) == [0, 9] && p == m'
        | none => false)
     | .error _ => false) = true := by decide +kernel

/-! ### non-vacuity -/

example : MaskOk 9 [0x80, 0x80] := ⟨rfl, fun j hj => by
  by_cases h : j / 8 < 2
  · have : j < 16 := by omega
    have : j = 9 ∨ j = 10 ∨ j = 11 ∨ j = 12 ∨ j = 13 ∨ j = 14 ∨ j = 15 := by omega
    rcases this with h | h | h | h | h | h | h <;> subst h <;> decide
  · exact hasFile_of_length_le _ _ (by simp; omega)⟩
example : memOf 9 [0x80, 0x80] = [true, false, false, false, false, false, false, false, true] := by decide
example : memOf 8 (instRemoveMask [0x80, 0x80] 3 8) = [true, false, false, false, false, false, false, true] := by decide
example : memOf 8 (dlRemoveMask [0x80, 0x80] 3 8) = [true, false, false, false, false, false, false, true] := by decide

/-- a non-trivial program inside the domain: two tags, nine files, associations, a removal that
crosses the byte boundary -/
example : (Spec.TagSets.run (Spec.TagSets.SState.empty (α := Nat))
    [.addTag [1] 1, .addFile 0, .addFile 1, .addTag [2] 2, .assoc 1 [2], .assoc 0 [1], .removeFile 0]).isSome = true := by decide

/-- a download program inside the domain that uses every operation: setters between the tag/file
operations, a rejected oversized file, a removal across the byte boundary, a tag removal followed
by a by-name association (exercises the rebuilt name map) -/
example : (Spec.TagSets.run (Spec.TagSets.SState.empty (α := DF))
    (specProg [.withChecksums true, .addTag [1] 1, .addFile [7] 5 (-3), .withFlags 2, .addFile [8] (max40 + 1) 0,
      .addTag [2] 2, .addFile [9] max40 127, .setChecksum 0 77, .assoc 1 [2], .setFlags 1 [1, 2],
      .removeTag [1], .assoc 0 [2], .withBase 0, .dissoc 1 [2], .removeFile 0])).isSome = true := by decide

/-- a size-builder program whose build succeeds (V1, 2-byte esizes, tag_file beyond the entry
count and with a bad tag index, tag_count setter overridden by add_tag) -/
example : (match (srun SBuilder.new [.setVersion 1, .setEsizeBytes 2, .setTagCount 7, .addTag [0x41] 1,
    .addEntry (List.replicate 9 1) 65535, .tagFile 0 0, .tagFile 0 9, .tagFile 3 0, .addTag [0x42] 2,
    .addEntry (List.replicate 9 2) 5, .tagFile 1 1]).build with
  | .ok f => (f.total, f.tags.map (·.mask)) == (65540, [[0x80], [0x40]])
  | .error _ => false) = true := by decide

/-- a well-formed install manifest with a non-UTF-8 tag name: it serialises, and the parser as
written rejects it (hypothesis of `utf8_parse_install` satisfiable with the `else` branch) -/
example : parseInstallV (serInstall ⟨1, none, [⟨[0xC0, 0x80], 1, []⟩], []⟩) = none ∧
    parseInstall (serInstall ⟨1, none, [⟨[0xC0, 0x80], 1, []⟩], []⟩) =
      some ⟨1, none, [⟨[0xC0, 0x80], 1, []⟩], []⟩ := by decide

end Cascette.Props.C19
