/-
Props/C06 — a crash at any point of a save leaves old or new state (partial by design: the crash
behaviour of the kernel is the assumption written down in Spec/Fs).

Shape of every positive theorem: for EVERY on-disk state `img` the crash relation allows for the
routine's trace (`Crash`: any cut between calls or inside a write; behind a file's synced prefix
arbitrary bytes — prefix, zeros, stale), what the loader looks at is byte-for-byte what it was
before the save or what the completed save leaves. File contents and parsers are parameters, so
"load img = load old ∨ load img = load new" follows for every loader that reads those names.

Restated against DESIGN §6: instead of `load d' = ok old ∨ load d' = ok new` with a concrete
parser per artifact, the theorems give equality of the loader-visible BYTES (index, residency,
disk cache) resp. equality of the loader's RESULT for an arbitrary `deserialize` (LRU); that a
completed save parses back to the saved state is C05/C07/C17's round trip.
-/
import Cascette.Proofs.SaveProtocols
namespace Cascette.Props.C06
open Cascette Cascette.Spec.Fs Cascette.Model.SaveProtocols Cascette.Proofs.SaveProtocols

set_option linter.unusedSectionVars false
variable {N : Type} [DecidableEq N]

/-! ## temp file + fsync + rename -/

/-- `save_index` (IndexManager), for every outcome of its up to three attempts and every crash
point: the index file holds its old bytes or the complete new bytes, and every other durable file
except the temporary one is untouched. -/
theorem save_index_crash_safe (d0 : Dir N) {tmp fin : N} (bs : Bytes) (outcomes : List Attempt)
    (hne : tmp ≠ fin) {img : N → Option Bytes} (hc : Crash (saveIndex tmp fin bs outcomes) d0 img) :
    (Durable d0 fin → img fin = dataOf d0 fin ∨ img fin = some bs) ∧
    (∀ m, m ≠ tmp → m ≠ fin → Durable d0 m → img m = dataOf d0 m) := by
  obtain ⟨p, hcut, hi⟩ := hc
  refine ⟨?_, ?_⟩
  · intro hd
    apply image_old_or_new hi fin bs hd
    rcases saveIndex_states d0 bs outcomes hne hcut fin (fun e => hne e.symm) with h | ⟨_, h⟩
    · exact Or.inl h
    · exact Or.inr h
  · intro m h1 h2 hd
    rcases saveIndex_states d0 bs outcomes hne hcut m h1 with h | ⟨h, _⟩
    · exact image_eq_of_state_eq hi h hd
    · exact absurd h h2

/-- when all three attempts fail, `save_index` returns `Err` and the old file is still there. -/
theorem save_index_failure_keeps_old (d0 : Dir N) {tmp fin : N} (bs : Bytes) (outcomes : List Attempt)
    (hne : tmp ≠ fin) (hf : saveIndexOk 3 outcomes = false) :
    run d0 (saveIndex tmp fin bs outcomes) fin = d0 fin :=
  saveIndex_failed_state d0 bs outcomes hf fin (fun e => hne e.symm)

/-- the plain protocol (`ResidencyDb::save`, `DiskCache::write_file`, one successful
`save_index` attempt). -/
theorem atomic_replace_crash_safe (d0 : Dir N) {tmp fin : N} (bs : Bytes) (hne : tmp ≠ fin)
    {img : N → Option Bytes} (hc : Crash (atomicReplace tmp fin bs) d0 img) :
    (Durable d0 fin → img fin = dataOf d0 fin ∨ img fin = some bs) ∧
    (∀ m, m ≠ tmp → m ≠ fin → Durable d0 m → img m = dataOf d0 m) :=
  save_index_crash_safe d0 bs [] hne hc

/-- the completed protocol leaves exactly the new bytes, synced, and no temporary file. -/
theorem atomic_replace_complete (d0 : Dir N) {tmp fin : N} (bs : Bytes) (hne : tmp ≠ fin) :
    run d0 (atomicReplace tmp fin bs) fin = some ⟨bs, bs.length⟩ ∧
    run d0 (atomicReplace tmp fin bs) tmp = none :=
  ⟨(atomicReplace_run d0 bs hne).1, (atomicReplace_run d0 bs hne).2.1⟩

/-- `save_all`: bucket after bucket, stopping at the first failing bucket. At every crash point
EACH bucket file (and every other durable file that is not a temporary name) holds its old bytes
or the complete new bytes of that bucket. -/
theorem save_all_per_bucket_crash_safe (buckets : List (BucketSave N)) (hne : ∀ b ∈ buckets, b.tmp ≠ b.fin)
    (d0 : Dir N) {img : N → Option Bytes} (hc : Crash (saveAll buckets) d0 img)
    (m : N) (hm : ∀ b ∈ buckets, m ≠ b.tmp) (hd : Durable d0 m) :
    img m = dataOf d0 m ∨ ∃ b ∈ buckets, m = b.fin ∧ img m = some b.bytes := by
  obtain ⟨p, hcut, hi⟩ := hc
  rcases saveAll_states buckets hne d0 hcut m hm with h | ⟨b, hb, h1, h2⟩
  · exact Or.inl (image_eq_of_state_eq hi h hd)
  · right
    refine ⟨b, hb, h1, ?_⟩
    rw [crashImage_durable hi m (durable_of_synced h2)]; simp [dataOf, h2]

/-- `ResidencyDb::save` (nothing at all when the database is not dirty). -/
theorem residency_save_crash_safe (d0 : Dir N) (dirty : Bool) {tmp fin : N} (bs : Bytes) (hne : tmp ≠ fin)
    (hd : Durable d0 fin) {img : N → Option Bytes} (hc : Crash (residencySave dirty tmp fin bs) d0 img) :
    img fin = dataOf d0 fin ∨ img fin = some bs := by
  cases dirty with
  | true => exact (atomic_replace_crash_safe d0 bs hne hc).1 hd
  | false =>
    obtain ⟨p, hcut, hi⟩ := hc
    have hp : p = [] := cut_nil (by simpa [residencySave] using hcut)
    subst hp
    exact Or.inl (image_eq_of_state_eq hi rfl hd)

/-- `DiskCache::write_file` + cold `get`: for every key whose entry file is not this save's
temporary file, a fresh instance returns the old value (or miss) or the new value; keys other than
the written one are unaffected. -/
theorem disk_cache_write_crash_safe (d0 : Dir N) {tmp fin : N} (bs : Bytes) (hne : tmp ≠ fin)
    {img : N → Option Bytes} (hc : Crash (diskCacheWrite tmp fin bs) d0 img)
    (path : N) (hp : path ≠ tmp) (hd : Durable d0 path) :
    diskCacheGet img path = diskCacheGet (dataOf d0) path ∨ (path = fin ∧ diskCacheGet img path = some bs) := by
  unfold diskCacheGet
  by_cases hpf : path = fin
  · subst hpf
    rcases (atomic_replace_crash_safe d0 bs hne hc).1 hd with h | h
    · exact Or.inl h
    · exact Or.inr ⟨rfl, h⟩
  · exact Or.inl ((atomic_replace_crash_safe d0 bs hne hc).2 path hp hpf hd)

/-- "everything written so far reached the disk" is always one of the possible crash images. -/
theorem dirImage_asis_sound (d : Dir N) : CrashImage d (dirImage .asis d) := by
  intro n
  cases hd : d n with
  | none => simp [dirImage, hd]
  | some f => exact ⟨f.data, by simp [dirImage, hd, imageOf], Nat.le_refl _, rfl⟩

/-! ## LRU checkpoint -/

/-- `checkpoint_to_disk` as repaired (commit 1b2b74f) + `run_cycle`'s load (highest generation,
MD5-checked `deserialize` — any function —, no fallback): at EVERY crash point the loader returns
exactly what it returned before the save or what it returns after the complete save; in particular
it never returns `err` unless it did so before or does so after. No assumption relates `gen`,
`prev` and the generations already present. -/
theorem lru_checkpoint_crash_safe {S : Type} (genName tmpName : Nat → N) (deser : Bytes → Option S)
    (hinj : ∀ a b, genName a = genName b → a = b) (hdis : ∀ a b, tmpName a ≠ genName b)
    (gens : List Nat) (gen prev : Nat) (bs : Bytes) (d0 : Dir N)
    (hgen : gen ∈ gens) (hdur : ∀ g ∈ gens, Durable d0 (genName g)) {img : N → Option Bytes}
    (hc : Crash (lruCheckpoint genName tmpName gen prev bs) d0 img) :
    lruLoad genName deser gens img = lruLoad genName deser gens (dataOf d0) ∨
    lruLoad genName deser gens img =
      lruLoad genName deser gens (dataOf (run d0 (lruCheckpoint genName tmpName gen prev bs))) :=
  lru_checkpoint_crash_safe' genName tmpName deser hinj hdis gens gen prev bs d0 hgen hdur hc

/-- the completed checkpoint is what the loader returns next, provided no higher generation is on
disk (after `run_cycle` + `bump_generation` that is the case). -/
theorem lru_checkpoint_complete {S : Type} (genName tmpName : Nat → N) (deser : Bytes → Option S)
    (hinj : ∀ a b, genName a = genName b → a = b) (hdis : ∀ a b, tmpName a ≠ genName b)
    (gens : List Nat) (gen prev : Nat) (bs : Bytes) (d0 : Dir N) (hgen : gen ∈ gens)
    (hmax : ∀ g ∈ gens, (d0 (genName g)).isSome → g ≤ gen) :
    lruLoad genName deser gens (dataOf (run d0 (lruCheckpoint genName tmpName gen prev bs))) =
      (match deser bs with
       | some s => .loaded gen s
       | none => .err) := by
  have hTF : tmpName gen ≠ genName gen := hdis gen gen
  obtain ⟨hF, _, hO⟩ := atomicReplace_run d0 bs hTF
  have hfinF : run d0 (lruCheckpoint genName tmpName gen prev bs) (genName gen) = some ⟨bs, bs.length⟩ := by
    unfold lruCheckpoint lruDeletePrev
    rw [run_append]
    by_cases hg : prev ≠ 0 ∧ prev ≠ gen
    · rw [if_pos hg]
      have : genName gen ≠ genName prev := fun e => hg.2 (hinj _ _ e).symm
      simp only [run, List.foldl_cons, List.foldl_nil, step]
      rw [upd_other _ _ this]; exact hF
    · rw [if_neg hg]; exact hF
  have hfinO : ∀ g ∈ gens, g ≠ gen →
      (run d0 (lruCheckpoint genName tmpName gen prev bs) (genName g)).isSome → (d0 (genName g)).isSome := by
    intro g _ hge
    have h1 : genName g ≠ genName gen := fun e => hge (hinj _ _ e)
    have h2 : genName g ≠ tmpName gen := fun e => hdis gen g e.symm
    unfold lruCheckpoint lruDeletePrev
    rw [run_append]
    by_cases hg : prev ≠ 0 ∧ prev ≠ gen
    · rw [if_pos hg]
      by_cases hgp : genName g = genName prev
      · simp [run, step, hgp]
      · simp only [run, List.foldl_cons, List.foldl_nil, step]
        rw [upd_other _ _ hgp]
        have := hO _ h2 h1
        simp only [run] at this
        rw [this]; exact id
    · rw [if_neg hg]
      simp only [run_nil]
      rw [hO _ h2 h1]; exact id
  have hl : lruLatest genName gens (dataOf (run d0 (lruCheckpoint genName tmpName gen prev bs))) = some gen := by
    apply maxGen_of_max
    · exact List.mem_filter.mpr ⟨hgen, by simp [dataOf, hfinF]⟩
    · intro x hx
      obtain ⟨hxg, hxp⟩ := List.mem_filter.mp hx
      by_cases hxe : x = gen
      · omega
      · apply hmax x hxg
        apply hfinO x hxg hxe
        simpa [dataOf] using hxp
  rw [lruLoad_of_latest genName deser gens hl]
  simp only [dataOf, hfinF, Option.map_some]
  cases deser bs <;> rfl

/-- the full-strength statement is FALSE of the pinned `checkpoint_to_disk` (in-place
`tokio::fs::write`, no sync): generation 1 valid on disk, checkpoint of generation 2 torn after one
byte — the older valid generation is still there, the loader takes generation 2 and fails.
(Replayed on the real code: corpus/C06/lru-torn-newest-generation.case; repaired in /repo.) -/
def lruWitnessDir : Dir Nat := fun n => if n = 1 then some ⟨[1], 1⟩ else none
def lruWitnessDeser (b : Bytes) : Option Nat := if b = [1] then some 1 else if b = [2, 2] then some 2 else none
def lruWitnessCut : List (Op Nat) := [.create 2, .write 2 [2]]

theorem lru_checkpoint_pinned_counter :
    ∃ img, Crash (lruCheckpointPinned id 2 1 [2, 2]) lruWitnessDir img ∧
      img 1 = some [1] ∧
      lruLoad id lruWitnessDeser [1, 2] (dataOf lruWitnessDir) = .loaded 1 1 ∧
      lruLoad id lruWitnessDeser [1, 2] (dataOf (run lruWitnessDir (lruCheckpointPinned id 2 1 [2, 2]))) = .loaded 2 2 ∧
      lruLoad id lruWitnessDeser [1, 2] img = .err := by
  refine ⟨dirImage .asis (run lruWitnessDir lruWitnessCut), ⟨lruWitnessCut, ?_, ?_⟩, ?_, ?_, ?_, ?_⟩
  · exact Cut.next _ (Cut.tear 2 [2, 2] 1 _)
  · exact dirImage_asis_sound _
  · decide
  · decide
  · decide
  · decide

/-- the hypotheses of `lru_checkpoint_crash_safe` are met by the same scenario under the repaired
protocol (names: generation g ↦ 2g, temporary of g ↦ 2g+1), and there the torn state is harmless. -/
example : lruLoad (fun g => 2 * g) lruWitnessDeser [1, 2]
      (dirImage .asis (run (fun n => if n = 2 then some ⟨[1], 1⟩ else none)
        (cutAt (lruCheckpoint (fun g => 2 * g) (fun g => 2 * g + 1) 2 1 [2, 2]) 1 1))) = .loaded 1 1 := by decide

/-! ## leftover temporary files are not loader-visible names -/

theorem hexPad_length (w n : Nat) : (hexPad w n).length = w := by simp [hexPad]

/-- `parse_index_filename` rejects the temporary name of every bucket/version: `load_all` skips it. -/
theorem idx_tmp_not_index_name (bucket version : Nat) : isIdxName (idxTmp bucket version) = false := by
  have hl : (hexPad 2 bucket ++ hexPad 8 version).length = 10 := by simp [hexPad_length]
  have hd : (idxTmp bucket version).drop 10 = dotTmp := by
    unfold idxTmp; exact List.drop_left' hl
  unfold isIdxName
  rw [hd]
  simp [dotTmp, dotIdx, lowerAscii]

/-- `filename_to_generation` rejects the temporary name of every generation:
`find_latest_lru_file` and `scan_directory` skip it. -/
theorem lru_tmp_not_generation_name (gen : Nat) : isLruName (lruTmp gen) = false := by
  have hd : (lruTmp gen).drop 16 = dotTmp := by
    unfold lruTmp; exact List.drop_left' (hexPad_length 16 gen)
  unfold isLruName
  rw [hd]
  simp [dotTmp, dotLru]

/-- test of the name functions against the examples of the Rust unit tests. -/
example : String.ofList (lruName 1) = "0000000000000001.lru" ∧ String.ofList (idxName 0x0a 1) = "0a00000001.idx"
    ∧ String.ofList (withExtTmp "key_state_v8".toList) = "key_state_v8.tmp"
    ∧ String.ofList (withExtTmp "a.b.c".toList) = "a.b.tmp"
    ∧ String.ofList (withExtTmp ".hidden".toList) = ".hidden.tmp"
    ∧ withExtTmp "blob.tmp".toList = "blob.tmp".toList
    ∧ isIdxName (idxName 0x0a 1) = true ∧ isLruName (lruName 77) = true := by decide

/-! ## DiskCache: the two key shapes where the temporary name is an entry name (known findings) -/

def dcWitnessDirA : Dir Nat := fun n => if n = 0 then some ⟨[1, 1], 2⟩ else none
def dcWitnessDirB : Dir Nat := fun _ => none

/-- key whose file name ends in ".tmp": `with_extension("tmp")` is the identity, the entry is
rewritten in place. Old value [1,1], new value [2,2,2], crash after one byte: a cold `get` returns
[2] — a truncated object that is accepted. -/
theorem disk_cache_tmp_suffix_counter :
    withExtTmp "blob.tmp".toList = "blob.tmp".toList ∧
    ∃ img, Crash (diskCacheWrite 0 0 [2, 2, 2]) dcWitnessDirA img ∧
      diskCacheGet (dataOf dcWitnessDirA) 0 = some [1, 1] ∧ diskCacheGet img 0 = some [2] := by
  refine ⟨by decide, dirImage .asis (run dcWitnessDirA [.create 0, .write 0 [2]]),
    ⟨_, Cut.next _ (Cut.tear 0 [2, 2, 2] 1 _), ?_⟩, by decide, by decide⟩
  exact dirImage_asis_sound (run dcWitnessDirA [.create 0, .write 0 [2]])

/-- key "x" (entry 0) next to key "x.tmp" (entry 1 = the temporary file of "x"): a crash during
`put("x")` leaves a temporary file that `get("x.tmp")` serves although that key never had a value
and has none after the completed save. -/
theorem disk_cache_leftover_tmp_counter :
    withExtTmp "x".toList = "x.tmp".toList ∧
    ∃ img, Crash (diskCacheWrite 1 0 [7, 7]) dcWitnessDirB img ∧
      diskCacheGet img 1 = some [7] ∧
      diskCacheGet (dataOf dcWitnessDirB) 1 = none ∧
      diskCacheGet (dataOf (run dcWitnessDirB (diskCacheWrite 1 0 [7, 7]))) 1 = none := by
  refine ⟨by decide, dirImage .asis (run dcWitnessDirB [.create 1, .write 1 [7]]),
    ⟨_, Cut.next _ (Cut.tear 1 [7, 7] 1 _), ?_⟩, by decide, by decide, by decide⟩
  exact dirImage_asis_sound (run dcWitnessDirB [.create 1, .write 1 [7]])

/-! ## compaction journal (ExtractorCompactorBackup): append-only, never synced — known findings -/

/-- a header torn after 3 of its 5 bytes (version 1, max 1023 = ff 03 00 00) by an earlier crash. -/
def jrnTornHeaderDir : Dir Nat := fun n => if n = 0 then some ⟨[1, 0xff, 3], 3⟩ else none

/-- `record_segment(731)` on it writes NO header (the file is not empty), returns Ok, and `load`
still ignores the file: the recorded segment is lost (corpus/C06/journal-torn-header.case). -/
theorem journal_torn_header_counter :
    journalRecord (0 : Nat) (journalIsEmpty jrnTornHeaderDir 0) 1 1023 731 = [.openAppend 0, .write 0 [0xdb, 2, 0, 0]] ∧
    journalLoad 1 (dataOf (run jrnTornHeaderDir (journalRecord 0 (journalIsEmpty jrnTornHeaderDir 0) 1 1023 731)) 0) = [] := by
  decide

def jrnTornEntryDir : Dir Nat := fun n => if n = 0 then some ⟨[1, 0xff, 3, 0, 0, 5, 0, 0, 0, 10, 0], 11⟩ else none

/-- header + [5] + two bytes of a torn record of 10: `record_segment(200)` appends misaligned and
`load` returns [5] instead of [5, 200] (corpus/C06/journal-torn-entry.case). -/
theorem journal_torn_entry_counter :
    journalLoad 1 (dataOf jrnTornEntryDir 0) = [5] ∧
    journalLoad 1 (dataOf (run jrnTornEntryDir (journalRecord 0 (journalIsEmpty jrnTornEntryDir 0) 1 1023 200)) 0) = [5] := by
  decide

def jrnDir : Dir Nat := fun n => if n = 0 then some ⟨[1, 0xff, 3, 0, 0, 0x89, 3, 0, 0], 9⟩ else none
def jrnZerosImg : Nat → Option Bytes := fun n => if n = 0 then some [1, 0xff, 3, 0, 0, 0x89, 3, 0, 0, 0, 0, 0, 0] else none

/-- no sync: the appended record of 65535 may come back as zeros = segment 0, which was never
recorded; neither [905] nor [905, 65535] (corpus/C06/journal-append-not-synced.case). -/
theorem journal_unsynced_counter :
    Crash (journalRecord (0 : Nat) (journalIsEmpty jrnDir 0) 1 1023 65535) jrnDir jrnZerosImg ∧
    journalLoad 1 (dataOf jrnDir 0) = [905] ∧
    journalLoad 1 (dataOf (run jrnDir (journalRecord 0 (journalIsEmpty jrnDir 0) 1 1023 65535)) 0) = [905, 65535] ∧
    journalLoad 1 (jrnZerosImg 0) = [905, 0] := by
  refine ⟨⟨_, cut_full _, ?_⟩, by decide, by decide, by decide⟩
  intro n
  by_cases hn : n = 0
  · subst hn
    have : run jrnDir (journalRecord (0 : Nat) (journalIsEmpty jrnDir 0) 1 1023 65535) 0 =
        some ⟨[1, 0xff, 3, 0, 0, 0x89, 3, 0, 0, 0xff, 0xff, 0, 0], 9⟩ := by decide
    rw [this]
    exact ⟨_, rfl, by decide, by decide⟩
  · have hfr : run jrnDir (journalRecord (0 : Nat) (journalIsEmpty jrnDir 0) 1 1023 65535) n = jrnDir n := by
      apply run_frame
      intro o ho
      have : journalRecord (0 : Nat) (journalIsEmpty jrnDir 0) 1 1023 65535 = [.openAppend 0, .write 0 [0xff, 0xff, 0, 0]] := by decide
      rw [this] at ho
      simp only [List.mem_cons, List.not_mem_nil, or_false] at ho
      rcases ho with rfl | rfl <;> simpa [touches] using hn
    rw [hfr]
    simp [jrnDir, jrnZerosImg, hn]


/-- the entries of a well-formed backup file. -/
def encSegs : List Nat → Bytes
  | [] => []
  | s :: rest => toLe32 (BitVec.ofNat 32 s) ++ encSegs rest

theorem le32_enc (s : Nat) (h : s < 2 ^ 32) :
    (le32 (byteOf (BitVec.ofNat 32 s) 0) (byteOf (BitVec.ofNat 32 s) 1) (byteOf (BitVec.ofNat 32 s) 2)
      (byteOf (BitVec.ofNat 32 s) 3)).toNat = s := by
  rw [le32_toLe32]; simp [BitVec.toNat_ofNat]; omega

theorem journalEntries_enc (segs : List Nat) : ∀ (fuel : Nat) (tail : Bytes), (∀ s ∈ segs, s < 65536) →
    segs.length ≤ fuel →
    journalEntries fuel (encSegs segs ++ tail) = segs ++ journalEntries (fuel - segs.length) tail := by
  induction segs with
  | nil => intro fuel tail _ _; simp [encSegs]
  | cons s rest ih =>
    intro fuel tail hs hl
    cases fuel with
    | zero => simp at hl
    | succ f =>
      have hs' : s < 65536 := hs s List.mem_cons_self
      have h32 : s < 2 ^ 32 := by omega
      simp only [encSegs, toLe32, List.cons_append, List.nil_append, journalEntries, le32_enc s h32, if_pos hs']
      rw [ih f tail (fun x hx => hs x (List.mem_cons_of_mem _ hx)) (by simpa using hl)]
      simp

/-- PARTIAL (the full statement — every crash image of `record_segment` loads as old or new — is
false: `journal_unsynced_counter`, `journal_torn_header_counter`, `journal_torn_entry_counter`).
Proved: on a WELL-FORMED journal (complete header, whole entries, all ≤ u16::MAX, room left), when
the only effect of the crash is that the appended entry is TORN at any byte `k` (no zeros, no stale
bytes), `load` returns the old segment list or the old list plus the new segment. -/
theorem journal_record_torn_write_safe_partial (version : Byte) (maxEntries : Nat) (hmax : maxEntries < 2 ^ 32)
    (segs : List Nat) (seg : Nat) (hs : ∀ s ∈ segs, s < 65536) (hseg : seg < 65536)
    (hroom : segs.length < maxEntries) (k : Nat) :
    let old : Bytes := version :: (toLe32 (BitVec.ofNat 32 maxEntries) ++ encSegs segs)
    journalLoad version (some old) = segs ∧
    (journalLoad version (some (old ++ (toLe32 (BitVec.ofNat 32 seg)).take k)) = segs ∨
     journalLoad version (some (old ++ (toLe32 (BitVec.ofNat 32 seg)).take k)) = segs ++ [seg]) := by
  intro old
  have h32 : seg < 2 ^ 32 := by omega
  have hparse : ∀ tail : Bytes, journalLoad version (some (old ++ tail)) =
      segs ++ journalEntries (maxEntries - segs.length) tail := by
    intro tail
    simp only [old, journalLoad, toLe32, List.cons_append, List.nil_append, journalParse, 
      le32_enc maxEntries hmax]
    exact journalEntries_enc segs maxEntries tail hs (Nat.le_of_lt hroom)
  refine ⟨?_, ?_⟩
  · have := hparse []
    rw [List.append_nil] at this
    rw [this]
    cases (maxEntries - segs.length) <;> simp [journalEntries]
  · rw [hparse]
    obtain ⟨f, hf⟩ : ∃ f, maxEntries - segs.length = f + 1 := ⟨maxEntries - segs.length - 1, by omega⟩
    rw [hf]
    match k with
    | 0 => left; simp [toLe32, journalEntries]
    | 1 => left; simp [toLe32, journalEntries]
    | 2 => left; simp [toLe32, journalEntries]
    | 3 => left; simp [toLe32, journalEntries]
    | k + 4 =>
      right
      simp only [toLe32, List.take_succ_cons, List.take_nil, journalEntries, le32_enc seg h32, if_pos hseg]
      cases f <;> simp [journalEntries]


/-! ## the driver's / harness's enumeration stays inside the crash relation -/

/-- every `(i, k)` the driver and the harness enumerate is a crash prefix. -/
theorem cutAt_is_cut (t : List (Op N)) (i k : Nat) : Cut t (cutAt t i k) := by
  induction i generalizing t with
  | zero =>
    unfold cutAt
    simp only [List.take_zero, List.drop_zero, List.nil_append]
    split
    · split
      · exact Cut.stop _
      · exact Cut.tear _ _ _ _
    · exact Cut.stop _
  | succ i ih =>
    cases t with
    | nil => exact Cut.stop _
    | cons o t' =>
      have : cutAt (o :: t') (i + 1) k = o :: cutAt t' i k := by
        unfold cutAt; simp
      rw [this]; exact Cut.next o (ih t')

theorem imageOf_sound (v : Variant) (f : File) (h : f.synced ≤ f.data.length) : FileImage f (imageOf v f) := by
  cases v with
  | asis => exact ⟨Nat.le_refl _, rfl⟩
  | trunc =>
    refine ⟨?_, ?_⟩
    · simp [imageOf, List.length_take]; omega
    · simp [imageOf, List.take_take]
  | zeros =>
    refine ⟨?_, ?_⟩
    · simp [imageOf, List.length_take]; omega
    · simp only [imageOf]
      rw [List.take_append_of_le_length (by simp [List.length_take]; omega)]
      simp [List.take_take]

/-- the as-written / dropped / zeros images are crash images (so is every `stale` image the harness
builds: same lengths, other bytes behind the synced prefix). -/
theorem dirImage_sound (v : Variant) (d : Dir N) (h : ∀ n f, d n = some f → f.synced ≤ f.data.length) :
    CrashImage d (dirImage v d) := by
  intro n
  cases hd : d n with
  | none => simp [dirImage, hd]
  | some f => exact ⟨imageOf v f, by simp [dirImage, hd], imageOf_sound v f (h n f hd)⟩

end Cascette.Props.C06
