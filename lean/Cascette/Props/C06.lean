/-
Props/C06 — a crash at any point of a save leaves old or new state (partial by design: the crash
behaviour of the kernel is the assumption written down in Spec/Fs).

Shape of every positive theorem: for EVERY on-disk state `img` the crash relation allows for the
routine's trace (`Crash`: any cut between calls or inside a write; behind a file's synced prefix
arbitrary bytes — prefix, zeros, stale), what the loader looks at is byte-for-byte what it was
before the save or what the completed save leaves. File contents and parsers are parameters, so
"load img = load old ∨ load img = load new" follows for every loader that reads those names.

Loader form (added): `save_index_crash_safe_loaded`, `residency_save_crash_safe_loaded`,
`lru_checkpoint_crash_safe_codec` compose the byte-level theorems with C05's `load_save`, the
residency model's `load ∘ save` and C17's `.lru` `codec_roundtrip` into DESIGN §6's
`load d' = old ∨ load d' = new`.

Restated against DESIGN §6 (the byte-level theorems below): instead of `load d' = ok old ∨ load d' = ok new` with a concrete
parser per artifact, the theorems give equality of the loader-visible BYTES (index, residency,
disk cache) resp. equality of the loader's RESULT for an arbitrary `deserialize` (LRU); that a
completed save parses back to the saved state is C05/C07/C17's round trip.
-/
import Cascette.Proofs.SaveProtocols
import Cascette.Model.SaveLoad
import Cascette.Proofs.LsmDurable
import Cascette.Proofs.Residency
import Cascette.Proofs.LruPtr
namespace Cascette.Props.C06
open Cascette Cascette.Spec.Fs Cascette.Model.SaveProtocols Cascette.Proofs.SaveProtocols
open Cascette.Model.SaveLoad

set_option linter.unusedSectionVars false
variable {N : Type} [DecidableEq N]

/-! ## temp file + fsync + rename -/

/-- `save_index` (IndexManager), for every outcome of its up to three attempts and every crash
point: the index file holds its old bytes or the complete new bytes, and every other durable file
except the temporary one is untouched. -/
theorem save_index_crash_safe (d0 : Dir N) {tmp fin : N} (bs : Bytes) (outcomes : List Attempt)
    (hne : tmp ≠ fin) {img : N → Option Bytes} (hc : Crash (saveIndex tmp fin bs outcomes) d0 img) :
    (Durable d0 fin → img fin = dataOf d0 fin ∨ img fin = some bs) ∧
    (∀ m, m ≠ tmp → m ≠ fin → Durable d0 m → img m = dataOf d0 m) := by
  obtain ⟨p, hcut, hi⟩ := hc
  refine ⟨?_, ?_⟩
  · intro hd
    apply image_old_or_new hi fin bs hd
    rcases saveIndex_states d0 bs outcomes hne hcut fin (fun e => hne e.symm) with h | ⟨_, h⟩
    · exact Or.inl h
    · exact Or.inr h
  · intro m h1 h2 hd
    rcases saveIndex_states d0 bs outcomes hne hcut m h1 with h | ⟨h, _⟩
    · exact image_eq_of_state_eq hi h hd
    · exact absurd h h2

/-- when all three attempts fail, `save_index` returns `Err` and the old file is still there. -/
theorem save_index_failure_keeps_old (d0 : Dir N) {tmp fin : N} (bs : Bytes) (outcomes : List Attempt)
    (hne : tmp ≠ fin) (hf : saveIndexOk 3 outcomes = false) :
    run d0 (saveIndex tmp fin bs outcomes) fin = d0 fin :=
  saveIndex_failed_state d0 bs outcomes hf fin (fun e => hne e.symm)

/-- the plain protocol (`ResidencyDb::save`, `DiskCache::write_file`, one successful
`save_index` attempt). -/
theorem atomic_replace_crash_safe (d0 : Dir N) {tmp fin : N} (bs : Bytes) (hne : tmp ≠ fin)
    {img : N → Option Bytes} (hc : Crash (atomicReplace tmp fin bs) d0 img) :
    (Durable d0 fin → img fin = dataOf d0 fin ∨ img fin = some bs) ∧
    (∀ m, m ≠ tmp → m ≠ fin → Durable d0 m → img m = dataOf d0 m) :=
  save_index_crash_safe d0 bs [] hne hc

/-- the completed protocol leaves exactly the new bytes, synced, and no temporary file. -/
theorem atomic_replace_complete (d0 : Dir N) {tmp fin : N} (bs : Bytes) (hne : tmp ≠ fin) :
    run d0 (atomicReplace tmp fin bs) fin = some ⟨bs, bs.length⟩ ∧
    run d0 (atomicReplace tmp fin bs) tmp = none :=
  ⟨(atomicReplace_run d0 bs hne).1, (atomicReplace_run d0 bs hne).2.1⟩

/-- `save_all`: bucket after bucket, stopping at the first failing bucket. At every crash point
EACH bucket file (and every other durable file that is not a temporary name) holds its old bytes
or the complete new bytes of that bucket. -/
theorem save_all_per_bucket_crash_safe (buckets : List (BucketSave N)) (hne : ∀ b ∈ buckets, b.tmp ≠ b.fin)
    (d0 : Dir N) {img : N → Option Bytes} (hc : Crash (saveAll buckets) d0 img)
    (m : N) (hm : ∀ b ∈ buckets, m ≠ b.tmp) (hd : Durable d0 m) :
    img m = dataOf d0 m ∨ ∃ b ∈ buckets, m = b.fin ∧ img m = some b.bytes := by
  obtain ⟨p, hcut, hi⟩ := hc
  rcases saveAll_states buckets hne d0 hcut m hm with h | ⟨b, hb, h1, h2⟩
  · exact Or.inl (image_eq_of_state_eq hi h hd)
  · right
    refine ⟨b, hb, h1, ?_⟩
    rw [crashImage_durable hi m (durable_of_synced h2)]; simp [dataOf, h2]

/-- `ResidencyDb::save` (nothing at all when the database is not dirty). -/
theorem residency_save_crash_safe (d0 : Dir N) (dirty : Bool) {tmp fin : N} (bs : Bytes) (hne : tmp ≠ fin)
    (hd : Durable d0 fin) {img : N → Option Bytes} (hc : Crash (residencySave dirty tmp fin bs) d0 img) :
    img fin = dataOf d0 fin ∨ img fin = some bs := by
  cases dirty with
  | true => exact (atomic_replace_crash_safe d0 bs hne hc).1 hd
  | false =>
    obtain ⟨p, hcut, hi⟩ := hc
    have hp : p = [] := cut_nil (by simpa [residencySave] using hcut)
    subst hp
    exact Or.inl (image_eq_of_state_eq hi rfl hd)

/-- `DiskCache::write_file` + cold `get`: for every key whose entry file is not this save's
temporary file, a fresh instance returns the old value (or miss) or the new value; keys other than
the written one are unaffected. -/
theorem disk_cache_write_crash_safe (d0 : Dir N) {tmp fin : N} (bs : Bytes) (hne : tmp ≠ fin)
    {img : N → Option Bytes} (hc : Crash (diskCacheWrite tmp fin bs) d0 img)
    (path : N) (hp : path ≠ tmp) (hd : Durable d0 path) :
    diskCacheGet img path = diskCacheGet (dataOf d0) path ∨ (path = fin ∧ diskCacheGet img path = some bs) := by
  unfold diskCacheGet
  by_cases hpf : path = fin
  · subst hpf
    rcases (atomic_replace_crash_safe d0 bs hne hc).1 hd with h | h
    · exact Or.inl h
    · exact Or.inr ⟨rfl, h⟩
  · exact Or.inl ((atomic_replace_crash_safe d0 bs hne hc).2 path hp hpf hd)

/-- "everything written so far reached the disk" is always one of the possible crash images. -/
theorem dirImage_asis_sound (d : Dir N) : CrashImage d (dirImage .asis d) := by
  intro n
  cases hd : d n with
  | none => simp [dirImage, hd]
  | some f => exact ⟨f.data, by simp [dirImage, hd, imageOf], Nat.le_refl _, rfl⟩

def dcNoFile : Dir Nat := fun _ => none

/-! ## the fsync is necessary at EVERY size (the class "the save protocol differs by size class") -/

/-- what `atomicReplace` degenerates to when a size class leaves the fsync out ("large values are
synced later by a background task"): temp file, write, rename. Not code of the pinned tree — the
run checks at the boundaries of every size constant of the source that the real routines never
produce this trace. -/
def atomicReplaceNoSync (tmp fin : N) (bs : Bytes) : List (Op N) :=
  [.create tmp, .write tmp bs, .rename tmp fin]

/-- the fsync before the rename cannot be left out for ANY content length: for every `bs`, every
old directory and every pair of distinct names, the protocol without it has a crash image in which
the final name exists and is EMPTY (the rename is on disk, the data is not). For a non-empty `bs`
over an old value that is absent or non-empty this is neither the old nor the new state. -/
theorem atomic_replace_fsync_necessary (d0 : Dir N) {tmp fin : N} (bs : Bytes) (hne : tmp ≠ fin) :
    ∃ img, Crash (atomicReplaceNoSync tmp fin bs) d0 img ∧ img fin = some [] ∧
      (bs ≠ [] → img fin ≠ some bs) ∧ (dataOf d0 fin ≠ some [] → img fin ≠ dataOf d0 fin) := by
  let t : List (Op N) := atomicReplaceNoSync tmp fin bs
  refine ⟨fun n => if n = fin then some [] else dirImage .asis (run d0 t) n, ⟨t, ?_, ?_⟩, by simp, ?_, ?_⟩
  · exact Cut.next _ (Cut.next _ (Cut.next _ (Cut.stop [])))
  · intro n
    by_cases h : n = fin
    · subst h
      have hr : run d0 t n = some ⟨[] ++ bs, 0⟩ := by
        simp [t, atomicReplaceNoSync, run, step, upd, hne, Ne.symm hne]
      rw [hr]
      exact ⟨[], by simp, by simp [FileImage]⟩
    · have := dirImage_asis_sound (run d0 t) n
      simpa [h] using this
  · intro hb h
    simp at h
    exact hb h
  · intro ho h
    simp at h
    exact ho h.symm

/-- `DiskCache::write_file` with the fsync left out for some size class: for every non-empty value
of that class a cold `get` after a crash can return a value (the empty one) that is neither the old
value / miss nor the new value. -/
theorem disk_cache_write_fsync_necessary (d0 : Dir N) {tmp fin : N} (bs : Bytes) (hne : tmp ≠ fin)
    (hb : bs ≠ []) (hold : diskCacheGet (dataOf d0) fin ≠ some []) :
    ∃ img, Crash (atomicReplaceNoSync tmp fin bs) d0 img ∧
      diskCacheGet img fin ≠ diskCacheGet (dataOf d0) fin ∧ diskCacheGet img fin ≠ some bs := by
  obtain ⟨img, hc, _, h1, h2⟩ := atomic_replace_fsync_necessary d0 bs hne
  exact ⟨img, hc, h2 hold, h1 hb⟩

/-- the hypotheses are satisfiable: a miss before the save, a one-byte value. -/
example : ([7] : Bytes) ≠ [] ∧ diskCacheGet (dataOf dcNoFile) 0 ≠ some [] := by decide

/-! ## LRU checkpoint -/

/-- `checkpoint_to_disk` as repaired (commit 1b2b74f) + `run_cycle`'s load (highest generation,
MD5-checked `deserialize` — any function —, no fallback): at EVERY crash point the loader returns
exactly what it returned before the save or what it returns after the complete save; in particular
it never returns `err` unless it did so before or does so after. No assumption relates `gen`,
`prev` and the generations already present. -/
theorem lru_checkpoint_crash_safe {S : Type} (genName tmpName : Nat → N) (deser : Bytes → Option S)
    (hinj : ∀ a b, genName a = genName b → a = b) (hdis : ∀ a b, tmpName a ≠ genName b)
    (gens : List Nat) (gen prev : Nat) (bs : Bytes) (d0 : Dir N)
    (hgen : gen ∈ gens) (hdur : ∀ g ∈ gens, Durable d0 (genName g)) {img : N → Option Bytes}
    (hc : Crash (lruCheckpoint genName tmpName gen prev bs) d0 img) :
    lruLoad genName deser gens img = lruLoad genName deser gens (dataOf d0) ∨
    lruLoad genName deser gens img =
      lruLoad genName deser gens (dataOf (run d0 (lruCheckpoint genName tmpName gen prev bs))) :=
  lru_checkpoint_crash_safe' genName tmpName deser hinj hdis gens gen prev bs d0 hgen hdur hc

/-- the completed checkpoint is what the loader returns next, provided no higher generation is on
disk (after `run_cycle` + `bump_generation` that is the case). -/
theorem lru_checkpoint_complete {S : Type} (genName tmpName : Nat → N) (deser : Bytes → Option S)
    (hinj : ∀ a b, genName a = genName b → a = b) (hdis : ∀ a b, tmpName a ≠ genName b)
    (gens : List Nat) (gen prev : Nat) (bs : Bytes) (d0 : Dir N) (hgen : gen ∈ gens)
    (hmax : ∀ g ∈ gens, (d0 (genName g)).isSome → g ≤ gen) :
    lruLoad genName deser gens (dataOf (run d0 (lruCheckpoint genName tmpName gen prev bs))) =
      (match deser bs with
       | some s => .loaded gen s
       | none => .err) := by
  have hTF : tmpName gen ≠ genName gen := hdis gen gen
  obtain ⟨hF, _, hO⟩ := atomicReplace_run d0 bs hTF
  have hfinF : run d0 (lruCheckpoint genName tmpName gen prev bs) (genName gen) = some ⟨bs, bs.length⟩ := by
    unfold lruCheckpoint lruDeletePrev
    rw [run_append]
    by_cases hg : prev ≠ 0 ∧ prev ≠ gen
    · rw [if_pos hg]
      have : genName gen ≠ genName prev := fun e => hg.2 (hinj _ _ e).symm
      simp only [run, List.foldl_cons, List.foldl_nil, step]
      rw [upd_other _ _ this]; exact hF
    · rw [if_neg hg]; exact hF
  have hfinO : ∀ g ∈ gens, g ≠ gen →
      (run d0 (lruCheckpoint genName tmpName gen prev bs) (genName g)).isSome → (d0 (genName g)).isSome := by
    intro g _ hge
    have h1 : genName g ≠ genName gen := fun e => hge (hinj _ _ e)
    have h2 : genName g ≠ tmpName gen := fun e => hdis gen g e.symm
    unfold lruCheckpoint lruDeletePrev
    rw [run_append]
    by_cases hg : prev ≠ 0 ∧ prev ≠ gen
    · rw [if_pos hg]
      by_cases hgp : genName g = genName prev
      · simp [run, step, hgp]
      · simp only [run, List.foldl_cons, List.foldl_nil, step]
        rw [upd_other _ _ hgp]
        have := hO _ h2 h1
        simp only [run] at this
        rw [this]; exact id
    · rw [if_neg hg]
      simp only [run_nil]
      rw [hO _ h2 h1]; exact id
  have hl : lruLatest genName gens (dataOf (run d0 (lruCheckpoint genName tmpName gen prev bs))) = some gen := by
    apply maxGen_of_max
    · exact List.mem_filter.mpr ⟨hgen, by simp [dataOf, hfinF]⟩
    · intro x hx
      obtain ⟨hxg, hxp⟩ := List.mem_filter.mp hx
      by_cases hxe : x = gen
      · omega
      · apply hmax x hxg
        apply hfinO x hxg hxe
        simpa [dataOf] using hxp
  rw [lruLoad_of_latest genName deser gens hl]
  simp only [dataOf, hfinF, Option.map_some]
  cases deser bs <;> rfl

/-- the full-strength statement is FALSE of the pinned `checkpoint_to_disk` (in-place
`tokio::fs::write`, no sync): generation 1 valid on disk, checkpoint of generation 2 torn after one
byte — the older valid generation is still there, the loader takes generation 2 and fails.
(Replayed on the real code: corpus/C06/lru-torn-newest-generation.case; repaired in /repo.) -/
def lruWitnessDir : Dir Nat := fun n => if n = 1 then some ⟨[1], 1⟩ else none
def lruWitnessDeser (b : Bytes) : Option Nat := if b = [1] then some 1 else if b = [2, 2] then some 2 else none
def lruWitnessCut : List (Op Nat) := [.create 2, .write 2 [2]]

theorem lru_checkpoint_pinned_counter :
    ∃ img, Crash (lruCheckpointPinned id 2 1 [2, 2]) lruWitnessDir img ∧
      img 1 = some [1] ∧
      lruLoad id lruWitnessDeser [1, 2] (dataOf lruWitnessDir) = .loaded 1 1 ∧
      lruLoad id lruWitnessDeser [1, 2] (dataOf (run lruWitnessDir (lruCheckpointPinned id 2 1 [2, 2]))) = .loaded 2 2 ∧
      lruLoad id lruWitnessDeser [1, 2] img = .err := by
  refine ⟨dirImage .asis (run lruWitnessDir lruWitnessCut), ⟨lruWitnessCut, ?_, ?_⟩, ?_, ?_, ?_, ?_⟩
  · exact Cut.next _ (Cut.tear 2 [2, 2] 1 _)
  · exact dirImage_asis_sound _
  · decide
  · decide
  · decide
  · decide

/-- the hypotheses of `lru_checkpoint_crash_safe` are met by the same scenario under the repaired
protocol (names: generation g ↦ 2g, temporary of g ↦ 2g+1), and there the torn state is harmless. -/
example : lruLoad (fun g => 2 * g) lruWitnessDeser [1, 2]
      (dirImage .asis (run (fun n => if n = 2 then some ⟨[1], 1⟩ else none)
        (cutAt (lruCheckpoint (fun g => 2 * g) (fun g => 2 * g + 1) 2 1 [2, 2]) 1 1))) = .loaded 1 1 := by decide

/-! ## leftover temporary files are not loader-visible names -/

theorem hexPad_length (w n : Nat) : (hexPad w n).length = w := by simp [hexPad]

/-- `parse_index_filename` rejects the temporary name of every bucket/version: `load_all` skips it. -/
theorem idx_tmp_not_index_name (bucket version : Nat) : isIdxName (idxTmp bucket version) = false := by
  have hl : (hexPad 2 bucket ++ hexPad 8 version).length = 10 := by simp [hexPad_length]
  have hd : (idxTmp bucket version).drop 10 = dotTmp := by
    unfold idxTmp; exact List.drop_left' hl
  unfold isIdxName
  rw [hd]
  simp [dotTmp, dotIdx, lowerAscii]

/-- `filename_to_generation` rejects the temporary name of every generation:
`find_latest_lru_file` and `scan_directory` skip it. -/
theorem lru_tmp_not_generation_name (gen : Nat) : isLruName (lruTmp gen) = false := by
  have hd : (lruTmp gen).drop 16 = dotTmp := by
    unfold lruTmp; exact List.drop_left' (hexPad_length 16 gen)
  unfold isLruName
  rw [hd]
  simp [dotTmp, dotLru]

/-- test of the name functions against the examples of the Rust unit tests. -/
example : String.ofList (lruName 1) = "0000000000000001.lru" ∧ String.ofList (idxName 0x0a 1) = "0a00000001.idx"
    ∧ String.ofList (withExtTmp "key_state_v8".toList) = "key_state_v8.tmp"
    ∧ String.ofList (withExtTmp "a.b.c".toList) = "a.b.tmp"
    ∧ String.ofList (withExtTmp ".hidden".toList) = ".hidden.tmp"
    ∧ withExtTmp "blob.tmp".toList = "blob.tmp".toList
    ∧ isIdxName (idxName 0x0a 1) = true ∧ isLruName (lruName 77) = true := by decide

/-! ## DiskCache: the two key shapes where the temporary name is an entry name (known findings) -/

def dcWitnessDirA : Dir Nat := fun n => if n = 0 then some ⟨[1, 1], 2⟩ else none
def dcWitnessDirB : Dir Nat := fun _ => none

/-- key whose file name ends in ".tmp": `with_extension("tmp")` is the identity, the entry is
rewritten in place. Old value [1,1], new value [2,2,2], crash after one byte: a cold `get` returns
[2] — a truncated object that is accepted. -/
theorem disk_cache_tmp_suffix_counter :
    withExtTmp "blob.tmp".toList = "blob.tmp".toList ∧
    ∃ img, Crash (diskCacheWrite 0 0 [2, 2, 2]) dcWitnessDirA img ∧
      diskCacheGet (dataOf dcWitnessDirA) 0 = some [1, 1] ∧ diskCacheGet img 0 = some [2] := by
  refine ⟨by decide, dirImage .asis (run dcWitnessDirA [.create 0, .write 0 [2]]),
    ⟨_, Cut.next _ (Cut.tear 0 [2, 2, 2] 1 _), ?_⟩, by decide, by decide⟩
  exact dirImage_asis_sound (run dcWitnessDirA [.create 0, .write 0 [2]])

/-- key "x" (entry 0) next to key "x.tmp" (entry 1 = the temporary file of "x"): a crash during
`put("x")` leaves a temporary file that `get("x.tmp")` serves although that key never had a value
and has none after the completed save. -/
theorem disk_cache_leftover_tmp_counter :
    withExtTmp "x".toList = "x.tmp".toList ∧
    ∃ img, Crash (diskCacheWrite 1 0 [7, 7]) dcWitnessDirB img ∧
      diskCacheGet img 1 = some [7] ∧
      diskCacheGet (dataOf dcWitnessDirB) 1 = none ∧
      diskCacheGet (dataOf (run dcWitnessDirB (diskCacheWrite 1 0 [7, 7]))) 1 = none := by
  refine ⟨by decide, dirImage .asis (run dcWitnessDirB [.create 1, .write 1 [7]]),
    ⟨_, Cut.next _ (Cut.tear 1 [7, 7] 1 _), ?_⟩, by decide, by decide, by decide⟩
  exact dirImage_asis_sound (run dcWitnessDirB [.create 1, .write 1 [7]])

/-! ## compaction journal (ExtractorCompactorBackup): append-only, never synced — known findings -/

/-- a header torn after 3 of its 5 bytes (version 1, max 1023 = ff 03 00 00) by an earlier crash. -/
def jrnTornHeaderDir : Dir Nat := fun n => if n = 0 then some ⟨[1, 0xff, 3], 3⟩ else none

/-- `record_segment(731)` on it writes NO header (the file is not empty), returns Ok, and `load`
still ignores the file: the recorded segment is lost (corpus/C06/journal-torn-header.case). -/
theorem journal_torn_header_counter :
    journalRecord (0 : Nat) (journalIsEmpty jrnTornHeaderDir 0) 1 1023 731 = [.openAppend 0, .write 0 [0xdb, 2, 0, 0]] ∧
    journalLoad 1 (dataOf (run jrnTornHeaderDir (journalRecord 0 (journalIsEmpty jrnTornHeaderDir 0) 1 1023 731)) 0) = [] := by
  decide

def jrnTornEntryDir : Dir Nat := fun n => if n = 0 then some ⟨[1, 0xff, 3, 0, 0, 5, 0, 0, 0, 10, 0], 11⟩ else none

/-- header + [5] + two bytes of a torn record of 10: `record_segment(200)` appends misaligned and
`load` returns [5] instead of [5, 200] (corpus/C06/journal-torn-entry.case). -/
theorem journal_torn_entry_counter :
    journalLoad 1 (dataOf jrnTornEntryDir 0) = [5] ∧
    journalLoad 1 (dataOf (run jrnTornEntryDir (journalRecord 0 (journalIsEmpty jrnTornEntryDir 0) 1 1023 200)) 0) = [5] := by
  decide

def jrnDir : Dir Nat := fun n => if n = 0 then some ⟨[1, 0xff, 3, 0, 0, 0x89, 3, 0, 0], 9⟩ else none
def jrnZerosImg : Nat → Option Bytes := fun n => if n = 0 then some [1, 0xff, 3, 0, 0, 0x89, 3, 0, 0, 0, 0, 0, 0] else none

/-- no sync: the appended record of 65535 may come back as zeros = segment 0, which was never
recorded; neither [905] nor [905, 65535] (corpus/C06/journal-append-not-synced.case). -/
theorem journal_unsynced_counter :
    Crash (journalRecord (0 : Nat) (journalIsEmpty jrnDir 0) 1 1023 65535) jrnDir jrnZerosImg ∧
    journalLoad 1 (dataOf jrnDir 0) = [905] ∧
    journalLoad 1 (dataOf (run jrnDir (journalRecord 0 (journalIsEmpty jrnDir 0) 1 1023 65535)) 0) = [905, 65535] ∧
    journalLoad 1 (jrnZerosImg 0) = [905, 0] := by
  refine ⟨⟨_, cut_full _, ?_⟩, by decide, by decide, by decide⟩
  intro n
  by_cases hn : n = 0
  · subst hn
    have : run jrnDir (journalRecord (0 : Nat) (journalIsEmpty jrnDir 0) 1 1023 65535) 0 =
        some ⟨[1, 0xff, 3, 0, 0, 0x89, 3, 0, 0, 0xff, 0xff, 0, 0], 9⟩ := by decide
    rw [this]
    exact ⟨_, rfl, by decide, by decide⟩
  · have hfr : run jrnDir (journalRecord (0 : Nat) (journalIsEmpty jrnDir 0) 1 1023 65535) n = jrnDir n := by
      apply run_frame
      intro o ho
      have : journalRecord (0 : Nat) (journalIsEmpty jrnDir 0) 1 1023 65535 = [.openAppend 0, .write 0 [0xff, 0xff, 0, 0]] := by decide
      rw [this] at ho
      simp only [List.mem_cons, List.not_mem_nil, or_false] at ho
      rcases ho with rfl | rfl <;> simpa [touches] using hn
    rw [hfr]
    simp [jrnDir, jrnZerosImg, hn]


/-- the entries of a well-formed backup file. -/
def encSegs : List Nat → Bytes
  | [] => []
  | s :: rest => toLe32 (BitVec.ofNat 32 s) ++ encSegs rest

theorem le32_enc (s : Nat) (h : s < 2 ^ 32) :
    (le32 (byteOf (BitVec.ofNat 32 s) 0) (byteOf (BitVec.ofNat 32 s) 1) (byteOf (BitVec.ofNat 32 s) 2)
      (byteOf (BitVec.ofNat 32 s) 3)).toNat = s := by
  rw [le32_toLe32]; simp [BitVec.toNat_ofNat]; omega

theorem journalEntries_enc (segs : List Nat) : ∀ (fuel : Nat) (tail : Bytes), (∀ s ∈ segs, s < 65536) →
    segs.length ≤ fuel →
    journalEntries fuel (encSegs segs ++ tail) = segs ++ journalEntries (fuel - segs.length) tail := by
  induction segs with
  | nil => intro fuel tail _ _; simp [encSegs]
  | cons s rest ih =>
    intro fuel tail hs hl
    cases fuel with
    | zero => simp at hl
    | succ f =>
      have hs' : s < 65536 := hs s List.mem_cons_self
      have h32 : s < 2 ^ 32 := by omega
      simp only [encSegs, toLe32, List.cons_append, List.nil_append, journalEntries, le32_enc s h32, if_pos hs']
      rw [ih f tail (fun x hx => hs x (List.mem_cons_of_mem _ hx)) (by simpa using hl)]
      simp

/-- PARTIAL (the full statement — every crash image of `record_segment` loads as old or new — is
false: `journal_unsynced_counter`, `journal_torn_header_counter`, `journal_torn_entry_counter`).
Proved: on a WELL-FORMED journal (complete header, whole entries, all ≤ u16::MAX, room left), when
the only effect of the crash is that the appended entry is TORN at any byte `k` (no zeros, no stale
bytes), `load` returns the old segment list or the old list plus the new segment. -/
theorem journal_record_torn_write_safe_partial (version : Byte) (maxEntries : Nat) (hmax : maxEntries < 2 ^ 32)
    (segs : List Nat) (seg : Nat) (hs : ∀ s ∈ segs, s < 65536) (hseg : seg < 65536)
    (hroom : segs.length < maxEntries) (k : Nat) :
    let old : Bytes := version :: (toLe32 (BitVec.ofNat 32 maxEntries) ++ encSegs segs)
    journalLoad version (some old) = segs ∧
    (journalLoad version (some (old ++ (toLe32 (BitVec.ofNat 32 seg)).take k)) = segs ∨
     journalLoad version (some (old ++ (toLe32 (BitVec.ofNat 32 seg)).take k)) = segs ++ [seg]) := by
  intro old
  have h32 : seg < 2 ^ 32 := by omega
  have hparse : ∀ tail : Bytes, journalLoad version (some (old ++ tail)) =
      segs ++ journalEntries (maxEntries - segs.length) tail := by
    intro tail
    simp only [old, journalLoad, toLe32, List.cons_append, List.nil_append, journalParse, 
      le32_enc maxEntries hmax]
    exact journalEntries_enc segs maxEntries tail hs (Nat.le_of_lt hroom)
  refine ⟨?_, ?_⟩
  · have := hparse []
    rw [List.append_nil] at this
    rw [this]
    cases (maxEntries - segs.length) <;> simp [journalEntries]
  · rw [hparse]
    obtain ⟨f, hf⟩ : ∃ f, maxEntries - segs.length = f + 1 := ⟨maxEntries - segs.length - 1, by omega⟩
    rw [hf]
    match k with
    | 0 => left; simp [toLe32, journalEntries]
    | 1 => left; simp [toLe32, journalEntries]
    | 2 => left; simp [toLe32, journalEntries]
    | 3 => left; simp [toLe32, journalEntries]
    | k + 4 =>
      right
      simp only [toLe32, List.take_succ_cons, List.take_nil, journalEntries, le32_enc seg h32, if_pos hseg]
      cases f <;> simp [journalEntries]


/-! ## compaction journal: which crash states `load` accepts; the first record; crash-relation form -/

/-- a well-formed backup file: version, max entries, whole records. -/
def jrnFile (version : Byte) (maxEntries : Nat) (segs : List Nat) : Bytes :=
  version :: (toLe32 (BitVec.ofNat 32 maxEntries) ++ encSegs segs)

/-- what `load` makes of the bytes behind the last whole record: nothing unless there are four. -/
def decodeTail : Bytes → List Nat
  | [a, b, c, d] => if (le32 a b c d).toNat < 65536 then [(le32 a b c d).toNat] else []
  | _ => []

/-- `load` accepts a file exactly when it has the 5 header bytes and the version byte matches —
whatever else it holds (no length, alignment or checksum test). -/
theorem journal_load_accepts_iff (version : Byte) (b : Bytes) :
    (journalParse version b).isSome = true ↔ 5 ≤ b.length ∧ b.head? = some version := by
  match b with
  | [] => simp [journalParse]
  | [_] => simp [journalParse]
  | [_, _] => simp [journalParse]
  | [_, _, _] => simp [journalParse]
  | [_, _, _, _] => simp [journalParse]
  | v :: _ :: _ :: _ :: _ :: rest =>
    simp only [journalParse, List.length_cons, List.head?_cons, Option.some.injEq]
    by_cases h : v = version
    · simp [h]
    · simp [h]

/-- what an accepted file loads as on top of a well-formed one: the old segments, plus whatever
the bytes behind them decode to (any bytes: torn, zeros, stale). -/
theorem journal_load_tail (version : Byte) (maxEntries : Nat) (hmax : maxEntries < 2 ^ 32)
    (segs : List Nat) (hs : ∀ s ∈ segs, s < 65536) (hroom : segs.length < maxEntries)
    (tail : Bytes) (ht : tail.length ≤ 4) :
    journalLoad version (some (jrnFile version maxEntries segs ++ tail)) = segs ++ decodeTail tail := by
  have hparse : journalLoad version (some (jrnFile version maxEntries segs ++ tail)) =
      segs ++ journalEntries (maxEntries - segs.length) tail := by
    simp only [jrnFile, journalLoad, toLe32, List.cons_append, List.nil_append, journalParse,
      le32_enc maxEntries hmax]
    exact journalEntries_enc segs maxEntries tail hs (Nat.le_of_lt hroom)
  rw [hparse]
  obtain ⟨f, hf⟩ : ∃ f, maxEntries - segs.length = f + 1 := ⟨maxEntries - segs.length - 1, by omega⟩
  rw [hf]
  match tail, ht with
  | [], _ => simp [journalEntries, decodeTail]
  | [_], _ => simp [journalEntries, decodeTail]
  | [_, _], _ => simp [journalEntries, decodeTail]
  | [_, _, _], _ => simp [journalEntries, decodeTail]
  | [a, b, c, d], _ =>
    simp only [journalEntries, decodeTail]
    cases f <;> simp [journalEntries]
  | _ :: _ :: _ :: _ :: _ :: _, h => simp at h

theorem journalEntries_short (n : Nat) (l : Bytes) (h : l.length < 4) : journalEntries n l = [] := by
  cases n with
  | zero => rfl
  | succ n =>
    match l, h with
    | [], _ => rfl
    | [_], _ => rfl
    | [_, _], _ => rfl
    | [_, _, _], _ => rfl
    | _ :: _ :: _ :: _ :: _, h => simp at h; omega

/-- the very first record (header + entry, 9 bytes in three writes) cut anywhere. -/
theorem journal_first_record_prefix (version : Byte) (maxEntries : Nat) (hmax : maxEntries < 2 ^ 32)
    (hroom : 0 < maxEntries) (seg : Nat) (hseg : seg < 65536) (k : Nat) :
    journalLoad version (some ((jrnFile version maxEntries [seg]).take k)) = [] ∨
    journalLoad version (some ((jrnFile version maxEntries [seg]).take k)) = [seg] := by
  have h32 : seg < 2 ^ 32 := by omega
  obtain ⟨f, hf⟩ : ∃ f, maxEntries = f + 1 := ⟨maxEntries - 1, by omega⟩
  match k with
  | 0 => left; simp [jrnFile, journalLoad, journalParse]
  | 1 => left; simp [jrnFile, toLe32, journalLoad, journalParse]
  | 2 => left; simp [jrnFile, toLe32, journalLoad, journalParse]
  | 3 => left; simp [jrnFile, toLe32, journalLoad, journalParse]
  | 4 => left; simp [jrnFile, toLe32, journalLoad, journalParse]
  | 5 => left; simp [jrnFile, toLe32, encSegs, journalLoad, journalParse, journalEntries_short]
  | 6 => left; simp [jrnFile, toLe32, encSegs, journalLoad, journalParse, journalEntries_short]
  | 7 => left; simp [jrnFile, toLe32, encSegs, journalLoad, journalParse, journalEntries_short]
  | 8 => left; simp [jrnFile, toLe32, encSegs, journalLoad, journalParse, journalEntries_short]
  | k + 9 =>
    right
    simp only [jrnFile, toLe32, encSegs, List.cons_append, List.nil_append, List.take_succ_cons, List.take_nil,
      journalLoad, journalParse, if_true, le32_enc maxEntries hmax]
    rw [hf]
    simp only [journalEntries, le32_enc seg h32, if_pos hseg]
    cases f <;> simp [journalEntries]


/-- the state of the backup file before `record_segment`: absent or empty (then nothing is
recorded) or a well-formed file holding `segs`. -/
def JournalOld (d0 : Dir N) (name : N) (version : Byte) (maxEntries : Nat) (segs : List Nat) : Prop :=
  (d0 name = none ∧ segs = []) ∨ (∃ sy, d0 name = some ⟨[], sy⟩ ∧ segs = []) ∨
  (∃ sy, d0 name = some ⟨jrnFile version maxEntries segs, sy⟩)

theorem journalRecord_writes (name : N) (e : Bool) (version : Byte) (maxEntries seg : Nat) :
    journalRecord name e version maxEntries seg = Op.openAppend name ::
      ((if e then [[version], toLe32 (BitVec.ofNat 32 maxEntries)] else []) ++ [toLe32 (BitVec.ofNat 32 seg)]).map (Op.write name) := by
  cases e <;> simp [journalRecord, journalHeader]

/-- PARTIAL, crash-relation form, covering the FIRST record on an absent or empty file (header +
entry in three writes) as well as an append to a well-formed file: at EVERY cut of
`record_segment` (between the calls, inside the version byte, the max-entries word or the entry),
when everything written before the cut is on disk as written (torn only — no zeros, no stale
bytes; those are `journal_unsynced_counter`), `load` returns the old list or the old list plus
the new segment. (What goes wrong after a torn first record is the NEXT `record_segment`:
`journal_torn_header_counter`, `journal_torn_entry_counter`.) -/
theorem journal_record_torn_crash_safe_partial (name : N) (version : Byte) (maxEntries : Nat)
    (hmax : maxEntries < 2 ^ 32) (segs : List Nat) (seg : Nat) (hs : ∀ s ∈ segs, s < 65536)
    (hseg : seg < 65536) (hroom : segs.length < maxEntries) (d0 : Dir N)
    (hold : JournalOld d0 name version maxEntries segs) {p : List (Op N)}
    (hcut : Cut (journalRecord name (journalIsEmpty d0 name) version maxEntries seg) p) :
    journalLoad version (dataOf d0 name) = segs ∧
    (journalLoad version (dirImage .asis (run d0 p) name) = segs ∨
     journalLoad version (dirImage .asis (run d0 p) name) = segs ++ [seg]) := by
  have hold0 : journalLoad version (dataOf d0 name) = segs := by
    rcases hold with ⟨h, rfl⟩ | ⟨sy, h, rfl⟩ | ⟨sy, h⟩
    · simp [dataOf, h, journalLoad]
    · simp [dataOf, h, journalLoad, journalParse]
    · simp only [dataOf, h, Option.map_some]
      have := journal_load_tail version maxEntries hmax segs hs hroom [] (by simp)
      simpa [decodeTail] using this
  refine ⟨hold0, ?_⟩
  have hdi : ∀ d : Dir N, dirImage .asis d name = dataOf d name := by
    intro d; unfold dirImage dataOf; cases d name <;> rfl
  rw [hdi]
  rw [journalRecord_writes] at hcut
  cases hcut with
  | stop _ => left; rw [run_nil]; exact hold0
  | next _ hc' =>
    obtain ⟨k, hk⟩ := writes_cut name _ hc'
    rw [run_cons]
    unfold dataOf
    rcases hold with ⟨h, rfl⟩ | ⟨sy, h, rfl⟩ | ⟨sy, h⟩
    · have he : journalIsEmpty d0 name = true := by simp [journalIsEmpty, h]
      have h1 : step d0 (.openAppend name) name = some ⟨[], 0⟩ := by simp [step, h]
      rw [hk _ _ h1]
      simp only [Option.map_some, he, if_true, List.nil_append]
      have := journal_first_record_prefix version maxEntries hmax hroom seg hseg k
      simpa [jrnFile, encSegs] using this
    · have he : journalIsEmpty d0 name = true := by simp [journalIsEmpty, h]
      have h1 : step d0 (.openAppend name) name = some ⟨[], sy⟩ := by simp [step, h]
      rw [hk _ _ h1]
      simp only [Option.map_some, he, if_true, List.nil_append]
      have := journal_first_record_prefix version maxEntries hmax hroom seg hseg k
      simpa [jrnFile, encSegs] using this
    · have he : journalIsEmpty d0 name = false := by simp [journalIsEmpty, h, jrnFile]
      have h1 : step d0 (.openAppend name) name = some ⟨jrnFile version maxEntries segs, sy⟩ := by simp [step, h]
      rw [hk _ _ h1]
      simp only [Option.map_some, he, Bool.false_eq_true, if_false, List.nil_append,
        List.flatten_cons, List.flatten_nil, List.append_nil]
      exact (journal_record_torn_write_safe_partial version maxEntries hmax segs seg hs hseg hroom k).2

/-- EXACTLY which crash states of an append `load` accepts, and as what. Old file well formed and
durable; `img` ANY state the crash relation allows (torn, zeros, stale). Then the file is the old
content plus at most four arbitrary bytes, `load` ignores fewer than four, and reads four as a
segment index when the value fits `u16` — whether or not it is the recorded one. So the state is
"old or new" exactly when those four bytes decode to nothing or to `seg`. -/
theorem journal_record_crash_states_exact (name : N) (version : Byte) (maxEntries : Nat)
    (hmax : maxEntries < 2 ^ 32) (segs : List Nat) (seg : Nat) (hs : ∀ s ∈ segs, s < 65536)
    (hroom : segs.length < maxEntries) (d0 : Dir N)
    (h0 : d0 name = some ⟨jrnFile version maxEntries segs, (jrnFile version maxEntries segs).length⟩)
    {img : N → Option Bytes}
    (hc : Crash (journalRecord name (journalIsEmpty d0 name) version maxEntries seg) d0 img) :
    ∃ tail : Bytes, tail.length ≤ 4 ∧ img name = some (jrnFile version maxEntries segs ++ tail) ∧
      journalLoad version (img name) = segs ++ decodeTail tail ∧
      ((journalLoad version (img name) = segs ∨ journalLoad version (img name) = segs ++ [seg]) ↔
        (decodeTail tail = [] ∨ decodeTail tail = [seg])) := by
  obtain ⟨p, hcut, hi⟩ := hc
  have he : journalIsEmpty d0 name = false := by simp [journalIsEmpty, h0, jrnFile]
  rw [he, journalRecord_writes] at hcut
  -- the volatile state at the cut: old content plus a prefix of the entry, nothing more synced
  have hst : ∃ k, run d0 p name = some ⟨jrnFile version maxEntries segs ++ (toLe32 (BitVec.ofNat 32 seg)).take k,
      (jrnFile version maxEntries segs).length⟩ := by
    cases hcut with
    | stop _ => exact ⟨0, by simp [run_nil, h0]⟩
    | next _ hc' =>
      obtain ⟨k, hk⟩ := writes_cut name _ hc'
      have h1 : step d0 (.openAppend name) name = some ⟨jrnFile version maxEntries segs, (jrnFile version maxEntries segs).length⟩ := by
        simp [step, h0]
      exact ⟨k, by rw [run_cons, hk _ _ h1]; simp⟩
  obtain ⟨k, hk⟩ := hst
  have := hi name
  rw [hk] at this
  obtain ⟨b, hb, hlen, htake⟩ := this
  simp only at hlen htake
  rw [List.take_append_of_le_length (Nat.le_refl _), List.take_length] at htake
  have hsplit : b = jrnFile version maxEntries segs ++ b.drop (jrnFile version maxEntries segs).length := by
    have := (List.take_append_drop (jrnFile version maxEntries segs).length b).symm
    rw [htake] at this; exact this
  have htl : (b.drop (jrnFile version maxEntries segs).length).length ≤ 4 := by
    have : ((toLe32 (BitVec.ofNat 32 seg)).take k).length ≤ 4 := by simp [toLe32]; omega
    simp only [List.length_append] at hlen
    simp only [List.length_drop]; omega
  have hb' : img name = some (jrnFile version maxEntries segs ++ b.drop (jrnFile version maxEntries segs).length) := by
    rw [hb]; exact congrArg some hsplit
  refine ⟨b.drop (jrnFile version maxEntries segs).length, htl, hb', ?_⟩
  · 
    have hl := journal_load_tail version maxEntries hmax segs hs hroom _ htl
    rw [hb', hl]
    refine ⟨rfl, ?_⟩
    constructor
    · rintro (h | h)
      · left; simpa using h
      · right; simpa using h
    · rintro (h | h)
      · left; simp [h]
      · right; simp [h]


/-- the hypotheses are met by non-trivial instances: no file yet / the well-formed durable
journal of `journal_unsynced_counter` (version 1, max 1023, segments [905]). -/
example : JournalOld (fun _ : Nat => none) 0 1 1023 [] := Or.inl ⟨rfl, rfl⟩
example : jrnDir 0 = some ⟨jrnFile 1 1023 [905], (jrnFile 1 1023 [905]).length⟩ := by decide
example : JournalOld jrnDir 0 1 1023 [905] := Or.inr (Or.inr ⟨9, by decide⟩)

def jrnNoDir : Dir Nat := fun _ => none
def jrnZeroHeaderImg : Nat → Option Bytes := fun n => if n = 0 then some [0, 0, 0, 0, 0, 0, 0, 0, 0] else none

/-- FOURTH counter-witness (finding `journal-header-not-synced`): the first `record_segment(7)` on
a fresh directory writes header + entry, nothing is synced, the crash leaves the nine bytes as
zeros (allowed by the crash relation). At that instant `load` gives [] = the old state — but the
header is never written again (the file is not empty) and never validated: the NEXT
`record_segment(9)` completes, is even durable, returns Ok, and `load` still ignores the file
(version byte 0): every later recorded segment is lost. (corpus/C06/journal-header-not-synced.case) -/
theorem journal_unsynced_header_counter :
    Crash (journalRecord (0 : Nat) (journalIsEmpty jrnNoDir 0) 1 1023 7) jrnNoDir jrnZeroHeaderImg ∧
    journalLoad 1 (jrnZeroHeaderImg 0) = [] ∧
    journalRecord (0 : Nat) (journalIsEmpty (ofData jrnZeroHeaderImg) 0) 1 1023 9 = [.openAppend 0, .write 0 [9, 0, 0, 0]] ∧
    journalLoad 1 (dataOf (run (ofData jrnZeroHeaderImg)
      (journalRecord 0 (journalIsEmpty (ofData jrnZeroHeaderImg) 0) 1 1023 9)) 0) = [] := by
  refine ⟨⟨_, cut_full _, ?_⟩, by decide, by decide, by decide⟩
  intro n
  by_cases hn : n = 0
  · subst hn
    have : run jrnNoDir (journalRecord (0 : Nat) (journalIsEmpty jrnNoDir 0) 1 1023 7) 0 =
        some ⟨[1, 0xff, 3, 0, 0, 7, 0, 0, 0], 0⟩ := by decide
    rw [this]
    exact ⟨_, rfl, by decide, by decide⟩
  · have hfr : run jrnNoDir (journalRecord (0 : Nat) (journalIsEmpty jrnNoDir 0) 1 1023 7) n = jrnNoDir n := by
      apply run_frame
      intro o ho
      have : journalRecord (0 : Nat) (journalIsEmpty jrnNoDir 0) 1 1023 7 =
          [.openAppend 0, .write 0 [1], .write 0 [0xff, 3, 0, 0], .write 0 [7, 0, 0, 0]] := by decide
      rw [this] at ho
      simp only [List.mem_cons, List.not_mem_nil, or_false] at ho
      rcases ho with rfl | rfl | rfl | rfl <;> simpa [touches] using hn
    rw [hfr]
    simp [jrnNoDir, jrnZeroHeaderImg, hn]

/-! ## the positive theorems in loader form: `load d' = old ∨ load d' = new` with the real parsers -/

/-- **save_index_crash_safe, loader form** (DESIGN §6: `load d' = ok old ∨ load d' = ok new`).
Bucket `bk` (sorted by distinct keys, inside the field limits — C05's `save_load_id` hypotheses) is
saved with every outcome of the three attempts; at EVERY crash point `load_all` makes of the
bucket's file exactly what it made of it before the save, or loads exactly `bk`. The byte layout
`enc`/`dec` of the `.idx` file is a parameter with the round-trip law. -/
theorem save_index_crash_safe_loaded (enc : Model.Lsm.Image → Bytes) (dec : Bytes → Option Model.Lsm.Image)
    (hcodec : ∀ i, dec (enc i) = some i) (bk : Model.Lsm.Bucket)
    (hs : Proofs.Lsm.Sorted bk.sorted) (hw : Proofs.Lsm.WFB bk)
    (d0 : Dir N) {tmp fin : N} (outcomes : List Attempt) (hne : tmp ≠ fin) (hd : Durable d0 fin)
    {img : N → Option Bytes}
    (hc : Crash (saveIndex tmp fin (enc (Model.Lsm.saveB bk)) outcomes) d0 img) :
    idxLoadBucket dec (img fin) = idxLoadBucket dec (dataOf d0 fin) ∨
    idxLoadBucket dec (img fin) = .loaded bk := by
  rcases (save_index_crash_safe d0 _ outcomes hne hc).1 hd with h | h
  · left; rw [h]
  · right; rw [h]; simp only [idxLoadBucket, hcodec, Proofs.Lsm.load_save bk hs hw]

/-- **residency_save_crash_safe, loader form.** At every crash point of `ResidencyDb::save`,
`ResidencyDb::load` returns what it returned before the save or exactly `load (save s)` — the
state C05's `residency_refines_map` is about. Byte layout of the file: parameter with the
round-trip law. -/
theorem residency_save_crash_safe_loaded (enc : (Nat → Model.Residency.Pages) → Bytes)
    (dec : Bytes → Option (Nat → Model.Residency.Pages)) (hcodec : ∀ b, dec (enc b) = some b)
    (s : Model.Residency.State) (d0 : Dir N) {tmp fin : N} (hne : tmp ≠ fin) (hd : Durable d0 fin)
    {img : N → Option Bytes} (hc : Crash (residencySave s.dirty tmp fin (enc s.buckets)) d0 img) :
    resLoad dec (img fin) = resLoad dec (dataOf d0 fin) ∨
    (s.dirty = true ∧ resLoad dec (img fin) = some (Model.Residency.load (Model.Residency.save s))) := by
  rcases residency_save_crash_safe d0 s.dirty _ hne hd hc with h | h
  · left; rw [h]
  · cases hdirty : s.dirty with
    | false =>
      left
      rw [hdirty] at hc
      obtain ⟨p, hcut, hi⟩ := hc
      have hp : p = [] := cut_nil (by simpa [residencySave] using hcut)
      subst hp
      rw [image_eq_of_state_eq hi rfl hd]; rfl
    | true =>
      right
      refine ⟨rfl, ?_⟩
      rw [h]
      simp [resLoad, hcodec, Model.Residency.load, Model.Residency.save, hdirty]

/-- **lru_checkpoint_crash_safe with the real `.lru` codec** (`lru_file::serialize` /
`deserialize`, MD5 any 16-byte function). The manager's header `h` and entry array `es` (fields
inside their on-disk widths) are checkpointed as generation `gen` with no higher generation on
disk; at EVERY crash point a fresh manager's `run_cycle` load step returns what it returned before
the checkpoint, or loads generation `gen` with exactly `h` (hash field filled in) and `es`. -/
theorem lru_checkpoint_crash_safe_codec (genName tmpName : Nat → N) (md5 : Bytes → Bytes)
    (hmd5 : ∀ x, (md5 x).length = 16)
    (hinj : ∀ a b, genName a = genName b → a = b) (hdis : ∀ a b, tmpName a ≠ genName b)
    (gens : List Nat) (gen prev : Nat) (h : Model.LruPtr.Header) (es : List Model.LruPtr.Entry)
    (hv : h.version ≤ 1) (hh : h.head < 2 ^ 32) (ht : h.tail < 2 ^ 32)
    (hes : ∀ e ∈ es, Proofs.LruPtr.Entry.Fits e) (d0 : Dir N)
    (hgen : gen ∈ gens) (hdur : ∀ g ∈ gens, Durable d0 (genName g))
    (hmax : ∀ g ∈ gens, (d0 (genName g)).isSome → g ≤ gen) {img : N → Option Bytes}
    (hc : Crash (lruCheckpoint genName tmpName gen prev (Model.LruPtr.serialize md5 h es)) d0 img) :
    lruLoadFile genName md5 gens img = lruLoadFile genName md5 gens (dataOf d0) ∨
    lruLoadFile genName md5 gens img =
      .loaded gen ({ h with hash := md5 (Model.LruPtr.headerBytes h Model.LruPtr.zeros16 ++ Model.LruPtr.bodyBytes es) }, es) := by
  unfold lruLoadFile
  rcases lru_checkpoint_crash_safe genName tmpName (Model.LruPtr.deserialize md5) hinj hdis gens gen prev _ d0 hgen hdur hc with h1 | h1
  · exact Or.inl h1
  · right
    rw [h1, lru_checkpoint_complete genName tmpName _ hinj hdis gens gen prev _ d0 hgen hmax,
      Proofs.LruPtr.codec_roundtrip md5 hmd5 h es hv hh ht hes]


/-- hypotheses of the loader-form theorems are satisfiable: a two-entry sorted bucket inside the
field limits; a one-entry LRU table whose fields fit. -/
example : Proofs.Lsm.Sorted (⟨[⟨1, 2, 3, 4⟩, ⟨5, 1023, 2 ^ 30 - 1, 7⟩], []⟩ : Model.Lsm.Bucket).sorted ∧
    Proofs.Lsm.WFB ⟨[⟨1, 2, 3, 4⟩, ⟨5, 1023, 2 ^ 30 - 1, 7⟩], []⟩ := by
  refine ⟨by simp [Proofs.Lsm.Sorted], ⟨?_, ?_⟩⟩
  · intro e he
    simp only [List.mem_cons, List.not_mem_nil, or_false] at he
    rcases he with rfl | rfl <;> simp [Proofs.Lsm.wfE]
  · intro u hu; simp [Model.Lsm.Bucket.log] at hu
example : ∀ e ∈ ([⟨0xFFFFFFFF, 0xFFFFFFFF, List.replicate 9 7, 0⟩] : List Model.LruPtr.Entry),
    Proofs.LruPtr.Entry.Fits e := by
  intro e he
  simp only [List.mem_cons, List.not_mem_nil, or_false] at he
  subst he
  simp [Proofs.LruPtr.Entry.Fits]

/-! ## the calls the tracer observes (failed ones included) vs the operations the theorems are about -/

/-- K prints `saveIndexCalls` (every call of every attempt, the failing call marked, then
`remove_file(temp)`) and compares it with the observed calls of a save with induced I/O errors;
dropping the failed calls gives exactly the operation list `save_index_crash_safe` quantifies over —
for every outcome list. -/
theorem save_index_calls_effect (tmp fin : N) (bs : Bytes) (outcomes : List Attempt) :
    effOps (saveIndexCalls tmp fin bs 3 outcomes) = saveIndex tmp fin bs outcomes :=
  saveIndexCalls_eff tmp fin bs 3 outcomes

/-- the same for `save_all` (stops after the first bucket whose three attempts failed). -/
theorem save_all_calls_effect (buckets : List (BucketSave N)) :
    effOps (saveAllCalls buckets) = saveAll buckets :=
  saveAllCalls_eff buckets

/-- every `(i, k)` enumerated over a call list is a crash prefix of the operations performed. -/
theorem cutAtCalls_is_cut (cs : List (Call N)) (i k : Nat) : Cut (effOps cs) (cutAtCalls cs i k) :=
  cutAtCalls_is_cut' cs i k

/-- test: two failed attempts (create refused; write failed after 1 byte) and a good one. -/
example : saveIndexCalls (1 : Nat) 0 [7, 7] 3 [.failCreate, .failWrite 1] =
    [.failed (.create 1), .did (.unlink 1),
     .did (.create 1), .did (.write 1 [7]), .failed (.write 1 [7]), .did (.unlink 1),
     .did (.create 1), .did (.write 1 [7, 7]), .did (.fsync 1), .did (.rename 1 0)] := by decide

/-! ## the driver's / harness's enumeration stays inside the crash relation -/

/-- every `(i, k)` the driver and the harness enumerate is a crash prefix. -/
theorem cutAt_is_cut (t : List (Op N)) (i k : Nat) : Cut t (cutAt t i k) := by
  induction i generalizing t with
  | zero =>
    unfold cutAt
    simp only [List.take_zero, List.drop_zero, List.nil_append]
    split
    · split
      · exact Cut.stop _
      · exact Cut.tear _ _ _ _
    · exact Cut.stop _
  | succ i ih =>
    cases t with
    | nil => exact Cut.stop _
    | cons o t' =>
      have : cutAt (o :: t') (i + 1) k = o :: cutAt t' i k := by
        unfold cutAt; simp
      rw [this]; exact Cut.next o (ih t')

theorem imageOf_sound (v : Variant) (f : File) (h : f.synced ≤ f.data.length) : FileImage f (imageOf v f) := by
  cases v with
  | asis => exact ⟨Nat.le_refl _, rfl⟩
  | trunc =>
    refine ⟨?_, ?_⟩
    · simp [imageOf, List.length_take]; omega
    · simp [imageOf, List.take_take]
  | zeros =>
    refine ⟨?_, ?_⟩
    · simp [imageOf, List.length_take]; omega
    · simp only [imageOf]
      rw [List.take_append_of_le_length (by simp [List.length_take]; omega)]
      simp [List.take_take]

/-- the as-written / dropped / zeros images are crash images (so is every `stale` image the harness
builds: same lengths, other bytes behind the synced prefix). -/
theorem dirImage_sound (v : Variant) (d : Dir N) (h : ∀ n f, d n = some f → f.synced ≤ f.data.length) :
    CrashImage d (dirImage v d) := by
  intro n
  cases hd : d n with
  | none => simp [dirImage, hd]
  | some f => exact ⟨imageOf v f, by simp [dirImage, hd], imageOf_sound v f (h n f hd)⟩

end Cascette.Props.C06
