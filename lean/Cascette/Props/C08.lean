/-
Props/C08 — serialisation is stable: parse → build → parse → build reaches a fixed point.
Property theorems only; helper lemmas are in Proofs/Serial (and Proofs/ManifestSer of C19), the
models of the Rust code in Model/Serial and Model/Manifest, the abstract statement in Spec/Codec.

For each modelled format F: `WF_F`, `F_parse_build : WF v → parse (build v) = v`,
`F_parse_wf : parse b = v → WF v`, and the corollary `F_fixed_point` (`Spec.Codec.Stable`: the
rebuilt bytes re-parse to the same value and the second build is byte-identical). Where the
format allows it the stronger `F_accepted_is_own_rebuild` is proved: every accepted input IS the
serialisation of its parse (followed by ignored trailing bytes) — which is why real CDN files come
back byte-identical.
-/
import Cascette.Spec.Codec
import Cascette.Proofs.Serial
import Cascette.Proofs.SerialDl
import Cascette.Proofs.SerialPatchIndex
import Cascette.Model.RootFile
import Cascette.Model.SerialTvfs
import Cascette.Proofs.SerialRoot
import Cascette.Model.ArchiveIndex
import Cascette.Proofs.SerialBuilders
import Cascette.Proofs.TvfsTables
import Cascette.Proofs.Blte
namespace Cascette.Props.C08
open Cascette Cascette.Model.Manifest Cascette.Model.Serial Cascette.Proofs.Manifest
open Cascette.Proofs.Serial Cascette.Spec.Codec
open Cascette.Model.SerialPatchIndex Cascette.Proofs.SerialPatchIndex

/-! ### the abstract corollary -/

/-- `F_fixed_point`, once for every format: the two laws imply the property as stated. -/
theorem fixed_point_of_laws {β V : Type} (c : Codec β V) (WF : V → Prop) (h : Lawful c WF) :
    Stable c := stable_of_lawful c WF h

/-! ### install manifest (V1, V2) -/

def installCodec : Codec Bytes IManifest := ⟨parseInstallU, buildInstall⟩

/-- well-formed install manifest: the structural conditions of `IManifestWf` (C19) plus valid
UTF-8 in tag names and paths (Rust `String`s) -/
def InstallWF (m : IManifest) : Prop := IManifestWf m ∧ installNamesOk m = true

/-- `install_parse_build`: a well-formed manifest serialises to bytes that parse back to it,
whatever trailing bytes follow. -/
theorem install_parse_build (m : IManifest) (h : InstallWF m) (trailing : Bytes) :
    parseInstallU (serInstall m ++ trailing) = some m := by
  unfold parseInstallU
  rw [parseInstall_ser m h.1 trailing]
  simp only [h.2, if_true]

/-- `install_parse_wf`: whatever the parser accepts is well formed. -/
theorem install_parse_wf (b : Bytes) (m : IManifest) (h : parseInstallU b = some m) : InstallWF m := by
  unfold parseInstallU at h
  cases hp : parseInstall b with
  | none => simp [hp] at h
  | some m' =>
    simp only [hp] at h
    by_cases hn : installNamesOk m' = true
    · simp only [hn, if_true, Option.some.injEq] at h
      subst h
      exact ⟨(parseInstall_inv hp).1, hn⟩
    · simp [hn] at h

/-- every accepted install manifest is its own rebuild followed by ignored trailing bytes:
`parse b = m → b = build m ++ t`. For a file without trailing bytes the rebuild is byte-identical. -/
theorem install_accepted_is_own_rebuild (b : Bytes) (m : IManifest) (h : parseInstallU b = some m) :
    ∃ t, b = serInstall m ++ t := by
  unfold parseInstallU at h
  cases hp : parseInstall b with
  | none => simp [hp] at h
  | some m' =>
    simp only [hp] at h
    by_cases hn : installNamesOk m' = true
    · simp only [hn, if_true, Option.some.injEq] at h
      subst h
      exact (parseInstall_inv hp).2
    · simp [hn] at h

theorem install_lawful : Lawful installCodec InstallWF where
  parse_wf := install_parse_wf
  parse_build := fun m h => by
    refine ⟨serInstall m, ?_, ?_⟩
    · simp only [installCodec, buildInstall]
    · have := install_parse_build m h []
      rw [List.append_nil] at this
      simp only [installCodec]
      exact this

/-- `install_fixed_point`: C08 for the install manifest, every accepted input. -/
theorem install_fixed_point : Stable installCodec := fixed_point_of_laws _ _ install_lawful

/-! ### ZBSDIFF1 container -/

def zbsCodec : Codec Bytes ZFile := ⟨parseZFile, buildZFile⟩

theorem zbs_parse_build (z : ZFile) (h : ZWf z) : parseZFile (serZFile z) = some z :=
  parseZFile_ser z h

theorem zbs_parse_wf (b : Bytes) (z : ZFile) (h : parseZFile b = some z) : ZWf z :=
  (parseZFile_inv h).1

/-- the rebuild of every accepted ZBSDIFF input is the input itself, byte for byte -/
theorem zbs_accepted_is_own_rebuild (b : Bytes) (z : ZFile) (h : parseZFile b = some z) :
    buildZFile z = some b := by
  unfold buildZFile; rw [(parseZFile_inv h).2]

theorem zbs_lawful : Lawful zbsCodec ZWf where
  parse_wf := zbs_parse_wf
  parse_build := fun z h => by
    refine ⟨serZFile z, ?_, ?_⟩
    · simp only [zbsCodec, buildZFile]
    · simp only [zbsCodec]
      exact zbs_parse_build z h

theorem zbs_fixed_point : Stable zbsCodec := fixed_point_of_laws _ _ zbs_lawful


/-! ### size manifest (V1 with esize width 1..8, V2) -/

def sizeCodec : Codec Bytes SFile := ⟨parseSFile, buildSFile⟩

/-- `size_parse_build`: a well-formed size manifest passes `validate`, and its serialisation parses
back to it (any trailing bytes). -/
theorem size_parse_build (f : SFile) (h : SWf f) (trailing : Bytes) :
    buildSFile f = some (serSFile f) ∧ parseSFile (serSFile f ++ trailing) = some f := by
  refine ⟨?_, parseSFile_ser f h trailing⟩
  unfold buildSFile
  rw [sfileValid_of_wf f h]; rfl

/-- `size_parse_wf`: whatever the size parser accepts is well formed (in particular every esize
fits the header's esize width and Σ esize = total_size). -/
theorem size_parse_wf (b : Bytes) (f : SFile) (h : parseSFile b = some f) : SWf f :=
  (parseSFile_inv h).1

/-- every accepted size manifest is its own rebuild followed by ignored trailing bytes -/
theorem size_accepted_is_own_rebuild (b : Bytes) (f : SFile) (h : parseSFile b = some f) :
    ∃ t, b = serSFile f ++ t := (parseSFile_inv h).2

theorem size_lawful : Lawful sizeCodec SWf where
  parse_wf := size_parse_wf
  parse_build := fun f h => by
    refine ⟨serSFile f, ?_, ?_⟩
    · simp only [sizeCodec]; exact (size_parse_build f h []).1
    · have := (size_parse_build f h []).2
      rw [List.append_nil] at this
      simp only [sizeCodec]; exact this

/-- `size_fixed_point`: C08 for the size manifest, every accepted input. -/
theorem size_fixed_point : Stable sizeCodec := fixed_point_of_laws _ _ size_lawful

/-- builder form, after the `fix:` commit: `validate` (the model `sfileValid`) now bounds every
esize by the field width, so a value that validates and whose tags are well formed serialises to
bytes that parse back to it. Before the fix the value below validated (Σ = total, key length ok)
and its serialisation — esize 300 written into one byte — was rejected (`TotalSizeMismatch`). -/
theorem size_overwide_esize_rejected_by_validate :
    sfileValid ⟨1, 1, 300, 1, [], [⟨[7], 300⟩]⟩ = false ∧
    parseSFile (serSFile ⟨1, 1, 300, 1, [], [⟨[7], 300⟩]⟩) = none := by
  constructor <;> decide

/-! ### download manifest (V1, V2, V3; raw `has_checksum` / base-priority / reserved bytes) -/

def downloadCodec : Codec Bytes DFile := ⟨parseDFile, buildDFile⟩

/-- `download_parse_build`: a well-formed download manifest passes `validate` (the guard of
`build`), and its serialisation parses back to it — whatever the `has_checksum` byte (0, 1 or any
other non-zero value, re-emitted as read), the V3 base-priority and reserved bytes, and whatever
trailing bytes follow. -/
theorem download_parse_build (f : DFile) (h : DWf f) (trailing : Bytes) :
    buildDFile f = some (serDFile f) ∧ parseDFile (serDFile f ++ trailing) = some f := by
  refine ⟨?_, parseDFile_ser f h trailing⟩
  unfold buildDFile
  rw [dfileValid_of_wf f h]; rfl

/-- `download_parse_wf`: whatever the download parser accepts is well formed (version 1–3,
flag size ≤ 4, every entry carries a checksum iff the header byte is non-zero and flags of exactly
the header's flag size, every tag mask has ⌈entries/8⌉ bytes, tag names are valid UTF-8). -/
theorem download_parse_wf (b : Bytes) (f : DFile) (h : parseDFile b = some f) : DWf f :=
  (parseDFile_inv h).1

/-- every accepted download manifest is its own rebuild followed by ignored trailing bytes -/
theorem download_accepted_is_own_rebuild (b : Bytes) (f : DFile) (h : parseDFile b = some f) :
    ∃ t, b = serDFile f ++ t := (parseDFile_inv h).2

theorem download_lawful : Lawful downloadCodec DWf where
  parse_wf := download_parse_wf
  parse_build := fun f h => by
    refine ⟨serDFile f, ?_, ?_⟩
    · simp only [downloadCodec]; exact (download_parse_build f h []).1
    · have := (download_parse_build f h []).2
      rw [List.append_nil] at this
      simp only [downloadCodec]; exact this

/-- `download_fixed_point`: C08 for the download manifest, every accepted input, V1–V3. -/
theorem download_fixed_point : Stable downloadCodec := fixed_point_of_laws _ _ download_lawful

/-- builder form, tied to C19: the value `DownloadManifestBuilder::build` produces (C19's
`DManifest`, well formed by C19's `build_wf`) serialises — by C19's writer `serDownload` — to bytes
that `<DownloadManifest as CascFormat>::parse` reads back as the same content (raw-header view of
it), and `CascFormat::build` of that writes the same bytes again. -/
theorem download_builder_form (m : DManifest) (h : DManifestWf m)
    (hn : (m.tags.all fun t => validUtf8 t.name) = true) (trailing : Bytes) :
    parseDFile (serDownload m ++ trailing) = some (DFile.ofManifest m) ∧
    buildDFile (DFile.ofManifest m) = some (serDownload m) := by
  have w := wf_ofManifest m h hn
  have e := serDFile_ofManifest m h
  have := download_parse_build _ w trailing
  rw [e] at this
  exact ⟨this.2, this.1⟩

/-! ### patch index (header + block table + entry blocks 2 / 8) -/

/-- the codec on the logical content (key size, entries): `CascFormat::build` of a patch index
uses nothing else of the parsed value — the header is written afresh -/
def pindexCodec : Codec Bytes PIdx := ⟨parsePIdx, buildPIdx⟩

/-- `pindex_parse_build`: a well-formed value builds (no slice panic), and the file
`PatchIndexBuilder::build` writes — fresh 43-byte header, block 1, block 2, block 8 — parses back
to exactly that key size and those entries. -/
theorem pindex_parse_build (v : PIdx) (h : PWf v) :
    buildPIdx v = some (serPIdx v) ∧ parsePIdx (serPIdx v) = some v := by
  refine ⟨?_, parsePIdx_ser v h⟩
  unfold buildPIdx
  rw [if_neg]
  intro hc
  have := h.small hc.2
  omega

/-- `pindex_parse_wf`: whatever the parser accepts — any header size (also one that puts block
data over the descriptors), any extra header, any sequence of block types with the type 2 / type 8
precedence of `parse_patch_index`, any block-8 data offset — is a well-formed value: keys are 16
bytes and zero beyond the key size, a key size above 16 comes with no entries, sizes are `u32`.
The rebuilt file holds TWO copies of the entry table, so its `u32` `data_size` is exact only for
inputs below 2 GiB; that bound is the hypothesis. -/
theorem pindex_parse_wf (b : Bytes) (v : PIdx) (h : parsePIdx b = some v) (hb : b.length < 2147483600) :
    PWf v := parsePIdx_wf h hb

/- full statement (NOT proved; false of the model for an accepted input of ≥ 2 GiB whose entry
   table is larger than 2^31 bytes: `total_size as u32` wraps and the rebuilt file fails the
   `data_size == len` check — not replayed on the real code, it needs a 2 GiB input):
     theorem pindex_fixed_point : Stable pindexCodec -/

/-- `pindex_fixed_point_partial`: C08 for the patch index, every accepted input below 2 GiB: the
rebuild succeeds, re-parses to the same key size and entries, and the second build is
byte-identical. (The first rebuild is in general NOT the input: the header, unknown blocks, slack
and the block-8 copy are regenerated — `accepted_is_own_rebuild` does not hold for this format;
the three CDN fixtures are byte-identical as a test.) -/
theorem pindex_fixed_point_partial (b : Bytes) (v : PIdx) (h : parsePIdx b = some v)
    (hb : b.length < 2147483600) : FixedPointAt pindexCodec b v := by
  have w := pindex_parse_wf b v h hb
  obtain ⟨h1, h2⟩ := pindex_parse_build v w
  unfold FixedPointAt
  simp only [pindexCodec]
  refine ⟨serPIdx v, h1, h2, ?_⟩
  intro v2 hv2
  rw [h2] at hv2
  have e : v2 = v := (Option.some.inj hv2).symm
  subst e
  exact ⟨rfl, h1⟩

/-! ### TVFS: the full statement fails (findings `tvfs-rebuilt-not-parseable-cft-slack-crosses-offset-width`,
`tvfs-rebuild-changes-content-cft-slack-crosses-offset-width`) -/

/- full statement (does NOT hold of the tree):
     ∀ es cftSize vfs, (vfsAcrossRebuild es cftSize vfs).2 = (vfsAcrossRebuild es cftSize vfs).1
   i.e. the VFS table of an accepted file reads the same after `TvfsFile::build`. The build keeps the
   VFS table bytes, drops the slack of the container table and writes the smaller size into the
   header; the width of the cft-offset fields in the VFS table is a function of that size. -/

open Cascette.Model.SerialTvfs in
/-- counter-witness, kernel-checked, on C03's `offsSize`: a container table of 258 bytes with
13-byte entries (flags 0, 9-byte EKeys) holds 19 entries and 11 bytes of slack; the rebuild states
247 bytes, the offset width drops from 2 to 1 and the very same VFS table bytes (i) no longer
parse (`VfsTableTruncated`), or (ii) parse to OTHER entries (a different cft offset and a spurious
empty entry). Both pairs are replayed on the real `VfsTable::parse` / `ContainerFileTable` in every
run (corpus/C08/witness-tvfs-vfs-width.case), the whole-file form by the `finding-tvfs-*` cases. -/
theorem tvfs_rebuild_not_fixed_point_witness :
    cftEntrySize 9 9 0 = 13 ∧ cftCount 13 258 = 19 ∧ rebuiltCftSize 13 258 = 247 ∧
    Cascette.Model.TvfsPath.offsSize 258 = 2 ∧ Cascette.Model.TvfsPath.offsSize 247 = 1 ∧
    vfsAcrossRebuild 13 258 [1, 0, 0, 0, 0, 0, 0, 0, 10, 0, 13] =
      (some [⟨0, [(0, 10, 13)]⟩], none) ∧
    vfsAcrossRebuild 13 258 [1, 0, 0, 0, 0, 0, 0, 0, 10, 0, 0] =
      (some [⟨0, [(0, 10, 0)]⟩], some [⟨0, [(0, 10, 0)]⟩, ⟨10, []⟩]) ∧
    vfsAcrossRebuild 13 258 [1, 0, 0, 0, 0, 0, 0, 0, 10, 0, 26, 1, 0, 0, 0, 0, 0, 0, 0, 7, 0, 13] =
      (some [⟨0, [(0, 10, 26)]⟩, ⟨11, [(0, 7, 13)]⟩], none) := by
  decide

open Cascette.Model.SerialTvfs in
/-- `_partial`: when the rebuilt container-table size keeps the offset width — in particular when
the table carries no slack — the VFS table reads back exactly as before, for every table. -/
theorem tvfs_vfs_stable_same_width_partial (es cftSize : Nat) (vfs : Cascette.Model.TvfsPath.Bytes)
    (h : Cascette.Model.TvfsPath.offsSize (rebuiltCftSize es cftSize) =
         Cascette.Model.TvfsPath.offsSize cftSize) :
    (vfsAcrossRebuild es cftSize vfs).2 = (vfsAcrossRebuild es cftSize vfs).1 := by
  unfold vfsAcrossRebuild vfsParse
  simp only [h]

open Cascette.Model.SerialTvfs in
/-- no slack ⇒ the rebuilt size is the stated size (so the width is kept) -/
theorem tvfs_no_slack_keeps_size (es cftSize : Nat) (h : cftSize % es = 0) :
    rebuiltCftSize es cftSize = cftSize := by
  unfold rebuiltCftSize cftCount
  exact Nat.div_mul_cancel (Nat.dvd_of_mod_eq_zero h)

/-- the hypotheses are satisfiable: 20 whole entries (260 bytes, width 2 before and after), and a
table WITH slack that stays inside one width class (the two CDN fixtures with 5 / 20 slack bytes) -/
example : Cascette.Model.TvfsPath.offsSize (Cascette.Model.SerialTvfs.rebuiltCftSize 13 260) =
    Cascette.Model.TvfsPath.offsSize 260 ∧ 260 % 13 = 0 ∧
    Cascette.Model.TvfsPath.offsSize (Cascette.Model.SerialTvfs.rebuiltCftSize 25 15505) =
    Cascette.Model.TvfsPath.offsSize 15505 := by decide

/-! ### root: the full statement fails (finding `root-accepted-not-rebuildable-no-records`) -/

/- full statement (does NOT hold of the tree):
     theorem root_fixed_point : ∀ b p, RootFile.parse b = some p → ∃ y, rebuild p = some y ∧ …
   `RootFile::parse` accepts an input without any non-empty block; `CascFormat::build` goes
   through `RootBuilder::build`, which refuses an empty block set. -/

/-- counter-witness on C03's byte-level root model: the 12-byte classic V2 header
`TSFM, total_files = 15, named_files = 0` with no block behind it is accepted with zero blocks,
and the builder refuses zero blocks (replayed on the real code: corpus/C08/finding-root-accepted-…). -/
theorem root_accepted_not_rebuildable_witness :
    (match Cascette.Model.RootFile.parse [0x54, 0x53, 0x46, 0x4D, 0x0f, 0, 0, 0, 0, 0, 0, 0] with
     | some p => p.blocks.isEmpty
     | none => false) = true ∧
    Cascette.Model.RootFile.build .v2 [] = none := by
  constructor <;> decide

/-- `_partial`: with at least one (non-empty) block the rebuild step itself never refuses. -/
theorem root_build_some_partial (v : Cascette.Model.RootFile.Version)
    (blocks : List (Nat × Nat × List Cascette.Model.RootFile.Rec)) (h : blocks ≠ []) :
    (Cascette.Model.RootFile.build v blocks).isSome = true := by
  unfold Cascette.Model.RootFile.build
  have : blocks.isEmpty = false := by
    cases blocks with
    | nil => exact absurd rfl h
    | cons a l => rfl
  simp [this]

/-! ### root: builder form, with the same FileDataID more than once in a block -/

open Cascette.Model.RootFile Cascette.Proofs.RootFile Cascette.Proofs.SerialRoot in
/-- **root_builder_form** (the second sentence of the property, for `RootBuilder`, V1–V4): for EVERY
builder content — any number of blocks, records in ANY insertion order, the same FileDataID any
number of times in one block (`GoodBlock` asks for field widths and name-hash presence only, not
for distinct or ascending IDs) — outside the recorded V2 header window: `build` succeeds, `parse`
of the bytes succeeds with the same version, and the parsed records with the flags of their
blocks are a PERMUTATION of the inserted ones: nothing lost, nothing added, nothing merged, no
ID moved. Corollary of C03's `parse_build` on the byte-level model the `rp` / `m root` lines of
the correspondence run compare with `RootBuilder::build` / `RootFile::parse`. -/
theorem root_builder_form (v : Version) (blocks : List (Nat × Nat × List Rec)) (hne : blocks ≠ [])
    (hg : ∀ b ∈ blocks, GoodBlock v b.1 b.2.1 b.2.2) (htot : totalOf blocks < 4294967296)
    (hamb : v = .v2 → ¬ Ambiguous (totalOf blocks) (namedOf blocks)) :
    ∃ bytes p, build v blocks = some bytes ∧ parse bytes = some p ∧ p.version = v ∧
      (parsedRecs p).Perm (flagged blocks) := by
  obtain ⟨bytes, hb, hp⟩ := parse_build v blocks hne hg htot hamb
  refine ⟨bytes, _, hb, hp, rfl, ?_⟩
  rw [parsedRecs_mkBlocks]
  exact flagged_perm_builtBlocks blocks

open Cascette.Model.RootFile in
/-- kernel-checked instances of the FileDataID delta codec at the place a saturating encoder and
the wrapping decoder part ways: the same ID twice is the delta 0xFFFFFFFF (not 0), both ways; the
hand-made column `7, 0xFFFFFFFF, 1` is the IDs 7, 7, 9; IDs at both ends of the u32 range in
non-ascending order survive. (`fdid_delta_roundtrip` of C03 is the statement for all sequences.) -/
theorem root_repeated_fdid_delta_witness :
    encodeDeltas [100, 100, 250] = [100, 4294967295, 149] ∧
    decodeDeltas [100, 4294967295, 149] = [100, 100, 250] ∧
    decodeDeltas [7, 4294967295, 1] = [7, 7, 9] ∧ encodeDeltas [7, 7, 9] = [7, 4294967295, 1] ∧
    decodeDeltas (encodeDeltas [4294967295, 0, 4294967295, 4294967295]) = [4294967295, 0, 4294967295, 4294967295] := by
  decide

open Cascette.Model.RootFile Cascette.Proofs.RootFile in
/-- the hypotheses of `root_builder_form` hold of a block that lists FileDataID 100 twice (two
content keys for one ID), inserted after a larger ID -/
example : GoodBlock .v1 2 0 [⟨250, List.replicate 16 3, some 7⟩, ⟨100, List.replicate 16 1, some 5⟩,
    ⟨100, List.replicate 16 2, some 6⟩] :=
  ⟨by decide, by decide, by decide, by decide, by decide, by decide, by decide, by decide⟩

/-! ### archive index: a record read back is stored unchanged by the builder loaded from it -/

/-- **aidx_stored_idempotent**: `stored ob` is what `to_bytes` + `IndexEntry::parse` make of an
entry under offset width `ob` (4 / 5 / 6 bytes; 6 = archive index : offset). A record that was
read under a layout is written back unchanged under the SAME layout — the record-level reason why
`ArchiveIndexBuilder::from_archive_index(parsed)` must be given the footer's widths in the
builder's own (key, offset, size) order: for every width and entry, also with values wider than
the field. The `ap` lines compare the two-pass pipeline (build, parse, from_archive_index, build,
parse) with this model on every layout. -/
theorem aidx_stored_idempotent (ob : Nat) (e : Cascette.Model.ArchiveIndex.Entry) :
    Cascette.Model.ArchiveIndex.stored ob (Cascette.Model.ArchiveIndex.stored ob e) =
      Cascette.Model.ArchiveIndex.stored ob e := by
  unfold Cascette.Model.ArchiveIndex.stored
  split
  · simp
  · simp
  · cases h : e.archive with
    | some a => simp
    | none => simp

/-! ### builder-as-mutator programs and width computations (the `bp` lines of the run) -/

section Builders
open Cascette.Model.SerialBuilders Cascette.Proofs.SerialBuilders

/-- **install_mutator_form** (builder-as-mutator, install V1 AND V2). Load ANY accepted install
manifest into `InstallManifestBuilder::from_manifest`, run ANY program of editing calls (add_file,
remove_file, add_tag, remove_tag, associate, remove_file_from_tag — arguments a Rust caller can
pass, every call succeeding), `build`: the value is well formed under the SOURCE's version and V2
header fields — in particular every entry of a V2 result carries a type byte (the added ones 0)
and no entry of a V1 result does —, it holds exactly the builder's tags and entries, and its
serialisation parses back to it (so, by `install_fixed_point`, it is a fixed point). -/
theorem install_mutator_form (m0 : IManifest) (h0 : InstallWF m0)
    (ops : List MOp) (hops : ∀ o ∈ ops, o.argsOk) (s : IBuilderS)
    (hr : mrun (IBuilderS.fromManifest m0) ops = .ok s) (m : IManifest) (hb : s.build = .ok m) :
    InstallWF m ∧ m.version = m0.version ∧ m.v2 = m0.v2 ∧ m.tags = s.b.tags ∧
      m.entries = (if m0.version = 2 then s.b.entries.map fillType else s.b.entries) ∧
      parseInstallU (serInstall m) = some m := by
  have hI0 := fromManifest_inv m0 h0.1 h0.2
  obtain ⟨hI, hsrc⟩ := mrun_inv ops _ s hops hI0 hr
  have hsrc' : s.src = some (m0.version, m0.v2) := hsrc
  have hres := build_wf s hI m hb
    (by
      intro v v2 hv
      rw [hsrc'] at hv
      cases hv
      refine ⟨h0.1.version, h0.1.v2, ?_⟩
      intro h1
      refine mrun_notype ops _ s ?_ hr
      intro e he
      have hft := (h0.1.entries e he).ft
      rw [h1] at hft
      simpa using hft)
    (by intro h; rw [hsrc'] at h; cases h)
  obtain ⟨hwf, htags, hver, _⟩ := hres
  obtain ⟨hv, hv2, hent⟩ := hver _ _ hsrc'
  have hp := install_parse_build m hwf []
  rw [List.append_nil] at hp
  exact ⟨hwf, hv, hv2, htags, hent, hp⟩

/-- **install_new_form**: the same for programs that start from `InstallManifestBuilder::new()`:
a V1 manifest with the builder's tags and entries, parsed back from its serialisation. -/
theorem install_new_form (ops : List MOp) (hops : ∀ o ∈ ops, o.argsOk) (s : IBuilderS)
    (hr : mrun IBuilderS.new ops = .ok s) (m : IManifest) (hb : s.build = .ok m) :
    InstallWF m ∧ m.version = 1 ∧ m.tags = s.b.tags ∧ m.entries = s.b.entries ∧
      parseInstallU (serInstall m) = some m := by
  have hI0 : BInv IBuilderS.new.b := by
    refine ⟨?_, ?_⟩
    · intro t ht; simp [IBuilderS.new, IBuilder.empty] at ht
    · intro e he; simp [IBuilderS.new, IBuilder.empty] at he
  obtain ⟨hI, hsrc⟩ := mrun_inv ops _ s hops hI0 hr
  have hsrc' : s.src = none := hsrc
  have hres := build_wf s hI m hb (by intro v v2 hv; rw [hsrc'] at hv; cases hv)
    (fun _ => mrun_notype ops _ s (fun e he => by simp [IBuilderS.new, IBuilder.empty] at he) hr)
  obtain ⟨hwf, htags, _, hnone⟩ := hres
  obtain ⟨hv, hent⟩ := hnone hsrc'
  have hp := install_parse_build m hwf []
  rw [List.append_nil] at hp
  exact ⟨hwf, hv, htags, hent, hp⟩

/-- (kernel-checked instance, a test) the type byte IS needed: the V2 header-only manifest plus one
`add_file` entry written WITHOUT the type byte does not parse; with `get_or_insert(0)` it does. -/
theorem install_v2_type_byte_needed_witness :
    parseInstallU (serInstall ⟨2, some (20, 3, 1), [], [⟨[0x61], List.replicate 16 7, 5, none⟩]⟩) = none ∧
    parseInstallU (serInstall ⟨2, some (20, 3, 1), [], [fillType ⟨[0x61], List.replicate 16 7, 5, none⟩]⟩) =
      some ⟨2, some (20, 3, 1), [], [⟨[0x61], List.replicate 16 7, 5, some 0⟩]⟩ := by decide

open Cascette.Model.TvfsTables in
/-- **tvfs_builder_sizing_consistent** (what the `bp tvfs` lines print for the model): for every
flag combination, EST size and file count (n·30 < 2^32) the entry size `TvfsBuilder::build` uses
for the CFT offsets it stores in the VFS spans is the entry size `cft_entry_size()` gives under the
header it writes, the table holds `n` entries of that size, and the offset width is the one of
that table size. Corollary of C03's `widen_fixed`. -/
theorem tvfs_builder_sizing_consistent (flags estSize n : Nat) (hn : n * 30 < 4294967296) :
    tvfsSizing flags estSize n =
      ((layout (Flags.ofNat flags) estSize n).2, n * (layout (Flags.ofNat flags) estSize n).2,
       Cascette.Model.TvfsPath.offsSize (n * (layout (Flags.ofNat flags) estSize n).2),
       (n - 1) * (layout (Flags.ofNat flags) estSize n).2) ∧
    (layout (Flags.ofNat flags) estSize n).1.entrySize = (layout (Flags.ofNat flags) estSize n).2 := by
  have h := Cascette.Proofs.TvfsTables.widen_fixed n hn { fl := Flags.ofNat flags, cftSize := 0, estSize := estSize } rfl
  refine ⟨?_, h.1⟩
  unfold tvfsSizing
  simp only [Hdr.cftOffs]
  unfold layout
  rw [h.2.1]

open Cascette.Model.TvfsTables in
/-- (kernel-checked instances, a test) iterating to the fixed point IS needed: with PATCH_SUPPORT the
two-pass sizing (minimum width, then the width that table asks for) leaves offsets computed for a
24-byte entry under a header whose table size asks for 25-byte entries at 2731 files
(INCLUDE_CKEY|PATCH_SUPPORT) — and is right one file earlier; the widening loop agrees with itself
at both counts. -/
theorem tvfs_two_pass_sizing_witness :
    twoPass ⟨true, false, true⟩ 0 2731 = (24, 65544) ∧
    ({ fl := ⟨true, false, true⟩, cftSize := 65544, estSize := 0 } : Hdr).entrySize = 25 ∧
    twoPass ⟨true, false, true⟩ 0 2730 = (24, 65520) ∧
    ({ fl := ⟨true, false, true⟩, cftSize := 65520, estSize := 0 } : Hdr).entrySize = 24 ∧
    tvfsSizing 5 0 2731 = (25, 68275, 3, 68250) ∧ tvfsSizing 5 0 2730 = (24, 65520, 2, 65496) := by decide

/-- **blte_count_field_roundtrip**: the 24-bit big-endian chunk-count field of the BLTE table head
holds every count the builder accepts (`chunks.len() <= 0xFFFFFF`) exactly; a 16-bit field would
not (65 536 reads back as 0). C01's `blte_parse_serialize` is the whole-container statement. -/
theorem blte_count_field_roundtrip (n : Nat) (h : n < 16777216) :
    Cascette.Model.Blte.beNat (Cascette.Model.Blte.beBytes 3 n) = n ∧
    Cascette.Model.Blte.beNat (Cascette.Model.Blte.beBytes 2 65536) = 0 := by
  refine ⟨?_, by decide⟩
  rw [Cascette.Proofs.Blte.beNat_beBytes]
  exact Nat.mod_eq_of_lt (by simpa using h)

end Builders

/-- the hypotheses are satisfiable by non-trivial instances (a V2 install manifest with one tag
and one file; a ZBSDIFF container with all three blocks non-empty) -/
example : InstallWF ⟨2, some (20, 7, 0), [⟨[0x57], 1, [0x80]⟩],
    [⟨[0x61, 0x2F, 0x62], List.replicate 16 7, 1024, some 3⟩]⟩ := by
  refine ⟨⟨Or.inr rfl, ?_, by decide, by decide, ?_, ?_⟩, by decide⟩
  · exact ⟨20, 7, 0, rfl, by decide, by decide, by decide⟩
  · intro t ht
    simp only [List.mem_singleton] at ht
    subst ht
    exact ⟨by decide, by decide, by decide⟩
  · intro e he
    simp only [List.mem_singleton] at he
    subst he
    exact ⟨by decide, by decide, by decide, ⟨3, rfl, by decide⟩⟩

/-- a V3 download manifest with `has_checksum` byte 2, flag size 1, base priority byte 0xFE,
non-zero reserved bytes, one entry and one tag -/
example : DWf ⟨3, 2, 1, 0xFE, [1, 2, 3], [⟨List.replicate 16 9, 5, -3, some 77, some [0x80]⟩],
    [⟨[0x57], 1, [0x80]⟩]⟩ := by
  refine ⟨by decide, by decide, by decide, by decide, by decide, by decide, by decide, ?_, by decide, ?_⟩
  · intro t ht
    simp only [List.mem_singleton] at ht
    subst ht
    exact ⟨by decide, by decide, by decide⟩
  · intro e he
    simp only [List.mem_singleton] at he
    subst he
    exact ⟨by decide, by decide, by decide, by decide, ⟨77, rfl, by decide⟩, ⟨[0x80], rfl, rfl⟩⟩

/-- a patch index value with key size 9 and one entry (keys zero beyond byte 9) -/
example : PWf ⟨9, [⟨List.replicate 9 7 ++ List.replicate 7 0, 1000, List.replicate 9 8 ++ List.replicate 7 0,
    2000, 1500, 1, List.replicate 9 9 ++ List.replicate 7 0⟩]⟩ := by
  refine ⟨by decide, fun _ => by decide, ?_, by decide⟩
  intro e he
  simp only [List.mem_singleton] at he
  subst he
  exact ⟨⟨by decide, by decide⟩, ⟨by decide, by decide⟩, ⟨by decide, by decide⟩, by decide, by decide, by decide⟩

/-- the hypotheses of `download_builder_form` hold of a V3 builder value (checksums, flag size 1,
base priority -2, one entry, one tag) -/
example : DManifestWf ⟨3, true, 1, -2, [⟨List.replicate 16 9, 5, -3, some 77, some [0x80]⟩],
    [⟨[0x57], 1, [0x80]⟩]⟩ ∧
    (([⟨[0x57], 1, [0x80]⟩] : List Tag).all fun t => validUtf8 t.name) = true := by
  refine ⟨⟨by decide, by decide, by decide, by decide, by decide, by decide, by decide, by decide, ?_, ?_⟩, by decide⟩
  · intro t ht
    simp only [List.mem_singleton] at ht
    subst ht
    exact ⟨by decide, by decide, by decide⟩
  · intro e he
    simp only [List.mem_singleton] at he
    subst he
    exact ⟨by decide, by decide, by decide, by decide, ⟨77, rfl, by decide⟩, ⟨[0x80], rfl, rfl⟩⟩

example : ZWf ⟨2, 1, 9, [1, 2], [3], [4, 5]⟩ := ⟨rfl, rfl, by decide, by decide, by decide, by decide⟩

end Cascette.Props.C08
