/-
Props/C08 — serialisation is stable: parse → build → parse → build reaches a fixed point.
Property theorems only; helper lemmas are in Proofs/Serial (and Proofs/ManifestSer of C19), the
models of the Rust code in Model/Serial and Model/Manifest, the abstract statement in Spec/Codec.

For each modelled format F: `WF_F`, `F_parse_build : WF v → parse (build v) = v`,
`F_parse_wf : parse b = v → WF v`, and the corollary `F_fixed_point` (`Spec.Codec.Stable`: the
rebuilt bytes re-parse to the same value and the second build is byte-identical). Where the
format allows it the stronger `F_accepted_is_own_rebuild` is proved: every accepted input IS the
serialisation of its parse (followed by ignored trailing bytes) — which is why real CDN files come
back byte-identical.
-/
import Cascette.Spec.Codec
import Cascette.Proofs.Serial
import Cascette.Model.RootFile
namespace Cascette.Props.C08
open Cascette Cascette.Model.Manifest Cascette.Model.Serial Cascette.Proofs.Manifest
open Cascette.Proofs.Serial Cascette.Spec.Codec

/-! ### the abstract corollary -/

/-- `F_fixed_point`, once for every format: the two laws imply the property as stated. -/
theorem fixed_point_of_laws {β V : Type} (c : Codec β V) (WF : V → Prop) (h : Lawful c WF) :
    Stable c := stable_of_lawful c WF h

/-! ### install manifest (V1, V2) -/

def installCodec : Codec Bytes IManifest := ⟨parseInstallU, buildInstall⟩

/-- well-formed install manifest: the structural conditions of `IManifestWf` (C19) plus valid
UTF-8 in tag names and paths (Rust `String`s) -/
def InstallWF (m : IManifest) : Prop := IManifestWf m ∧ installNamesOk m = true

/-- `install_parse_build`: a well-formed manifest serialises to bytes that parse back to it,
whatever trailing bytes follow. -/
theorem install_parse_build (m : IManifest) (h : InstallWF m) (trailing : Bytes) :
    parseInstallU (serInstall m ++ trailing) = some m := by
  unfold parseInstallU
  rw [parseInstall_ser m h.1 trailing]
  simp only [h.2, if_true]

/-- `install_parse_wf`: whatever the parser accepts is well formed. -/
theorem install_parse_wf (b : Bytes) (m : IManifest) (h : parseInstallU b = some m) : InstallWF m := by
  unfold parseInstallU at h
  cases hp : parseInstall b with
  | none => simp [hp] at h
  | some m' =>
    simp only [hp] at h
    by_cases hn : installNamesOk m' = true
    · simp only [hn, if_true, Option.some.injEq] at h
      subst h
      exact ⟨(parseInstall_inv hp).1, hn⟩
    · simp [hn] at h

/-- every accepted install manifest is its own rebuild followed by ignored trailing bytes:
`parse b = m → b = build m ++ t`. For a file without trailing bytes the rebuild is byte-identical. -/
theorem install_accepted_is_own_rebuild (b : Bytes) (m : IManifest) (h : parseInstallU b = some m) :
    ∃ t, b = serInstall m ++ t := by
  unfold parseInstallU at h
  cases hp : parseInstall b with
  | none => simp [hp] at h
  | some m' =>
    simp only [hp] at h
    by_cases hn : installNamesOk m' = true
    · simp only [hn, if_true, Option.some.injEq] at h
      subst h
      exact (parseInstall_inv hp).2
    · simp [hn] at h

theorem install_lawful : Lawful installCodec InstallWF where
  parse_wf := install_parse_wf
  parse_build := fun m h => by
    refine ⟨serInstall m, ?_, ?_⟩
    · simp only [installCodec, buildInstall]
    · have := install_parse_build m h []
      rw [List.append_nil] at this
      simp only [installCodec]
      exact this

/-- `install_fixed_point`: C08 for the install manifest, every accepted input. -/
theorem install_fixed_point : Stable installCodec := fixed_point_of_laws _ _ install_lawful

/-! ### ZBSDIFF1 container -/

def zbsCodec : Codec Bytes ZFile := ⟨parseZFile, buildZFile⟩

theorem zbs_parse_build (z : ZFile) (h : ZWf z) : parseZFile (serZFile z) = some z :=
  parseZFile_ser z h

theorem zbs_parse_wf (b : Bytes) (z : ZFile) (h : parseZFile b = some z) : ZWf z :=
  (parseZFile_inv h).1

/-- the rebuild of every accepted ZBSDIFF input is the input itself, byte for byte -/
theorem zbs_accepted_is_own_rebuild (b : Bytes) (z : ZFile) (h : parseZFile b = some z) :
    buildZFile z = some b := by
  unfold buildZFile; rw [(parseZFile_inv h).2]

theorem zbs_lawful : Lawful zbsCodec ZWf where
  parse_wf := zbs_parse_wf
  parse_build := fun z h => by
    refine ⟨serZFile z, ?_, ?_⟩
    · simp only [zbsCodec, buildZFile]
    · simp only [zbsCodec]
      exact zbs_parse_build z h

theorem zbs_fixed_point : Stable zbsCodec := fixed_point_of_laws _ _ zbs_lawful


/-! ### size manifest (V1 with esize width 1..8, V2) -/

def sizeCodec : Codec Bytes SFile := ⟨parseSFile, buildSFile⟩

/-- `size_parse_build`: a well-formed size manifest passes `validate`, and its serialisation parses
back to it (any trailing bytes). -/
theorem size_parse_build (f : SFile) (h : SWf f) (trailing : Bytes) :
    buildSFile f = some (serSFile f) ∧ parseSFile (serSFile f ++ trailing) = some f := by
  refine ⟨?_, parseSFile_ser f h trailing⟩
  unfold buildSFile
  rw [sfileValid_of_wf f h]; rfl

/-- `size_parse_wf`: whatever the size parser accepts is well formed (in particular every esize
fits the header's esize width and Σ esize = total_size). -/
theorem size_parse_wf (b : Bytes) (f : SFile) (h : parseSFile b = some f) : SWf f :=
  (parseSFile_inv h).1

/-- every accepted size manifest is its own rebuild followed by ignored trailing bytes -/
theorem size_accepted_is_own_rebuild (b : Bytes) (f : SFile) (h : parseSFile b = some f) :
    ∃ t, b = serSFile f ++ t := (parseSFile_inv h).2

theorem size_lawful : Lawful sizeCodec SWf where
  parse_wf := size_parse_wf
  parse_build := fun f h => by
    refine ⟨serSFile f, ?_, ?_⟩
    · simp only [sizeCodec]; exact (size_parse_build f h []).1
    · have := (size_parse_build f h []).2
      rw [List.append_nil] at this
      simp only [sizeCodec]; exact this

/-- `size_fixed_point`: C08 for the size manifest, every accepted input. -/
theorem size_fixed_point : Stable sizeCodec := fixed_point_of_laws _ _ size_lawful

/-- builder form, after the `fix:` commit: `validate` (the model `sfileValid`) now bounds every
esize by the field width, so a value that validates and whose tags are well formed serialises to
bytes that parse back to it. Before the fix the value below validated (Σ = total, key length ok)
and its serialisation — esize 300 written into one byte — was rejected (`TotalSizeMismatch`). -/
theorem size_overwide_esize_rejected_by_validate :
    sfileValid ⟨1, 1, 300, 1, [], [⟨[7], 300⟩]⟩ = false ∧
    parseSFile (serSFile ⟨1, 1, 300, 1, [], [⟨[7], 300⟩]⟩) = none := by
  constructor <;> decide

/-! ### root: the full statement fails (finding `root-accepted-not-rebuildable-no-records`) -/

/- full statement (does NOT hold of the tree):
     theorem root_fixed_point : ∀ b p, RootFile.parse b = some p → ∃ y, rebuild p = some y ∧ …
   `RootFile::parse` accepts an input without any non-empty block; `CascFormat::build` goes
   through `RootBuilder::build`, which refuses an empty block set. -/

/-- counter-witness on C03's byte-level root model: the 12-byte classic V2 header
`TSFM, total_files = 15, named_files = 0` with no block behind it is accepted with zero blocks,
and the builder refuses zero blocks (replayed on the real code: corpus/C08/finding-root-accepted-…). -/
theorem root_accepted_not_rebuildable_witness :
    (match Cascette.Model.RootFile.parse [0x54, 0x53, 0x46, 0x4D, 0x0f, 0, 0, 0, 0, 0, 0, 0] with
     | some p => p.blocks.isEmpty
     | none => false) = true ∧
    Cascette.Model.RootFile.build .v2 [] = none := by
  constructor <;> decide

/-- `_partial`: with at least one (non-empty) block the rebuild step itself never refuses. -/
theorem root_build_some_partial (v : Cascette.Model.RootFile.Version)
    (blocks : List (Nat × Nat × List Cascette.Model.RootFile.Rec)) (h : blocks ≠ []) :
    (Cascette.Model.RootFile.build v blocks).isSome = true := by
  unfold Cascette.Model.RootFile.build
  have : blocks.isEmpty = false := by
    cases blocks with
    | nil => exact absurd rfl h
    | cons a l => rfl
  simp [this]

/-- the hypotheses are satisfiable by non-trivial instances (a V2 install manifest with one tag
and one file; a ZBSDIFF container with all three blocks non-empty) -/
example : InstallWF ⟨2, some (20, 7, 0), [⟨[0x57], 1, [0x80]⟩],
    [⟨[0x61, 0x2F, 0x62], List.replicate 16 7, 1024, some 3⟩]⟩ := by
  refine ⟨⟨Or.inr rfl, ?_, by decide, by decide, ?_, ?_⟩, by decide⟩
  · exact ⟨20, 7, 0, rfl, by decide, by decide, by decide⟩
  · intro t ht
    simp only [List.mem_singleton] at ht
    subst ht
    exact ⟨by decide, by decide, by decide⟩
  · intro e he
    simp only [List.mem_singleton] at he
    subst he
    exact ⟨by decide, by decide, by decide, ⟨3, rfl, by decide⟩⟩

example : ZWf ⟨2, 1, 9, [1, 2], [3], [4, 5]⟩ := ⟨rfl, rfl, by decide, by decide, by decide, by decide⟩

end Cascette.Props.C08
