/-
Props/C14 — Retries are bounded, ordered and respect backoff limits.

Model = `Model.Retry` (`RetryPolicy::execute` / `from_env`, `ProtocolError::should_retry`,
`CdnClient::download_with_retry`) of the code as it stands after the repair commit
`fix: RetryPolicy::execute clamps the first backoff by max_backoff and no longer panics …`.
Every theorem below is for ALL policies (any `max_attempts`, any initial / maximum backoff
including initial > max and zero), ALL multipliers (the f64 rescaling is the arbitrary function
`scale`, `none` = a value `Duration` cannot hold: negative, NaN, too large), ALL jitter sources
`jit` and ALL outcome scripts of any length. `Arith.pinned` is the arithmetic of the pinned
snapshot; the three `pinned_…` theorems are the Lean counter-witnesses of the defects that were
repaired (the same inputs are corpus cases replayed on the real code on every run).
-/
import Cascette.Proofs.Retry
import Cascette.Proofs.RetryTie
import Cascette.Proofs.RetryExt
namespace Cascette.Props.C14
open Cascette.Model.Retry Cascette.Spec.Retry Cascette.Proofs.Retry
open Cascette.Model.RetryOps Cascette.Model.RetryEnv Cascette.Model.RetryClock
open Cascette.Proofs.RetryTie Cascette.Proofs.RetryExt

/-- the backoff value in force at the k-th retry under policy `p` (current code) -/
abbrev backoffSeq (scale : Nat → Option Nat) (p : Policy) (k : Nat) : Nat :=
  backoffAt (nextBackoff scale p) (min p.initialBackoff p.maxBackoff) k

/-! ### bounded -/

/-- The closure is called at most `max_attempts + 1` times — whatever the duration arithmetic does
(any `A`, so also for the pinned snapshot). -/
theorem attempts_le_max_plus_one (A : Arith) (p : Policy) (jit : Nat → Nat → Nat) (outs : List Outcome) :
    (execute A p jit outs).calls ≤ p.maxAttempts + 1 := by
  have := loop_calls_le A p jit 0 (A.first p) outs
  simpa [execute] using this

/-- Exactly the number of attempts the specification counts on the outcome classes: up to and
including the first success / non-retryable error, at most `max_attempts + 1`. -/
theorem attempts_eq_spec (scale : Nat → Option Nat) (p : Policy) (jit : Nat → Nat → Nat) (outs : List Outcome) :
    (execute (Arith.fixed scale) p jit outs).calls = attempts p.maxAttempts (outs.map Outcome.cls) := by
  have := loop_fixed_calls_eq_attempts scale p jit 0 (min p.initialBackoff p.maxBackoff) outs
  simpa [execute, Arith.fixed] using this

/-- At most `max_attempts` sleeps. -/
theorem sleeps_le_max_attempts (scale : Nat → Option Nat) (p : Policy) (jit : Nat → Nat → Nat)
    (outs : List Outcome) : (execute (Arith.fixed scale) p jit outs).delays.length ≤ p.maxAttempts := by
  refine Nat.le_of_not_lt fun hlt => ?_
  obtain ⟨d, hd⟩ : ∃ d, (execute (Arith.fixed scale) p jit outs).delays[p.maxAttempts]? = some d :=
    ⟨_, List.getElem?_eq_getElem hlt⟩
  obtain ⟨_, _, _, h, _⟩ := loop_fixed_delay scale p jit outs 0 _ p.maxAttempts d hd
  omega

/-- One sleep between consecutive attempts and none after the deciding attempt. -/
theorem one_sleep_between_attempts (scale : Nat → Option Nat) (p : Policy) (jit : Nat → Nat → Nat)
    (outs : List Outcome) (h : (execute (Arith.fixed scale) p jit outs).result ≠ .starved) :
    (execute (Arith.fixed scale) p jit outs).delays.length + 1 = (execute (Arith.fixed scale) p jit outs).calls := by
  have := loop_fixed_delays_length scale p jit 0 (min p.initialBackoff p.maxBackoff) outs
  rw [execute_fixed] at h ⊢
  simpa [h] using this

/-! ### ordered: stops at the first success / first non-retryable error / returns the last error -/

/-- After any number `≤ max_attempts` of retryable errors the first success is returned, and the
closure is not called again (`post` is never looked at). -/
theorem stops_at_first_ok (scale : Nat → Option Nat) (p : Policy) (jit : Nat → Nat → Nat)
    (pre post : List Outcome) (v : Nat) (hpre : ∀ o ∈ pre, Retryable o) (hlen : pre.length ≤ p.maxAttempts) :
    (execute (Arith.fixed scale) p jit (pre ++ .ok v :: post)).result = .ok v ∧
    (execute (Arith.fixed scale) p jit (pre ++ .ok v :: post)).calls = pre.length + 1 ∧
    (execute (Arith.fixed scale) p jit (pre ++ .ok v :: post)).delays.length = pre.length := by
  obtain ⟨h1, h2, h3⟩ := loop_fixed_prefix scale p jit pre 0 (min p.initialBackoff p.maxBackoff)
    (.ok v :: post) hpre (by omega)
  simp only [loop, Nat.zero_add, List.length_nil] at h1 h2 h3
  rw [execute_fixed]
  exact ⟨h2, by omega, by omega⟩

/-- … the first non-retryable error is returned at once. -/
theorem stops_at_first_fatal (scale : Nat → Option Nat) (p : Policy) (jit : Nat → Nat → Nat)
    (pre post : List Outcome) (e : Err) (he : e.shouldRetry = false)
    (hpre : ∀ o ∈ pre, Retryable o) (hlen : pre.length ≤ p.maxAttempts) :
    (execute (Arith.fixed scale) p jit (pre ++ .err e :: post)).result = .err e ∧
    (execute (Arith.fixed scale) p jit (pre ++ .err e :: post)).calls = pre.length + 1 := by
  obtain ⟨h1, h2, _⟩ := loop_fixed_prefix scale p jit pre 0 (min p.initialBackoff p.maxBackoff)
    (.err e :: post) hpre (by omega)
  rw [loop_stop _ p jit _ _ e post (Or.inl he)] at h1 h2
  rw [execute_fixed]
  dsimp only at h1 h2
  exact ⟨h2, by omega⟩

/-- … and when `max_attempts` retryable errors have been retried, the error of attempt
`max_attempts + 1` — the last one — is returned, retryable or not. -/
theorem returns_last_error (scale : Nat → Option Nat) (p : Policy) (jit : Nat → Nat → Nat)
    (pre post : List Outcome) (e : Err)
    (hpre : ∀ o ∈ pre, Retryable o) (hlen : pre.length = p.maxAttempts) :
    (execute (Arith.fixed scale) p jit (pre ++ .err e :: post)).result = .err e ∧
    (execute (Arith.fixed scale) p jit (pre ++ .err e :: post)).calls = p.maxAttempts + 1 := by
  obtain ⟨h1, h2, _⟩ := loop_fixed_prefix scale p jit pre 0 (min p.initialBackoff p.maxBackoff)
    (.err e :: post) hpre (by omega)
  rw [loop_stop _ p jit _ _ e post (Or.inr (by omega))] at h1 h2
  rw [execute_fixed]
  dsimp only at h1 h2
  exact ⟨h2, by omega⟩

/-- Whenever the call returns, what it returns is the outcome of the last attempt it made: "stops
… and returns that result (or the last error)". -/
theorem result_is_last_attempt (scale : Nat → Option Nat) (p : Policy) (jit : Nat → Nat → Nat)
    (outs : List Outcome) (h : (execute (Arith.fixed scale) p jit outs).result ≠ .starved) :
    ∃ o, outs[(execute (Arith.fixed scale) p jit outs).calls - 1]? = some o ∧
      o.toResult = (execute (Arith.fixed scale) p jit outs).result := by
  rw [execute_fixed] at h ⊢
  exact loop_fixed_result scale p jit 0 _ outs h

/-- Outcomes after the deciding attempt are never requested: extending the script changes
nothing. -/
theorem never_reads_past_decision (A : Arith) (p : Policy) (jit : Nat → Nat → Nat) (outs extra : List Outcome)
    (h : (execute A p jit outs).result ≠ .starved) :
    execute A p jit (outs ++ extra) = execute A p jit outs :=
  loop_append A p jit 0 (A.first p) outs extra h

/-! ### delays -/

/-- Every sleep follows a retried error of attempt `i + 1 ≤ max_attempts` and lasts exactly the
server's hint when that error carried one, otherwise the backoff value `backoffSeq i`
(= min(initial, max), then rescaled and clamped once per retry), plus the jitter drawn. -/
theorem delay_is_hint_or_backoff (scale : Nat → Option Nat) (p : Policy) (jit : Nat → Nat → Nat)
    (outs : List Outcome) (i d : Nat) (h : (execute (Arith.fixed scale) p jit outs).delays[i]? = some d) :
    ∃ e, outs[i]? = some (.err e) ∧ e.shouldRetry = true ∧ i < p.maxAttempts ∧
      d = jittered p jit (i + 1) (baseDelay e.retryAfterHint (backoffSeq scale p i)) := by
  obtain ⟨e, h1, h2, h3, h4⟩ := loop_fixed_delay scale p jit outs 0 _ i d h
  exact ⟨e, h1, h2, by omega, by simpa [Arith.fixed] using h4⟩

/-- The backoff never exceeds `max_backoff` — from the first retry on (full strength; false of the
pinned snapshot, see `pinned_first_delay_exceeds_max`). -/
theorem backoff_le_max (scale : Nat → Option Nat) (p : Policy) (k : Nat) :
    backoffSeq scale p k ≤ p.maxBackoff :=
  backoffAt_le _ _ (nextBackoff_le scale p) k _ (Nat.min_le_right _ _)

/-- With a multiplier that does not shrink durations the backoff grows monotonically (up to the
clamp). -/
theorem backoff_nondecreasing (scale : Nat → Option Nat) (p : Policy)
    (hs : ∀ x, ∃ d, scale x = some d ∧ x ≤ d) (k : Nat) :
    backoffSeq scale p k ≤ backoffSeq scale p (k + 1) :=
  backoffAt_mono scale p hs _ (Nat.min_le_right _ _) k

/-- Bounds on every sleep, for a jitter source that adds at most 30 %: a hinted sleep is the hint
(+ ≤ 30 %), any other sleep is at most `max_backoff` (+ ≤ 30 %); without jitter the hint exactly
and at most `max_backoff`. -/
theorem delay_bounds (scale : Nat → Option Nat) (p : Policy) (jit : Nat → Nat → Nat)
    (hjit : ∀ k b, 10 * jit k b ≤ 3 * b)
    (outs : List Outcome) (i d : Nat) (h : (execute (Arith.fixed scale) p jit outs).delays[i]? = some d) :
    ∃ e, outs[i]? = some (.err e) ∧
      ((∃ hint, e.retryAfterHint = some hint ∧ d ≤ hint + 3 * hint / 10 ∧ (p.jitter = false → d = hint)) ∨
       (e.retryAfterHint = none ∧ d ≤ p.maxBackoff + 3 * p.maxBackoff / 10 ∧
          (p.jitter = false → d ≤ p.maxBackoff))) := by
  obtain ⟨e, h1, _, _, h4⟩ := delay_is_hint_or_backoff scale p jit outs i d h
  refine ⟨e, h1, ?_⟩
  have hb := backoff_le_max scale p i
  have key : ∀ base, jittered p jit (i + 1) base ≤ base + 3 * base / 10 ∧
      (p.jitter = false → jittered p jit (i + 1) base = base) := by
    intro base
    have := hjit (i + 1) base
    unfold jittered
    cases p.jitter
    · simp
    · simp only [↓reduceIte, Bool.true_eq_false, false_implies, and_true]
      exact Nat.le_trans (Nat.min_le_left _ _) (by omega)
  cases hh : e.retryAfterHint with
  | some hint =>
    left
    rw [hh] at h4
    simp only [baseDelay] at h4
    exact ⟨hint, rfl, h4 ▸ (key hint).1, fun hj => h4 ▸ (key hint).2 hj⟩
  | none =>
    right
    rw [hh] at h4
    simp only [baseDelay] at h4
    have k1 := (key (backoffSeq scale p i)).1
    have k2 := (key (backoffSeq scale p i)).2
    refine ⟨rfl, by rw [h4]; omega, fun hj => by rw [h4, k2 hj]; exact hb⟩

/-- A Retry-After hint comes only from a rate-limited error, and such an error is retried. -/
theorem hint_only_from_rate_limited (e : Err) (h : Nat) (hh : e.retryAfterHint = some h) :
    e = .rateLimited (some h) ∧ e.shouldRetry = true := by
  cases e <;> simp_all [Err.retryAfterHint, Err.shouldRetry]

/-! ### no panic, no endless loop -/

/-- No policy, multiplier (including values `Duration` rejects: `scale _ = none`), jitter source or
outcome script makes the current code reach a panicking operation (full strength; false of the
pinned snapshot, see the two `pinned_panics_…` witnesses). -/
theorem no_panic (scale : Nat → Option Nat) (p : Policy) (jit : Nat → Nat → Nat) (outs : List Outcome) :
    (execute (Arith.fixed scale) p jit outs).result ≠ .panic :=
  loop_fixed_no_panic scale p jit 0 _ outs

/-- For every infinite source of outcomes `f` (the closure), the call returns after looking at no
more than the first `max_attempts + 1` outcomes: the run on that prefix is complete (never
`starved`) and the run on any longer prefix is the same run. Together with
`sleeps_le_max_attempts` and `delay_bounds` the total wait is finite and bounded. -/
theorem terminates (A : Arith) (p : Policy) (jit : Nat → Nat → Nat) (f : Nat → Outcome) :
    (execute A p jit ((List.range (p.maxAttempts + 1)).map f)).result ≠ .starved ∧
    ∀ n, p.maxAttempts + 1 ≤ n →
      execute A p jit ((List.range n).map f) = execute A p jit ((List.range (p.maxAttempts + 1)).map f) := by
  have h0 : (execute A p jit ((List.range (p.maxAttempts + 1)).map f)).result ≠ .starved :=
    loop_not_starved A p jit 0 _ _ (by simp)
  refine ⟨h0, fun n hn => ?_⟩
  obtain ⟨m, rfl⟩ : ∃ m, n = p.maxAttempts + 1 + m := ⟨n - (p.maxAttempts + 1), by omega⟩
  rw [List.range_add, List.map_append]
  exact never_reads_past_decision A p jit _ _ h0

/-! ### the defects of the pinned snapshot (repaired), as checked counter-witnesses -/

/-- Pinned arithmetic, initial 50 s > max 1 s, one retry: the sleep is 50 s. (`backoff_le_max`
fails for `Arith.pinned`; with `Arith.fixed` the same run sleeps 1 s.) -/
theorem pinned_first_delay_exceeds_max :
    (execute (Arith.pinned fun b => some (min (2 * b) 1000000000))
        ⟨1, 50000000000, 1000000000, false⟩ (fun _ _ => 0) [.err .timeout, .ok 1]).delays = [50000000000] ∧
    (execute (Arith.fixed fun b => some (min (2 * b) 1000000000))
        ⟨1, 50000000000, 1000000000, false⟩ (fun _ _ => 0) [.err .timeout, .ok 1]).delays = [1000000000] := by
  decide

/-- Pinned arithmetic, a product `Duration::from_secs_f64` rejects (multiplier −1): panic after the
first sleep. -/
theorem pinned_panics_on_rejected_product :
    (execute (Arith.pinned fun _ => none) ⟨3, 100000000, 10000000000, false⟩ (fun _ _ => 0)
        [.err .timeout, .ok 1]).result = .panic := by
  decide

/-- Pinned arithmetic, default policy (jitter on), `Retry-After` = `u64::MAX` seconds, jitter 30 %:
`delay += …` overflows and panics (any jitter ≥ 1 s does). -/
theorem pinned_panics_on_jitter_overflow :
    (execute (Arith.pinned fun b => some b) ⟨3, 100000000, 10000000000, true⟩ (fun _ b => 3 * b / 10)
        [.err (.rateLimited (some (18446744073709551615 * 1000000000))), .ok 1]).result = .panic := by
  decide

/-! ### configuration read from the environment -/

/-- `from_env` is total (it is a function: no error, no panic path) and every value it can produce
lies in the range of its Rust type: `u32` retries, `u64` milliseconds, `u64` seconds. -/
theorem fromEnv_ranges {μ : Type} (parseF64 : List Char → Option μ) (two : μ) (e : EnvIn) :
    (fromEnv parseF64 two e).1.maxAttempts < 2 ^ 32 ∧
    (∃ ms, ms < 2 ^ 64 ∧ (fromEnv parseF64 two e).1.initialBackoff = ms * 1000000) ∧
    (∃ s, s < 2 ^ 64 ∧ (fromEnv parseF64 two e).1.maxBackoff = s * 1000000000) := by
  have key : ∀ (limit dflt : Nat) (o : Option (List Char)), dflt < limit →
      ((o.bind (parseUnsigned limit)).getD dflt) < limit := by
    intro limit dflt o hd
    cases h : o.bind (parseUnsigned limit) with
    | none => simpa using hd
    | some v =>
      cases o with
      | none => simp at h
      | some s => simp only [Option.bind_some] at h; simpa using parseUnsigned_lt limit s v h
  refine ⟨key _ 3 e.retries (by decide), ⟨_, key _ 100 e.backoff (by decide), rfl⟩,
    ⟨_, key _ 10 e.maxBackoff (by decide), rfl⟩⟩

/-- Hostile values are reachable: every `u32` retry count, every `u64` millisecond / second value
and both jitter settings can be written into the variables (so the theorems above must, and do,
hold for all of them). -/
theorem fromEnv_every_value_reachable {μ : Type} (parseF64 : List Char → Option μ) (two : μ)
    (n ms s : Nat) (j : Bool) (hn : n < 2 ^ 32) (hms : ms < 2 ^ 64) (hs : s < 2 ^ 64) :
    ∃ e : EnvIn, (fromEnv parseF64 two e).1 = ⟨n, ms * 1000000, s * 1000000000, j⟩ := by
  obtain ⟨sn, hsn⟩ := parseUnsigned_surjective _ n hn
  obtain ⟨sms, hsms⟩ := parseUnsigned_surjective _ ms hms
  obtain ⟨ss, hss⟩ := parseUnsigned_surjective _ s hs
  refine ⟨⟨some sn, some sms, some ss, none, some (if j then "true".toList else "false".toList)⟩, ?_⟩
  simp only [fromEnv, Option.bind_some, hsn, hsms, hss, Option.getD_some]
  cases j <;> rfl

/-- Nothing set (or nothing parsable): the documented defaults 3 / 100 ms / 10 s / 2.0 / true. -/
theorem fromEnv_unset_is_default {μ : Type} (parseF64 : List Char → Option μ) (two : μ) :
    fromEnv parseF64 two ⟨none, none, none, none, none⟩ = (defaultPolicy, two) := by
  rfl

/-- Whatever the five variables contain, the policy read from them runs without panic, within
`max_attempts + 1` attempts and with every unhinted, unjittered sleep ≤ `max_backoff`. -/
theorem env_policy_safe {μ : Type} (parseF64 : List Char → Option μ) (two : μ) (e : EnvIn)
    (scale : Nat → Option Nat) (jit : Nat → Nat → Nat) (outs : List Outcome) :
    let p := (fromEnv parseF64 two e).1
    (execute (Arith.fixed scale) p jit outs).result ≠ .panic ∧
    (execute (Arith.fixed scale) p jit outs).calls ≤ p.maxAttempts + 1 ∧
    ∀ k, backoffSeq scale p k ≤ p.maxBackoff :=
  ⟨no_panic _ _ _ _, attempts_le_max_plus_one _ _ _ _, backoff_le_max _ _⟩

/-! ### CDN download: which statuses are retried -/

/-- `download_with_retry`: a non-2xx response becomes an error that is retried iff the status is
429 or 5xx. -/
theorem cdn_status_retry_iff (status : Nat) (ra : Option (List Char)) (k : Nat)
    (h2 : ¬ (200 ≤ status ∧ status < 300)) :
    ∃ e, classifyStatus status ra k = .err e ∧
      (e.shouldRetry = true ↔ (status = 429 ∨ (500 ≤ status ∧ status < 600))) :=
  classify_retry_iff status ra k h2

/-- A response that is neither 2xx, 429 nor 5xx (a client error, a redirect) ends the download
with exactly one request. -/
theorem cdn_client_error_single_request (scale : Nat → Option Nat) (jit : Nat → Nat → Nat)
    (status : Nat) (ra : Option (List Char)) (rest : List Outcome)
    (h2 : ¬ (200 ≤ status ∧ status < 300)) (h4 : status ≠ 429) (h5 : ¬ (500 ≤ status ∧ status < 600)) :
    (execute (Arith.fixed scale) defaultPolicy jit (classifyStatus status ra 0 :: rest)).calls = 1 ∧
    (execute (Arith.fixed scale) defaultPolicy jit (classifyStatus status ra 0 :: rest)).result =
      .err (.httpStatus status) := by
  obtain ⟨e, he, hiff⟩ := classify_retry_iff status ra 0 h2
  have hne : e.shouldRetry = false := by
    cases hs : e.shouldRetry
    · rfl
    · exact absurd (hiff.mp hs) (by omega)
  have hcls : classifyStatus status ra 0 = .err (.httpStatus status) := by
    unfold classifyStatus; rw [if_neg h2, if_neg h4, if_neg h5]
  rw [hcls] at he
  cases he
  have := stops_at_first_fatal scale defaultPolicy jit [] rest (.httpStatus status) hne (by simp) (by simp)
  rw [hcls]
  simpa using And.symm this

/-- The CDN download issues at most 4 requests (default policy: 3 retries). -/
theorem cdn_at_most_four_requests (A : Arith) (jit : Nat → Nat → Nat) (outs : List Outcome) :
    (execute A defaultPolicy jit outs).calls ≤ 4 :=
  attempts_le_max_plus_one A defaultPolicy jit outs

/-! ### extension 1: the Rust text itself (translator leg, Generated/RetrySrc + Proofs/RetryTie)

`genLoop shape (pieces ops mul draw p)` is `RetryPolicy::execute` assembled ONLY from what
lib/rs2lean_retry.py reads in retry.rs on every run: the arms of the `match` in source order (Rust's
first-match rule), the guard `!e.should_retry() || attempt >= self.max_attempts`, the statements of
the retry arm in source order, the `if let` that prefers the hint, the jitter block, the f64
expression with its clamps in source order, for EVERY f64 arithmetic `ops`. -/

/-- The loop read from the source is the model the theorems above are about. -/
theorem source_execute_is_model {F : Type} (ops : Ops F) (mul : F) (draw : Nat → F) (p : Policy)
    (outs : List Outcome) :
    genLoop shape (pieces ops mul draw p) p.maxAttempts shape.attemptInit
        (Cascette.Generated.RetrySrc.first_backoff p.initialBackoff p.maxBackoff) outs =
      execute (Arith.fixed (scaleOf ops mul p)) p (jitOf ops draw) outs :=
  gen_execute_eq_model ops mul draw p outs

/-- Hence the property holds of the loop read from the source, whatever the f64 arithmetic does
(IEEE, exact, or rejecting every value): no panic, at most `max_attempts + 1` attempts and
`max_attempts` sleeps, the attempt count of the specification, and every sleep is the hint or the
clamped backoff sequence (+ jitter). -/
theorem source_execute_safe {F : Type} (ops : Ops F) (mul : F) (draw : Nat → F) (p : Policy)
    (outs : List Outcome) :
    let t := genLoop shape (pieces ops mul draw p) p.maxAttempts shape.attemptInit
        (Cascette.Generated.RetrySrc.first_backoff p.initialBackoff p.maxBackoff) outs
    t.result ≠ .panic ∧ t.calls ≤ p.maxAttempts + 1 ∧ t.delays.length ≤ p.maxAttempts ∧
    t.calls = attempts p.maxAttempts (outs.map Outcome.cls) ∧
    ∀ i d, t.delays[i]? = some d → ∃ e, outs[i]? = some (.err e) ∧ e.shouldRetry = true ∧
      d = jittered p (jitOf ops draw) (i + 1)
            (baseDelay e.retryAfterHint (backoffSeq (scaleOf ops mul p) p i)) ∧
      backoffSeq (scaleOf ops mul p) p i ≤ p.maxBackoff := by
  intro t
  have ht : t = execute (Arith.fixed (scaleOf ops mul p)) p (jitOf ops draw) outs :=
    gen_execute_eq_model ops mul draw p outs
  rw [ht]
  refine ⟨no_panic _ _ _ _, attempts_le_max_plus_one _ _ _ _, sleeps_le_max_attempts _ _ _ _,
    attempts_eq_spec _ _ _ _, fun i d h => ?_⟩
  obtain ⟨e, h1, h2, _, h4⟩ := delay_is_hint_or_backoff _ p _ outs i d h
  exact ⟨e, h1, h2, h4, backoff_le_max _ p i⟩

/-! ### extension 2: "an exponentially growing delay" -/

/-- With an exact integer multiplier `m ≥ 1` (2.0 by default) the backoff in force at the k-th
retry is `min(initial, max) · m^k`, cut at `max_backoff`: it grows exponentially until it reaches
the maximum and stays there. -/
theorem backoff_exponential (p : Policy) (m : Nat) (hm : 1 ≤ m) (k : Nat) :
    backoffSeq (fun b => some (m * b)) p k =
      min (min p.initialBackoff p.maxBackoff * m ^ k) p.maxBackoff := by
  have key : ∀ (k b : Nat), b ≤ p.maxBackoff →
      backoffAt (nextBackoff (fun b => some (m * b)) p) b k = min (b * m ^ k) p.maxBackoff := by
    intro k
    induction k with
    | zero => intro b hb; simp only [backoffAt, Nat.pow_zero, Nat.mul_one]; omega
    | succ k ih =>
      intro b hb
      have hP : 1 ≤ m ^ k := Nat.one_le_pow _ _ hm
      have hstep : nextBackoff (fun b => some (m * b)) p b = min (m * b) p.maxBackoff := rfl
      have hmul : b * m ^ (k + 1) = m * b * m ^ k := by
        rw [Nat.pow_succ, Nat.mul_comm (m ^ k) m, ← Nat.mul_assoc, Nat.mul_comm b m]
      rw [backoffAt, hstep, ih _ (Nat.min_le_right _ _), hmul]
      by_cases h : m * b ≤ p.maxBackoff
      · rw [Nat.min_eq_left h]
      · have h1 : p.maxBackoff ≤ p.maxBackoff * m ^ k := Nat.le_mul_of_pos_right _ hP
        have h2 : m * b ≤ m * b * m ^ k := Nat.le_mul_of_pos_right _ hP
        rw [Nat.min_eq_right (by omega : p.maxBackoff ≤ m * b)]
        omega
  exact key k _ (Nat.min_le_right _ _)

/-- The default policy under exact arithmetic: 100 ms, 200 ms, 400 ms, … cut at 10 s. -/
theorem default_backoff_doubles (k : Nat) :
    backoffSeq (fun b => some (2 * b)) defaultPolicy k = min (100000000 * 2 ^ k) 10000000000 := by
  have := backoff_exponential defaultPolicy 2 (by decide) k
  simpa [defaultPolicy] using this

/-! ### extension 3: `from_env` on the parsers as the Rust library writes them -/

/-- `from_env` with `from_str_radix`'s step-wise `checked_mul`/`checked_add` loop and the f64
grammar of `dec2flt` inside the model (`fromEnvC`) is the `fromEnv` of the theorems above, with
the f64 parser instantiated by "accepted by the grammar, then the value". -/
theorem fromEnv_library_parsers {μ : Type} (valueOf : List Char → μ) (two : μ) (e : EnvIn) :
    fromEnvC valueOf two e = fromEnvG valueOf two e := by
  unfold fromEnvC fromEnvG fromEnv
  have h32 : parseUnsignedChecked (2 ^ 32) = parseUnsigned (2 ^ 32) :=
    funext fun s => parseUnsignedChecked_eq _ (by decide) s
  have h64 : parseUnsignedChecked (2 ^ 64) = parseUnsigned (2 ^ 64) :=
    funext fun s => parseUnsignedChecked_eq _ (by decide) s
  rw [h32, h64]

/-- `fromEnv_ranges` on the library-level parsers: total, and every field in the range of its
Rust type. -/
theorem fromEnvC_ranges {μ : Type} (valueOf : List Char → μ) (two : μ) (e : EnvIn) :
    (fromEnvC valueOf two e).1.maxAttempts < 2 ^ 32 ∧
    (∃ ms, ms < 2 ^ 64 ∧ (fromEnvC valueOf two e).1.initialBackoff = ms * 1000000) ∧
    (∃ s, s < 2 ^ 64 ∧ (fromEnvC valueOf two e).1.maxBackoff = s * 1000000000) := by
  rw [fromEnv_library_parsers]
  exact fromEnv_ranges _ two e

/-- The multiplier read from the environment: the value of the string when `dec2flt` accepts it,
otherwise (unset, not Unicode, rejected) the default — nothing else can happen. -/
theorem fromEnvC_multiplier {μ : Type} (valueOf : List Char → μ) (two : μ) (e : EnvIn) :
    (fromEnvC valueOf two e).2 =
      match e.multiplier with
      | some s => if f64Accepts s then valueOf s else two
      | none => two := by
  unfold fromEnvC
  cases e.multiplier with
  | none => rfl
  | some s => simp only [Option.bind_some]; split <;> rfl

/-- (test, by evaluation) hostile multipliers are spellable: `NaN`, `-1`, `inf`, `-inf`, `1e999`,
`-0`, `.5`, `5.`, `+2` are accepted; `1e`, `.`, `0x2`, ` 2`, the empty string and `+` are not. -/
theorem f64_grammar_samples :
    (['N','a','N'] :: ['-','1'] :: ['i','n','f'] :: ['-','I','N','F'] :: ['1','e','9','9','9'] ::
      ['-','0'] :: ['.','5'] :: ['5','.'] :: ['+','2'] :: ['I','n','f','i','n','i','t','y'] :: []).all f64Accepts = true ∧
    (['1','e'] :: ['.'] :: ['0','x','2'] :: [' ','2'] :: [] :: ['+'] :: ['e','5'] :: ['1','e','+'] ::
      ['n','a','n','0'] :: ['i','n','f','i','n','i','t'] :: []).all (fun s => !f64Accepts s) = true := by
  decide

/-! ### extension 4: the observer — tokio's millisecond timer and its 30-year clamp -/

/-- The check compares delays through `view` (capped at 30 years, whole ms rounded up). That is
sound for the way tokio arms the timer: for every duration `d` — below the clamp, above it, or so
large that `Instant::now() + d` overflows and tokio substitutes now + 30 years — the view of what
the paused clock shows equals the view of `d` itself, provided the clock can still be advanced by
30 years (`farFuture ≤ room`, else `far_future()` itself would overflow). No false disagreement,
and below the clamp nothing is hidden (`view_exact`). -/
theorem observed_delay_view_sound (room d : Nat) (hroom : farFuture ≤ room) :
    view (observed room d) = view d ∧
    (d ≤ farFuture → view d = (d + 999999) / 1000000) :=
  ⟨view_observed room d hroom, view_exact d⟩

/-- What the clamp hides (stated, not hidden): all delays of 30 years and more have the same
view. -/
theorem delays_above_clamp_indistinguishable (d : Nat) (h : farFuture ≤ d) : view d = view farFuture :=
  view_above d h

/-! ### non-vacuity: the hypotheses are met by concrete, non-trivial instances -/

example : ∀ o ∈ [Outcome.err .timeout, .err (.rateLimited (some 5))], Retryable o := by
  intro o ho
  simp only [List.mem_cons, List.not_mem_nil, or_false] at ho
  rcases ho with rfl | rfl
  · exact ⟨_, rfl, rfl⟩
  · exact ⟨_, rfl, rfl⟩
-- a jitter source meeting the 30 % law and not identically zero
example : ∀ k b : Nat, 10 * ((fun _ b => 3 * b / 10) k b) ≤ 3 * b := by intro k b; simp only; omega
-- a non-shrinking scale (multiplier 2)
example : ∀ x : Nat, ∃ d, (fun b => some (2 * b)) x = some d ∧ x ≤ d := fun x => ⟨2 * x, rfl, by omega⟩
-- a complete run with two sleeps: 100 ms, then the 5 s hint, result Ok
example : execute (Arith.fixed fun b => some (2 * b)) ⟨3, 100000000, 10000000000, false⟩ (fun _ _ => 0)
    [.err .timeout, .err (.rateLimited (some 5000000000)), .ok 7] = ⟨3, [100000000, 5000000000], .ok 7⟩ := by
  decide
-- a status outside 2xx
example : ¬ (200 ≤ 404 ∧ 404 < 300) := by decide
-- an integer multiplier ≥ 1, and a run where the exponential sequence is visible and then cut
example : backoffSeq (fun b => some (2 * b)) ⟨5, 100, 1000, false⟩ 3 = 800 ∧
    backoffSeq (fun b => some (2 * b)) ⟨5, 100, 1000, false⟩ 4 = 1000 := by decide
-- a clock with room for the clamp; a duration that does not fit it is seen as 30 years
example : farFuture ≤ 2 * farFuture ∧ observed (2 * farFuture) (3 * farFuture) = farFuture := by decide
-- a jitter draw inside the source's range (1/4), as required by `jitter_law_exact`
example : Cascette.Generated.RetrySrc.jitter_lo.1 * 4 ≤ 1 * Cascette.Generated.RetrySrc.jitter_lo.2 ∧
    1 * Cascette.Generated.RetrySrc.jitter_hi.2 < Cascette.Generated.RetrySrc.jitter_hi.1 * 4 := by decide

end Cascette.Props.C14
