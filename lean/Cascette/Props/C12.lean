/-
Props/C12 — layered caching is coherent and never serves content that fails validation.

Model: `Model/MultiLayer` (MultiLayerCacheImpl after fix 9468e76) over the C10 layer models.
All theorems are for every environment (promotion strategy, hooks, victim choice of the memory
layers), every state and every key / history; nothing is assumed about the hash.

 1 ml_get_first_holder            get = first layer, in order, whose own get answers a value
   ml_getv_first_holder           same for get_with_validation whenever it hands out a value
 2 ml_found_in_lower_only         a value held only below the first layer is found
   ml_put_to_layer_found          … in particular right after put_to_layer
 3 ml_remove_all_layers           after remove no layer has anything for the key
   ml_absent_preserved            … and that stays so until the key is written again
   ml_removed_not_served          … so get answers none after remove ; any ops not writing the key
 4 ml_clear_all_layers / ml_cleared_not_served
 5 ml_batch_get_eq_gets / ml_batch_put_eq_puts
 6 ml_validation_sound / ml_validation_sound_md5 / ml_putv_sound
 7 ml_corrupt_dropped_everywhere / ml_corrupt_not_served_later
 8 ml_no_self_deadlock            no call requests the tracker lock while holding it
   ml_self_deadlock_pinned        the pinned tree did (counter-witness, kept for the record)
 9 ml_latest_put ⟂               FALSE of the tree (finding ml-stale-lower-layer):
   ml_latest_put_counterexample   put_to_layer(k,v1,1); put(k,v2); put(k',_) ; get k = v1
   ml_shadowed_counterexample     put(k,v1); put_to_layer(k,v2,1); get k = v1
   ml_latest_put_partial          for histories whose writes of a key find every OTHER layer
                                  without that key (and without foreign file writes) every value
                                  handed out is the reference map's
10 ml_ttl_policy_victims_irrelevant    a put into a Ttl-policy memory layer ignores the victims function
   ml_ttl_policy_put_keeps_live        … and keeps every live entry of every other key
   ml_ttl_first_layer_put_keeps_served … so a put never makes get lose a value such a first layer serves
   (items 1-9 hold for every victims function, i.e. for all five eviction policies)
-/
import Cascette.Proofs.MultiLayer
namespace Cascette.Props.C12
open Cascette.Spec.CacheMap (Key Val Ref)
open Cascette.Spec
open Cascette.Model.CacheAssoc Cascette.Model.MultiLayer Cascette.Proofs.CacheAssoc
open Cascette.Model
open Cascette.Proofs.MultiLayer

/-! ## 1  search order -/

/-- `get` answers with the value of the first layer, in configuration order, whose own `get`
answers with a value (a miss or an error of a layer passes the question on); `none` iff no
layer answers. -/
theorem ml_get_first_holder (env : Env) (s : State) (k : Key) :
    (MultiLayer.get env s k).out = .val (firstHit (peeks s k)) := by
  have h := scan_out k s.slots 0
  unfold peeks
  cases hq : (scan k s.slots 0).2 with
  | none => rw [hq] at h; rw [get_of_none env s k hq, ← h]; rfl
  | some p => obtain ⟨i, v⟩ := p; rw [hq] at h; rw [get_of_some env s k hq, ← h]; rfl

/-- whenever `get_with_validation` hands out a value it is that same first holder's value -/
theorem ml_getv_first_holder (env : Env) (s : State) (k : Key) (ock : Option CK) (o : Option Val)
    (h : (getv env s k ock).out = .val o) : o = firstHit (peeks s k) := by
  have hs := scan_out k s.slots 0
  unfold peeks
  cases hq : (scan k s.slots 0).2 with
  | none => rw [hq] at hs; rw [getv_of_none env s k ock hq] at h; rw [← hs]; cases h; rfl
  | some p =>
    obtain ⟨i, v⟩ := p
    rw [hq] at hs
    rw [getv_of_some env s k ock hq] at h
    rw [← hs]
    split at h
    · split at h <;> first | (cases h; rfl) | cases h
    · cases h; rfl

/-! ## 2  found in a slower layer -/

/-- an entry that only a slower layer holds is found: if no layer before `sl` answers with a
value and `sl` does, `get` returns `sl`'s value — whatever the tracker says about the key and
however often it was asked for before (the state `s` is arbitrary). -/
theorem ml_found_in_lower_only (env : Env) (s : State) (k : Key) (pre post : List Slot) (sl : Slot) (v : Val)
    (hs : s.slots = pre ++ sl :: post) (hpre : ∀ p ∈ pre, ∀ w, p.layer.peek k ≠ .hit w)
    (hv : sl.layer.peek k = .hit v) : (MultiLayer.get env s k).out = .val (some v) := by
  rw [ml_get_first_holder]
  unfold peeks
  rw [hs, List.map_append, firstHit_append]
  · simp only [List.map_cons, hv, firstHit]
  · intro x hx w
    obtain ⟨p, hp, rfl⟩ := List.mem_map.mp hx
    exact hpre p hp w

theorem firstHit_modifyAt (k : Key) (v : Val) (f : Layer → Layer) (hf : ∀ l, (f l).peek k = .hit v) :
    ∀ (slots : List Slot) (i : Nat), i < slots.length →
      (∀ j sl, j < i → slots[j]? = some sl → Absent sl.layer k) →
      firstHit ((modifyAt f slots i).map (fun sl => sl.layer.peek k)) = some v := by
  intro slots
  induction slots with
  | nil => intro i hi; cases hi
  | cons sl0 rest ih =>
    intro i hi ha
    cases i with
    | zero => simp only [modifyAt, List.map_cons, hf, firstHit]
    | succ j =>
      have h0 : Absent sl0.layer k := ha 0 sl0 (Nat.succ_pos j) rfl
      have hr := ih j (Nat.lt_of_succ_lt_succ hi) (fun j' sl hj hsl => ha (j' + 1) sl (Nat.succ_lt_succ hj) hsl)
      simp only [modifyAt, List.map_cons]
      cases hp : sl0.layer.peek k with
      | hit w => exact absurd hp (absent_peek h0 w)
      | miss => simpa only [firstHit] using hr
      | err => simpa only [firstHit] using hr

/-- `put_to_layer(k, v, i)` into an existing layer with a long default TTL, while no faster
layer has the key: the next `get k` returns `v`. -/
theorem ml_put_to_layer_found (env : Env) (s : State) (k : Key) (v : Val) (i : Nat) (hi : i < s.slots.length)
    (hdef : ∀ sl, s.slots[i]? = some sl → sl.layer.defaultShort = false)
    (habove : ∀ j sl, j < i → s.slots[j]? = some sl → Absent sl.layer k) :
    (MultiLayer.get env (putToLayer env s k v i).st k).out = .val (some v) := by
  rw [ml_get_first_holder]
  unfold putToLayer peeks
  rw [if_neg (Nat.not_le.mpr hi)]
  dsimp only
  -- the written layer answers `v`
  obtain ⟨sl, hsl⟩ : ∃ sl, s.slots[i]? = some sl := ⟨s.slots[i], by simp [hi]⟩
  have hd := hdef sl hsl
  -- replace `put` by `putTtl … false` on layer i only: do it through a pointwise-equal function
  have key : ∀ (slots : List Slot) (j : Nat), j < slots.length →
      (∀ sl, slots[j]? = some sl → sl.layer.defaultShort = false) →
      (∀ j' sl, j' < j → slots[j']? = some sl → Absent sl.layer k) →
      firstHit ((modifyAt (fun l => l.put env.victims k v) slots j).map (fun sl => sl.layer.peek k)) = some v := by
    intro slots
    induction slots with
    | nil => intro j hj; cases hj
    | cons sl0 rest ih =>
      intro j hj hdj haj
      cases j with
      | zero =>
        have h0 : sl0.layer.defaultShort = false := hdj sl0 rfl
        simp only [modifyAt, List.map_cons]
        unfold Layer.put
        rw [h0, peek_putTtl_self]; rfl
      | succ j' =>
        have h0 : Absent sl0.layer k := haj 0 sl0 (Nat.succ_pos j') rfl
        have hr := ih j' (Nat.lt_of_succ_lt_succ hj) (fun sl hsl => hdj sl hsl)
          (fun j'' sl hj'' hsl => haj (j'' + 1) sl (Nat.succ_lt_succ hj'') hsl)
        simp only [modifyAt, List.map_cons]
        cases hp : sl0.layer.peek k with
        | hit w => exact absurd hp (absent_peek h0 w)
        | miss => simpa only [firstHit] using hr
        | err => simpa only [firstHit] using hr
  rw [key s.slots i hi hdef habove]

/-! ## 3/4  remove and clear reach every layer -/

/-- no layer has anything it could answer a `get k` with -/
def AllAbsent (s : State) (k : Key) : Prop := ∀ sl ∈ s.slots, Absent sl.layer k

/-- does the operation write key `k` somewhere (a put of any kind, or a foreign file write)?
`promote` is not in the list: it only copies what a layer already holds. -/
def writes (k : Key) : Op → Bool
  | .put k' _ | .putTtl k' _ _ | .putToLayer k' _ _ | .putv k' _ _ | .fset _ k' _ => k' == k
  | .batchPut kvs => kvs.any (fun p => p.1 == k)
  | _ => false

theorem ml_absent_no_layer_answers {s : State} {k : Key} (h : AllAbsent s k) :
    ∀ x ∈ peeks s k, ∀ v, x ≠ .hit v := by
  intro x hx v
  obtain ⟨sl, hsl, rfl⟩ := List.mem_map.mp hx
  exact absent_peek (h sl hsl) v

/-- with nothing for the key in any layer, `get` answers none -/
theorem ml_absent_get_none (env : Env) {s : State} {k : Key} (h : AllAbsent s k) :
    (MultiLayer.get env s k).out = .val none := by
  rw [ml_get_first_holder, firstHit_none (ml_absent_no_layer_answers h)]

/-- after `remove k` no layer has anything for `k` (memory layers: no entry; disk layers: no
file, whether or not the key was indexed) -/
theorem ml_remove_all_layers (s : State) (k : Key) : AllAbsent (remove s k).st k := by
  intro sl hsl
  unfold remove mapSlots at hsl
  obtain ⟨sl0, _, rfl⟩ := List.mem_map.mp hsl
  exact absent_remove_self _ _

/-- after `clear` no layer has anything for any key -/
theorem ml_clear_all_layers (s : State) (k : Key) : AllAbsent (clear s).st k := by
  intro sl hsl
  unfold clear at hsl
  obtain ⟨sl0, _, rfl⟩ := List.mem_map.mp hsl
  exact absent_clear _ _

theorem absent_mapSlots {s : State} {k : Key} (f : Layer → Layer) (hf : ∀ l, Absent l k → Absent (f l) k)
    (h : AllAbsent s k) : ∀ sl ∈ (mapSlots s f).slots, Absent sl.layer k := by
  intro sl hsl
  unfold mapSlots at hsl
  obtain ⟨sl0, h0, rfl⟩ := List.mem_map.mp hsl
  exact hf _ (h sl0 h0)

theorem absent_remove_st {s : State} {k : Key} (k' : Key) (h : AllAbsent s k) : AllAbsent (remove s k').st k :=
  absent_mapSlots _ (fun _ hl => absent_remove_other k' hl) h

theorem absent_put_st (env : Env) {s : State} {k : Key} (k' : Key) (v : Val) (o : Option Bool) (hne : k ≠ k')
    (h : AllAbsent s k) : AllAbsent (putWith env s k' v o).st k := by
  unfold putWith
  cases o with
  | none => exact modifyAt_pres (Absent · k) _ (fun l hl => absent_put env.victims k' v hne hl) s.slots 0 h
  | some c => exact modifyAt_pres (Absent · k) _ (fun l hl => absent_putTtl env.victims k' v c hne hl) s.slots 0 h

theorem absent_getv_st (env : Env) {s : State} {k : Key} (k' : Key) (ock : Option CK) (h : AllAbsent s k) :
    AllAbsent (getv env s k' ock).st k := by
  have hsc := scan_pres (Absent · k) k' (fun l hl => absent_get k' hl) s.slots 0 h
  cases hq : (scan k' s.slots 0).2 with
  | none => rw [getv_of_none env s k' ock hq]; exact hsc
  | some p =>
    obtain ⟨i, v⟩ := p
    rw [getv_of_some env s k' ock hq]
    have ha : AllAbsent (afterHit s k' i) k := hsc
    split
    · split
      · exact ha
      · exact absent_remove_st k' ha
      · exact absent_remove_st k' ha
    · exact ha

theorem absent_batchGet (env : Env) {k : Key} : ∀ (ks : List Key) (s : State), AllAbsent s k →
    AllAbsent (batchGet env s ks).1 k := by
  intro ks
  induction ks with
  | nil => intro s h; exact h
  | cons k' t ih => intro s h; exact ih _ (absent_getv_st env k' none h)

theorem absent_batchPut (env : Env) {k : Key} : ∀ (kvs : List (Key × Val)) (s : State),
    kvs.any (fun p => p.1 == k) = false → AllAbsent s k → AllAbsent (batchPut env s kvs).1 k := by
  intro kvs
  induction kvs with
  | nil => intro s _ h; exact h
  | cons p t ih =>
    intro s hw h
    obtain ⟨k', v⟩ := p
    simp only [List.any_cons, Bool.or_eq_false_iff] at hw
    have hne : k ≠ k' := by intro heq; subst heq; simp at hw
    exact ih _ hw.2 (absent_put_st env k' v none hne h)

theorem layerAt_mem {s : State} {i : Nat} {l : Layer} (h : layerAt s i = some l) : ∃ sl ∈ s.slots, sl.layer = l := by
  unfold layerAt at h
  cases hq : s.slots[i]? with
  | none => rw [hq] at h; cases h
  | some sl =>
    rw [hq] at h
    cases h
    exact ⟨sl, List.mem_of_getElem? hq, rfl⟩

/-- nothing but a write of the key brings it back: every other operation — including `promote`,
faults on other keys, puts that evict — keeps "no layer has anything for `k`". -/
theorem ml_absent_preserved (env : Env) (s : State) (op : Op) (k : Key) (h : AllAbsent s k)
    (hw : writes k op = false) : AllAbsent (step env s op).st k := by
  have ne_of : ∀ k', (k' == k) = false → k ≠ k' := by
    intro k' hk heq; subst heq; simp at hk
  cases op with
  | put k' v => exact absent_put_st env k' v none (ne_of k' hw) h
  | putTtl k' v c => exact absent_put_st env k' v (some c) (ne_of k' hw) h
  | putToLayer k' v i =>
    simp only [step]
    unfold putToLayer
    split
    · exact h
    · exact modifyAt_pres (Absent · k) _ (fun l hl => absent_put env.victims k' v (ne_of k' hw) hl) s.slots i h
  | get k' =>
    have hsc := scan_pres (Absent · k) k' (fun l hl => absent_get k' hl) s.slots 0 h
    simp only [step]
    cases hq : (scan k' s.slots 0).2 with
    | none => rw [get_of_none env s k' hq]; exact hsc
    | some p => obtain ⟨i, v⟩ := p; rw [get_of_some env s k' hq]; exact hsc
  | getFromLayer k' i =>
    simp only [step]
    unfold getFromLayer
    split
    · exact h
    · exact modifyAt_pres (Absent · k) _ (fun l hl => absent_get k' hl) s.slots i h
  | promote k' a b =>
    simp only [step]
    unfold promote
    split
    · rename_i l _ hl _
      split
      · exact h
      · have h1 : ∀ sl ∈ modifyAt (fun l => (l.get k').1) s.slots a, Absent sl.layer k :=
          modifyAt_pres (Absent · k) _ (fun l hl => absent_get k' hl) s.slots a h
        split
        · rename_i v hv
          -- the source layer answered with a value, so k' is not the absent key
          have hne : k ≠ k' := by
            intro heq; subst heq
            obtain ⟨sl, hsl, rfl⟩ := layerAt_mem hl
            exact absent_peek (h sl hsl) v hv
          exact modifyAt_pres (Absent · k) _ (fun l hl => absent_put env.victims k' v hne hl) _ b h1
        · exact h1
        · exact h1
    · exact h
  | remove k' => exact absent_remove_st k' h
  | clear => intro sl hsl; exact ml_clear_all_layers s k sl hsl
  | batchGet ks => exact absent_batchGet env ks s h
  | batchPut kvs => exact absent_batchPut env kvs s hw h
  | putv k' ck v =>
    simp only [step]
    unfold putv
    split
    · exact absent_put_st env k' v none (ne_of k' hw) h
    · split
      · exact absent_put_st env k' v none (ne_of k' hw) h
      · exact h
      · exact h
  | getv k' ock => exact absent_getv_st env k' ock h
  | fdel i k' => exact modifyAt_pres (Absent · k) _ (fun l hl => absent_fdel k' hl) s.slots i h
  | fset i k' v => exact modifyAt_pres (Absent · k) _ (fun l hl => absent_fset k' v (ne_of k' hw) hl) s.slots i h

theorem absent_run (env : Env) (k : Key) : ∀ (ops : List Op) (s : State), AllAbsent s k →
    (∀ op ∈ ops, writes k op = false) → AllAbsent (run env s ops) k := by
  intro ops
  induction ops with
  | nil => intro s h _; exact h
  | cons op t ih =>
    intro s h hw
    exact ih _ (ml_absent_preserved env s op k h (hw op List.mem_cons_self)) (fun o ho => hw o (List.mem_cons_of_mem _ ho))

/-- after `remove k`, and any further history that does not write `k` (puts of other keys with
their evictions, gets, promotions, removes, clears, batches, validated calls, file faults on
other keys, deletion of `k`'s files), no layer answers for `k`: `get k` is none. -/
theorem ml_removed_not_served (env : Env) (s : State) (k : Key) (ops : List Op)
    (hw : ∀ op ∈ ops, writes k op = false) :
    (MultiLayer.get env (run env (remove s k).st ops) k).out = .val none :=
  ml_absent_get_none env (absent_run env k ops _ (ml_remove_all_layers s k) hw)

/-- the same after `clear`, for every key -/
theorem ml_cleared_not_served (env : Env) (s : State) (k : Key) (ops : List Op)
    (hw : ∀ op ∈ ops, writes k op = false) :
    (MultiLayer.get env (run env (clear s).st ops) k).out = .val none :=
  ml_absent_get_none env (absent_run env k ops _ (ml_clear_all_layers s k) hw)

/-! ## 5  batches -/

/-- `get_with_validation(key, None)` is `get`: same answer, same state, same lock trace (the
code has two copies of the layer loop) -/
theorem ml_getv_none_eq_get (env : Env) (s : State) (k : Key) :
    (getv env s k none).st = (MultiLayer.get env s k).st ∧ (getv env s k none).out = (MultiLayer.get env s k).out ∧
      (getv env s k none).trace = (MultiLayer.get env s k).trace := by
  cases hq : (scan k s.slots 0).2 with
  | none => rw [getv_of_none env s k none hq, get_of_none env s k hq]; exact ⟨rfl, rfl, rfl⟩
  | some p =>
    obtain ⟨i, v⟩ := p
    rw [getv_of_some env s k none hq, get_of_some env s k hq]
    cases env.hooks <;> exact ⟨rfl, rfl, rfl⟩

/-- key-by-key `get` -/
def seqGet (env : Env) : State → List Key → State × List (Option Val)
  | s, [] => (s, [])
  | s, k :: ks =>
    let r := MultiLayer.get env s k
    let q := seqGet env r.st ks
    (q.1, (match r.out with | .val o => o | _ => none) :: q.2)

/-- `batch_get` answers exactly what `get` key by key answers, and leaves the same state -/
theorem ml_batch_get_eq_gets (env : Env) : ∀ (ks : List Key) (s : State),
    ((batchGet env s ks).1, (batchGet env s ks).2.1) = seqGet env s ks := by
  intro ks
  induction ks with
  | nil => intro s; rfl
  | cons k t ih =>
    intro s
    obtain ⟨h1, h2, _⟩ := ml_getv_none_eq_get env s k
    have ih' := ih (MultiLayer.get env s k).st
    have e1 := congrArg Prod.fst ih'
    have e2 := congrArg Prod.snd ih'
    simp only at e1 e2
    simp only [batchGet, seqGet, h1, h2, e1, e2]
    cases (MultiLayer.get env s k).out <;> rfl

/-- `batch_put` is `put` item by item -/
theorem ml_batch_put_eq_puts (env : Env) (s : State) (kvs : List (Key × Val)) :
    (batchPut env s kvs).1 = run env s (kvs.map (fun p => Op.put p.1 p.2)) := by
  induction kvs generalizing s with
  | nil => rfl
  | cons p t ih => obtain ⟨k, v⟩ := p; unfold batchPut; dsimp only; rw [ih]; rfl

/-! ## 6  validation is sound -/

/-- with hooks and a content key, `get_with_validation` hands out a value only if the hooks
accepted it for that key (or declared it exempt) -/
theorem ml_validation_sound (env : Env) (h : Hooks) (s : State) (k : Key) (ck : CK) (v : Val)
    (hh : env.hooks = some h) (ho : (getv env s k (some ck)).out = .val (some v)) :
    h.skip ck v.length = true ∨ h.check ck v = .valid := by
  cases hq : (scan k s.slots 0).2 with
  | none => rw [getv_of_none env s k _ hq] at ho; cases ho
  | some p =>
    obtain ⟨i, w⟩ := p
    rw [getv_of_some env s k _ hq, hh] at ho
    dsimp only at ho
    cases hv : validate h ck w with
    | ok =>
      rw [hv] at ho
      cases ho
      unfold validate at hv
      by_cases hs : h.skip ck v.length = true
      · exact Or.inl hs
      · rw [if_neg hs] at hv
        right
        cases hc : h.check ck v with
        | valid => rfl
        | invalid => rw [hc] at hv; cases hv
        | error => rw [hc] at hv; cases hv
    | failed => rw [hv] at ho; cases ho
    | hookErr => rw [hv] at ho; cases ho

/-- MD5 hooks, any hash function `H`: a value not above the exemption size is handed out only
if it hashes to the supplied content key -/
theorem ml_validation_sound_md5 (env : Env) (H : Val → CK) (n : Nat) (s : State) (k : Key) (ck : CK) (v : Val)
    (hh : env.hooks = some (md5Hooks H n)) (hn : v.length ≤ n)
    (ho : (getv env s k (some ck)).out = .val (some v)) : H v = ck := by
  rcases ml_validation_sound env _ s k ck v hh ho with hs | hc
  · simp [md5Hooks] at hs; omega
  · simp only [md5Hooks] at hc
    by_cases hq : H v = ck
    · exact hq
    · rw [if_neg hq] at hc; cases hc

/-- `put_with_validation` stores only what the hooks accepted; a rejected value changes nothing -/
theorem ml_putv_sound (env : Env) (h : Hooks) (s : State) (k : Key) (ck : CK) (v : Val) (hh : env.hooks = some h) :
    ((putv env s k ck v).out = .unit → h.skip ck v.length = true ∨ h.check ck v = .valid) ∧
    ((putv env s k ck v).out ≠ .unit → (putv env s k ck v).st = s) := by
  unfold putv
  rw [hh]
  dsimp only
  cases hv : validate h ck v with
  | ok =>
    refine ⟨fun _ => ?_, fun hne => absurd rfl hne⟩
    unfold validate at hv
    by_cases hs : h.skip ck v.length = true
    · exact Or.inl hs
    · rw [if_neg hs] at hv
      right
      cases hc : h.check ck v with
      | valid => rfl
      | invalid => rw [hc] at hv; cases hv
      | error => rw [hc] at hv; cases hv
  | failed => exact ⟨fun ho => (by cases ho), fun _ => rfl⟩
  | hookErr => exact ⟨fun ho => (by cases ho), fun _ => rfl⟩

/-! ## 7  a corrupted entry is dropped everywhere -/

/-- when `get_with_validation` reports corruption (or the hooks failed) the key is gone from
every layer -/
theorem ml_corrupt_dropped_everywhere (env : Env) (s : State) (k : Key) (ock : Option CK)
    (ho : (getv env s k ock).out = .err .corruption ∨ (getv env s k ock).out = .err .backend) :
    AllAbsent (getv env s k ock).st k := by
  cases hq : (scan k s.slots 0).2 with
  | none => rw [getv_of_none env s k _ hq] at ho; rcases ho with ho | ho <;> cases ho
  | some p =>
    obtain ⟨i, w⟩ := p
    rw [getv_of_some env s k _ hq] at ho ⊢
    cases hh : env.hooks with
    | none => rw [hh] at ho; cases ock <;> rcases ho with ho | ho <;> cases ho
    | some hk =>
      cases ock with
      | none => rw [hh] at ho; rcases ho with ho | ho <;> cases ho
      | some ck =>
        rw [hh] at ho
        dsimp only at ho ⊢
        cases hv : validate hk ck w with
        | ok => rw [hv] at ho; rcases ho with ho | ho <;> cases ho
        | failed => exact ml_remove_all_layers _ k
        | hookErr => exact ml_remove_all_layers _ k

/-- … and is not served later either: after the corruption report, any history that does not
write the key again gets none for it -/
theorem ml_corrupt_not_served_later (env : Env) (s : State) (k : Key) (ock : Option CK) (ops : List Op)
    (ho : (getv env s k ock).out = .err .corruption ∨ (getv env s k ock).out = .err .backend)
    (hw : ∀ op ∈ ops, writes k op = false) :
    (MultiLayer.get env (run env (getv env s k ock).st ops) k).out = .val none :=
  ml_absent_get_none env (absent_run env k ops _ (ml_corrupt_dropped_everywhere env s k ock ho) hw)

/-! ## 8  no call blocks on the tracker lock -/

theorem lockOk_batchGet (env : Env) (hg : ∀ s k, lockOk (getv env s k none).trace = true) :
    ∀ (ks : List Key) (s : State), lockOk (batchGet env s ks).2.2 = true := by
  intro ks
  induction ks with
  | nil => intro s; rfl
  | cons k t ih => intro s; exact lockOk_append (hg s k) (ih _)

theorem lockOk_getv (env : Env) (s : State) (k : Key) (ock : Option CK) : lockOk (getv env s k ock).trace = true := by
  cases hq : (scan k s.slots 0).2 with
  | none => rw [getv_of_none env s k _ hq]; rfl
  | some p =>
    obtain ⟨i, w⟩ := p
    rw [getv_of_some env s k _ hq]
    split
    · split <;> first | exact lockOk_pair | (unfold remove; decide)
    · exact lockOk_pair

theorem lockOk_batchPut (env : Env) : ∀ (kvs : List (Key × Val)) (s : State), lockOk (batchPut env s kvs).2 = true := by
  intro kvs
  induction kvs with
  | nil => intro s; rfl
  | cons p t ih => intro s; obtain ⟨k, v⟩ := p; exact lockOk_append lockOk_pair (ih _)

/-- for every environment, state and call: the call's trace on the `promotion_tracker` lock
never requests the lock while a guard of the same thread is alive, and ends holding nothing.
So no call can block itself on that lock, whichever layer serves it and whatever the tracker
already holds for the key. -/
theorem ml_no_self_deadlock (env : Env) (s : State) (op : Op) : lockOk (step env s op).trace = true := by
  cases op with
  | put k v => exact lockOk_pair
  | putTtl k v c => exact lockOk_pair
  | putToLayer k v i =>
    show lockOk (putToLayer env s k v i).trace = true
    unfold putToLayer; split <;> rfl
  | get k =>
    simp only [step]
    cases hq : (scan k s.slots 0).2 with
    | none => rw [get_of_none env s k hq]; rfl
    | some p => obtain ⟨i, v⟩ := p; rw [get_of_some env s k hq]; exact lockOk_pair
  | getFromLayer k i =>
    show lockOk (getFromLayer s k i).trace = true
    unfold getFromLayer; split <;> rfl
  | promote k a b =>
    simp only [step]
    unfold promote
    split
    · split
      · rfl
      · split <;> first | exact lockOk_pair | rfl
    · rfl
  | remove k => exact lockOk_pair
  | clear => exact lockOk_pair
  | batchGet ks => exact lockOk_batchGet env (fun s k => lockOk_getv env s k none) ks s
  | batchPut kvs => exact lockOk_batchPut env kvs s
  | putv k ck v =>
    simp only [step]
    unfold putv
    split
    · exact lockOk_pair
    · split <;> first | exact lockOk_pair | rfl
  | getv k ock => exact lockOk_getv env s k ock
  | fdel i k => rfl
  | fset i k v => rfl

/-- the trace `get` had in the pinned tree blocks exactly when the key is found below the first
layer while the tracker already has an entry for it (after any earlier `put` or hit) -/
theorem ml_self_deadlock_pinned (s : State) (k : Key) :
    lockOk (Pinned.getTrace s k) = false ↔
      ∃ i v, (scan k s.slots 0).2 = some (i, v) ∧ i ≠ 0 ∧ (lookup k s.tracker).isSome = true := by
  unfold Pinned.getTrace
  cases hq : (scan k s.slots 0).2 with
  | none => simp [lockOk, replay]
  | some p =>
    obtain ⟨i, v⟩ := p
    cases ht : lookup k s.tracker with
    | none => simp [lockOk, replay]
    | some e =>
      by_cases hi : i = 0
      · simp [hi, lockOk, replay]
      · simp [hi, lockOk, replay]

/-! ## 9  latest put -/

def memCfg1 : MemCache.Config := { maxEntries := 1, maxBytes := none, policy := .lru, defaultShort := false }
def twoLayers : State := init [.mem memCfg1 MemCache.init, .disk { defaultShort := false } DiskCache.init]
def envDet : Env :=
  { strategy := .onHit, hooks := none,
    victims := fun cfg s => MemCache.detVictims cfg.policy s.store (MemCache.evictN cfg s) }

/-- FULL STATEMENT (false of the tree): "get answers with the value of the latest put for the
key while any layer still holds it".
    ∀ history, get k ∈ {none, value of the latest put of k}
Counter-witness, one-entry memory layer over a disk layer:
`put_to_layer(7,[1],1); put(7,[2]); put(8,[3]); get 7` answers `[1]` although the latest put
of key 7 is `[2]` (the first layer evicted it; the older value was left in the disk layer).
Finding `ml-stale-lower-layer` (design level: writes never invalidate other layers). -/
theorem ml_latest_put_counterexample :
    (MultiLayer.get envDet (run envDet twoLayers [.putToLayer 7 [1] 1, .put 7 [2], .put 8 [3]]) 7).out = .val (some [1]) := by
  decide +kernel

/-- the mirror image: `put(7,[1]); put_to_layer(7,[2],1); get 7` answers `[1]`, the older value
in the faster layer shadows the latest put (finding `ml-stale-shadowed-by-upper-layer`). -/
theorem ml_shadowed_counterexample :
    (MultiLayer.get envDet (run envDet twoLayers [.put 7 [1], .putToLayer 7 [2] 1]) 7).out = .val (some [1]) := by
  decide +kernel

/-- every layer serves only the reference map's values -/
def Coh (s : State) (r : Ref) : Prop := ∀ sl ∈ s.slots, LRef sl.layer r

def headShort (s : State) : Bool :=
  match s.slots with
  | sl :: _ => sl.layer.defaultShort
  | [] => false

/-- the reference-map meaning of a call -/
def absOps (env : Env) (s : State) : Op → List CacheMap.Op
  | .put k v => [.put k v (!headShort s)]
  | .putTtl k v c => [.put k v (!c)]
  | .putToLayer k v i => match layerAt s i with
    | some l => [.put k v (!l.defaultShort)]
    | none => []
  | .remove k => [.remove k]
  | .clear => [.clear]
  | .batchPut kvs => kvs.map (fun p => .put p.1 p.2 (!headShort s))
  | .putv k ck v => match (putv env s k ck v).out with
    | .unit => [.put k v (!headShort s)]
    | _ => []
  | _ => []

/-- the hypothesis of the partial theorem, per call: a write of key `k` into layer `i` finds
every other layer without `k`; no foreign file writes -/
def freshPuts (env : Env) : State → List (Key × Val) → Prop
  | _, [] => True
  | s, (k, v) :: t => othersAbsent k s.slots 0 = true ∧ freshPuts env (put env s k v).st t

def fresh (env : Env) (s : State) : Op → Prop
  | .put k _ | .putTtl k _ _ | .putv k _ _ => othersAbsent k s.slots 0 = true
  | .putToLayer k _ i => othersAbsent k s.slots i = true
  | .batchPut kvs => freshPuts env s kvs
  | .fset _ _ _ => False
  | _ => True

def Fresh (env : Env) : State → List Op → Prop
  | _, [] => True
  | s, op :: t => fresh env s op ∧ Fresh env (step env s op).st t

instance decFreshPuts (env : Env) : ∀ (kvs : List (Key × Val)) (s : State), Decidable (freshPuts env s kvs)
  | [], _ => isTrue trivial
  | (k, v) :: t, s => by
    unfold freshPuts
    exact @instDecidableAnd _ _ inferInstance (decFreshPuts env t _)

instance decFresh1 (env : Env) (s : State) (op : Op) : Decidable (fresh env s op) := by
  cases op <;> unfold fresh <;> infer_instance

instance decFresh (env : Env) : ∀ (ops : List Op) (s : State), Decidable (Fresh env s ops)
  | [], _ => isTrue trivial
  | op :: t, s => by
    unfold Fresh
    exact @instDecidableAnd _ _ inferInstance (decFresh env t _)

def refRun (env : Env) : State → Ref → List Op → Ref
  | _, r, [] => r
  | s, r, op :: t => refRun env (step env s op).st (CacheMap.run r (absOps env s op)) t

theorem step_put_other (r : Ref) (k : Key) (v : Val) (b : Bool) : ∀ k', k' ≠ k → CacheMap.step r (.put k v b) k' = r k' := by
  intro k' hne; unfold CacheMap.step; simp only [hne, if_false]

theorem coh_putWith (env : Env) {s : State} {r : Ref} (k : Key) (v : Val) (o : Option Bool) (h : Coh s r)
    (hf : othersAbsent k s.slots 0 = true) :
    Coh (putWith env s k v o).st
      (CacheMap.step r (.put k v (!(match o with | some c => c | none => headShort s)))) := by
  unfold putWith
  cases o with
  | some c =>
    exact modifyAt_write _ (fun l hl => lref_putTtl env.victims k v c hl) (step_put_other r k v _) s.slots 0 h hf
  | none =>
    obtain ⟨slots, tr, pr⟩ := s
    cases slots with
    | nil => intro sl hsl; cases hsl
    | cons sl0 rest =>
      intro sl hsl
      have hsl : sl ∈ { sl0 with layer := sl0.layer.put env.victims k v } :: rest := hsl
      show LRef sl.layer (CacheMap.step r (.put k v (!sl0.layer.defaultShort)))
      rcases List.mem_cons.mp hsl with heq | hm
      · subst heq
        exact lref_putTtl env.victims k v _ (h sl0 List.mem_cons_self)
      · have hf : rest.all (fun s => absentB s.layer k) = true := hf
        exact lref_congr (h sl (List.mem_cons_of_mem _ hm)) (List.all_eq_true.mp hf sl hm) (step_put_other r k v _)

theorem headShort_put (env : Env) (s : State) (k : Key) (v : Val) : headShort (put env s k v).st = headShort s := by
  unfold put putWith headShort
  cases hs : s.slots with
  | nil => rfl
  | cons sl0 rest =>
    dsimp only [modifyAt]
    unfold Layer.put Layer.putTtl Layer.defaultShort
    cases sl0.layer <;> rfl

theorem coh_batchPut (env : Env) : ∀ (kvs : List (Key × Val)) (s : State) (r : Ref), Coh s r → freshPuts env s kvs →
    Coh (batchPut env s kvs).1 (CacheMap.run r (kvs.map (fun p => .put p.1 p.2 (!headShort s)))) := by
  intro kvs
  induction kvs with
  | nil => intro s r h _; exact h
  | cons p t ih =>
    intro s r h hf
    obtain ⟨k, v⟩ := p
    obtain ⟨hf1, hf2⟩ := hf
    have h1 := coh_putWith env k v none h hf1
    have := ih (put env s k v).st _ h1 hf2
    rw [headShort_put] at this
    exact this

theorem coh_scan {s : State} {r : Ref} (k : Key) (h : Coh s r) : ∀ sl ∈ (scan k s.slots 0).1, LRef sl.layer r :=
  scan_pres (LRef · r) k (fun l hl => lref_get k hl) s.slots 0 h

theorem coh_remove {s : State} {r : Ref} (k : Key) (h : Coh s r) : Coh (remove s k).st (CacheMap.step r (.remove k)) := by
  intro sl hsl
  unfold remove mapSlots at hsl
  obtain ⟨sl0, h0, rfl⟩ := List.mem_map.mp hsl
  exact lref_remove k (h sl0 h0)

theorem coh_weaken {s : State} {r r' : Ref} (h : Coh s r') (hr : ∀ k w, r' k = some w → r k = some w) : Coh s r :=
  fun sl hsl => lref_weaken (h sl hsl) hr

theorem step_remove_le (r : Ref) (k : Key) : ∀ k' w, CacheMap.step r (.remove k) k' = some w → r k' = some w := by
  intro k' w hw
  unfold CacheMap.step at hw
  by_cases hk : k' = k
  · simp [hk] at hw
  · simpa [hk] using hw

theorem coh_getv (env : Env) {s : State} {r : Ref} (k : Key) (ock : Option CK) (h : Coh s r) :
    Coh (getv env s k ock).st r := by
  have hsc := coh_scan k h
  cases hq : (scan k s.slots 0).2 with
  | none => rw [getv_of_none env s k ock hq]; exact hsc
  | some p =>
    obtain ⟨i, v⟩ := p
    rw [getv_of_some env s k ock hq]
    have ha : Coh (afterHit s k i) r := hsc
    split
    · split
      · exact ha
      · exact coh_weaken (coh_remove k ha) (step_remove_le r k)
      · exact coh_weaken (coh_remove k ha) (step_remove_le r k)
    · exact ha

theorem coh_batchGet (env : Env) {r : Ref} : ∀ (ks : List Key) (s : State), Coh s r → Coh (batchGet env s ks).1 r := by
  intro ks
  induction ks with
  | nil => intro s h; exact h
  | cons k t ih => intro s h; exact ih _ (coh_getv env k none h)

/-- one call keeps "every layer serves only reference values", the reference map moving by the
call's meaning -/
theorem coh_step (env : Env) {s : State} {r : Ref} (op : Op) (h : Coh s r) (hf : fresh env s op) :
    Coh (step env s op).st (CacheMap.run r (absOps env s op)) := by
  cases op with
  | put k v => exact coh_putWith env k v none h hf
  | putTtl k v c => exact coh_putWith env k v (some c) h hf
  | putToLayer k v i =>
    simp only [step, absOps]
    unfold putToLayer layerAt
    by_cases hi : i ≥ s.slots.length
    · rw [if_pos hi]
      have : s.slots[i]? = none := by simp <;> omega
      rw [this]; exact h
    · rw [if_neg hi]
      obtain ⟨sl, hsl⟩ : ∃ sl, s.slots[i]? = some sl := ⟨s.slots[i]'(by omega), by simp <;> omega⟩
      rw [hsl]
      dsimp only [Option.map]
      -- the written layer is layer i, whose default TTL class is used
      have key : ∀ (slots : List Slot) (j : Nat) (sl : Slot), slots[j]? = some sl → (∀ x ∈ slots, LRef x.layer r) →
          othersAbsent k slots j = true →
          ∀ x ∈ modifyAt (fun l => l.put env.victims k v) slots j,
            LRef x.layer (CacheMap.step r (.put k v (!sl.layer.defaultShort))) := by
        intro slots
        induction slots with
        | nil => intro j sl hj; cases j <;> cases hj
        | cons sl0 rest ih =>
          intro j sl hj hall ho x hx
          cases j with
          | zero =>
            have : sl0 = sl := by simpa using hj
            subst this
            rcases List.mem_cons.mp hx with heq | hm
            · subst heq; exact lref_putTtl env.victims k v _ (hall sl0 List.mem_cons_self)
            · have ho : rest.all (fun s => absentB s.layer k) = true := ho
              exact lref_congr (hall x (List.mem_cons_of_mem _ hm)) (List.all_eq_true.mp ho x hm) (step_put_other r k v _)
          | succ j' =>
            have ho : (absentB sl0.layer k && othersAbsent k rest j') = true := ho
            rw [Bool.and_eq_true] at ho
            rcases List.mem_cons.mp hx with heq | hm
            · subst heq; exact lref_congr (hall _ List.mem_cons_self) ho.1 (step_put_other r k v _)
            · exact ih j' sl (by simpa using hj) (fun y hy => hall y (List.mem_cons_of_mem _ hy)) ho.2 x hm
      exact key s.slots i sl hsl h hf
  | get k =>
    have hsc := coh_scan k h
    simp only [step]
    cases hq : (scan k s.slots 0).2 with
    | none => rw [get_of_none env s k hq]; exact hsc
    | some p => obtain ⟨i, v⟩ := p; rw [get_of_some env s k hq]; exact hsc
  | getFromLayer k i =>
    simp only [step]
    unfold getFromLayer
    split
    · exact h
    · exact modifyAt_pres (LRef · r) _ (fun l hl => lref_get k hl) s.slots i h
  | promote k a b =>
    simp only [step]
    unfold promote
    split
    · rename_i l _ hl _
      split
      · exact h
      · have h1 : ∀ sl ∈ modifyAt (fun l => (l.get k).1) s.slots a, LRef sl.layer r :=
          modifyAt_pres (LRef · r) _ (fun l hl => lref_get k hl) s.slots a h
        split
        · rename_i v hv
          have hk : r k = some v := by
            obtain ⟨sl, hsl, rfl⟩ := layerAt_mem hl
            exact lref_peek (h sl hsl) hv
          exact modifyAt_pres (LRef · r) _ (fun l hl => lref_put_same env.victims _ hl hk) _ b h1
        · exact h1
        · exact h1
    · exact h
  | remove k => exact coh_remove k h
  | clear =>
    intro sl hsl
    have hsl : sl ∈ (clear s).st.slots := hsl
    unfold clear at hsl
    obtain ⟨sl0, _, rfl⟩ := List.mem_map.mp hsl
    exact lref_clear _ _
  | batchGet ks => exact coh_batchGet env ks s h
  | batchPut kvs => exact coh_batchPut env kvs s r h hf
  | putv k ck v =>
    have hput := coh_putWith env k v none h hf
    simp only [step]
    unfold absOps
    unfold putv at hput ⊢
    cases hh : env.hooks with
    | none => exact hput
    | some hk =>
      dsimp only
      cases hv : validate hk ck v with
      | ok => exact hput
      | failed => exact h
      | hookErr => exact h
  | getv k ock => exact coh_getv env k ock h
  | fdel i k => exact modifyAt_pres (LRef · r) _ (fun l hl => lref_fdel k hl) s.slots i h
  | fset i k v => exact absurd hf (fun hf => hf)

/-- what a `get` hands out under `Coh` is the reference map's value -/
theorem coh_get_out (env : Env) {s : State} {r : Ref} {k : Key} {v : Val} (h : Coh s r)
    (ho : (MultiLayer.get env s k).out = .val (some v)) : r k = some v := by
  rw [ml_get_first_holder] at ho
  have hm : firstHit (peeks s k) = some v := Out.val.inj ho
  obtain ⟨sl, hsl, hp⟩ := List.mem_map.mp (firstHit_mem hm)
  exact lref_peek (h sl hsl) hp

/-- PARTIAL form of `ml_latest_put`: for every environment and every history in which each
write of a key into a layer finds every other layer without that key, and no file is written
behind the cache's back (deletions are allowed), after the history every layer serves only the
reference map's values — the reference map being "latest unexpired, unremoved put per key"
(Spec/CacheMap). Hence every value `get` hands out is the latest put's value. -/
theorem ml_latest_put_partial (env : Env) : ∀ (ops : List Op) (s : State) (r : Ref), Coh s r → Fresh env s ops →
    Coh (run env s ops) (refRun env s r ops) := by
  intro ops
  induction ops with
  | nil => intro s r h _; exact h
  | cons op t ih =>
    intro s r h hf
    exact ih _ _ (coh_step env op h hf.1) hf.2

theorem coh_init (layers : List Layer) (h : ∀ l ∈ layers, LRef l CacheMap.empty) :
    Coh (init layers) CacheMap.empty := by
  intro sl hsl
  unfold init at hsl
  obtain ⟨l, hl, rfl⟩ := List.mem_map.mp hsl
  exact h l hl

/-- corollary in the property's words: starting from empty layers, after any fresh history a
`get` answers none or the value of the latest (unexpired, unremoved) put of that key -/
theorem ml_get_latest_or_none_partial (env : Env) (layers : List Layer) (ops : List Op) (k : Key) (v : Val)
    (hl : ∀ l ∈ layers, LRef l CacheMap.empty) (hf : Fresh env (init layers) ops)
    (ho : (MultiLayer.get env (run env (init layers) ops) k).out = .val (some v)) :
    refRun env (init layers) CacheMap.empty ops k = some v :=
  coh_get_out env (ml_latest_put_partial env ops _ _ (coh_init layers hl) hf) ho

/-- the hypotheses are satisfiable by a non-trivial history: a value put below the first layer,
found there, promoted, the first layer evicting, a remove in between (memory layer of one entry
over a disk layer) -/
example :
    Fresh envDet twoLayers [.putToLayer 7 [1] 1, .get 7, .get 7, .promote 7 1 0, .put 8 [3], .get 7, .remove 7, .put 7 [2], .get 7] := by
  decide +kernel

example : (MultiLayer.get envDet (run envDet twoLayers [.putToLayer 7 [1] 1, .get 7, .get 7, .promote 7 1 0, .put 8 [3]]) 7).out = .val (some [1]) := by
  decide +kernel

/-! ## 10  eviction policies of the memory layers

Every theorem above holds for EVERY victims function (`env.victims`), so for all five eviction
policies of a memory layer and every way ties / randomness fall out.  Two facts about the Ttl
policy (the one policy that is not count-driven: it evicts exactly the entries whose TTL has
ended) that the correspondence run relies on: -/

/-- a put into a memory layer with the Ttl eviction policy does not depend on the victims
function at all (so the model needs no observed victims there) -/
theorem ml_ttl_policy_victims_irrelevant (vc vc' : Victims) (cfg : MemCache.Config) (ms : MemCache.State)
    (hp : cfg.policy = .ttl) (k : Key) (v : Val) (c : Bool) :
    Layer.putTtl vc (.mem cfg ms) k v c = Layer.putTtl vc' (.mem cfg ms) k v c :=
  putTtl_ttl_victims_irrelevant vc vc' cfg ms hp k v c

/-- … and it never evicts a live entry: whatever the layer answered for another key before the
put (full or not, with or without expired entries waiting to be evicted) it answers after it -/
theorem ml_ttl_policy_put_keeps_live (vc : Victims) (cfg : MemCache.Config) (ms : MemCache.State)
    (hp : cfg.policy = .ttl) (hinv : Proofs.MemCache.Inv ms) (k k' : Key) (v v' : Val) (c : Bool) (hne : k' ≠ k)
    (h : (Layer.mem cfg ms).peek k' = .hit v') :
    (Layer.putTtl vc (.mem cfg ms) k v c).peek k' = .hit v' :=
  peek_putTtl_ttl_keeps_live vc cfg ms hp hinv k k' v v' c hne h

/-- in the property's words: with a Ttl-policy first layer, a `put` of another key never makes
`get` lose (or change) a value the first layer serves -/
theorem ml_ttl_first_layer_put_keeps_served (env : Env) (s : State) (sl : Slot) (rest : List Slot)
    (cfg : MemCache.Config) (ms : MemCache.State) (hs : s.slots = sl :: rest) (hl : sl.layer = .mem cfg ms)
    (hp : cfg.policy = .ttl) (hinv : Proofs.MemCache.Inv ms) (k k' : Key) (v v' : Val) (hne : k' ≠ k)
    (h : sl.layer.peek k' = .hit v') :
    (MultiLayer.get env (MultiLayer.put env s k v).st k').out = .val (some v') := by
  rw [ml_get_first_holder, ttl_first_layer_put_keeps_served env s sl rest cfg ms hs hl hp hinv k k' v v' hne h]

/-- the hypotheses are met by a full two-entry Ttl-policy layer that still stores an expired
entry (key 1) next to a live one (key 2): the put of key 3 evicts key 1 only (test by evaluation) -/
example :
    let cfg : MemCache.Config := { maxEntries := 2, maxBytes := none, policy := .ttl, defaultShort := false }
    let env : Env := { strategy := .onHit, hooks := none, victims := fun _ _ => [] }
    let s := run env (init [.mem cfg MemCache.init]) [.putTtl 1 [1] true, .put 2 [2], .put 3 [3]]
    (MultiLayer.get env s 2).out = .val (some [2]) ∧ (MultiLayer.get env s 1).out = .val none ∧
      (MultiLayer.get env s 3).out = .val (some [3]) := by
  decide +kernel

end Cascette.Props.C12
