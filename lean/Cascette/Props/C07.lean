/-
Props/C07 — Integrity checks reject every corruption of what they protect.

Every acceptor is a function of the bytes and an ARBITRARY hash `H` (Model/Integrity).  For each
artifact the theorems pin (a) which bytes are hashed, (b) which stored field they are compared with,
(c) over how many bytes, (d) that the comparison happens before anything is returned; the
corruption form then reads: an accepted artifact that differs from another accepted artifact while
the stored digest is unchanged is a collision of `H` on the compared bytes — the strongest true
statement (no check can reject *every* change of a 16-, 8- or 4-byte digest's input).

Statements expected false of the pinned tree (DESIGN §6 C07 ⟂) come as a counter-witness theorem
(valid for every `H`) plus the `_partial` theorem under the explicit hypothesis:
  * `aidx_footer_hash_bytes_compared`  holds since fix 6b0ee35 (was ⟂: the former witness is now
                                        `aidx_unhashed_footer_rejected`)
  * `load_verifies_guards`             ⟂  witnesses `update_load_ignores_guard`, `segment_load_ignores_checksums`
  * `v1_checksum_required`             ⟂  witnesses `v1_damaged_checksum_line_unchecked`,
                                        `v1_damaged_last_line_earlier_governs`
  * `validated_get_sound` (all sizes)  ⟂  witness `validated_get_large_unchecked`

Extension (second half of the file): the exact acceptance condition of `EncodingFile::parse` with the
entry parsers as parameters (`enc_accepts_iff`), the arbitrary-`H` theorems instantiated with the
real functions (`Spec.Md5.md5`, `Spec.Sha256.sha256`, `Model.Jenkins.hashlittle`), facts about the
hex rendering used by V1, completeness of the writers (`lru_serialize_accepted_md5`,
`v1_seal_passes_sha256`).  The source tie (ranges / lengths / constants extracted from the current
Rust text = what the models use) is Proofs/IntegrityTie, audited in Audit/C07.
-/
import Cascette.Proofs.Integrity
import Cascette.Proofs.IntegrityExt
import Cascette.Proofs.IntegrityTie
import Cascette.Spec.Md5
import Cascette.Spec.Sha256
import Cascette.Model.Jenkins
namespace Cascette.Props.C07
open Cascette Cascette.Model.Integrity
open Cascette.Proofs.Integrity

/-! ### LRU checkpoint file (`lru_file::deserialize`) -/

/-- Accepted iff the size is `28 + 20·n`, the version is ≤ 1 and the 16 bytes at `[4,20)` equal
`H` of the WHOLE file with those 16 bytes zeroed (all 16 bytes compared, before any entry is read). -/
theorem lru_accepts_iff (H : Hash) (d : Bytes) :
    Lru.accept H d = true ↔
      Lru.validSize d.length = true ∧ Lru.version d ≤ Lru.maxVersion ∧ Lru.stored d = H (Lru.region d) := by
  unfold Lru.accept; exact Proofs.Integrity.Lru.deserialize_isSome_iff H d

/-- Any two different accepted files (any lengths: flips, substitutions, truncations, extensions)
that carry the same stored hash are a collision of `H`: every byte outside `[4,20)` is hashed. -/
theorem lru_corruption_needs_collision (H : Hash) (d d' : Bytes)
    (ha : Lru.accept H d = true) (ha' : Lru.accept H d' = true) (hne : d' ≠ d)
    (hst : Lru.stored d' = Lru.stored d) :
    Lru.region d' ≠ Lru.region d ∧ H (Lru.region d') = H (Lru.region d) := by
  obtain ⟨s1, _, e1⟩ := (lru_accepts_iff H d).mp ha
  obtain ⟨s2, _, e2⟩ := (lru_accepts_iff H d').mp ha'
  have l1 := Proofs.Integrity.Lru.validSize_ge _ s1
  have l2 := Proofs.Integrity.Lru.validSize_ge _ s2
  refine ⟨fun hr => hne ?_, by rw [← e1, ← e2, hst]⟩
  rw [Proofs.Integrity.Lru.recon d' (by omega), Proofs.Integrity.Lru.recon d (by omega), hr, hst]

/-- A change confined to the stored hash field is always rejected. -/
theorem lru_stored_hash_corruption_rejected (H : Hash) (d d' : Bytes)
    (ha : Lru.accept H d = true) (hr : Lru.region d' = Lru.region d) (hst : Lru.stored d' ≠ Lru.stored d) :
    Lru.accept H d' = false := by
  obtain ⟨_, _, e1⟩ := (lru_accepts_iff H d).mp ha
  cases hacc : Lru.accept H d' with
  | false => rfl
  | true =>
    obtain ⟨_, _, e2⟩ := (lru_accepts_iff H d').mp hacc
    exact absurd (by rw [e1, e2, hr]) hst

/-! ### Encoding table pages (`IndexEntry::verify` in `parse_ckey_pages` / `parse_ekey_pages`) -/

/-- If `EncodingFile::parse` succeeds, EVERY page of both tables hashes (whole page, all 16 digest
bytes) to the checksum stored for it in the page index; offsets are explicit functions of the header. -/
theorem enc_accept_all_pages_verified (H : Hash) (d : Bytes) (r : Nat × Nat) (hp : Enc.parse H d = .ok r) :
    ∃ h, Enc.readHeader d = .ok h ∧ Enc.headerOk h = true ∧
      (∀ i, i < h.ckCount → H (Proofs.Integrity.Enc.ckPage h d i) = Proofs.Integrity.Enc.ckSum h d i) ∧
      (∀ i, i < h.ekCount → H (Proofs.Integrity.Enc.ekPage h d i) = Proofs.Integrity.Enc.ekSum h d i) :=
  Proofs.Integrity.Enc.parse_ok_verified H d r hp

/-- check-before-use: a page whose digest differs from its index checksum ends the parse with
`ChecksumMismatch` whatever the entry parser `pe` would have made of the page. -/
theorem enc_checksum_before_entries (H : Hash) (pe : Bytes → Except Enc.Err Nat) (ps : Nat) (fk ck : Bytes)
    (more : List (Bytes × Bytes)) (rest : Bytes) (hlen : ps ≤ rest.length) (hne : H (rest.take ps) ≠ ck) :
    Enc.parsePages H pe ps ((fk, ck) :: more) rest = .error .checksum :=
  Proofs.Integrity.Enc.parsePages_mismatch H pe ps fk ck more rest hlen hne

/-- Two accepted files with the same header and the same stored checksum for CKey page `i` but
different bytes in that page are a collision of `H` (same for EKey pages). -/
theorem enc_page_corruption_needs_collision (H : Hash) (d d' : Bytes) (r r' : Nat × Nat) (h : Enc.Header)
    (hp : Enc.parse H d = .ok r) (hp' : Enc.parse H d' = .ok r')
    (hh : Enc.readHeader d = .ok h) (hh' : Enc.readHeader d' = .ok h) :
    (∀ i, i < h.ckCount → Proofs.Integrity.Enc.ckSum h d' i = Proofs.Integrity.Enc.ckSum h d i →
        Proofs.Integrity.Enc.ckPage h d' i ≠ Proofs.Integrity.Enc.ckPage h d i →
        H (Proofs.Integrity.Enc.ckPage h d' i) = H (Proofs.Integrity.Enc.ckPage h d i)) ∧
    (∀ i, i < h.ekCount → Proofs.Integrity.Enc.ekSum h d' i = Proofs.Integrity.Enc.ekSum h d i →
        Proofs.Integrity.Enc.ekPage h d' i ≠ Proofs.Integrity.Enc.ekPage h d i →
        H (Proofs.Integrity.Enc.ekPage h d' i) = H (Proofs.Integrity.Enc.ekPage h d i)) := by
  obtain ⟨h1, e1, _, c1, k1⟩ := enc_accept_all_pages_verified H d r hp
  obtain ⟨h2, e2, _, c2, k2⟩ := enc_accept_all_pages_verified H d' r' hp'
  rw [hh] at e1; rw [hh'] at e2
  cases e1; cases e2
  exact ⟨fun i hi hs _ => by rw [c1 i hi, c2 i hi, hs], fun i hi hs _ => by rw [k1 i hi, k2 i hi, hs]⟩

/-! ### Archive-index footer (`IndexFooter::is_valid`, `validate_format`, `validate_file_size`) -/

/-- Exact acceptance condition of the footer stage of `ArchiveIndex::parse` (`cs = true`) and of
`ChunkedArchiveIndex::open` (`cs = false`): the byte at `End(-13)` must be 8 (fix 6b0ee35) and
locates the footer, `H` is taken over footer bytes `[8,20)` padded with 8 zero bytes, and
`min(hash size, footer[15])` bytes of its first 8 are compared with the file's tail. -/
theorem aidx_accepts_iff (H : Hash) (cs : Bool) (d : Bytes) (v ob ekl cnt : Nat) :
    Aidx.footerCheck H cs d = .pass v ob ekl cnt ↔
      (13 ≤ d.length ∧ Proofs.Integrity.Aidx.hbOf d = 8 ∧
       20 + Proofs.Integrity.Aidx.hbOf d ≤ d.length ∧ Proofs.Integrity.Aidx.comparedOf d ≤ 8 ∧
       (Proofs.Integrity.Aidx.storedOf d).take (Proofs.Integrity.Aidx.comparedOf d) =
          ((H (Aidx.hashedOf (Proofs.Integrity.Aidx.footerOf d))).take 8).take (Proofs.Integrity.Aidx.comparedOf d) ∧
       Aidx.formatOk (Proofs.Integrity.Aidx.footerOf d) = true ∧
       (cs = true → Proofs.Integrity.Aidx.rppZero (Proofs.Integrity.Aidx.footerOf d) = false ∧
          d.length = Aidx.expectedSize (Proofs.Integrity.Aidx.footerOf d)) ∧
       v = byteAt (Proofs.Integrity.Aidx.footerOf d) 8 ∧ ob = byteAt (Proofs.Integrity.Aidx.footerOf d) 12 ∧
       ekl = byteAt (Proofs.Integrity.Aidx.footerOf d) 14 ∧
       cnt = leNat (slice (Proofs.Integrity.Aidx.footerOf d) 16 4)) :=
  Proofs.Integrity.Aidx.footerCheck_pass_iff H cs d v ob ekl cnt

/-- `aidx_footer_hash_bytes_compared` (FULL statement, holds since fix 6b0ee35): every accepted
footer — both entry points, every input — has size byte 8 at `End(-13)` and all 8 stored hash
bytes equal to `H(fields ‖ 0⁸)[..8]`. -/
theorem aidx_footer_hash_bytes_compared (H : Hash) (cs : Bool) (d : Bytes) (v ob ekl cnt : Nat)
    (hp : Aidx.footerCheck H cs d = .pass v ob ekl cnt) :
    Proofs.Integrity.Aidx.hbOf d = 8 ∧
    Proofs.Integrity.Aidx.storedOf d = (H (Aidx.hashedOf (Proofs.Integrity.Aidx.footerOf d))).take 8 ∧
      (Proofs.Integrity.Aidx.storedOf d).length = 8 :=
  Proofs.Integrity.Aidx.pass_full_compare' H cs d v ob ekl cnt hp

/-- `aidx_footer_hash_bytes_compared_partial`: when the size byte at `End(-13)` is 8 (every footer
the builders write) all 8 stored bytes are compared with `H(fields ‖ 0⁸)[..8]`. -/
theorem aidx_footer_hash_bytes_compared_partial (H : Hash) (cs : Bool) (d : Bytes) (v ob ekl cnt : Nat)
    (hp : Aidx.footerCheck H cs d = .pass v ob ekl cnt) (h8 : Proofs.Integrity.Aidx.hbOf d = 8) :
    Proofs.Integrity.Aidx.storedOf d = (H (Aidx.hashedOf (Proofs.Integrity.Aidx.footerOf d))).take 8 ∧
      (Proofs.Integrity.Aidx.storedOf d).length = 8 :=
  Proofs.Integrity.Aidx.pass_full_compare H cs d v ob ekl cnt hp h8

/-- Corruption form for the footer fields (version … element count, bytes `[8,20)` of the footer). -/
theorem aidx_footer_corruption_needs_collision (H : Hash) (cs : Bool) (d d' : Bytes) (v ob ekl cnt v' ob' ekl' cnt' : Nat)
    (hp : Aidx.footerCheck H cs d = .pass v ob ekl cnt) (hp' : Aidx.footerCheck H cs d' = .pass v' ob' ekl' cnt')
    (h8 : Proofs.Integrity.Aidx.hbOf d = 8) (h8' : Proofs.Integrity.Aidx.hbOf d' = 8)
    (hst : Proofs.Integrity.Aidx.storedOf d' = Proofs.Integrity.Aidx.storedOf d)
    (hne : Aidx.hashedOf (Proofs.Integrity.Aidx.footerOf d') ≠ Aidx.hashedOf (Proofs.Integrity.Aidx.footerOf d)) :
    Collision H 8 (Aidx.hashedOf (Proofs.Integrity.Aidx.footerOf d')) (Aidx.hashedOf (Proofs.Integrity.Aidx.footerOf d)) := by
  obtain ⟨e1, _⟩ := aidx_footer_hash_bytes_compared_partial H cs d v ob ekl cnt hp h8
  obtain ⟨e2, _⟩ := aidx_footer_hash_bytes_compared_partial H cs d' v' ob' ekl' cnt' hp' h8'
  exact ⟨hne, by rw [← e1, ← e2, hst]⟩

/-- Corruption form without the size-byte hypotheses (full strength, since fix 6b0ee35). -/
theorem aidx_footer_corruption_needs_collision_full (H : Hash) (cs : Bool) (d d' : Bytes) (v ob ekl cnt v' ob' ekl' cnt' : Nat)
    (hp : Aidx.footerCheck H cs d = .pass v ob ekl cnt) (hp' : Aidx.footerCheck H cs d' = .pass v' ob' ekl' cnt')
    (hst : Proofs.Integrity.Aidx.storedOf d' = Proofs.Integrity.Aidx.storedOf d)
    (hne : Aidx.hashedOf (Proofs.Integrity.Aidx.footerOf d') ≠ Aidx.hashedOf (Proofs.Integrity.Aidx.footerOf d)) :
    Collision H 8 (Aidx.hashedOf (Proofs.Integrity.Aidx.footerOf d')) (Aidx.hashedOf (Proofs.Integrity.Aidx.footerOf d)) :=
  aidx_footer_corruption_needs_collision H cs d d' v ob ekl cnt v' ob' ekl' cnt' hp hp'
    (aidx_footer_hash_bytes_compared H cs d v ob ekl cnt hp).1
    (aidx_footer_hash_bytes_compared H cs d' v' ob' ekl' cnt' hp').1 hst hne

/-- the former counter-witness of `aidx_footer_hash_bytes_compared` (28-byte file whose byte at
`End(-13)` is 0, accepted before fix 6b0ee35 with NO hash byte compared) is now rejected with
`InvalidFormat` by both entry points, for every `H`. -/
theorem aidx_unhashed_footer_rejected (H : Hash) (cs : Bool) :
    Aidx.footerCheck H cs Proofs.Integrity.Aidx.witness = .format :=
  Proofs.Integrity.Aidx.witness_rejected H cs

/-- the hypothesis of `aidx_footer_hash_bytes_compared` is satisfiable: with the constant-zero hash
the 28-byte footer `0¹⁶ ‖ 01 00 00 04 04 04 10 08 0⁴ ‖ 0⁸`... is accepted by `open`. -/
example : Aidx.footerCheck (fun _ => List.replicate 16 0) false
    (List.replicate 8 0 ++ [1, 0, 0, 4, 4, 4, 16, 8, 0, 0, 0, 0] ++ List.replicate 8 0) = .pass 1 4 16 0 := by
  decide

/-! ### Update-section entries (`UpdateEntry::validate_hash_guard`) and the section loader -/

/-- `validate_hash_guard` accepts iff the stored guard equals `HL(region) | 0x8000_0000`, where the
region is bytes `[4,22)` verbatim plus the canonicalised status byte (`to_bytes ∘ from_bytes`):
31 bits of the hash are compared, the top bit is forced. -/
theorem update_guard_accepts_iff (HL : Bytes → Nat) (e : Bytes) (hlen : e.length = 24) :
    Upd.validate HL e = true ↔ leNat (e.take 4) = HL (Upd.region e) % 2 ^ 31 + 2 ^ 31 := by
  rw [Proofs.Integrity.Upd.validate_iff, Proofs.Integrity.Upd.hashedOf_fromBytes e hlen]

/-- Corruption form: two validating entries with the same stored guard and different protected
bytes collide on the 31 compared bits. -/
theorem update_guard_corruption_needs_collision (HL : Bytes → Nat) (e e' : Bytes)
    (hl : e.length = 24) (hl' : e'.length = 24)
    (hv : Upd.validate HL e = true) (hv' : Upd.validate HL e' = true)
    (hg : e'.take 4 = e.take 4) (hne : Upd.region e' ≠ Upd.region e) :
    Upd.region e' ≠ Upd.region e ∧ HL (Upd.region e') % 2 ^ 31 = HL (Upd.region e) % 2 ^ 31 := by
  have h1 := (update_guard_accepts_iff HL e hl).mp hv
  have h2 := (update_guard_accepts_iff HL e' hl').mp hv'
  rw [hg] at h2
  exact ⟨hne, by omega⟩

/-- A raw status byte that `UpdateStatus::from_byte` maps to the same status is not a change of the
entry's content: the parsed entries are equal (this is the only unhashed slack inside `[4,23)`). -/
theorem update_status_slack_is_harmless (e e' : Bytes) (hl : e.length = 24) (hl' : e'.length = 24)
    (hg : e'.take 4 = e.take 4) (hr : Upd.region e' = Upd.region e) : Upd.fromBytes e' = Upd.fromBytes e := by
  obtain ⟨b0,b1,b2,b3,b4,b5,b6,b7,b8,b9,b10,b11,b12,b13,b14,b15,b16,b17,b18,b19,b20,b21,b22,b23, rfl⟩ := Proofs.Integrity.Upd.len24 e hl
  obtain ⟨c0,c1,c2,c3,c4,c5,c6,c7,c8,c9,c10,c11,c12,c13,c14,c15,c16,c17,c18,c19,c20,c21,c22,c23, rfl⟩ := Proofs.Integrity.Upd.len24 e' hl'
  simp only [List.take, List.cons.injEq, and_true] at hg
  simp only [Upd.region, slice, List.drop, List.take, List.cons_append, List.nil_append, List.cons.injEq, and_true] at hr
  obtain ⟨rfl, rfl, rfl, rfl⟩ := hg
  obtain ⟨rfl, rfl, rfl, rfl, rfl, rfl, rfl, rfl, rfl, rfl, rfl, rfl, rfl, rfl, rfl, rfl, rfl, rfl, hs⟩ := hr
  simp only [Upd.fromBytes, slice, byteAt, List.drop, List.take, List.getD_cons_zero, List.getD_cons_succ] at hs ⊢
  have : Upd.canonStatus c22.toNat = Upd.canonStatus b22.toNat := by
    have h1 : Upd.canonStatus c22.toNat < 256 := by unfold Upd.canonStatus; split <;> omega
    have h2 : Upd.canonStatus b22.toNat < 256 := by unfold Upd.canonStatus; split <;> omega
    have := congrArg BitVec.toNat hs
    simp only [BitVec.toNat_ofNat] at this
    omega
  rw [this]

/-- ⟂ `load_verifies_guards` (update section, counter-witness for every `HL`): `UpdateSection::from_bytes`
returns an entry whose guard can not be valid for any hash (top bit clear). The `_partial` level that
does hold is `update_guard_accepts_iff`: `validate_hash_guard` reports it invalid — nobody calls it on load. -/
theorem update_load_ignores_guard (HL : Bytes → Nat) :
    ∃ d e, e ∈ Upd.sectionEntries 2 d ∧ Upd.validate HL e = false := by
  refine ⟨(1 : Byte) :: List.replicate 511 0, (1 : Byte) :: List.replicate 23 0, ?_, ?_⟩
  · decide +kernel
  · have : Upd.validate HL ((1 : Byte) :: List.replicate 23 0) = true → False := by
      intro h
      have := (update_guard_accepts_iff HL _ (by decide)).mp h
      have h1 : leNat (List.take 4 ((1 : Byte) :: List.replicate 23 0)) = 1 := by decide
      omega
    cases hv : Upd.validate HL ((1 : Byte) :: List.replicate 23 0) with
    | false => rfl
    | true => exact absurd hv (by simpa using this)

/-! ### Local header (`LocalHeader::validate_checksums`) and the segment-header loader -/

/-- `validate_checksums(base)` accepts iff checksum A (all 32 bits) is `HA` of bytes `[0,22)` and
checksum B is the 4-lane XOR of bytes `[0,26)` rotated by `base`. -/
theorem lhdr_accepts_iff (HA : Bytes → Nat) (base : Nat) (h : Bytes) :
    Lhdr.validate HA base h = true ↔
      leNat (slice h 22 4) = HA (h.take 22) % 2 ^ 32 ∧ slice h 26 4 = Lhdr.checksumB base h := by
  unfold Lhdr.validate; simp

/-- Corruption form for checksum A. -/
theorem lhdr_corruption_needs_collision (HA : Bytes → Nat) (base : Nat) (h h' : Bytes)
    (hv : Lhdr.validate HA base h = true) (hv' : Lhdr.validate HA base h' = true)
    (hst : slice h' 22 4 = slice h 22 4) (hne : h'.take 22 ≠ h.take 22) :
    h'.take 22 ≠ h.take 22 ∧ HA (h'.take 22) % 2 ^ 32 = HA (h.take 22) % 2 ^ 32 := by
  obtain ⟨a, _⟩ := (lhdr_accepts_iff HA base h).mp hv
  obtain ⟨a', _⟩ := (lhdr_accepts_iff HA base h').mp hv'
  exact ⟨hne, by rw [← a, ← a', hst]⟩

/-- EVERY single-byte change of a valid 30-byte local header (any position, any new value, hence
every single-bit flip) is rejected by `validate_checksums` — unconditionally, for every hash `HA`:
a byte in `[0,26)` changes exactly one XOR lane of checksum B, a byte in `[26,30)` is checksum B. -/
theorem lhdr_single_byte_change_rejected (HA : Bytes → Nat) (base : Nat) (pre post : Bytes) (a x : Byte)
    (hlen : (pre ++ a :: post).length = 30) (hax : a ≠ x)
    (hv : Lhdr.validate HA base (pre ++ a :: post) = true) : Lhdr.validate HA base (pre ++ x :: post) = false :=
  Proofs.Integrity.Lhdr.single_byte_change_rejected HA base pre post a x hlen hax hv

/-- ⟂ `load_verifies_guards` (local headers, counter-witness for every `HA`): `SegmentHeader::from_bytes`
returns, without error, a header block whose first header fails `validate_checksums` for every hash
(its checksum B field is 1 over 26 zero bytes). The level that does hold is `lhdr_accepts_iff` /
`lhdr_single_byte_change_rejected`: `validate_checksums` reports it invalid — the loader never asks. -/
theorem segment_load_ignores_checksums (HA : Bytes → Nat) :
    ∃ d hs h, Lhdr.segmentLoad d = some hs ∧ h ∈ hs ∧ Lhdr.validate HA 0 h = false := by
  refine ⟨List.replicate 26 0 ++ [1] ++ List.replicate 453 0,
    Lhdr.segmentHeaders 16 (List.replicate 26 0 ++ [1] ++ List.replicate 453 0),
    List.replicate 26 0 ++ [1] ++ List.replicate 3 0, ?_, ?_, ?_⟩
  · unfold Lhdr.segmentLoad Lhdr.size; rw [if_neg (by decide +kernel)]
  · decide +kernel
  · unfold Lhdr.validate
    rw [Bool.and_eq_false_iff]; right; decide

/-! ### V1 `Checksum:` epilogue (`extract_checksum` / `validate_checksum`) -/

/-- `v1_checksum_last_line`: when a checksum is found it is the LAST `Checksum: ` in the input, the
text is the 64 hex digits right after it, and the protected region is everything before it. -/
theorem v1_checksum_last_line (raw m c : Bytes) (h : V1.extract raw = (m, some c)) :
    ∃ p, m = raw.take p ∧ slice raw p 10 = V1.pfx ∧ c = slice raw (p + 10) 64 ∧ c.length = 64 ∧
      c.all V1.isHexDigit = true ∧ ∀ q, p < q → q < raw.length + 1 - 10 → slice raw q 10 ≠ V1.pfx := by
  obtain ⟨p, hp, hm, hc, hl, hx⟩ := Proofs.Integrity.V1.extract_some raw m c h
  obtain ⟨_, h2, h3⟩ := Proofs.Integrity.V1.rfind_spec raw _ p hp
  exact ⟨p, hm, h2, hc, hl, hx, h3⟩

/-- `v1_checked_accepts_iff` (the `_partial` form of "a response with a checksum line is verified"):
IF a well-formed checksum line is found, the response passes iff the lower-case hex of `H` of all
bytes before the line equals the 64 characters — compared in full, before MIME parsing. -/
theorem v1_checked_accepts_iff (H : Hash) (raw m c : Bytes) (h : V1.extract raw = (m, some c)) :
    V1.check H raw = .pass m (some c) ↔ V1.hexLower (H m) = c := by
  unfold V1.check; rw [h]
  by_cases hc : V1.hexLower (H m) = c <;> simp [hc]

/-- Corruption form: two passing responses with the same checksum text and different protected
bytes are a collision of `H` itself (the hex rendering is injective). -/
theorem v1_corruption_needs_collision (H : Hash) (raw raw' m m' c : Bytes)
    (h : V1.extract raw = (m, some c)) (h' : V1.extract raw' = (m', some c))
    (hp : V1.check H raw = .pass m (some c)) (hp' : V1.check H raw' = .pass m' (some c)) (hne : m' ≠ m) :
    m' ≠ m ∧ H m' = H m := by
  have e1 := (v1_checked_accepts_iff H raw m c h).mp hp
  have e2 := (v1_checked_accepts_iff H raw' m' c h').mp hp'
  exact ⟨hne, Proofs.Integrity.V1.hexLower_inj _ _ (by rw [e1, e2])⟩

/-- `v1_wellformed_last_line_governs` (the converse of `v1_checksum_last_line`, no hypothesis on the
protected bytes): an input that ENDS in a well-formed checksum line — `Checksum: `, 64 hex digits,
then `\n`, `\r\n` or the end of the input — is always split at THAT line, whatever the bytes `a`
before it contain: earlier occurrences of the text `Checksum: ` (free text, well-formed 64-digit lines,
lines that are valid for their own prefix, at a line start or mid-line) never take its place. -/
theorem v1_wellformed_last_line_governs (a c eol : Bytes) (hl : c.length = 64) (hx : c.all V1.isHexDigit = true)
    (heol : eol = [] ∨ eol = [0x0a] ∨ eol = [0x0d, 0x0a]) :
    V1.extract (a ++ V1.pfx ++ c ++ eol) = (a, some c) :=
  Proofs.Integrity.V1.extract_wellformed_last a c eol hl hx heol

/-- … hence such a response passes iff the 64 digits are the lower-case hex of `H` of ALL bytes before
the line, and is rejected with the checksum error otherwise (never passed on unchecked). -/
theorem v1_sealed_accepts_iff (H : Hash) (a c eol : Bytes) (hl : c.length = 64) (hx : c.all V1.isHexDigit = true)
    (heol : eol = [] ∨ eol = [0x0a] ∨ eol = [0x0d, 0x0a]) :
    V1.check H (a ++ V1.pfx ++ c ++ eol) = if V1.hexLower (H a) = c then .pass a (some c) else .checksumErr := by
  unfold V1.check; rw [v1_wellformed_last_line_governs a c eol hl hx heol]

/-- Corruption form for sealed responses, with NO side condition on the content: if `a` passes under
the line `c`, every other protected part `a'` under the same line (any of the three line ends) is
REJECTED unless `H a' = H a` — in particular when `a` / `a'` contain `Checksum: ` themselves. -/
theorem v1_sealed_corruption_rejected (H : Hash) (a a' c eol eol' : Bytes) (hl : c.length = 64)
    (hx : c.all V1.isHexDigit = true) (heol : eol = [] ∨ eol = [0x0a] ∨ eol = [0x0d, 0x0a])
    (heol' : eol' = [] ∨ eol' = [0x0a] ∨ eol' = [0x0d, 0x0a])
    (hp : V1.check H (a ++ V1.pfx ++ c ++ eol) = .pass a (some c)) (hnc : H a' ≠ H a) :
    V1.check H (a' ++ V1.pfx ++ c ++ eol') = .checksumErr := by
  rw [v1_sealed_accepts_iff H a c eol hl hx heol] at hp
  rw [v1_sealed_accepts_iff H a' c eol' hl hx heol']
  have e1 : V1.hexLower (H a) = c := by
    by_cases h : V1.hexLower (H a) = c
    · exact h
    · rw [if_neg h] at hp; cases hp
  have : V1.hexLower (H a') ≠ c := fun h => hnc (Proofs.Integrity.V1.hexLower_inj _ _ (by rw [h, e1]))
  rw [if_neg this]

/-- ⟂ `v1_checksum_required` (counter-witness, every `H`): a response whose checksum line is damaged
(here: 63 digits) is passed on UNCHECKED with the whole input as message — the check fails open. -/
theorem v1_damaged_checksum_line_unchecked (H : Hash) :
    V1.check H ([0x58, 0x0a] ++ V1.pfx ++ List.replicate 63 0x30 ++ [0x0a]) =
      .pass ([0x58, 0x0a] ++ V1.pfx ++ List.replicate 63 0x30 ++ [0x0a]) none := by
  have : V1.extract ([0x58, 0x0a] ++ V1.pfx ++ List.replicate 63 0x30 ++ [0x0a]) =
      ([0x58, 0x0a] ++ V1.pfx ++ List.replicate 63 0x30 ++ [0x0a], none) := by decide
  unfold V1.check; rw [this]

/-- ⟂ `v1_checksum_required`, second shape (same root: a damaged line is treated as absent): the
protected bytes contain a nested `Checksum:` line that is valid for its own prefix `A\n`
(`H (A\n) = 0^32`); one bit of the response's OWN last line is flipped (`C` → `B`), the nested
line becomes the last one and the response passes as CHECKED with everything after `A\n` cut
away (the row `B\n` is lost). -/
theorem v1_damaged_last_line_earlier_governs (H : Hash) (hA : H [0x41, 0x0a] = List.replicate 32 0) :
    V1.check H ([0x41, 0x0a] ++ V1.pfx ++ List.replicate 64 0x30 ++ [0x0a] ++ [0x42, 0x0a] ++
        ([0x42] ++ V1.pfx.drop 1) ++ List.replicate 64 0x31 ++ [0x0a]) =
      .pass [0x41, 0x0a] (some (List.replicate 64 0x30)) := by
  have : V1.extract ([0x41, 0x0a] ++ V1.pfx ++ List.replicate 64 0x30 ++ [0x0a] ++ [0x42, 0x0a] ++
        ([0x42] ++ V1.pfx.drop 1) ++ List.replicate 64 0x31 ++ [0x0a]) =
      ([0x41, 0x0a], some (List.replicate 64 0x30)) := by decide +kernel
  unfold V1.check; rw [this]
  simp only [hA]
  decide

/-! ### Validating caches -/

/-- `validated_get_sound` (`_partial`: values up to the size exemption): from ANY state of the
layers — whatever was put, overwritten or corrupted before — a validating multi-layer read with
hooks returns `v` for content key `c` only if `H v = c`, or `v` is larger than the exemption. -/
theorem validated_get_sound (H : Hash) (cfg : Cache.Cfg) (s s' : List Cache.Layer) (k c v : Bytes)
    (hh : cfg.hooks = true) (h : Cache.getValidated H cfg s k (some c) = (s', .hit v))
    (hsz : v.length ≤ cfg.skipAbove) : H v = c := by
  rcases Proofs.Integrity.Cache.getValidated_sound H cfg s s' k c v hh h with h1 | h1
  · exact h1
  · omega

/-- … and a failed validation leaves the key in no layer. -/
theorem validated_get_removes_corrupt (H : Hash) (cfg : Cache.Cfg) (s s' : List Cache.Layer) (k : Bytes)
    (e : Option Bytes) (h : Cache.getValidated H cfg s k e = (s', .corrupt)) :
    ∀ l ∈ s', Cache.lookup k l = none :=
  Proofs.Integrity.Cache.getValidated_corrupt H cfg s s' k e h

/-- The same over every history of put_with_validation / put_to_layer / corrupt-backing-file /
get_with_validation from every initial state: no validating read in the history returns bytes
(within the exemption) whose hash differs from the requested key. -/
theorem validated_history_sound (H : Hash) (cfg : Cache.Cfg) (hh : cfg.hooks = true) :
    ∀ (ops : List Cache.Op) (s : List Cache.Layer) (k c v : Bytes),
      (Cache.Op.getV k (some c), Cache.Out.hit v) ∈ Cache.run H cfg s ops → v.length ≤ cfg.skipAbove → H v = c := by
  intro ops
  induction ops with
  | nil => intro s k c v h; simp [Cache.run] at h
  | cons op ops ih =>
    intro s k c v h hsz
    simp only [Cache.run, List.mem_cons] at h
    rcases h with h | h
    · simp only [Prod.mk.injEq] at h
      obtain ⟨rfl, h2⟩ := h
      simp only [Cache.step] at h2
      exact validated_get_sound H cfg s _ k c v hh (Prod.ext rfl h2.symm) hsz
    · exact ih _ k c v h hsz

/-- ⟂ `validated_get_sound` for all sizes (counter-witness, every `H`, every exemption size): a
value longer than `skipAbove` is returned under ANY content key without being hashed
(`Md5ValidationHooks::should_skip_validation`: 100 MiB in the crate). -/
theorem validated_get_large_unchecked (H : Hash) (cfg : Cache.Cfg) (k c v : Bytes) (hbig : cfg.skipAbove < v.length) :
    Cache.getValidated H cfg [[(k, v)]] k (some c) = ([[(k, v)]], .hit v) := by
  unfold Cache.getValidated Cache.firstHit Cache.lookup
  simp only [if_true]
  cases cfg.hooks <;> simp [Cache.hooksValid, Cache.hooksValidLen, hbig]

/-- `ContentAddressedCache::get_validated` has no exemption: it returns `v` only if `H v = c`,
from any state of the inner store. -/
theorem content_addressed_get_sound (H : Hash) (l : Cache.Layer) (c v : Bytes)
    (h : Cache.caGet H l c = .hit v) : H v = c := by
  unfold Cache.caGet at h
  split at h
  · cases h
  · split at h
    · rename_i hv; simp only [Cache.Out.hit.injEq] at h; rw [← h]; simpa using hv
    · cases h

/-- … and is live: what `put_validated` accepted is returned while the store is not touched. -/
theorem content_addressed_put_get (H : Hash) (l l' : Cache.Layer) (c v : Bytes)
    (h : Cache.caPut H l c v = (l', .ok)) : Cache.caGet H l' c = .hit v := by
  unfold Cache.caPut at h
  split at h
  · rename_i hv
    simp only [Prod.mk.injEq, and_true] at h
    rw [← h]; unfold Cache.caGet Cache.insert Cache.lookup
    simp [hv]
  · simp at h

/-! ### the hypotheses are satisfiable by non-trivial instances -/

/-- a hash for the examples: the length byte. -/
private def lenHash : Hash := fun b => [BitVec.ofNat 8 b.length]

-- a validated put followed by a validated get through the multi-layer model
example : (Cache.run lenHash ⟨true, 100⟩ [[], []]
    [.putV [1] [2] [7, 7], .corrupt 0 [1] [9], .getV [1] (some [2])]).map (·.2) = [.ok, .ok, .corrupt] := by decide
example : (Cache.run lenHash ⟨true, 100⟩ [[], []]
    [.putV [1] [2] [7, 7], .getV [1] (some [2])]).map (·.2) = [.ok, .hit [7, 7]] := by decide
-- an accepted single-page "file" for parsePages
example : Enc.parsePages lenHash (fun _ => .ok 1) 2 [([], [2])] [5, 6, 7] = .ok (1, [7]) := by rfl
example : Enc.parsePages lenHash (fun _ => .ok 1) 2 [([], [3])] [5, 6, 7] = .error .checksum := by rfl

/-! ## Extension -/

/-! ### exact acceptance condition of `EncodingFile::parse` -/

/-- `enc_accepts_iff`: with the two page-entry parsers as PARAMETERS, `EncodingFile::parse` succeeds
with `(nc, ne)` entries iff the header reads and validates, the file is at least `data_size` long,
the ESpec block is a list of non-empty NUL-terminated strings, EVERY CKey and EKey page hashes (whole
page, whole 16-byte digest) to the checksum its index entry stores, and the entry parsers accept
every page with these totals.  Nothing else is looked at: the ESpec block, the header, the
`first_key` halves of the index and the trailing ESpec are NOT covered by any checksum of this format
(the file as a whole is addressed by its encoding key, checked by the fetch path). -/
theorem enc_accepts_iff (H : Hash) (peC peE : Enc.Header → Bytes → Except Enc.Err Nat) (d : Bytes) (nc ne : Nat) :
    Enc.parseWith H peC peE d = .ok (nc, ne) ↔
      ∃ h, Enc.readHeader d = .ok h ∧ Enc.headerOk h = true ∧ Enc.dataSize h ≤ d.length ∧
        Enc.especOk (slice d 22 h.especSize) true = true ∧
        (∀ i, i < h.ckCount → H (Proofs.Integrity.Enc.ckPage h d i) = Proofs.Integrity.Enc.ckSum h d i) ∧
        (∀ i, i < h.ekCount → H (Proofs.Integrity.Enc.ekPage h d i) = Proofs.Integrity.Enc.ekSum h d i) ∧
        Enc.entriesOf (peC h) (h.ckKb * 1024) h.ckCount (d.drop (Proofs.Integrity.Enc.ckPagesOff h)) = .ok nc ∧
        Enc.entriesOf (peE h) (h.ekKb * 1024) h.ekCount (d.drop (Proofs.Integrity.Enc.ekPagesOff h)) = .ok ne :=
  Proofs.IntegrityExt.Enc.parseWith_ok_iff H peC peE d nc ne

/-- the same for `EncodingFile::parse` itself (entry loops of the crate), with the real MD5. -/
theorem enc_parse_accepts_iff_md5 (d : Bytes) (nc ne : Nat) :
    Enc.parse Spec.Md5.md5 d = .ok (nc, ne) ↔
      ∃ h, Enc.readHeader d = .ok h ∧ Enc.headerOk h = true ∧ Enc.dataSize h ≤ d.length ∧
        Enc.especOk (slice d 22 h.especSize) true = true ∧
        (∀ i, i < h.ckCount → Spec.Md5.md5 (Proofs.Integrity.Enc.ckPage h d i) = Proofs.Integrity.Enc.ckSum h d i) ∧
        (∀ i, i < h.ekCount → Spec.Md5.md5 (Proofs.Integrity.Enc.ekPage h d i) = Proofs.Integrity.Enc.ekSum h d i) ∧
        Enc.entriesOf (Enc.ckPe h) (h.ckKb * 1024) h.ckCount (d.drop (Proofs.Integrity.Enc.ckPagesOff h)) = .ok nc ∧
        Enc.entriesOf (Enc.ekPe h) (h.ekKb * 1024) h.ekCount (d.drop (Proofs.Integrity.Enc.ekPagesOff h)) = .ok ne := by
  rw [Enc.parse_eq_parseWith]; exact enc_accepts_iff _ _ _ d nc ne

/-- exact success condition of the page loop alone (any index, any entry parser). -/
theorem enc_pages_accept_iff (H : Hash) (pe : Bytes → Except Enc.Err Nat) (ps : Nat)
    (idx : List (Bytes × Bytes)) (rest : Bytes) (n : Nat) (r : Bytes) :
    Enc.parsePages H pe ps idx rest = .ok (n, r) ↔
      (idx.length * ps ≤ rest.length ∧ r = rest.drop (idx.length * ps) ∧
       (∀ i (hi : i < idx.length), H (slice rest (i * ps) ps) = (idx[i]).2) ∧
       Enc.entriesOf pe ps idx.length rest = .ok n) :=
  Proofs.IntegrityExt.Enc.parsePages_ok_iff H pe ps idx rest n r

/-- Rejection form: a file with a readable header in which some page (either table) does not hash to
the checksum stored for it is NOT accepted — for every pair of entry parsers (so in particular before
any entry of any page is handed out). -/
theorem enc_page_mismatch_rejected (H : Hash) (peC peE : Enc.Header → Bytes → Except Enc.Err Nat) (d : Bytes)
    (h : Enc.Header) (hh : Enc.readHeader d = .ok h)
    (hbad : (∃ i, i < h.ckCount ∧ H (Proofs.Integrity.Enc.ckPage h d i) ≠ Proofs.Integrity.Enc.ckSum h d i) ∨
            (∃ i, i < h.ekCount ∧ H (Proofs.Integrity.Enc.ekPage h d i) ≠ Proofs.Integrity.Enc.ekSum h d i))
    (r : Nat × Nat) : Enc.parseWith H peC peE d ≠ .ok r := by
  intro hp
  obtain ⟨nc, ne⟩ := r
  obtain ⟨h', e1, _, _, _, c, k, _⟩ := (enc_accepts_iff H peC peE d nc ne).mp hp
  rw [hh] at e1; cases e1
  rcases hbad with ⟨i, hi, hne⟩ | ⟨i, hi, hne⟩
  · exact hne (c i hi)
  · exact hne (k i hi)

/-- Corruption form as a rejection: if `d` is accepted and `d'` has the same header and the same
stored checksum for CKey page `i` (resp. EKey page `i`) but that page hashes differently, `d'` is
rejected. -/
theorem enc_page_corruption_rejected (H : Hash) (peC peE : Enc.Header → Bytes → Except Enc.Err Nat) (d d' : Bytes)
    (r : Nat × Nat) (h : Enc.Header) (hp : Enc.parseWith H peC peE d = .ok r)
    (hh : Enc.readHeader d = .ok h) (hh' : Enc.readHeader d' = .ok h)
    (hbad : (∃ i, i < h.ckCount ∧ Proofs.Integrity.Enc.ckSum h d' i = Proofs.Integrity.Enc.ckSum h d i ∧
                H (Proofs.Integrity.Enc.ckPage h d' i) ≠ H (Proofs.Integrity.Enc.ckPage h d i)) ∨
            (∃ i, i < h.ekCount ∧ Proofs.Integrity.Enc.ekSum h d' i = Proofs.Integrity.Enc.ekSum h d i ∧
                H (Proofs.Integrity.Enc.ekPage h d' i) ≠ H (Proofs.Integrity.Enc.ekPage h d i)))
    (r' : Nat × Nat) : Enc.parseWith H peC peE d' ≠ .ok r' := by
  obtain ⟨nc, ne⟩ := r
  obtain ⟨h0, e1, _, _, _, c, k, _⟩ := (enc_accepts_iff H peC peE d nc ne).mp hp
  rw [hh] at e1; cases e1
  apply enc_page_mismatch_rejected H peC peE d' h hh'
  rcases hbad with ⟨i, hi, hs, hne⟩ | ⟨i, hi, hs, hne⟩
  · exact Or.inl ⟨i, hi, fun e => hne (by rw [e, hs, c i hi])⟩
  · exact Or.inr ⟨i, hi, fun e => hne (by rw [e, hs, k i hi])⟩

/-! ### the real hash functions -/

/-- `hashlittle(·, 0)` and `hashlittle(·, CHECKSUM_A_SEED)` as naturals (seed taken from the source). -/
def hl0 (b : Bytes) : Nat := (Model.Jenkins.hashlittle b 0).toNat
def hlA (b : Bytes) : Nat :=
  (Model.Jenkins.hashlittle b (BitVec.ofNat 32 Generated.IntegritySrc.lhdr_checksum_a_seed)).toNat

/-- `.lru`: accepted iff size/version ok and bytes `[4,20)` are the MD5 of the whole file with them zeroed. -/
theorem lru_accepts_iff_md5 (d : Bytes) :
    Lru.accept Spec.Md5.md5 d = true ↔
      Lru.validSize d.length = true ∧ Lru.version d ≤ Lru.maxVersion ∧ Lru.stored d = Spec.Md5.md5 (Lru.region d) :=
  lru_accepts_iff _ d

/-- … so two distinct accepted files with the same stored digest are an MD5 collision. -/
theorem lru_corruption_needs_md5_collision (d d' : Bytes)
    (ha : Lru.accept Spec.Md5.md5 d = true) (ha' : Lru.accept Spec.Md5.md5 d' = true) (hne : d' ≠ d)
    (hst : Lru.stored d' = Lru.stored d) :
    Lru.region d' ≠ Lru.region d ∧ Spec.Md5.md5 (Lru.region d') = Spec.Md5.md5 (Lru.region d) :=
  lru_corruption_needs_collision _ d d' ha ha' hne hst

/-- completeness of the writer: what `lru_file::serialize` produces — bytes `[4,20)` := MD5 of the
buffer with them zeroed — is accepted by `deserialize`, for every well-sized buffer of version ≤ 1
(so the acceptance condition is not vacuous, and the check does not reject good files). -/
theorem lru_serialize_accepted_md5 (d : Bytes) (hs : Lru.validSize d.length = true) (hv : Lru.version d ≤ Lru.maxVersion) :
    Lru.accept Spec.Md5.md5 (Proofs.IntegrityExt.Lru.rehash Spec.Md5.md5 d) = true :=
  Proofs.IntegrityExt.Lru.rehash_accepted _ Spec.Md5.md5_length d hs hv

/-- archive-index footer with the real MD5: every accepted footer stores the first 8 bytes of
`MD5(fields[8,20) ‖ 0⁸)` — all 8 compared. -/
theorem aidx_footer_md5 (cs : Bool) (d : Bytes) (v ob ekl cnt : Nat)
    (hp : Aidx.footerCheck Spec.Md5.md5 cs d = .pass v ob ekl cnt) :
    Proofs.Integrity.Aidx.storedOf d = (Spec.Md5.md5 (Aidx.hashedOf (Proofs.Integrity.Aidx.footerOf d))).take 8 ∧
      (Proofs.Integrity.Aidx.storedOf d).length = 8 :=
  (aidx_footer_hash_bytes_compared _ cs d v ob ekl cnt hp).2

/-- update entry with the real lookup3: `validate_hash_guard` accepts iff the stored guard is
literally `hashlittle(region, 0) | 0x8000_0000` (the Rust expression, as a `u32`). -/
theorem update_guard_accepts_iff_hashlittle (e : Bytes) (hlen : e.length = 24) :
    Upd.validate hl0 e = true ↔
      leNat (e.take 4) = (Model.Jenkins.hashlittle (Upd.region e) 0 ||| 0x80000000#32).toNat := by
  rw [update_guard_accepts_iff hl0 e hlen]
  have := Proofs.IntegrityExt.Upd.guardOf_eq_or (fun b => Model.Jenkins.hashlittle b 0) (Upd.region e)
  unfold Upd.guardOf Upd.guardOr at this
  unfold hl0
  rw [this]

/-- local header with the real lookup3 and the seed found in the source: checksum A is all 32 bits of
`hashlittle(bytes[0,22), 0x3D6BE971)`. -/
theorem lhdr_accepts_iff_hashlittle (base : Nat) (h : Bytes) :
    Lhdr.validate hlA base h = true ↔
      leNat (slice h 22 4) = (Model.Jenkins.hashlittle (h.take 22) 0x3D6BE971#32).toNat ∧
      slice h 26 4 = Lhdr.checksumB base h := by
  rw [lhdr_accepts_iff]
  have : hlA (h.take 22) % 2 ^ 32 = (Model.Jenkins.hashlittle (h.take 22) 0x3D6BE971#32).toNat := by
    unfold hlA
    rw [Nat.mod_eq_of_lt (BitVec.isLt _)]
    rfl
  rw [this]

/-- `format!("{:x}")` facts used by the V1 check: two characters per byte, every character is one
of `0-9a-f` (hence an ASCII hex digit, hence never `\n`, `\r` or `h`), and the rendering is injective. -/
theorem v1_hex_rendering (x : Bytes) :
    (V1.hexLower x).length = 2 * x.length ∧ (∀ b ∈ V1.hexLower x, Proofs.IntegrityExt.V1.isLowerHex b = true) ∧
    (V1.hexLower x).all V1.isHexDigit = true ∧ (∀ y, V1.hexLower x = V1.hexLower y → x = y) :=
  ⟨Proofs.IntegrityExt.V1.hexLower_length x, Proofs.IntegrityExt.V1.hexLower_lower x,
   Proofs.IntegrityExt.V1.hexLower_all_hex x, fun y => Proofs.Integrity.V1.hexLower_inj x y⟩

/-- V1 with the real SHA-256: a response that ends in a well-formed line passes iff the 64 digits are
the lower-case hex of SHA-256 of ALL bytes before the line; otherwise it is a checksum error. -/
theorem v1_sealed_accepts_iff_sha256 (a c eol : Bytes) (hl : c.length = 64) (hx : c.all V1.isHexDigit = true)
    (heol : eol = [] ∨ eol = [0x0a] ∨ eol = [0x0d, 0x0a]) :
    V1.check Spec.Sha256.sha256 (a ++ V1.pfx ++ c ++ eol) =
      if V1.hexLower (Spec.Sha256.sha256 a) = c then .pass a (some c) else .checksumErr :=
  v1_sealed_accepts_iff _ a c eol hl hx heol

/-- completeness of the sealing line: `Checksum: <hex(SHA-256(a))>` seals ANY bytes `a` (whatever they
contain), with each of the three line ends — the rendered digest always is a well-formed line. -/
theorem v1_seal_passes_sha256 (a eol : Bytes) (heol : eol = [] ∨ eol = [0x0a] ∨ eol = [0x0d, 0x0a]) :
    V1.check Spec.Sha256.sha256 (a ++ V1.pfx ++ V1.hexLower (Spec.Sha256.sha256 a) ++ eol) =
      .pass a (some (V1.hexLower (Spec.Sha256.sha256 a))) :=
  Proofs.IntegrityExt.V1.seal_passes _ Spec.Sha256.sha256_length a eol heol

/-- a well-formed last line containing a digit outside `0-9a-f` (`is_ascii_hexdigit` admits `A-F`) is
ALWAYS a checksum error — for every hash and every protected part: never passed, never unchecked. -/
theorem v1_nonlower_line_rejected (H : Hash) (a c eol : Bytes) (hl : c.length = 64) (hx : c.all V1.isHexDigit = true)
    (heol : eol = [] ∨ eol = [0x0a] ∨ eol = [0x0d, 0x0a]) (b : Byte) (hb : b ∈ c)
    (hnl : Proofs.IntegrityExt.V1.isLowerHex b = false) :
    V1.check H (a ++ V1.pfx ++ c ++ eol) = .checksumErr := by
  rw [v1_sealed_accepts_iff H a c eol hl hx heol,
    if_neg (Proofs.IntegrityExt.V1.nonlower_never_matches c (H a) b hb hnl)]

/-- validating multi-layer read with the real MD5 and the exemption constant found in the source:
from any state, a value of at most 100 MiB is returned for content key `c` only if `MD5 v = c`. -/
theorem validated_get_sound_md5 (s s' : List Cache.Layer) (k c v : Bytes)
    (h : Cache.getValidated Spec.Md5.md5 ⟨true, Generated.IntegritySrc.max_validation_size⟩ s k (some c) = (s', .hit v))
    (hsz : v.length ≤ 100 * 1024 * 1024) : Spec.Md5.md5 v = c :=
  validated_get_sound _ ⟨true, Generated.IntegritySrc.max_validation_size⟩ s s' k c v rfl h hsz

/-- `ContentAddressedCache::get_validated` with the real MD5 (no exemption). -/
theorem content_addressed_get_sound_md5 (l : Cache.Layer) (c v : Bytes)
    (h : Cache.caGet Spec.Md5.md5 l c = .hit v) : Spec.Md5.md5 v = c :=
  content_addressed_get_sound _ l c v h

/-! ### the hypotheses of the extension theorems are satisfiable -/

/-- a 2136-byte encoding table: header (1 CKey page, 1 EKey page of 1 KiB, ESpec block `z\0`), both
index checksums `0¹⁶`; accepted under the constant-zero hash with entry parsers that count one entry
per page, rejected as soon as a stored checksum byte differs. -/
private def encFile (ck0 : Byte) : Bytes :=
  [0x45, 0x4E, 1, 16, 16, 0, 1, 0, 1, 0, 0, 0, 1, 0, 0, 0, 1, 0, 0, 0, 0, 2] ++ [0x7a, 0] ++
  (List.replicate 16 7 ++ ck0 :: List.replicate 15 0) ++ List.replicate 1024 1 ++
  (List.replicate 16 8 ++ List.replicate 16 0) ++ List.replicate 1024 2

example : (match Enc.parseWith (fun _ => List.replicate 16 0) (fun _ _ => .ok 1) (fun _ _ => .ok 1) (encFile 0) with
    | .ok (1, 1) => true | _ => false) = true := by
  decide +kernel
example : (match Enc.parseWith (fun _ => List.replicate 16 0) (fun _ _ => .ok 1) (fun _ _ => .ok 1) (encFile 1) with
    | .error .checksum => true | _ => false) = true := by
  decide +kernel
-- serialize ∘ deserialize on the 28-byte header-only file, real MD5
example : Lru.accept Spec.Md5.md5 (Proofs.IntegrityExt.Lru.rehash Spec.Md5.md5 (List.replicate 28 0)) = true := by
  decide +kernel
-- an upper-case digit in an otherwise well-formed line
example : V1.check lenHash ([0x58, 0x0a] ++ V1.pfx ++ (0x41 :: List.replicate 63 0x30) ++ [0x0a]) = .checksumErr := by
  decide +kernel
-- a validated read of a small value through the real MD5 (MD5("") = d41d8cd9…)
example : (Cache.getValidated Spec.Md5.md5 ⟨true, Generated.IntegritySrc.max_validation_size⟩ [[([1], [])]] [1]
    (some [0xd4,0x1d,0x8c,0xd9,0x8f,0x00,0xb2,0x04,0xe9,0x80,0x09,0x98,0xec,0xf8,0x42,0x7e])).2 = .hit [] := by
  decide +kernel

/-! ### the comparison is equality; the bytes handed out are the bytes that were hashed
(strengthening after seeded changes C07-1c — XOR-fold comparison in `is_valid` — and C07-2c —
`get_validated` hashing one read and returning a second) -/

/-- `IndexFooter::is_valid` by itself is an EQUALITY test: for a footer record with the full-size
hash field (8 stored bytes, `footer_hash_bytes ≥ 8` — every footer `ArchiveIndex::parse` /
`ChunkedArchiveIndex::open` let through since fix 6b0ee35) it answers true iff the 8 stored bytes are
`H(fields ‖ 0⁸)[..8]`, byte for byte — not a fold (XOR / sum) of the byte differences, not a prefix. -/
theorem aidx_isvalid_iff (H : Hash) (ft : Bytes) (hl : ft.length = 28) (h8 : 8 ≤ byteAt (ft.take 20) 15) :
    Aidx.isValid H ft = true ↔ ft.drop 20 = (H (Aidx.hashedOf (ft.take 20))).take 8 :=
  Proofs.Integrity.Aidx.isValid_iff H ft hl h8

/-- hence two valid footers with the same stored hash and different hashed fields are a collision
of `H` on its first 8 bytes (no structural hypothesis: `validate_format` / `validate_file_size`
play no role). -/
theorem aidx_isvalid_corruption_needs_collision (H : Hash) (ft ft' : Bytes)
    (hl : ft.length = 28) (hl' : ft'.length = 28)
    (h8 : 8 ≤ byteAt (ft.take 20) 15) (h8' : 8 ≤ byteAt (ft'.take 20) 15)
    (hv : Aidx.isValid H ft = true) (hv' : Aidx.isValid H ft' = true)
    (hst : ft'.drop 20 = ft.drop 20)
    (hne : Aidx.hashedOf (ft'.take 20) ≠ Aidx.hashedOf (ft.take 20)) :
    Collision H 8 (Aidx.hashedOf (ft'.take 20)) (Aidx.hashedOf (ft.take 20)) := by
  have e := (aidx_isvalid_iff H ft hl h8).mp hv
  have e' := (aidx_isvalid_iff H ft' hl' h8').mp hv'
  exact ⟨hne, by rw [← e, ← e', hst]⟩

/-- … and ANY change of the stored hash alone — one byte, or several bytes whose differences cancel
under XOR or addition — is reported invalid. -/
theorem aidx_isvalid_stored_change_rejected (H : Hash) (ft ft' : Bytes)
    (hl : ft.length = 28) (hl' : ft'.length = 28) (h8 : 8 ≤ byteAt (ft.take 20) 15)
    (hv : Aidx.isValid H ft = true) (hf : ft'.take 20 = ft.take 20) (hne : ft'.drop 20 ≠ ft.drop 20) :
    Aidx.isValid H ft' = false := by
  have e := (aidx_isvalid_iff H ft hl h8).mp hv
  cases hv' : Aidx.isValid H ft' with
  | false => rfl
  | true =>
    have e' := (aidx_isvalid_iff H ft' hl' (by rw [hf]; exact h8)).mp hv'
    rw [hf, ← e] at e'
    exact absurd e' hne

/-- the `ChecksumMismatch` answer of both entry points is exactly `!is_valid()` of the last 28 bytes
(what the run's `fvalid` line observes on the real `IndexFooter`). -/
theorem aidx_checksum_stage_is_isValid (H : Hash) (cs : Bool) (d : Bytes) (h28 : 28 ≤ d.length)
    (h8 : Proofs.Integrity.Aidx.hbOf d = 8) :
    Aidx.footerCheck H cs d = .checksum ↔ Aidx.isValid H (d.drop (d.length - 28)) = false :=
  Proofs.Integrity.Aidx.checksum_iff_isValid H cs d h28 h8

/-- test (one instance): with the constant-zero hash, stored hash bytes `05 05 00…` — two bytes
changed by the same delta, XOR of the differences 0 — are invalid. -/
example : Aidx.isValid (fun _ => List.replicate 16 0) (List.replicate 15 0 ++ [8] ++ List.replicate 4 0 ++ [5, 5, 0, 0, 0, 0, 0, 0]) = false := by decide

/-- `content_addressed_get_any_store_sound` (FULL second sentence of the property for
`ContentAddressedCache::get_validated`): whatever the backing store answers to each individual read
during the call (`r` is arbitrary: a concurrent writer, a rewritten DiskCache file, a failing disk,
an expiring entry), the bytes handed out hash to the requested key — they ARE the bytes that were
hashed, because the call reads once. -/
theorem content_addressed_get_any_store_sound (H : Hash) (r : Nat → Option Bytes) (c v : Bytes)
    (h : (Cache.caGetReads H r c).1 = .hit v) : H v = c := by
  unfold Cache.caGetReads at h
  split at h
  · cases h
  · simp only at h
    split at h
    · rename_i hv; simp only [Cache.Out.hit.injEq] at h; rw [← h]; simpa using hv
    · cases h

/-- the call makes exactly one read of the backing store (the run compares this count with the real
code's, counted by a harness-owned `AsyncCache` around the real DiskCache). -/
theorem content_addressed_get_reads_once (H : Hash) (r : Nat → Option Bytes) (c : Bytes) :
    (Cache.caGetReads H r c).2 = 1 := by
  unfold Cache.caGetReads; split <;> rfl

/-- the quiescent-store model `caGet` is the instance with a store that answers every read alike. -/
theorem content_addressed_get_is_single_read (H : Hash) (l : Cache.Layer) (c : Bytes) :
    Cache.caGet H l c = (Cache.caGetReads H (fun _ => Cache.lookup c l) c).1 := by
  unfold Cache.caGet Cache.caGetReads; split <;> simp_all

/-- instance for the fault plans the run injects (store answers differently at the n-th read, for
that read only or from then on). -/
theorem content_addressed_get_fault_sound (H : Hash) (f : Cache.Fault) (l : Cache.Layer) (c v : Bytes)
    (h : (Cache.caGetReads H (f.reads (Cache.lookup c l)) c).1 = .hit v) : H v = c :=
  content_addressed_get_any_store_sound H _ c v h

/-- `validated_get_fault_sound`: `get_with_validation` with hooks hands out `v` for content key `c`
only if `H v = c` (up to the size exemption) also when the disk layer's backing file is rewritten
DURING the call — before its read or after any of its reads: what is returned is the buffer that
was hashed. -/
theorem validated_get_fault_sound (H : Hash) (cfg : Cache.Cfg) (s : List Cache.Layer) (k c v alt : Bytes) (m : Nat)
    (hh : cfg.hooks = true) (h : (Cache.getValidatedFault H cfg s k (some c) m alt).2.1 = .hit v)
    (hsz : v.length ≤ cfg.skipAbove) : H v = c := by
  unfold Cache.getValidatedFault at h
  simp only [] at h
  split at h
  · exact validated_get_sound H cfg _ _ k c v hh (Prod.ext rfl h) hsz
  · exact validated_get_sound H cfg _ _ k c v hh (Prod.ext rfl h) hsz

/-- a call that finds the key in memory, or nowhere, never reads the disk file; otherwise it reads
it exactly once (the count the run compares with the `disk.get.before_read` schedule points the
real call passes). -/
theorem validated_get_fault_reads_le_one (H : Hash) (cfg : Cache.Cfg) (s : List Cache.Layer) (k : Bytes)
    (e : Option Bytes) (m : Nat) (alt : Bytes) : (Cache.getValidatedFault H cfg s k e m alt).2.2 ≤ 1 := by
  unfold Cache.getValidatedFault
  simp only []
  split <;> (split <;> (try split) <;> simp)

end Cascette.Props.C07
