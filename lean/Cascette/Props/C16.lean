/-
Props/C16 — Applying a generated binary patch to the old file yields the new file.

Model = crates/cascette-formats/src/zbsdiff as written after /repo 5dfb3c4 (Model/Bspatch):
the two patchers (`memApply` = byte loops of `apply_patch_with_data`, `streamApply buf` = the
buffer-sized chunk loops of `ZbsdiffPatcher::apply_patch`), the three builders (`simple`,
`chunked maxBlk`, `suffixWith` / `suffix sa`) and the control-block codec. Spec = block-level
bspatch (Spec/Bspatch). Every theorem is for ALL old / new contents, all `max_diff_block_size`
values, all patcher buffer sizes, all control lists / blocks / header sizes.

Restated more precisely than DESIGN §6 planned:
* `suffix_correct` is proved for EVERY match finder obeying only the in-bounds law (not even
  "the reported bytes match" is needed), and separately the modelled binary search over ANY
  array of in-range indices (sorted or not) is shown to obey the law.
* builder theorems are of the form "if the builder returns a patch, both patchers return exactly
  `new`"; the builders do refuse some inputs (ControlEntry::validate caps one operation at
  10 MB, the header caps the output at 1 GB) — `simple_total` / `chunked_total` say when they
  cannot refuse.
* the chunked builder of the pinned tree violated the property; `pinned_chunked_wrong_bytes` and
  `pinned_chunked_empty_new_fails` are the kernel-checked witnesses on the model of the pinned
  code, `chunked_correct` is the full theorem of the repaired code.
-/
import Cascette.Proofs.Bspatch
import Cascette.Proofs.Zbsdiff
namespace Cascette.Props.C16
open Cascette
open Cascette.Spec.Bspatch
open Cascette.Model.Bspatch
open Cascette.Proofs.Bspatch
open Cascette.Model.Zbsdiff
open Cascette.Proofs.Zbsdiff

/-! ### the patchers -/

/-- Both patcher models are the block-level bspatch of the specification, for every control
list, blocks, stated size and every buffer size (the Rust clamps it to ≥ 1024; any size ≥ 1
gives the same function). -/
theorem patchers_eq_spec (old : Bytes) (ctl : List Ctl) (diff extra : Bytes) (outSize buf : Nat) :
    memApply old ctl diff extra outSize = finish outSize (applyFrom old ctl 0 diff extra) ∧
    streamApply buf old ctl diff extra outSize = finish outSize (applyFrom old ctl 0 diff extra) := by
  unfold memApply streamApply
  rw [memEntries_eq_spec, streamEntries_eq_spec _ (clampBuf_pos buf)]
  exact ⟨rfl, rfl⟩

/-- memory and streaming patchers agree on every patch (valid or not), for every buffer size. -/
theorem patchers_agree (old : Bytes) (ctl : List Ctl) (diff extra : Bytes) (outSize buf : Nat) :
    streamApply buf old ctl diff extra outSize = memApply old ctl diff extra outSize := by
  rw [(patchers_eq_spec old ctl diff extra outSize buf).1, (patchers_eq_spec old ctl diff extra outSize buf).2]

/-- `apply_length_or_error`: applying ANY patch (any control bytes, any blocks, any stated size,
either patcher) returns exactly `header.output_size` bytes or an error. -/
theorem apply_length_or_error (buf : Option Nat) (old ctlBytes diff extra : Bytes) (outSize : Nat) (out : Bytes)
    (h : applyBytes buf old ctlBytes diff extra outSize = .ok out) : out.length = outSize := by
  unfold applyBytes at h
  split at h
  · cases h
  · split at h
    · cases h
    · rename_i ctl _
      have key : ∀ o : Option Bytes, finish outSize o = .ok out → out.length = outSize := by
        intro o ho
        unfold finish at ho
        split at ho
        · cases ho
        · split at ho
          · rename_i hl; cases ho; exact hl
          · cases ho
      cases buf with
      | none => exact key _ h
      | some b => exact key _ h

/-- FINDING (API level, KNOWN_FINDINGS sig `stream-size-from-caller`): the streaming patcher checks
the produced length against the size its caller passed to `ZbsdiffPatcher::new`, not against the
header. Full statement "Ok ⇒ length = header.output_size" is false of `apply_patch_from_data`
when the two differ; kernel-checked witness: header says 7, caller says 5, result `Ok` of 5 bytes. -/
theorem stream_caller_size_witness :
    (applyBytesStreamCaller 5 1024 [] (encodeCtl [⟨0, 5, 0⟩]) [] [1, 2, 3, 4, 5] 7).toOption = some [1, 2, 3, 4, 5] := by
  decide +kernel

/-- `_partial`: what does hold for every caller-supplied size — `Ok` output has exactly the
caller's length; with the documented construction (`caller = header.output_size`) this is
`apply_length_or_error`. -/
theorem stream_length_is_callers_partial (callerSize buf : Nat) (old ctlBytes diff extra : Bytes) (headerSize : Nat)
    (out : Bytes) (h : applyBytesStreamCaller callerSize buf old ctlBytes diff extra headerSize = .ok out) :
    out.length = callerSize ∧
    (callerSize = headerSize → applyBytes (some buf) old ctlBytes diff extra headerSize = .ok out) := by
  unfold applyBytesStreamCaller at h
  split at h
  · cases h
  · rename_i hh
    split at h
    · cases h
    · rename_i ctl hp
      refine ⟨?_, ?_⟩
      · unfold streamApply finish at h
        split at h
        · cases h
        · split at h
          · rename_i hl; cases h; exact hl
          · cases h
      · intro he
        subst he
        unfold applyBytes
        simp only [hh, if_false, hp]
        exact h

/-- `emit_step` (DESIGN App. A.3): one control triple `(lenf, ext, lp' − (lp+lenf))` with diff bytes
`new[ls+i] − old[lp+i]` and extra bytes `new[ls+lenf .. ls+lenf+ext)` advances the reconstruction
by exactly `new[ls .. ls+lenf+ext)` and leaves the old position at `lp'`. -/
theorem emit_step (old new : Bytes) (cs : List Ctl) (ls lp lenf ext lp' : Nat) (D E : Bytes)
    (h1 : ls + lenf + ext ≤ new.length) (h2 : lp + lenf ≤ old.length) (h3 : lp' ≤ usizeMax) :
    applyFrom old (⟨lenf, ext, (lp' : Int) - ((lp : Int) + (lenf : Int))⟩ :: cs) lp
        (subBytes ((new.drop ls).take lenf) ((old.drop lp).take lenf) ++ D)
        ((new.drop (ls + lenf)).take ext ++ E) =
      (applyFrom old cs lp' D E).map (fun rest => (new.drop ls).take (lenf + ext) ++ rest) :=
  Proofs.Bspatch.emit_step old new cs ls lp lenf ext lp' D E h1 h2 h3

/-- a patch whose blocks rebuild `new` is applied to `new` by both patchers. -/
private theorem both_ok (old new : Bytes) (p : Patch) (buf : Nat) (hsz : p.outSize = new.length)
    (h : applyFrom old p.ctl 0 p.diff p.extra = some new) :
    memApply old p.ctl p.diff p.extra p.outSize = .ok new ∧
    streamApply buf old p.ctl p.diff p.extra p.outSize = .ok new := by
  have e := patchers_eq_spec old p.ctl p.diff p.extra p.outSize buf
  rw [e.1, e.2, h]
  simp [finish, hsz]

/-! ### the builders -/

/-- `simple_correct`: for every old, new, buffer size: the simple patch, if built, is applied to
exactly `new` by both patchers. -/
theorem simple_correct (old new : Bytes) (buf : Nat) (p : Patch) (h : simple new = .ok p) :
    memApply old p.ctl p.diff p.extra p.outSize = .ok new ∧
    streamApply buf old p.ctl p.diff p.extra p.outSize = .ok new := by
  obtain ⟨h1, h2, h3, h4, -⟩ := assemble_ok _ _ _ h
  apply both_ok old new p buf h4
  rw [h1, h2, h3]
  exact simple_blocks old new

/-- the simple builder cannot refuse content up to the per-operation limit (10 MB). -/
theorem simple_total (new : Bytes) (h : new.length ≤ maxOp) : ∃ p, simple new = .ok p := by
  unfold simple assemble
  have h1 : ¬ new.length > maxSize := by unfold maxOp at h; unfold maxSize; omega
  have h2 : ¬ 10000000 < new.length := by unfold maxOp at h; omega
  simp [h1, h2, maxOp]

/-- `chunked_correct` (repaired builder): for every old, new, `max_diff_block_size` and buffer
size, the chunked patch, if built, is applied to exactly `new` by both patchers. -/
theorem chunked_correct (maxBlk : Nat) (old new : Bytes) (buf : Nat) (p : Patch)
    (h : chunked maxBlk old new = .ok p) :
    memApply old p.ctl p.diff p.extra p.outSize = .ok new ∧
    streamApply buf old p.ctl p.diff p.extra p.outSize = .ok new := by
  unfold chunked at h
  simp only at h
  split at h
  · exact simple_correct old new buf p h
  · obtain ⟨h1, h2, h3, h4, -⟩ := assemble_ok _ _ _ h
    apply both_ok old new p buf h4
    rw [h1, h2, h3]
    exact chunkedLoop_correct old maxBlk 256 (by omega) new.length 0 old new (Nat.le_refl _) rfl

/-- `suffix_correct`: `compute_diff` + `build_optimized_patch` with ANY match finder obeying the
in-bounds law (`pos + len ≤ |old|`, `len ≤ |new| − scan`): the patch, if built, is applied to
exactly `new` by both patchers. -/
theorem suffix_correct (cx : Cx) (wf : WfCx cx) (law : SearchLaw cx) (buf : Nat) (p : Patch)
    (h : suffixWith cx = .ok p) :
    memApply cx.old p.ctl p.diff p.extra p.outSize = .ok cx.new ∧
    streamApply buf cx.old p.ctl p.diff p.extra p.outSize = .ok cx.new := by
  unfold suffixWith at h
  simp only at h
  split at h
  · exact simple_correct cx.old cx.new buf p h
  · obtain ⟨h1, h2, h3, h4, -⟩ := assemble_ok _ _ _ h
    apply both_ok cx.old cx.new p buf h4
    rw [h1, h2, h3]
    exact computeDiff_correct cx wf law

/-- the `search` of suffix.rs (binary search + two `matchlen`s) obeys the in-bounds law for every
index array whose entries are positions of `old` — sortedness is not needed for correctness. -/
theorem search_in_bounds (sa : Array Nat) (old new : Bytes) (hsa : ∀ x ∈ sa, x ≤ old.length) :
    SearchLaw (mkCx old new (searchSA sa)) := by
  intro scan hs
  have hget : ∀ i, sa.getD i 0 ≤ (old.toArray).size := by
    intro i
    rw [List.size_toArray]
    exact getD_le_of_mem sa _ hsa i
  exact searchSA_law sa old.toArray new.toArray hget scan hs

/-- `build()` / `build_optimized_patch` as written (real `search` over the suffix array `sa` of
`old`, or any array of positions of `old`): the patch, if built, is applied to exactly `new` by
both patchers. `|old| ≤ usize::MAX` always holds for a Rust `Vec`. -/
theorem suffix_real_search_correct (sa : Array Nat) (old new : Bytes) (buf : Nat) (p : Patch)
    (hsa : ∀ x ∈ sa, x ≤ old.length) (hold : old.length ≤ usizeMax)
    (h : suffix sa old new = .ok p) :
    memApply old p.ctl p.diff p.extra p.outSize = .ok new ∧
    streamApply buf old p.ctl p.diff p.extra p.outSize = .ok new := by
  have wf : WfCx (mkCx old new (searchSA sa)) := by
    unfold WfCx mkCx
    simp only [List.size_toArray]
    exact ⟨trivial, trivial, hold⟩
  exact suffix_correct (mkCx old new (searchSA sa)) wf (search_in_bounds sa old new hsa) buf p h

/-- the hypotheses of `suffix_correct` are satisfiable by a non-trivial instance (a real suffix
array, a pair with a shared middle part). -/
example : WfCx (mkCx [1, 2, 3, 4, 5, 6, 7, 8, 9] [0, 3, 4, 5, 6, 7, 8, 9, 9] (searchSA #[0, 1, 2, 3, 4, 5, 6, 7, 8])) ∧
    SearchLaw (mkCx [1, 2, 3, 4, 5, 6, 7, 8, 9] [0, 3, 4, 5, 6, 7, 8, 9, 9] (searchSA #[0, 1, 2, 3, 4, 5, 6, 7, 8])) :=
  ⟨⟨rfl, rfl, by decide⟩, search_in_bounds _ _ _ (by decide)⟩

/-! ### from the patch BYTES: control-block codec and end-to-end round trip -/

/-- sign-magnitude codec (`offtout` / `offtin` + `ControlEntry::validate` + record loop): every
non-empty list of entries within the validation limits, with seeks representable in 63 bits, is
read back unchanged from its encoded bytes. -/
theorem codec_roundtrip (cs : List Ctl) (hne : cs ≠ []) (h : ∀ c ∈ cs, ValidCtl c) :
    parseCtl (encodeCtl cs) = .ok cs :=
  parseCtl_encode cs hne h

private theorem bytes_ok (buf : Option Nat) (old new : Bytes) (p : Patch) (hne : p.ctl ≠ [])
    (hsz : p.outSize ≤ maxSize) (hv : ∀ c ∈ p.ctl, ValidCtl c)
    (h : ∀ b, memApply old p.ctl p.diff p.extra p.outSize = .ok new ∧
              streamApply b old p.ctl p.diff p.extra p.outSize = .ok new) :
    applyBytes buf old (encodeCtl p.ctl) p.diff p.extra p.outSize = .ok new := by
  rw [applyBytes_encode buf old p hne hsz hv]
  cases buf with
  | none => exact (h 0).1
  | some b => exact (h b).2

/-- `apply_patch_memory(old, simple(new))` / streaming, from the encoded control bytes: `new`. -/
theorem simple_bytes_roundtrip (buf : Option Nat) (old new : Bytes) (p : Patch) (h : simple new = .ok p) :
    applyBytes buf old (encodeCtl p.ctl) p.diff p.extra p.outSize = .ok new := by
  obtain ⟨h1, -, -, h4, hne, hsz, hv⟩ := assemble_ok _ _ _ h
  refine bytes_ok buf old new p (h1 ▸ hne) (h4 ▸ hsz) ?_ (fun b => simple_correct old new b p h)
  intro c hc
  rw [h1] at hc
  have := hv c hc
  simp only [List.mem_singleton] at hc
  subst hc
  exact ⟨this.1, this.2, by show (0 : Int).natAbs < 2 ^ 63; decide⟩

/-- the same for the (repaired) chunked builder, every `max_diff_block_size`. -/
theorem chunked_bytes_roundtrip (buf : Option Nat) (maxBlk : Nat) (old new : Bytes) (p : Patch)
    (h : chunked maxBlk old new = .ok p) :
    applyBytes buf old (encodeCtl p.ctl) p.diff p.extra p.outSize = .ok new := by
  have hc := fun b => chunked_correct maxBlk old new b p h
  unfold chunked at h
  simp only at h
  split at h
  · exact simple_bytes_roundtrip buf old new p h
  · obtain ⟨h1, -, -, h4, hne, hsz, hv⟩ := assemble_ok _ _ _ h
    refine bytes_ok buf old new p (h1 ▸ hne) (h4 ▸ hsz) ?_ hc
    intro c hcm
    rw [h1] at hcm
    have hb := hv c hcm
    have hz := (chunkedLoop_entries maxBlk 256 new.length 0 old new c hcm).1
    exact ⟨hb.1, hb.2, by rw [hz]; decide⟩

/-- the same for `build()` with any in-bounds match finder; `|old| < 2^63` (`isize::MAX`, true of
any Rust `Vec`) makes every seek representable. -/
theorem suffix_bytes_roundtrip (buf : Option Nat) (cx : Cx) (wf : WfCx cx) (law : SearchLaw cx)
    (hold : cx.old.length < 2 ^ 63) (p : Patch) (h : suffixWith cx = .ok p) :
    applyBytes buf cx.old (encodeCtl p.ctl) p.diff p.extra p.outSize = .ok cx.new := by
  have hc := fun b => suffix_correct cx wf law b p h
  unfold suffixWith at h
  simp only at h
  split at h
  · exact simple_bytes_roundtrip buf cx.old cx.new p h
  · obtain ⟨h1, -, -, h4, hne, hsz, hv⟩ := assemble_ok _ _ _ h
    refine bytes_ok buf cx.old cx.new p (h1 ▸ hne) (h4 ▸ hsz) ?_ hc
    intro c hcm
    rw [h1] at hcm
    have hb := hv c hcm
    have hz := computeDiff_seek_bound cx law c hcm
    have : cx.osz = cx.old.length := wf.1
    exact ⟨hb.1, hb.2, by omega⟩

/-- the repaired chunked builder cannot refuse a pair whose new content is within the header's
1 GB limit when `max_diff_block_size` is within the per-operation limit (the default 1 MiB is);
in particular empty new content is accepted (it was refused on the pinned tree). -/
theorem chunked_total (maxBlk : Nat) (old new : Bytes) (hb : maxBlk ≤ maxOp) (hn : new.length ≤ maxSize) :
    ∃ p, chunked maxBlk old new = .ok p := by
  unfold chunked
  simp only
  split
  · rename_i hnil
    have : new = [] := by
      cases new with
      | nil => rfl
      | cons x xs =>
        exact absurd hnil (chunkedLoop_nonempty maxBlk 256 (fun _ => 0) xs.length 0 old (x :: xs) (by simp))
    subst this
    exact simple_total [] (by simp)
  · rename_i hne
    unfold assemble
    have hany : ¬ ((chunkedBlocks maxBlk old new).ctl.any fun c => decide (c.diff > maxOp ∨ c.extra > maxOp)) = true := by
      simp only [List.any_eq_true, decide_eq_true_eq, not_exists, not_and]
      intro c hc
      have := chunkedLoop_entries maxBlk 256 new.length 0 old new c hc
      unfold maxOp at hb ⊢
      omega
    have hsz : ¬ new.length > maxSize := by omega
    simp only [hne, hany, hsz, if_false]
    exact ⟨_, rfl⟩

/-! ### the pinned chunked builder (before /repo 5dfb3c4): kernel-checked witnesses -/

def witnessOld : Bytes := [97, 97, 97, 97, 119, 120, 121, 122]
def witnessNew : Bytes := [97, 97, 97, 97] ++ List.replicate 256 35 ++ [119, 120, 121, 122]

/-- TEST (kernel evaluation of one input): the pinned builder wrote the absolute `old_pos` (4) into
the relative seek field of the extra-only entry … -/
theorem pinned_chunked_ctl :
    (pinnedChunked 64 witnessOld witnessNew).toOption.map (·.ctl) = some [⟨4, 0, 0⟩, ⟨0, 256, 4⟩, ⟨4, 0, 0⟩] := by
  decide +kernel

/-- … and the patch applied cleanly (right length, `Ok`) to bytes that are NOT `new`: the last four
bytes are 0 instead of `wxyz`. This is the counter-witness to `chunked_correct` on the pinned code
(replayed on the real code: corpus/C16/chunked-relative-seek.case). -/
theorem pinned_chunked_wrong_bytes :
    ((pinnedChunked 64 witnessOld witnessNew).toOption.bind fun p =>
      (memApply witnessOld p.ctl p.diff p.extra p.outSize).toOption) = some (witnessNew.take 260 ++ [0, 0, 0, 0]) ∧
    witnessNew.take 260 ++ [0, 0, 0, 0] ≠ witnessNew := by
  constructor <;> decide +kernel

/-- the pinned builder returned an error for empty new content (corpus/C16/chunked-empty-new.case). -/
theorem pinned_chunked_empty_new_fails (maxBlk : Nat) (old : Bytes) :
    pinnedChunked maxBlk old [] = .error .emptyCtl := by
  simp [pinnedChunked, chunkedLoop, assemble]

/-- what remained true of the pinned builder (`_partial`): whenever every extra-only entry is
emitted at old position 0 — in particular when no diff run precedes an extra run — the absolute
and the relative seek coincide and the patch is right. Stated on the loop: with `seekOf` any
function that is 0 wherever it is used… the repaired code is the instance `seekOf = fun _ => 0`,
for which `chunked_correct` holds without hypothesis. -/
theorem pinned_chunked_partial (maxBlk : Nat) (old new : Bytes) (buf : Nat) (p : Patch)
    (hsame : chunkedLoop maxBlk 256 (fun q => (q : Int)) new.length 0 old new =
             chunkedLoop maxBlk 256 (fun _ => 0) new.length 0 old new)
    (h : pinnedChunked maxBlk old new = .ok p) :
    memApply old p.ctl p.diff p.extra p.outSize = .ok new ∧
    streamApply buf old p.ctl p.diff p.extra p.outSize = .ok new := by
  unfold pinnedChunked at h
  rw [hsame] at h
  obtain ⟨h1, h2, h3, h4, -⟩ := assemble_ok _ _ _ h
  apply both_ok old new p buf h4
  rw [h1, h2, h3]
  exact chunkedLoop_correct old maxBlk 256 (by omega) new.length 0 old new (Nat.le_refl _) rfl

/-! ### from the WHOLE patch bytes: 32-byte header + zlib framing, zlib a parameter

`buildBytes z r` = a builder followed by `build_patch_internal` (to_compressed, 2 × compress_zlib,
header from the compressed lengths, validate, header ‖ control ‖ diff ‖ extra);
`applyPatchBytes z buf old p` = `apply_patch_memory` (`buf = none`) or the documented streaming use
`parse_from_patch` + `ZbsdiffPatcher::new(old, header.output_size).with_buffer_size(b)
.apply_patch_from_data` (`buf = some b`). `z : Zlib` is ANY pair of functions with
`decompress (compress b) = some b`. -/

/-- a lawful, non-trivial stand-in for zlib used by the non-vacuity examples: one marker byte. -/
def storeZ : Zlib := ⟨fun b => 0x78 :: b, fun l => match l with | [] => none | x :: b => if x = 0x78 then some b else none⟩

theorem storeZ_lawful : storeZ.Lawful := fun _ => rfl

/-- `ZbsdiffHeader`: `read_options (write_options h ‖ anything) = h` for every header of `i64` fields
(signature, three little-endian two's-complement sizes at offsets 8 / 16 / 24). -/
theorem header_roundtrip (h : Header) (rest : Bytes) (hr : Header.InRange h) :
    readHeader (h.write ++ rest) = .ok h := readHeader_write h rest hr

example : Header.InRange ⟨17, 11, 11⟩ ∧
    (readHeader ((⟨17, 11, 11⟩ : Header).write ++ [1, 2, 3])).toOption = some ⟨17, 11, 11⟩ :=
  ⟨by unfold Header.InRange; decide, by decide +kernel⟩

/-- `ZbsDiff::build (ZbsDiff::parse p) = p`: the container split keeps every byte of ANY input it
accepts (header fields are re-written verbatim, the three slices are contiguous and exhaustive). -/
theorem container_roundtrip (p : Bytes) (h : Header) (c d e : Bytes) (hs : splitPatch p = .ok (h, c, d, e)) :
    containerBuild h c d e = p := container_of_split p h c d e hs

/-- `ZbsDiff::parse (ZbsDiff::build x) = x` when the header is valid and states the block lengths:
the slices come back at exactly the offsets 32, 32 + control_size, 32 + control_size + diff_size. -/
theorem container_parse_build (h : Header) (c d e : Bytes) (hv : h.valid = true)
    (hc : h.ctl = c.length) (hd : h.diff = d.length) :
    splitPatch (containerBuild h c d e) = .ok (h, c, d, e) := splitPatch_container h c d e hv hc hd

example : (⟨2, 1, 5⟩ : Header).valid = true ∧
    (splitPatch (containerBuild ⟨2, 1, 5⟩ [7, 8] [9] [10, 11])).toOption = some (⟨2, 1, 5⟩, [7, 8], [9], [10, 11]) :=
  ⟨by decide, by decide +kernel⟩

/-- the decode prefix of both apply entry points recovers from the bytes `build_patch_internal`
returns exactly the control entries, diff block, extra block and size they were made of. -/
theorem patch_bytes_blocks (z : Zlib) (lz : z.Lawful) (p : Patch) (bytes : Bytes) (hne : p.ctl ≠ [])
    (hv : ∀ c ∈ p.ctl, ValidCtl c) (h : serialize z p = .ok bytes) :
    decodePatch z bytes = .ok ⟨p.ctl, p.diff, p.extra, p.outSize⟩ := decode_serialize z lz p bytes hne hv h

private theorem patch_bytes_ok (z : Zlib) (lz : z.Lawful) (buf : Option Nat) (old new : Bytes) (p : Patch)
    (bytes : Bytes) (hv : p.ctl ≠ [] ∧ ∀ c ∈ p.ctl, ValidCtl c)
    (hc : ∀ b, memApply old p.ctl p.diff p.extra p.outSize = .ok new ∧
               streamApply b old p.ctl p.diff p.extra p.outSize = .ok new)
    (h : serialize z p = .ok bytes) : applyPatchBytes z buf old bytes = .ok new := by
  rw [apply_serialize z lz buf old p bytes hv.1 hv.2 h]
  cases buf with
  | none => simp only [(hc 0).1, liftE]
  | some b => simp only [(hc b).2, liftE]

/-- WHOLE-PATCH round trip, simple builder: for every lawful zlib, old, new, patcher and buffer
size: `apply_patch_bytes(old, build_simple_patch_bytes(new)) = new`. -/
theorem simple_patch_bytes_roundtrip (z : Zlib) (lz : z.Lawful) (buf : Option Nat) (old new bytes : Bytes)
    (h : buildBytes z (simple new) = .ok bytes) : applyPatchBytes z buf old bytes = .ok new := by
  unfold buildBytes at h
  split at h
  · cases h
  · rename_i p hp
    exact patch_bytes_ok z lz buf old new p bytes (simple_valid new p hp) (fun b => simple_correct old new b p hp) h

/-- WHOLE-PATCH round trip, (repaired) chunked builder, every `max_diff_block_size`. -/
theorem chunked_patch_bytes_roundtrip (z : Zlib) (lz : z.Lawful) (buf : Option Nat) (maxBlk : Nat)
    (old new bytes : Bytes) (h : buildBytes z (chunked maxBlk old new) = .ok bytes) :
    applyPatchBytes z buf old bytes = .ok new := by
  unfold buildBytes at h
  split at h
  · cases h
  · rename_i p hp
    exact patch_bytes_ok z lz buf old new p bytes (chunked_valid maxBlk old new p hp)
      (fun b => chunked_correct maxBlk old new b p hp) h

/-- WHOLE-PATCH round trip, `build()` with any in-bounds match finder. -/
theorem suffix_patch_bytes_roundtrip (z : Zlib) (lz : z.Lawful) (buf : Option Nat) (cx : Cx) (wf : WfCx cx)
    (law : SearchLaw cx) (hold : cx.old.length < 2 ^ 63) (bytes : Bytes)
    (h : buildBytes z (suffixWith cx) = .ok bytes) : applyPatchBytes z buf cx.old bytes = .ok cx.new := by
  unfold buildBytes at h
  split at h
  · cases h
  · rename_i p hp
    exact patch_bytes_ok z lz buf cx.old cx.new p bytes (suffix_valid cx wf law hold p hp)
      (fun b => suffix_correct cx wf law b p hp) h

/-- WHOLE-PATCH round trip, `build()` as written (real `search` over the suffix array, or any array
of positions of `old`); `|old| < 2^63` holds of any Rust `Vec`. -/
theorem suffix_real_patch_bytes_roundtrip (z : Zlib) (lz : z.Lawful) (buf : Option Nat) (sa : Array Nat)
    (old new bytes : Bytes) (hsa : ∀ x ∈ sa, x ≤ old.length) (hold : old.length < 2 ^ 63)
    (h : buildBytes z (suffix sa old new) = .ok bytes) : applyPatchBytes z buf old bytes = .ok new := by
  have wf : WfCx (mkCx old new (searchSA sa)) := by
    unfold WfCx mkCx
    simp only [List.size_toArray]
    exact ⟨trivial, trivial, by unfold usizeMax; omega⟩
  exact suffix_patch_bytes_roundtrip z lz buf (mkCx old new (searchSA sa)) wf (search_in_bounds sa old new hsa)
    hold bytes h

/-- WHOLE-PATCH round trip of `build()` under EVERY configured `max_diff_block_size` (the
"all max_diff_block_size values" of the property for the suffix builder): `build_optimized_patch`
does not read the setting (`suffixBlk`, tied to the source by `ZbsdiffTie.optimized_builder_tie` and
by the `build suffixb <blk>` lines of the run with blk in {0,1,2,3,4,7,8,16,32,…} on diff runs that
are exact multiples of blk), so the patch is the one of `suffix_real_patch_bytes_roundtrip`. -/
theorem suffix_any_block_size_patch_bytes_roundtrip (z : Zlib) (lz : z.Lawful) (buf : Option Nat) (maxBlk : Nat)
    (sa : Array Nat) (old new bytes : Bytes) (hsa : ∀ x ∈ sa, x ≤ old.length) (hold : old.length < 2 ^ 63)
    (h : buildBytes z (suffixBlk maxBlk sa old new) = .ok bytes) : applyPatchBytes z buf old bytes = .ok new :=
  suffix_real_patch_bytes_roundtrip z lz buf sa old new bytes hsa hold h

/-- non-vacuous: with block size 2 the suffix builder returns patch bytes for a pair whose diff
run (4 bytes) is an exact multiple of the block size and is followed by a deletion (TEST of one
input, kernel evaluation). -/
example : ((buildBytes storeZ (suffixBlk 2 #[0, 1, 2, 3, 4, 5, 6, 7, 8, 9, 10, 11] [1, 2, 3, 4, 5, 6, 7, 8, 9, 10, 11, 12]
      [1, 2, 3, 4, 9, 10, 11, 12])).toOption.bind fun b =>
      (applyPatchBytes storeZ none [1, 2, 3, 4, 5, 6, 7, 8, 9, 10, 11, 12] b).toOption) = some [1, 2, 3, 4, 9, 10, 11, 12] := by
  decide +kernel

/-- the hypotheses of the whole-patch theorems are satisfiable by non-trivial instances: a lawful
zlib that changes its input, and all three builders returning patch bytes for a pair with a shared
middle part (kernel evaluation; the last line also re-applies the chunked patch: TEST of one input). -/
example : storeZ.Lawful ∧ storeZ.compress [1] ≠ [1] ∧
    (buildBytes storeZ (simple [1, 2, 3])).toOption.isSome = true ∧
    (buildBytes storeZ (chunked 64 [1, 2, 3, 4, 5, 6, 7, 8, 9] [0, 3, 4, 5, 6, 7, 8, 9, 9])).toOption.isSome = true ∧
    (buildBytes storeZ (suffix #[0, 1, 2, 3, 4, 5, 6, 7, 8] [1, 2, 3, 4, 5, 6, 7, 8, 9] [0, 3, 4, 5, 6, 7, 8, 9, 9])).toOption.isSome = true ∧
    ((buildBytes storeZ (chunked 64 [1, 2, 3, 4, 5, 6, 7, 8, 9] [1, 2, 3, 4, 5, 0, 7, 8, 9])).toOption.bind fun b =>
      (applyPatchBytes storeZ (some 1024) [1, 2, 3, 4, 5, 6, 7, 8, 9] b).toOption) = some [1, 2, 3, 4, 5, 0, 7, 8, 9] := by
  refine ⟨storeZ_lawful, by decide, ?_, ?_, ?_, ?_⟩ <;> decide +kernel

/-- when `build_patch_internal` can refuse: never, unless a compressed block (or control + diff
together) or the new content exceeds the header's 1 GB limit. With `simple_total` / `chunked_total`:
the byte-level builders are total on everything within the stated limits. -/
theorem build_bytes_total (z : Zlib) (p : Patch)
    (h1 : (z.compress (encodeCtl p.ctl)).length + (z.compress p.diff).length ≤ maxSize) (h2 : p.outSize ≤ maxSize) :
    ∃ bytes, serialize z p = .ok bytes := by
  unfold serialize
  have hv : (⟨((z.compress (encodeCtl p.ctl)).length : Int), ((z.compress p.diff).length : Int), (p.outSize : Int)⟩ : Header).valid = true := by
    unfold Header.valid
    simp only [Bool.not_eq_true', Bool.or_eq_false_iff, decide_eq_false_iff_not]
    omega
  simp only [hv, Bool.not_true, Bool.false_eq_true, if_false]
  exact ⟨_, rfl⟩

example : ((storeZ.compress (encodeCtl [⟨0, 3, 0⟩])).length + (storeZ.compress []).length ≤ maxSize) ∧ (3 ≤ maxSize) :=
  ⟨by decide, by decide⟩

/-- length clause on the WHOLE patch bytes: for ANY zlib (no law needed), any bytes, either entry
point: an `Ok` result has exactly the number of bytes the 32-byte header states. -/
theorem apply_patch_bytes_length_or_error (z : Zlib) (buf : Option Nat) (old p out : Bytes)
    (h : applyPatchBytes z buf old p = .ok out) :
    ∃ hd : Header, readHeader p = .ok hd ∧ (out.length : Int) = hd.out := by
  cases buf with
  | none =>
    simp only [applyPatchBytes, applyPatchMemory] at h
    split at h
    · cases h
    · rename_i d hd
      obtain ⟨hdr, h1, -, h3⟩ := decode_header z p d hd
      refine ⟨hdr, h1, ?_⟩
      have := finish_length _ _ _ (liftE_ok _ _ h)
      rw [this]; exact h3
  | some b =>
    simp only [applyPatchBytes, applyPatchStream] at h
    split at h
    · cases h
    · rename_i hp hpp
      simp only [applyPatchFromData] at h
      split at h
      · cases h
      · rename_i d hd
        obtain ⟨hdr, h1, hv, -⟩ := decode_header z p d hd
        refine ⟨hdr, h1, ?_⟩
        have hl := finish_length _ _ _ (liftE_ok _ _ h)
        have : hp = hdr := by
          unfold parseFromPatch at hpp
          split at hpp
          · cases hpp
          · rw [h1] at hpp
            simp only [hv, if_true, Except.ok.injEq] at hpp
            exact hpp.symm
        subst this
        have := valid_bounds hp hv
        omega

/-- on the whole patch bytes the two entry points agree exactly whenever the patch has its 32 header
bytes (shorter input: `apply_patch_memory` fails in binrw, `parse_from_patch` with InsufficientData —
both fail). For ANY zlib, any bytes, any buffer size. -/
theorem patch_bytes_patchers_agree (z : Zlib) (buf : Nat) (old p : Bytes) :
    (headerLen ≤ p.length → applyPatchStream z buf old p = applyPatchMemory z old p) ∧
    (p.length < headerLen → (∃ e, applyPatchStream z buf old p = .error e) ∧ ∃ e, applyPatchMemory z old p = .error e) := by
  constructor
  · intro hl
    unfold applyPatchStream parseFromPatch applyPatchFromData applyPatchMemory
    rw [if_neg (by omega)]
    cases hr : readHeader p with
    | error e =>
      simp only [decodePatch, splitPatch, hr]
    | ok hd =>
      simp only
      by_cases hv : hd.valid = true
      · simp only [hv, if_true]
        cases hdc : decodePatch z p with
        | error e => rfl
        | ok d =>
          simp only
          obtain ⟨hdr, h1, -, h3⟩ := decode_header z p d hdc
          rw [hr] at h1
          simp only [Except.ok.injEq] at h1
          subst h1
          have : hd.out.toNat = d.out := by omega
          rw [this, patchers_agree]
      · simp only [hv, Bool.false_eq_true, if_false, decodePatch, splitPatch, hr] at *
        simp only [Bool.not_false, if_true]
  · intro hl
    refine ⟨⟨.need32, by unfold applyPatchStream parseFromPatch; rw [if_pos hl]⟩, ?_⟩
    have hr : ∃ e, readHeader p = .error e := by
      unfold readHeader
      by_cases h8 : p.length < fieldLen
      · exact ⟨.hdrShort, by rw [if_pos h8]⟩
      · by_cases hm : p.take fieldLen ≠ magic
        · exact ⟨.sig, by rw [if_neg h8, if_pos hm]⟩
        · exact ⟨.hdrShort, by rw [if_neg h8, if_neg hm, if_pos hl]⟩
    obtain ⟨e, he⟩ := hr
    exact ⟨e, by simp only [applyPatchMemory, decodePatch, splitPatch, he]⟩

/-- the whole-patch functions ARE the block-level `applyBytes` of the earlier theorems on the three
inflated slices: when the container splits and the three slices inflate, `apply_patch_memory` /
streaming = `applyBytes` on the inflated control bytes, diff, extra and the header's size. -/
theorem apply_patch_bytes_eq_applyBytes (z : Zlib) (buf : Option Nat) (old p : Bytes) (hd : Header)
    (cz dz ez craw diff extra : Bytes) (hl : headerLen ≤ p.length) (hs : splitPatch p = .ok (hd, cz, dz, ez))
    (h1 : z.decompress cz = some craw) (h2 : z.decompress dz = some diff) (h3 : z.decompress ez = some extra) :
    applyPatchBytes z buf old p = liftE (applyBytes buf old craw diff extra hd.out.toNat) := by
  have hv : hd.valid = true ∧ readHeader p = .ok hd := by
    unfold splitPatch at hs
    split at hs
    · cases hs
    · rename_i h' hr
      split at hs
      · cases hs
      · rename_i hv
        split at hs
        · cases hs
        · simp only [Except.ok.injEq, Prod.mk.injEq] at hs
          simp only [Bool.not_eq_true, Bool.not_eq_false'] at hv
          rw [← hs.1]; exact ⟨hv, hr⟩
  have hb := valid_bounds hd hv.1
  have hsz : ¬ hd.out.toNat > maxSize := by omega
  have key : applyPatchMemory z old p = liftE (applyBytes none old craw diff extra hd.out.toNat) := by
    unfold applyPatchMemory decodePatch applyBytes
    simp only [hs, h1, h2, h3, hsz, if_false]
    cases parseCtl craw <;> rfl
  cases buf with
  | none => exact key
  | some b =>
    simp only [applyPatchBytes]
    rw [(patch_bytes_patchers_agree z b old p).1 hl, key]
    unfold applyBytes
    simp only [hsz, if_false]
    cases parseCtl craw with
    | error e => rfl
    | ok ctl => simp only [patchers_agree]

/-! ### control-entry codec at the i64 limits -/

/-- the compiled `offtout` (release arithmetic) followed by `offtin` is the identity on every `i64`
except `i64::MIN`; the encoder is the sign-magnitude `offtout` of `codec_roundtrip` there. -/
theorem offtout_i64_roundtrip (v : Int) (h1 : -(2 ^ 63) < v) (h2 : v < 2 ^ 63) :
    offtin (offtoutI64 v) = v ∧ offtoutI64 v = offtout v :=
  ⟨offtin_offtoutI64 v h1 h2, offtoutI64_eq v (by omega)⟩

example : offtin (offtoutI64 (-(2 ^ 63) + 1)) = -(2 ^ 63) + 1 ∧ offtin (offtoutI64 (2 ^ 63 - 1)) = 2 ^ 63 - 1 :=
  ⟨(offtout_i64_roundtrip _ (by decide) (by decide)).1, (offtout_i64_roundtrip _ (by decide) (by decide)).1⟩

/-- `i64::MIN` is the one value the codec cannot carry: in release `-i64::MIN` wraps, the bytes
written are those of negative zero, and they read back as 0 (a debug build panics in `offtout`).
No builder emits it (`suffix_valid`: every seek is below 2^63 in magnitude). -/
theorem offtout_i64_min_witness :
    offtoutI64 (-(2 ^ 63)) = [0, 0, 0, 0, 0, 0, 0, 0x80] ∧ offtin (offtoutI64 (-(2 ^ 63))) = 0 := by
  constructor <;> decide

/-- negative zero (`00 … 00 80`) is accepted by `offtin` and reads as 0. -/
theorem offtin_negative_zero : offtin [0, 0, 0, 0, 0, 0, 0, 0x80] = 0 := offtin_neg_zero

/-- `offtin` never yields `i64::MIN` (any input): `-entry.seek_offset` in both patchers cannot overflow. -/
theorem offtin_never_min (b : Bytes) : (offtin b).natAbs < 2 ^ 63 := offtin_range b

/-- the encoding is canonical: every 8-byte record except negative zero is exactly what `offtout`
writes for the value `offtin` reads from it. -/
theorem codec_canonical (b : Bytes) (hl : b.length = 8) (hnz : b ≠ [0, 0, 0, 0, 0, 0, 0, 0x80]) :
    offtout (offtin b) = b := offtout_offtin b hl hnz

example : ([0xff, 0xff, 0xff, 0xff, 0xff, 0xff, 0xff, 0xff] : Bytes).length = 8 ∧
    offtin [0xff, 0xff, 0xff, 0xff, 0xff, 0xff, 0xff, 0xff] = -(2 ^ 63 - 1) := by
  constructor <;> decide

/-! ### the streaming patcher over a `Read + Seek` source that returns short reads -/

/-- `Read::read_exact` over ANY source that makes progress (1 … `sched i` bytes on its i-th call):
the requested window comes back exactly when it lies inside the data, `UnexpectedEof` otherwise. -/
theorem read_exact_short_reads (s : Source) (pos calls n : Nat) :
    (pos + n ≤ s.data.length → ∃ c, readExact s n pos calls n = some ((s.data.drop pos).take n, c)) ∧
    (0 < n → pos + n > s.data.length → readExact s n pos calls n = none) :=
  ⟨fun h => readExact_ok s n pos calls n (Nat.le_refl _) h, fun h0 h => readExact_eof s n pos calls n h0 h⟩

/-- `stream_short_reads_agree`: the streaming patcher reading the old file through any seekable
short-reading source returns exactly what the memory patcher returns on the old bytes — same output,
same error — for every schedule of `read` return sizes, every patch (valid or not), every buffer size. -/
theorem stream_short_reads_agree (s : Source) (hs : s.seekable = true) (buf : Nat) (ctl : List Ctl)
    (diff extra : Bytes) (outSize : Nat) :
    srcApply s buf ctl diff extra outSize = liftE (memApply s.data ctl diff extra outSize) := by
  rw [srcApply_eq s hs, patchers_agree]

example : (⟨[1, 2, 3, 4, 5, 6, 7], fun i => i % 3, true⟩ : Source).seekable = true ∧
    (srcApply ⟨[1, 2, 3, 4, 5, 6, 7], fun i => i % 3, true⟩ 1 [⟨5, 1, -2⟩, ⟨3, 0, 0⟩] [1, 1, 1, 1, 1, 0, 0, 0] [9] 9).toOption =
      some [2, 3, 4, 5, 6, 9, 4, 5, 6] := ⟨rfl, by decide +kernel⟩

/-- the same from the header size and raw control bytes (`apply_patch_from_data` over a source). -/
theorem short_reads_bytes_agree (s : Source) (hs : s.seekable = true) (buf : Nat) (ctlBytes diff extra : Bytes)
    (outSize : Nat) :
    applyBytesSrc s buf ctlBytes diff extra outSize = liftE (applyBytes (some buf) s.data ctlBytes diff extra outSize) ∧
    applyBytesSrc s buf ctlBytes diff extra outSize = liftE (applyBytes none s.data ctlBytes diff extra outSize) := by
  have e : applyBytesSrc s buf ctlBytes diff extra outSize = liftE (applyBytes (some buf) s.data ctlBytes diff extra outSize) := by
    unfold applyBytesSrc applyBytes
    split
    · rfl
    · cases parseCtl ctlBytes with
      | error x => rfl
      | ok ctl => simp only [srcApply_eq s hs]
  refine ⟨e, ?_⟩
  rw [e]
  unfold applyBytes
  split
  · rfl
  · cases parseCtl ctlBytes with
    | error x => rfl
    | ok ctl => simp only [patchers_agree]

/-- a source that cannot seek never yields output: `get_old_file_size` fails first. -/
theorem stream_unseekable_fails (s : Source) (hs : s.seekable = false) (buf : Nat) (ctl : List Ctl)
    (diff extra : Bytes) (outSize : Nat) : srcApply s buf ctl diff extra outSize = .error .seek := by
  unfold srcApply; simp [hs]

example : (⟨[1, 2], fun _ => 1, false⟩ : Source).seekable = false := rfl

end Cascette.Props.C16
