/-
Props/C20 — No key or endpoint string makes the library touch files outside its directories.

Property theorems only; helper lemmas live in Proofs/Path and Proofs/CacheKeys.
Model = the Rust code as written (Model/Path: std::path 1.95 on component lists,
Model/CacheKeys: key.rs / client/mod.rs / cdn/mod.rs / storage_manager.rs string builders,
Model/DiskFs: DiskCache::get_file_path and the file-system shell around it).

Full-strength statement of the confinement claim, FALSE of the pinned tree and still false after
the three `fix:` commits for the raw disk cache (recorded findings escape-disk-*, escape-cdn-dotdot):

    theorem confined_all_strings (root sub : APath) (key : Str) (hr : dotdot ∉ root) :
        confined root (diskPath root sub key) ∧ confined root (withExtTmp (diskPath root sub key))

Counter-witnesses: `confined_all_strings_counter`, `confined_absolute_counter`,
`confined_empty_key_counter`, `confined_typed_hostile_counter`.  Proved instead: the exact
hypothesis under which it holds (`confined_of_no_dotdot`) and that every input class the property
calls well-formed or validated meets it.

Full-strength statement of the temp-file claim, FALSE of the tree (findings tmp-*):

    theorem tmp_distinct (p q : APath) (hp : fileName p ≠ none) (hq : fileName q ≠ none) (h : p ≠ q) :
        withExtTmp p ≠ withExtTmp q ∧ withExtTmp p ≠ q

Counter-witnesses `tmp_distinct_counter`, `tmp_aliases_final_counter`; `tmp_distinct_partial`.
-/
import Cascette.Proofs.Path
import Cascette.Proofs.CacheKeys
import Cascette.Proofs.DiskFs
import Cascette.Proofs.KeysTie
namespace Cascette.Props.C20
open Cascette.Model.Path Cascette.Model.CacheKeys Cascette.Model.DiskFs Cascette.Model.KeysExt
open Cascette.Proofs.Path Cascette.Proofs.CacheKeys

/-! ### typed keys' `as_cache_key` -/

/-- `as_cache_key` is injective — within each of the ten key types and across them — on keys
whose caller-supplied text fields contain no ':' (numbers, flags and optional fields are
unrestricted: `u8/u32/u64` over all of `Nat`). -/
theorem typed_keys_injective (k1 k2 : Key) (h1 : colonFree k1) (h2 : colonFree k2)
    (h : cacheKey k1 = cacheKey k2) : k1 = k2 :=
  cacheKey_inj k1 k2 h1 h2 h

/-- well-formed fields are ':'-free, so the theorem above applies to them. -/
theorem wf_colon_free (k : Key) (h : wfKey k = true) : colonFree k := wfKey_colonFree k h

/-- the hypothesis is needed: with a ':' inside a field two different Ribbit keys print the
same text ("ribbit:a:b:c"). -/
theorem typed_keys_colon_counter :
    cacheKey (.ribbit ['b', ':', 'c'] ['a'] none) = cacheKey (.ribbit ['c'] ['a'] (some ['b'])) ∧
    Key.ribbit ['b', ':', 'c'] ['a'] none ≠ Key.ribbit ['c'] ['a'] (some ['b']) := by decide

/-! ### confinement of `get_file_path` -/

/-- the hashed sub-directories `{:02x}` never are ".." and there are exactly `levels` of them. -/
theorem hashed_subdirs_normal (levels hash : Nat) :
    dotdot ∉ subDirs levels hash ∧ (subDirs levels hash).length = levels := by
  refine ⟨?_, by simp [subDirs]⟩
  intro h
  unfold subDirs at h
  simp only [List.mem_map] at h
  obtain ⟨l, _, hl⟩ := h
  unfold hex2 dotdot at hl
  injection hl with h1 _
  exact (hexDigit_facts _ (Nat.mod_lt _ (by decide))).2.1 h1

/-- For EVERY root, EVERY list of sub-directories and EVERY key text: a key that is relative and
has no ".." segment is stored below the root (flat and hashed layouts). -/
theorem confined_of_no_dotdot (root sub : APath) (key : Str)
    (hr : dotdot ∉ root) (hsub : dotdot ∉ sub)
    (habs : isAbs key = false) (hk : dotdot ∉ segs key) :
    confined root (diskPath root sub key) :=
  confined_join_prefix root sub key hr hsub habs hk

/-- ⟂ a ".." segment leaves the root (flat and hashed layout). -/
theorem confined_all_strings_counter :
    ¬ confined [['r']] (diskPath [['r']] [] ['.', '.', '/', 'x']) ∧
    ¬ confined [['r']] (diskPath [['r']] [['a', 'b']] ['.', '.', '/', '.', '.', '/', 'x']) := by
  decide

/-- ⟂ an absolute key replaces the root. -/
theorem confined_absolute_counter :
    ¬ confined [['r']] (diskPath [['r']] [['a', 'b']] ['/', 'x']) := by decide

/-- ⟂ the empty key names the cache directory itself; its temporary file is "<root>.tmp",
beside the cache directory. -/
theorem confined_empty_key_counter :
    withExtTmp (diskPath [['p'], ['r']] [] []) = [['p'], ['r', '.', 't', 'm', 'p']] ∧
    ¬ confined [['p'], ['r']] (withExtTmp (diskPath [['p'], ['r']] [] [])) := by decide

/-- ⟂ the DESIGN.md §8 witness: a typed key with a hostile endpoint field
(`RibbitKey::new("/../../x", "us")` under a/b/c lands in a/b/x). -/
theorem confined_typed_hostile_counter :
    normalize (diskPath [['a'], ['b'], ['c']] []
      (cacheKey (.ribbit ['/', '.', '.', '/', '.', '.', '/', 'x'] ['u', 's'] none)))
      = [['a'], ['b'], ['x']] := by decide

/-- well-formed typed keys (hex hashes, product / region / endpoint names, dotted archive names
and versions) are stored below the root, whatever the layout. -/
theorem confined_wf (root sub : APath) (k : Key) (hr : dotdot ∉ root) (hsub : dotdot ∉ sub)
    (h : wfKey k = true) : confined root (diskPath root sub (cacheKey k)) := by
  have hc := wfKey_segs_canon k h
  exact confined_of_no_dotdot root sub _ hr hsub (not_abs_of_canon _ hc) (no_dotdot_of_canon _ hc)

/-- two well-formed keys that differ in any field are stored in different files
(sub-directory lists of one layout have the same length; they may differ per key). -/
theorem paths_injective_wf (root sub1 sub2 : APath) (k1 k2 : Key)
    (hr : dotdot ∉ root) (hs1 : dotdot ∉ sub1) (hs2 : dotdot ∉ sub2)
    (hlen : sub1.length = sub2.length) (h1 : wfKey k1 = true) (h2 : wfKey k2 = true)
    (h : normalize (diskPath root sub1 (cacheKey k1)) = normalize (diskPath root sub2 (cacheKey k2))) :
    k1 = k2 := by
  have := path_inj_of_canon root sub1 sub2 _ _ hr hs1 hs2 hlen
    (wfKey_segs_canon k1 h1) (wfKey_segs_canon k2 h2) h
  exact cacheKey_inj k1 k2 (wfKey_colonFree k1 h1) (wfKey_colonFree k2 h2) this

/-- the same for the concrete hashed layout of `get_file_path`. -/
theorem paths_injective_wf_hashed (root : APath) (levels hash1 hash2 : Nat) (k1 k2 : Key)
    (hr : dotdot ∉ root) (h1 : wfKey k1 = true) (h2 : wfKey k2 = true)
    (h : normalize (diskPath root (subDirs levels hash1) (cacheKey k1)) =
         normalize (diskPath root (subDirs levels hash2) (cacheKey k2))) : k1 = k2 :=
  paths_injective_wf root _ _ k1 k2 hr (hashed_subdirs_normal levels hash1).1
    (hashed_subdirs_normal levels hash2).1
    (by rw [(hashed_subdirs_normal levels hash1).2, (hashed_subdirs_normal levels hash2).2]) h1 h2 h

/-! ### what `put` and a cold `get` touch (Model/DiskFs) -/

/-- For every file-system state, root, layout and key text that is relative, has no ".." segment
and contributes a component of its own: the file a successful `put` writes, the temporary file a
failed `put` leaves behind (`with_extension` quirks of std 1.95 included: a name "..x" makes the
temporary path the parent directory, on which `open` fails) and the file a cold `get` opens all lie
below the root. -/
theorem put_get_confined (fs : Fs) (root sub : APath) (key : Str)
    (hr : dotdot ∉ root) (hsub : dotdot ∉ sub)
    (habs : isAbs key = false) (hk : dotdot ∉ segs key) (hne : comps key ≠ []) :
    (∀ f, put fs root sub key = .ok f → root <+: f) ∧
    (∀ t, put fs root sub key = .err (some t) → root <+: t) ∧
    (∀ loc, getCold fs root sub key = some loc → root <+: loc) :=
  Cascette.Proofs.DiskFs.put_get_confined fs root sub key hr hsub habs hk hne

/-- the temporary path of any `put` (also the transient one of a successful `put`) under the same
hypotheses lies below the root — or is the directory path `<dir>/..`, on which no file can be
created. -/
theorem tmp_confined (tr : Bool) (root sub : APath) (key : Str)
    (hr : dotdot ∉ root) (hsub : dotdot ∉ sub)
    (habs : isAbs key = false) (hk : dotdot ∉ segs key) (hne : comps key ≠ []) :
    root <+: normalize (withExtTmpRaw tr (diskPath root sub key)) ∨
    withExtTmpRaw tr (diskPath root sub key) = (diskPath root sub key).dropLast ++ [dotdot] :=
  Cascette.Proofs.DiskFs.tmp_confined tr root sub key hr hsub habs hk hne

/-- in particular for every well-formed typed key, on every file-system state and layout. -/
theorem put_get_confined_wf (fs : Fs) (root sub : APath) (k : Key)
    (hr : dotdot ∉ root) (hsub : dotdot ∉ sub) (h : wfKey k = true) :
    (∀ f, put fs root sub (cacheKey k) = .ok f → root <+: f) ∧
    (∀ t, put fs root sub (cacheKey k) = .err (some t) → root <+: t) ∧
    (∀ loc, getCold fs root sub (cacheKey k) = some loc → root <+: loc) := by
  have hc := wfKey_segs_canon k h
  apply put_get_confined fs root sub _ hr hsub (not_abs_of_canon _ hc) (no_dotdot_of_canon _ hc)
  rw [comps_of_canon _ hc]
  exact segsBy_ne_nil '/' _

/-- ⟂ without the hypotheses the model's `put` writes outside (empty file system, root /p/r):
key "../x" is stored in /p/x, key "" leaves /p/r.tmp behind, and a cold `get("../s")` opens /p/s. -/
theorem put_get_counter :
    put ⟨[[], [['p']], [['p'], ['r']]], []⟩ [['p'], ['r']] [] ['.', '.', '/', 'x']
      = .ok [['p'], ['x']] ∧
    put ⟨[[], [['p']], [['p'], ['r']]], []⟩ [['p'], ['r']] [] []
      = .err (some [['p'], ['r', '.', 't', 'm', 'p']]) ∧
    getCold ⟨[[], [['p']], [['p'], ['r']]], [[['p'], ['s']]]⟩ [['p'], ['r']] [] ['.', '.', '/', 's']
      = some [['p'], ['s']] := by decide

/-! ### temporary files of `write_file` -/

/-- ⟂ keys that are equal up to the last '.' share one temporary file. -/
theorem tmp_distinct_counter :
    withExtTmp [['r'], ['a', '.', '0']] = withExtTmp [['r'], ['a', '.', '1']] ∧
    ([['r'], ['a', '.', '0']] : APath) ≠ [['r'], ['a', '.', '1']] := by decide

/-- ⟂ the temporary file of key "x" is the final file of key "x.tmp". -/
theorem tmp_aliases_final_counter :
    withExtTmp (diskPath [['r']] [] ['x']) = diskPath [['r']] [] ['x', '.', 't', 'm', 'p'] := by
  decide

/-- what does hold: for file names without '.', different paths have different temporary
files, and no temporary file is the final file of such a name. -/
theorem tmp_distinct_partial (d1 d2 : APath) (n1 n2 : Comp)
    (h1 : '.' ∉ n1) (h2 : '.' ∉ n2)
    (h : withExtTmp (d1 ++ [n1]) = withExtTmp (d2 ++ [n2]) ∨ withExtTmp (d1 ++ [n1]) = d2 ++ [n2]) :
    d1 ++ [n1] = d2 ++ [n2] ∧ withExtTmp (d1 ++ [n1]) ≠ d2 ++ [n2] := by
  have hn1 : n1 ≠ dotdot := fun e => h1 (by rw [e]; decide)
  have hn2 : n2 ≠ dotdot := fun e => h2 (by rw [e]; decide)
  rw [withExtTmp_of_no_dot d1 n1 hn1 h1, withExtTmp_of_no_dot d2 n2 hn2 h2] at h
  rw [withExtTmp_of_no_dot d1 n1 hn1 h1]
  have hne : d1 ++ [n1 ++ tmpExt] ≠ d2 ++ [n2] := by
    intro e
    have := (List.append_inj' e rfl).2
    simp only [List.cons.injEq, and_true] at this
    exact h2 (by rw [← this]; simp [tmpExt])
  refine ⟨?_, hne⟩
  rcases h with h | h
  · have := List.append_inj' h rfl
    simp only [List.cons.injEq, and_true] at this
    rw [this.1, List.append_cancel_right this.2]
  · exact absurd h hne

/-- the candidate repair (append ".tmp" to the file name) gives every path its own temporary
file — for all names, dots or not. -/
theorem append_tmp_injective (d1 d2 : APath) (n1 n2 : Comp) (hn1 : n1 ≠ dotdot) (hn2 : n2 ≠ dotdot)
    (h : appendTmp (d1 ++ [n1]) = appendTmp (d2 ++ [n2])) : d1 ++ [n1] = d2 ++ [n2] := by
  rw [appendTmp_eq d1 n1 hn1, appendTmp_eq d2 n2 hn2] at h
  have := List.append_inj' h rfl
  simp only [List.cons.injEq, and_true] at this
  rw [this.1, List.append_cancel_right this.2]

/-! ### validate_endpoint and the cache key "api/ribbit/{endpoint}" -/

/-- every endpoint accepted by the (repaired) validator is cached below the cache directory —
for every alphanumeric predicate, every root, every layout. -/
theorem endpoint_confined (alnum : Char → Bool) (root sub : APath) (e : Str)
    (hr : dotdot ∉ root) (hsub : dotdot ∉ sub) (h : validateEndpoint alnum e = .ok) :
    confined root (diskPath root sub (ribbitCacheKey e)) := by
  obtain ⟨_, hseg, _, _, _⟩ := validate_ok alnum e h
  apply confined_of_no_dotdot root sub _ hr hsub
  · simp [ribbitCacheKey, sApiRibbit, isAbs]
  · rw [segs_ribbitCacheKey]
    simp only [List.mem_cons, not_or]
    exact ⟨by decide, by decide, fun hm => (hseg dotdot hm).2 rfl⟩

/-- an endpoint with a ".." (or ".") segment, or an absolute one, is rejected. -/
theorem endpoint_rejects_dotdot (alnum : Char → Bool) (e : Str)
    (h : dotdot ∈ segs e ∨ dot ∈ segs e ∨ isAbs e = true) : validateEndpoint alnum e ≠ .ok := by
  intro hok
  obtain ⟨habs, hseg, _, _, _⟩ := validate_ok alnum e hok
  rcases h with h | h | h
  · exact (hseg dotdot h).2 rfl
  · exact (hseg dot h).1 rfl
  · rw [habs] at h; cases h

/-- the repair does not over-reject: every well-formed endpoint name of at most 1000 bytes is
still accepted, for every alphanumeric predicate that contains the ASCII letters and digits. -/
theorem endpoint_accepts_wf (alnum : Char → Bool) (e : Str)
    (hal : ∀ c, isAsciiAlnum c = true → alnum c = true)
    (hwf : wfEndpoint e = true) (hlen : utf8Len e ≤ 1000) : validateEndpoint alnum e = .ok := by
  have hseg : ∀ g ∈ segs e, wfName g = true := by
    unfold wfEndpoint at hwf
    exact List.all_eq_true.mp hwf
  have hne : e ≠ [] := by
    intro h
    subst h
    have := hseg [] (by simp [segs, segsBy])
    simp [wfName] at this
  have hchars : e.all (endpointCharOk alnum) = true := by
    rw [List.all_eq_true]
    intro c hc
    by_cases hs : c = '/'
    · subst hs; simp [endpointCharOk]
    · obtain ⟨g, hg, hcg⟩ := mem_segsBy_of_mem '/' e c hc hs
      have hn : isNameChar c = true := by
        cases hb : isNameChar c with
        | true => rfl
        | false => exact absurd hcg (wfName_not_mem g c (hseg g hg) hb)
      unfold isNameChar at hn
      simp only [Bool.or_eq_true, beq_iff_eq] at hn
      unfold endpointCharOk
      rcases hn with (hn | hn) | hn
      · simp [hal c hn]
      · simp [hn]
      · simp [hn]
  have habs : isAbs e = false := by
    cases hb : isAbs e with
    | false => rfl
    | true =>
      have := hseg [] (nil_mem_segs_of_isAbs e hb)
      simp [wfName] at this
  have hdots : (segs e).any (fun s => s == dot || s == dotdot) = false := by
    rw [List.any_eq_false]
    intro g hg
    have hd := wfName_not_mem g '.' (hseg g hg) (by decide)
    simp only [Bool.or_eq_true, beq_iff_eq, not_or]
    exact ⟨fun h => hd (by rw [h]; decide), fun h => hd (by rw [h]; decide)⟩
  unfold validateEndpoint
  rw [if_neg hne, if_neg (by omega)]
  simp [hchars, habs, hdots]

/-- likewise `open_installation` still accepts every plain name, and opens `base/name`. -/
theorem install_accepts_names (base : APath) (name : Str) (h : wfName name = true) :
    installDir base name = some (base ++ [name]) := by
  have hne := wfName_ne_nil name h
  have hsl : '/' ∉ name := wfName_not_mem name '/' h (by decide)
  have hdot : '.' ∉ name := wfName_not_mem name '.' h (by decide)
  have hsegs : segs name = [name] := segsBy_of_not_mem '/' name hsl
  have hnd : name ≠ dot := fun e => hdot (by rw [e]; decide)
  have hndd : name ≠ dotdot := fun e => hdot (by rw [e]; decide)
  have hcomps : comps name = [name] := by
    rw [comps_eq_segs name (by rw [hsegs]; simpa using ⟨hne, hnd⟩), hsegs]
  have habs : isAbs name = false := by
    cases hb : isAbs name with
    | false => rfl
    | true =>
      have := nil_mem_segs_of_isAbs name hb
      rw [hsegs] at this
      simp at this
      exact absurd this hne
  unfold installDir installNameOk join
  simp [hsegs, hcomps, habs, hne, hnd, hndd]

/-- and `check_archive_key` accepts every 16-byte hash text. -/
theorem archive_key_accepts_hashes (k : Str) (h : wfHash k = true) : archiveKeyOk k = true := by
  unfold wfHash at h
  simp only [Bool.and_eq_true, beq_iff_eq] at h
  have hhex : ∀ c ∈ k, isAsciiHexDigit c = true := by
    intro c hc
    have := List.all_eq_true.mp h.2 c hc
    unfold isLowerHex at this
    unfold isAsciiHexDigit
    simp only [Bool.or_eq_true] at this ⊢
    rcases this with h1 | h1
    · exact Or.inl (Or.inl h1)
    · exact Or.inl (Or.inr h1)
  have hascii : ∀ c ∈ k, c.utf8Size = 1 := fun c hc => (isAsciiHexDigit_facts c (hhex c hc)).1
  unfold archiveKeyOk
  rw [utf8Len_ascii k hascii, h.1]
  simp only [Bool.and_eq_true, decide_eq_true_eq]
  exact ⟨by decide, List.all_eq_true.mpr hhex⟩

/-- two accepted endpoints without empty segments are cached in different files. -/
theorem endpoint_injective (alnum : Char → Bool) (root : APath) (e1 e2 : Str) (hr : dotdot ∉ root)
    (h1 : validateEndpoint alnum e1 = .ok) (h2 : validateEndpoint alnum e2 = .ok)
    (n1 : [] ∉ segs e1) (n2 : [] ∉ segs e2)
    (h : normalize (diskPath root [] (ribbitCacheKey e1)) =
         normalize (diskPath root [] (ribbitCacheKey e2))) : e1 = e2 := by
  have canon : ∀ e, validateEndpoint alnum e = .ok → [] ∉ segs e →
      ∀ g ∈ segs (ribbitCacheKey e), canonSeg g := by
    intro e he hn g hg
    obtain ⟨_, hseg, _, _, _⟩ := validate_ok alnum e he
    rw [segs_ribbitCacheKey] at hg
    simp only [List.mem_cons] at hg
    rcases hg with rfl | rfl | hg
    · exact canonSeg_of_head _ _ (by decide)
    · exact canonSeg_of_head _ _ (by decide)
    · exact ⟨fun e' => hn (e' ▸ hg), (hseg g hg).1, (hseg g hg).2⟩
  have := path_inj_of_canon root [] [] _ _ hr (by simp) (by simp) rfl
    (canon e1 h1 n1) (canon e2 h2 n2) h
  exact List.append_cancel_left this

/-- ⟂ the pinned validator (before the `fix:`) accepts "../../../x", whose cache file is
outside the cache directory — and the repaired one rejects it. -/
theorem endpoint_pinned_counter :
    validateEndpointPinned isAsciiAlnum ['.', '.', '/', '.', '.', '/', '.', '.', '/', 'x'] = .ok ∧
    ¬ confined [['r']] (diskPath [['r']] []
        (ribbitCacheKey ['.', '.', '/', '.', '.', '/', '.', '.', '/', 'x'])) ∧
    validateEndpoint isAsciiAlnum ['.', '.', '/', '.', '.', '/', '.', '.', '/', 'x']
      = .notRelative := by decide

/-! ### CDN URLs and cache keys -/

/-- after the `fix:` no content key of any length makes the URL / cache-key builders panic: keys
shorter than two bytes are `InvalidKey`, all others succeed. -/
theorem url_no_panic (scheme : Option Str) (host basePath : Str) (ct : ContentType)
    (key : List Nat) :
    (key.length < 2 → downloadCacheKey basePath ct key = .invalidKey ∧
        buildUrl scheme host basePath ct key = .invalidKey) ∧
    (2 ≤ key.length → (∃ v, downloadCacheKey basePath ct key = .ok v) ∧
        ∃ u, buildUrl scheme host basePath ct key = .ok u) := by
  constructor
  · intro h
    simp [downloadCacheKey, buildUrl, h]
  · intro h
    have hs : slice24 (hexEncode key) = some ((hexEncode key).take 2, ((hexEncode key).drop 2).take 2) :=
      slice24_ascii _ (fun c hc => (hexEncode_chars key c hc).1) (by rw [hexEncode_length]; omega)
    have hlt : ¬ key.length < 2 := by omega
    simp [downloadCacheKey, buildUrl, cdnTail, hs, hlt]

/-- ⟂ the pinned code (no length check) panics for the empty key and for a one-byte key. -/
theorem url_pinned_counter :
    downloadCacheKeyPinned [] .data [] = .panic ∧ downloadCacheKeyPinned [] .data [0] = .panic := by
  decide

/-- the cache key of `download` stays below the cache directory whenever the CDN path (after
`trim_end_matches('/')`) has no ".." segment; the key bytes never matter. -/
theorem cdn_cache_key_confined (root sub : APath) (basePath : Str) (ct : ContentType)
    (key : List Nat) (ck : Str) (hr : dotdot ∉ root) (hsub : dotdot ∉ sub)
    (hp : dotdot ∉ segs (trimSlashes basePath))
    (h : downloadCacheKey basePath ct key = .ok ck) : confined root (diskPath root sub ck) := by
  unfold downloadCacheKey at h
  split at h
  · cases h
  rename_i hlen
  have hs : slice24 (hexEncode key) = some ((hexEncode key).take 2, ((hexEncode key).drop 2).take 2) :=
    slice24_ascii _ (fun c hc => (hexEncode_chars key c hc).1) (by rw [hexEncode_length]; omega)
  simp only [cdnTail, hs, Option.map_some, joinSep, List.append_nil] at h
  injection h with h
  subst h
  have nodot : ∀ s : Str, (∀ c ∈ s, c ≠ '.') → dotdot ∉ segs s := by
    intro s hs' hm
    have := (mem_of_mem_segsBy '/' s dotdot hm '.' (by decide)).1
    exact hs' '.' this rfl
  have hhex : ∀ c ∈ hexEncode key, c ≠ '.' := fun c hc => (hexEncode_chars key c hc).2.1
  apply confined_of_no_dotdot root sub _ hr hsub
  · simp [sCdn, isAbs]
  · unfold segs
    rw [segsBy_append_sep, segsBy_append_sep, segsBy_append_sep, segsBy_append_sep,
      segsBy_append_sep]
    simp only [List.mem_append, not_or]
    refine ⟨by decide, hp, ?_, ?_, ?_, nodot _ hhex⟩
    · cases ct <;> decide
    · exact nodot _ fun c hc => hhex c (List.mem_of_mem_take hc)
    · exact nodot _ fun c hc => hhex c (List.mem_of_mem_drop (List.mem_of_mem_take hc))

/-- ⟂ what the hypothesis excludes: a CDN path ".." (remote data) puts the object outside. -/
theorem cdn_path_counter :
    ∃ ck, downloadCacheKey ['.', '.', '/', '.', '.'] .data [0, 0] = .ok ck ∧
      ¬ confined [['r']] (diskPath [['r']] [] ck) := by
  refine ⟨_, rfl, ?_⟩
  decide

/-- archive keys: after the `fix:` anything but ≥ 4 ASCII hex digits is `InvalidKey`; accepted
keys never panic and are cached below the cache directory (given the CDN path condition). -/
theorem archive_key_no_panic (scheme : Option Str) (host basePath ak : Str) :
    archiveIndexCacheKey basePath ak ≠ .panic ∧ archiveIndexUrl scheme host basePath ak ≠ .panic := by
  by_cases hok : archiveKeyOk ak = true
  · have hok' := hok
    unfold archiveKeyOk at hok'
    simp only [Bool.and_eq_true, decide_eq_true_eq] at hok'
    have hascii : ∀ c ∈ ak, c.utf8Size = 1 := fun c hc =>
      (isAsciiHexDigit_facts c (List.all_eq_true.mp hok'.2 c hc)).1
    have hlen : 4 ≤ ak.length := by rw [← utf8Len_ascii ak hascii]; exact hok'.1
    have hs := slice24_ascii ak hascii hlen
    simp [archiveIndexCacheKey, archiveIndexUrl, cdnTail, hs, hok]
  · simp [archiveIndexCacheKey, archiveIndexUrl, hok]

theorem archive_key_confined (root sub : APath) (basePath ak ck : Str)
    (hr : dotdot ∉ root) (hsub : dotdot ∉ sub) (hp : dotdot ∉ segs (trimSlashes basePath))
    (h : archiveIndexCacheKey basePath ak = .ok ck) : confined root (diskPath root sub ck) := by
  unfold archiveIndexCacheKey at h
  by_cases hok : archiveKeyOk ak = true
  case neg => simp [hok] at h
  simp only [hok, Bool.not_true, Bool.false_eq_true, if_false] at h
  have hok' := hok
  unfold archiveKeyOk at hok'
  simp only [Bool.and_eq_true, decide_eq_true_eq] at hok'
  have hfacts : ∀ c ∈ ak, c.utf8Size = 1 ∧ c ≠ '.' ∧ c ≠ '/' := fun c hc =>
    isAsciiHexDigit_facts c (List.all_eq_true.mp hok'.2 c hc)
  have hlen : 4 ≤ ak.length := by
    rw [← utf8Len_ascii ak (fun c hc => (hfacts c hc).1)]; exact hok'.1
  have hs := slice24_ascii ak (fun c hc => (hfacts c hc).1) hlen
  simp only [cdnTail, hs, Option.map_some, joinSep] at h
  injection h with h
  subst h
  have nodot : ∀ s : Str, (∀ c ∈ s, c ≠ '.') → dotdot ∉ segs s := by
    intro s hs' hm
    have := (mem_of_mem_segsBy '/' s dotdot hm '.' (by decide)).1
    exact hs' '.' this rfl
  have hdot : ∀ c ∈ ak, c ≠ '.' := fun c hc => (hfacts c hc).2.1
  apply confined_of_no_dotdot root sub _ hr hsub
  · simp [sCdn, isAbs]
  · unfold segs
    rw [segsBy_append_sep, segsBy_append_sep, segsBy_append_sep, segsBy_append_sep,
      segsBy_append_sep]
    simp only [List.mem_append, not_or]
    refine ⟨by decide, hp, by decide, ?_, ?_, ?_⟩
    · exact nodot _ fun c hc => hdot c (List.mem_of_mem_take hc)
    · exact nodot _ fun c hc => hdot c (List.mem_of_mem_drop (List.mem_of_mem_take hc))
    · -- "{key}.index": one segment, longer than ".."
      have hsl : '/' ∉ ak ++ sIndexExt := by
        intro hm
        rcases List.mem_append.mp hm with hm | hm
        · exact (hfacts '/' hm).2.2 rfl
        · revert hm; decide
      rw [segsBy_of_not_mem '/' _ hsl]
      simp only [List.mem_cons, List.not_mem_nil, or_false]
      intro e
      have := congrArg List.length e
      simp [dotdot, sIndexExt] at this

/-! #### one cache entry per CDN object (content type × hash × entry point) -/

/-- on one CDN path `download` never gives two content types, or two hashes, the same cache key
(hence, by `paths_injective`-style joining, the same cache file): equal keys mean equal content
type and equal hash text. -/
theorem cdn_cache_key_injective (basePath : Str) (ct1 ct2 : ContentType) (k1 k2 : List Nat) (s : Str)
    (h1 : downloadCacheKey basePath ct1 k1 = .ok s) (h2 : downloadCacheKey basePath ct2 k2 = .ok s) :
    ct1 = ct2 ∧ hexEncode k1 = hexEncode k2 := by
  have e1 := downloadCacheKey_eq _ _ _ _ h1
  have e2 := downloadCacheKey_eq _ _ _ _ h2
  have nosl : ∀ k : List Nat, '/' ∉ hexEncode k := fun k hm => (hexEncode_chars k '/' hm).2.2 rfl
  rw [e1] at e2
  obtain ⟨e3, hk⟩ := last_seg_inj _ _ _ _ (nosl k1) (nosl k2) e2
  refine ⟨?_, hk⟩
  have notake : ∀ (k : List Nat) (n : Nat), '/' ∉ (hexEncode k).take n :=
    fun k n hm => nosl k (List.mem_of_mem_take hm)
  have nodt : ∀ (k : List Nat), '/' ∉ ((hexEncode k).drop 2).take 2 :=
    fun k hm => nosl k (List.mem_of_mem_drop (List.mem_of_mem_take hm))
  obtain ⟨e4, _⟩ := last_seg_inj _ _ _ _ (nodt k1) (nodt k2) e3
  obtain ⟨e5, _⟩ := last_seg_inj _ _ _ _ (notake k1 2) (notake k2 2) e4
  have hct : '/' ∉ ct1.text ∧ '/' ∉ ct2.text := by cases ct1 <;> cases ct2 <;> decide
  have e6 := (last_seg_inj _ _ _ _ hct.1 hct.2 e5).2
  cases ct1 <;> cases ct2 <;> first | rfl | (revert e6; decide)

/-- on one CDN path the cache key of `download_archive_index` (any accepted archive key) differs
from every cache key of `download` (any content type, any hash): an archive, or any other object,
and an archive index never share a cache entry — the ".index" suffix cannot be the tail of a hex
hash. -/
theorem cdn_cache_key_index_distinct (basePath : Str) (ct : ContentType) (k : List Nat) (ak s1 s2 : Str)
    (h1 : downloadCacheKey basePath ct k = .ok s1) (h2 : archiveIndexCacheKey basePath ak = .ok s2) :
    s1 ≠ s2 := by
  intro e
  have e1 := downloadCacheKey_eq _ _ _ _ h1
  obtain ⟨hsl, e2⟩ := archiveIndexCacheKey_eq _ _ _ h2
  rw [e1, e2] at e
  have hsl2 : '/' ∉ ak ++ sIndexExt := by
    intro hm
    rcases List.mem_append.mp hm with hm | hm
    · exact hsl hm
    · revert hm; decide
  have := (last_seg_inj _ _ _ _ (fun hm => (hexEncode_chars k '/' hm).2.2 rfl) hsl2 e).2
  have hd : '.' ∈ hexEncode k := by rw [this]; simp [sIndexExt]
  exact (hexEncode_chars k '.' hd).2.1 rfl

/-- the two theorems are not vacuous: `download(Data, K)` and `download_archive_index(hex K)` both
produce keys, "…/abcd" and "…/abcd.index". -/
example : downloadCacheKey ['t'] .data [0xab, 0xcd] = .ok "cdn/t/data/ab/cd/abcd".toList ∧
    archiveIndexCacheKey ['t'] "abcd".toList = .ok "cdn/t/data/ab/cd/abcd.index".toList := by decide

/-- ⟂ the pinned code sliced the archive key unchecked: three bytes, or a two-byte character
across offset 2, panic. -/
theorem archive_pinned_counter :
    archiveIndexCacheKeyPinned [] ['a', 'b', 'c'] = .panic ∧
    archiveIndexCacheKeyPinned [] ['a', 'é', 'b', 'c'] = .panic := by decide

/-- `download_range`: for a non-empty range that ends within `u64` the header's last byte is
`offset + length - 1`, not below `offset` (no wrap-around). -/
theorem range_no_overflow (offset length : Nat) (h1 : 1 ≤ length) (h2 : offset + length ≤ 2 ^ 64) :
    rangeEnd offset length = offset + length - 1 ∧ offset ≤ rangeEnd offset length :=
  rangeEnd_exact offset length h1 h2

/-! ### Storage::open_installation -/

/-- every accepted installation name opens a directory below `base_path`. -/
theorem install_confined (base : APath) (name : Str) (d : APath) (hb : dotdot ∉ base)
    (h : installDir base name = some d) : confined base d := by
  unfold installDir at h
  split at h
  · rename_i hok
    injection h with h
    subst h
    unfold installNameOk at hok
    simp only [Bool.and_eq_true, Bool.not_eq_true', List.all_eq_true, bne_iff_ne, ne_eq] at hok
    exact confined_join base name hb hok.1.1.2
      (fun hm => hok.2 dotdot ((dotdot_mem_comps name).mpr hm) rfl)
  · cases h

/-- ⟂ the pinned code joined the name unchecked. -/
theorem install_pinned_counter :
    ¬ confined [['r']] (installDirPinned [['r']] ['.', '.', '/', 'e']) ∧
    installDir [['r']] ['.', '.', '/', 'e'] = none ∧
    installDir [['r']] ['/', 'e'] = none ∧ installDir [['r']] [] = none := by decide

/-! ### fixed-width binary names -/

/-- `format_content_key_path`: three hex components below the base, for every key. -/
theorem content_key_path_confined (base : APath) (ekey : List Nat) (hb : dotdot ∉ base) :
    confined base (contentKeyPath base ekey) := by
  unfold contentKeyPath
  apply confined_append base _ hb
  have hhex : ∀ c ∈ hexEncode ekey, c ≠ '.' := fun c hc => (hexEncode_chars ekey c hc).2.1
  simp only [List.mem_cons, List.not_mem_nil, or_false, not_or]
  refine ⟨fun e => ?_, fun e => ?_, fun e => ?_⟩
  · exact ne_dotdot_of_no_dot _ (fun hm => hhex _ (List.mem_of_mem_take hm) rfl) e.symm
  · exact ne_dotdot_of_no_dot _
      (fun hm => hhex _ (List.mem_of_mem_drop (List.mem_of_mem_take hm)) rfl) e.symm
  · exact ne_dotdot_of_no_dot _ (fun hm => hhex _ (List.mem_of_mem_drop hm) rfl) e.symm

/-- `format_content_key_path` is injective: two 9-byte keys (any byte strings) with one trie path
are the same key. The two directory levels and the leaf are fixed-width slices of one zero-padded
hex text, so no byte below 0x10 can lend a digit to its neighbour (the unpadded `{:x}` leaf would
send 01 23 and 12 03 to one file). -/
theorem content_key_path_injective (base : APath) (k1 k2 : List Nat)
    (h1 : ∀ b ∈ k1, b < 256) (h2 : ∀ b ∈ k2, b < 256)
    (h : contentKeyPath base k1 = contentKeyPath base k2) : k1 = k2 := by
  unfold contentKeyPath at h
  have h' := List.append_cancel_left h
  simp only [List.cons.injEq, and_true] at h'
  obtain ⟨ha, hb, hc⟩ := h'
  apply hexEncode_injective k1 k2 h1 h2
  rw [← List.take_append_drop 2 (hexEncode k1), ← List.take_append_drop 2 (hexEncode k2), ha]
  congr 1
  rw [← List.take_append_drop 2 (List.drop 2 (hexEncode k1)),
    ← List.take_append_drop 2 (List.drop 2 (hexEncode k2)), hb]
  congr 1
  simpa [List.drop_drop] using hc

/-- ⟂ test (not a theorem about the code): without zero padding the leaf is not injective. -/
example :
    let leaf (k : List Nat) : Str := (k.map fun b => (Nat.toDigits 16 b)).flatten
    leaf [0x01, 0x23] = leaf [0x12, 0x03] ∧ hexEncode [0x01, 0x23] ≠ hexEncode [0x12, 0x03] := by
  decide

/-- `lru_file_path` is injective in the generation (`u64`). -/
theorem lru_file_path_injective (dir : APath) (g1 g2 : Nat) (h1 : g1 < 2 ^ 64) (h2 : g2 < 2 ^ 64)
    (h : lruFilePath dir g1 = lruFilePath dir g2) : g1 = g2 := by
  unfold lruFilePath at h
  have h' := List.append_cancel_left h
  simp only [List.cons.injEq, and_true] at h'
  exact be64_injective g1 g2 h1 h2
    (hexEncode_injective _ _ (be64_bytes g1) (be64_bytes g2) (List.append_cancel_right h'))

/-- `lru_file_path`: one 20-character component below the directory, for every generation. -/
theorem lru_file_path_confined (dir : APath) (generation : Nat) (hd : dotdot ∉ dir) :
    confined dir (lruFilePath dir generation) ∧
    ∃ n, lruFilePath dir generation = dir ++ [n] ∧ n.length = 20 ∧ '/' ∉ n := by
  have hlen : (hexEncode (be64 generation) ++ ['.', 'l', 'r', 'u']).length = 20 := by
    simp [hexEncode_length, be64]
  refine ⟨?_, _, rfl, hlen, ?_⟩
  · unfold lruFilePath
    apply confined_append dir _ hd
    simp only [List.mem_cons, List.not_mem_nil, or_false]
    intro e
    have := congrArg List.length e
    rw [hlen] at this
    simp [dotdot] at this
  · intro hm
    rcases List.mem_append.mp hm with hm | hm
    · exact (hexEncode_chars _ '/' hm).2.2 rfl
    · revert hm; decide

/-- `generate_index_filename`: 14 characters, no '/'. -/
theorem index_file_name_single (bucket version : Nat) :
    (indexFileName bucket version).length = 14 ∧ '/' ∉ indexFileName bucket version := by
  unfold indexFileName
  refine ⟨by simp [hexEncode_length], ?_⟩
  intro hm
  simp only [List.append_assoc, List.mem_append] at hm
  rcases hm with hm | hm | hm
  · exact (hexEncode_chars _ '/' hm).2.2 rfl
  · exact (hexEncode_chars _ '/' hm).2.2 rfl
  · revert hm; decide

/-! ## Extension: every public constructor, the memoised key text, `format_cache_key`,
`RangeDownloader::download_archive_content`, cold `remove`, segment / index-temp names
(Model/KeysExt).  The tie of all text builders to the Rust source is Proofs/KeysTie (audited in
Audit/C20 next to these). -/

/-! ### every public constructor of key.rs -/

/-- two different constructor calls (different constructor or different arguments) never store the
same field values: the 18 public constructors of the ten key types partition the key values. -/
theorem ctor_key_injective (c1 c2 : Ctor) (h : c1.key = c2.key) : c1 = c2 := by
  cases c1 <;> cases c2 <;> simp_all [Ctor.key]

/-- and every key value is built by one of them (`Ctor.ofKey` names the call). -/
theorem ctor_key_surjective (k : Key) : (Ctor.ofKey k).key = k := by
  unfold Ctor.ofKey
  split <;> rfl

/-- constructor call → `as_cache_key` text is injective for ':'-free text arguments: across all 18
constructors, all argument values (`u8/u32/u64` over all of `Nat`). -/
theorem ctor_cache_key_injective (c1 c2 : Ctor) (h1 : colonFree c1.key) (h2 : colonFree c2.key)
    (h : cacheKey c1.key = cacheKey c2.key) : c1 = c2 :=
  ctor_key_injective c1 c2 (cacheKey_inj _ _ h1 h2 h)

/-- constructor call → file: two calls with well-formed arguments that end up in the same file
(any root, any hashed layout) are the same call with the same arguments. -/
theorem ctor_paths_injective_wf (root : APath) (levels hash1 hash2 : Nat) (c1 c2 : Ctor)
    (hr : dotdot ∉ root) (h1 : wfKey c1.key = true) (h2 : wfKey c2.key = true)
    (h : normalize (diskPath root (subDirs levels hash1) (cacheKey c1.key)) =
         normalize (diskPath root (subDirs levels hash2) (cacheKey c2.key))) : c1 = c2 :=
  ctor_key_injective c1 c2 (paths_injective_wf_hashed root levels hash1 hash2 _ _ hr h1 h2 h)

/-- ⟂ the hypothesis is needed, at constructor level (the witness noted by the C08/C11 reviewers):
`RibbitKey::new("b:c", "a")` and `RibbitKey::with_product("c", "a", "b")` print "ribbit:a:b:c". -/
theorem ctor_colon_counter :
    cacheKey (Ctor.ribbitNew ['b', ':', 'c'] ['a']).key =
      cacheKey (Ctor.ribbitWithProduct ['c'] ['a'] ['b']).key ∧
    Ctor.ribbitNew ['b', ':', 'c'] ['a'] ≠ Ctor.ribbitWithProduct ['c'] ['a'] ['b'] := by decide

/-! ### the memoised text behind `as_cache_key`

Full-strength statement, FALSE of the tree (finding stale-key-text-after-field-write): for every
key value `m` obtained from a constructor by any sequence of `as_cache_key`, `clone` and
assignments to its public fields,

    theorem memo_text_is_key_text (m : Memo) : m.asCacheKey.1 = cacheKey m.key

Counter-witness `memo_stale_counter`; `memo_fresh` is what holds (no assignment after the first
`as_cache_key`). -/

/-- for a key value whose memo is empty or up to date — every value returned by a constructor
(`memo_new_fresh`), and `as_cache_key` / `clone` keep it that way — `as_cache_key` returns the
text of the current fields. -/
theorem memo_fresh (m : Memo) (h : Memo.fresh m) :
    m.asCacheKey.1 = cacheKey m.key ∧ Memo.fresh m.asCacheKey.2 ∧ m.asCacheKey.2.key = m.key := by
  unfold Memo.asCacheKey
  rcases h with h | h
  · rw [h]; exact ⟨rfl, Or.inr rfl, rfl⟩
  · rw [h]; exact ⟨rfl, Or.inr h, rfl⟩

/-- every constructor returns such a value. -/
theorem memo_new_fresh (c : Ctor) : Memo.fresh (Memo.new c) := Or.inl rfl

/-- ⟂ the fields are public: after `k.as_cache_key(); k.region = "eu"` the value equals
`RibbitKey::new("a", "eu")` (`PartialEq` compares the fields) but still prints — and is stored
under — "ribbit:us:a", the file of `RibbitKey::new("a", "us")`. -/
theorem memo_stale_counter :
    let m0 := Memo.new (.ribbitNew ['a'] ['u', 's'])
    let m1 := m0.asCacheKey.2.setFields (.ribbit ['a'] ['e', 'u'] none)
    m1.key = (Memo.new (.ribbitNew ['a'] ['e', 'u'])).key ∧
    m1.asCacheKey.1 = cacheKey (.ribbit ['a'] ['u', 's'] none) ∧
    m1.asCacheKey.1 ≠ cacheKey m1.key := by decide

/-! ### `cascette_protocol::format_cache_key` -/

/-- `format_cache_key(prefix, endpoint)` is injective for ':'-free prefixes (any endpoint). -/
theorem proto_cache_key_injective (p1 p2 e1 e2 : Str) (h1 : ':' ∉ p1) (h2 : ':' ∉ p2)
    (h : protoCacheKey p1 e1 = protoCacheKey p2 e2) : p1 = p2 ∧ e1 = e2 := by
  unfold protoCacheKey at h
  have a := segsBy_append_sep ':' p1 e1
  have b := segsBy_append_sep ':' p2 e2
  rw [h, b, segsBy_of_not_mem ':' p1 h1, segsBy_of_not_mem ':' p2 h2] at a
  simp only [List.cons_append, List.nil_append, List.cons.injEq] at a
  exact ⟨a.1.symm, (segsBy_inj ':' _ _ a.2).symm⟩

/-- ⟂ with a ':' in the prefix two different pairs print the same key. -/
theorem proto_cache_key_colon_counter :
    protoCacheKey ['a', ':', 'b'] ['c'] = protoCacheKey ['a'] ['b', ':', 'c'] := by decide

/-! ### `RangeDownloader::download_archive_content` (cdn/range.rs) -/

/-- after the `fix:` no archive name of any length or content makes the URL builder panic: a
name that is not ≥ 4 ASCII hex digits is `InvalidArchiveName`, every other name gives
`https://{host}/{path}[/{product_path}]/data/{name[..2]}/{name[2..4]}/{name}`. -/
theorem archive_content_no_panic (host path : Str) (ppath : Option Str) (name : Str) :
    archiveContentUrl host path ppath name ≠ .panic ∧
    (archiveKeyOk name = false → archiveContentUrl host path ppath name = .invalidKey) ∧
    (archiveKeyOk name = true → archiveContentUrl host path ppath name =
      .ok (sHttps ++ [':', '/', '/'] ++ host ++ '/' ::
        joinSep '/' ([path] ++ optMap id ppath ++ [sData, name.take 2, (name.drop 2).take 2, name]))) := by
  by_cases hok : archiveKeyOk name = true
  · have hok' := hok
    unfold archiveKeyOk at hok'
    simp only [Bool.and_eq_true, decide_eq_true_eq] at hok'
    have hascii : ∀ c ∈ name, c.utf8Size = 1 := fun c hc =>
      (isAsciiHexDigit_facts c (List.all_eq_true.mp hok'.2 c hc)).1
    have hlen : 4 ≤ name.length := by rw [← utf8Len_ascii name hascii]; exact hok'.1
    have hs := slice24_ascii name hascii hlen
    simp [archiveContentUrl, archiveContentTail, hs, hok]
  · simp [archiveContentUrl, hok]

/-- ⟂ the code before the fix sliced the name unchecked: three bytes, the empty name, or a
two-byte character across offset 2 panic. -/
theorem archive_content_pinned_counter :
    archiveContentUrlPinned ['h'] ['p'] none ['a', 'b', 'c'] = .panic ∧
    archiveContentUrlPinned ['h'] ['p'] none [] = .panic ∧
    archiveContentUrlPinned ['h'] ['p'] (some ['w']) ['a', 'é', 'b'] = .panic ∧
    archiveContentUrl ['h'] ['p'] none ['a', 'b', 'c'] = .invalidKey ∧
    archiveContentUrl ['h'] ['p'] (some ['w']) ['a', 'é', 'b'] = .invalidKey := by decide

/-! ### `DiskCache::remove` of a key that is not indexed -/

/-- for every file-system state, root, layout and key text that is relative, has no ".." segment
and a component of its own, the file a cold `remove` deletes lies below the root. -/
theorem remove_confined (fs : Fs) (root sub : APath) (key : Str)
    (hr : dotdot ∉ root) (hsub : dotdot ∉ sub)
    (habs : isAbs key = false) (hk : dotdot ∉ segs key) (hne : comps key ≠ []) :
    ∀ loc, removeCold fs root sub key = some loc → root <+: loc :=
  (Cascette.Proofs.DiskFs.put_get_confined fs root sub key hr hsub habs hk hne).2.2

/-- in particular for every well-formed typed key. -/
theorem remove_confined_wf (fs : Fs) (root sub : APath) (k : Key)
    (hr : dotdot ∉ root) (hsub : dotdot ∉ sub) (h : wfKey k = true) :
    ∀ loc, removeCold fs root sub (cacheKey k) = some loc → root <+: loc :=
  (put_get_confined_wf fs root sub k hr hsub h).2.2

/-- ⟂ without the hypotheses (findings delete-escape-disk-*): root /p/r, a file /p/s outside —
`remove("../s")` and, on a hashed layout, `remove("/p/s")` delete it. -/
theorem remove_counter :
    removeCold ⟨[[], [['p']], [['p'], ['r']]], [[['p'], ['s']]]⟩ [['p'], ['r']] [] ['.', '.', '/', 's']
      = some [['p'], ['s']] ∧
    removeCold ⟨[[], [['p']], [['p'], ['r']]], [[['p'], ['s']]]⟩ [['p'], ['r']] [['0', '0']] ['/', 'p', '/', 's']
      = some [['p'], ['s']] := by decide

/-! ### fixed-format names: `segment_data_path`, the index temporary file -/

/-- `segment_data_path`: one component "data.NNN…" below the directory, for every index. -/
theorem segment_data_path_confined (base : APath) (idx : Nat) (hb : dotdot ∉ base) :
    confined base (segmentDataPath base idx) ∧
    ∃ n, segmentDataPath base idx = base ++ [n] ∧ '/' ∉ n ∧ n ≠ dotdot ∧ n ≠ dot := by
  have hsl : '/' ∉ sData ++ '.' :: pad3 idx := by
    intro hm
    simp only [List.mem_append, List.mem_cons, pad3, List.mem_replicate] at hm
    rcases hm with hm | hm | ⟨_, hm⟩ | hm
    · revert hm; decide
    · revert hm; decide
    · revert hm; decide
    · exact slash_not_mem_dec idx hm
  have hdd : sData ++ '.' :: pad3 idx ≠ dotdot := by simp [sData, dotdot]
  have hd : sData ++ '.' :: pad3 idx ≠ dot := by simp [sData, dot]
  refine ⟨?_, _, rfl, hsl, hdd, hd⟩
  unfold segmentDataPath
  apply confined_append base _ hb
  simpa using hdd.symm

/-- the temporary file of `IndexManager::save_index` (`with_extension("tmp")` of
`{bucket:02x}{version:08x}.idx`) is `{bucket:02x}{version:08x}.tmp` in the same directory — below
the base, and never the index file itself — for every bucket and version. -/
theorem index_tmp_confined (base : APath) (bucket version : Nat) (hb : dotdot ∉ base) :
    indexTmpPath base bucket version =
      base ++ [(indexFileName bucket version).take 10 ++ tmpExt] ∧
    confined base (indexTmpPath base bucket version) ∧
    indexTmpPath base bucket version ≠ base ++ [indexFileName bucket version] := by
  have hshape : ∃ h : Str, h.length = 10 ∧ '.' ∉ h ∧ '/' ∉ h ∧
      indexFileName bucket version = h ++ '.' :: ['i', 'd', 'x'] := by
    refine ⟨hexEncode [bucket % 256] ++
      hexEncode ((List.range 4).reverse.map fun i => version / 256 ^ i % 256), ?_, ?_, ?_, ?_⟩
    · simp [hexEncode_length]
    · intro hm
      rcases List.mem_append.mp hm with hm | hm
      · exact (hexEncode_chars _ '.' hm).2.1 rfl
      · exact (hexEncode_chars _ '.' hm).2.1 rfl
    · intro hm
      rcases List.mem_append.mp hm with hm | hm
      · exact (hexEncode_chars _ '/' hm).2.2 rfl
      · exact (hexEncode_chars _ '/' hm).2.2 rfl
    · simp [indexFileName]
  obtain ⟨h, hlen, hdot, _, hname⟩ := hshape
  have hne : h ≠ [] := by intro e; rw [e] at hlen; simp at hlen
  have hnd : h ≠ dot := by intro e; rw [e] at hlen; simp [dot] at hlen
  have hfn : indexFileName bucket version ≠ dotdot := by
    rw [hname]; intro e; have := congrArg List.length e; simp [dotdot, hlen] at this
  have heq : indexTmpPath base bucket version = base ++ [h ++ tmpExt] := by
    unfold indexTmpPath withExtTmp withExtTmpRaw
    rw [fileName_append_singleton base _ hfn]
    simp only [hname, Cascette.Proofs.KeysTie.splitLastDot_append h ['i', 'd', 'x'] (by decide), hne,
      hnd, if_false, List.dropLast_concat]
  have htake : (indexFileName bucket version).take 10 = h := by
    rw [hname, ← hlen]; simp
  refine ⟨by rw [heq, htake], ?_, ?_⟩
  · rw [heq]
    apply confined_append base _ hb
    simp only [List.mem_cons, List.not_mem_nil, or_false]
    exact fun e => Cascette.Proofs.DiskFs.tmp_name_ne_dotdot h e.symm
  · rw [heq, hname]
    intro e
    have := (List.append_inj' e rfl).2
    simp [tmpExt] at this

/-! ### the hypotheses are satisfiable by non-trivial instances -/

example : wfKey (.ribbit ['v', '1', '/', 'w', 'o', 'w'] ['u', 's'] (some ['w', 'o', 'w'])) = true := by
  decide
example : wfKey (.archiveIndex ['d', 'a', 't', 'a', '.', '0', '0', '0'] ['a', 'b']) = true := by decide
example : validateEndpoint isAsciiAlnum ['v', '1', '/', 'w', 'o', 'w', '/', 'c', 'd', 'n', 's'] = .ok := by
  decide
example : installDir [['r']] ['w', 'o', 'w'] = some [['r'], ['w', 'o', 'w']] := by decide
example : archiveKeyOk ['0', '1', 'a', 'F'] = true := by decide
example : dotdot ∉ segs (trimSlashes ['t', 'p', 'r', '/', 'w', 'o', 'w', '/']) := by decide
example : colonFree (Ctor.ribbitWithProduct ['v', '1', '/', 'x'] ['u', 's'] ['w', 'o', 'w']).key := by
  intro f hf; revert f hf; decide
example : wfKey (Ctor.encodingWithPage (List.replicate 32 '0') 7 true).key = true := by decide
example : Memo.fresh (Memo.new (.configNew ['a'] ['b'])).asCacheKey.2 :=
  (memo_fresh _ (memo_new_fresh _)).2.1
example : archiveKeyOk ['A', 'B', 'c', 'd', '0', '9'] = true := by decide
example : ':' ∉ ['a', 'p', 'i'] := by decide

end Cascette.Props.C20
