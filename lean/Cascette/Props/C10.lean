/-
Props/C10 — A cache is a bounded map: latest value or nothing, never over its limits.
Property theorems only; helper lemmas live in Proofs/{CacheAssoc,MemCache,DiskCache}.
Model = the Rust code as written (Model/MemCache, Model/DiskCache; the disk model is of the code
after the `fix:` commit to `DiskCache::remove`); Spec = an unbounded reference map from which
remove / clear / the end of a TTL delete (Spec/CacheMap).

Histories are arbitrary lists of operations; `run cfg init ops` is the state after them.
Where the pinned tree violates the statement the counter-witness is a theorem here (and a
corpus case replayed on the real code), followed by the `_partial` theorem.
-/
import Cascette.Proofs.MemCache
import Cascette.Proofs.DiskCache
import Cascette.Proofs.CacheExt
namespace Cascette.Props.C10
open Cascette.Spec.CacheMap (Key Val Ref)
open Cascette.Spec
open Cascette.Model
open Cascette.Model.CacheAssoc
open Cascette.Proofs

/-! ## In-memory cache -/

section Mem
open Cascette.Model.MemCache

/-- **get returns the latest value or nothing.**  After ANY history (every policy, every limit,
every victim choice — even ones the policy would not make), a `get k` answers either nothing or
exactly what the reference map holds for `k`: the value of the most recent put for that exact
key, unless it was removed, cleared or its TTL ended.  So never another key's value, a replaced
value, a removed value or an expired one. -/
theorem mem_get_latest_or_none (cfg : Config) (ops : List Op) (k : Key) :
    (step cfg (run cfg init ops) (.get k)).2 = .val none ∨
    (step cfg (run cfg init ops) (.get k)).2 = .val (CacheMap.run CacheMap.empty (ops.map (absOp cfg)) k) := by
  have href := MemCache.ref_tick (MemCache.ref_run cfg ops init CacheMap.empty MemCache.ref_init)
  show Out.val (Model.MemCache.get (tick (run cfg init ops)) k).2 = _ ∨ Out.val (Model.MemCache.get (tick (run cfg init ops)) k).2 = _
  rw [MemCache.get_out]
  cases hl : lookup k (tick (run cfg init ops)).store with
  | none => left; rfl
  | some e =>
    dsimp only
    by_cases hs : e.short = true
    · left; simp [hs]
    · right
      have := href k e hl (by simpa using hs)
      simp [hs, this]

/-- **the two counters are exact.**  After any history `entry_count` is the number of stored
entries and `memory_usage` the sum of their sizes (in particular neither ever wraps below
zero), keys are stored once, and `size()` / `stats()` report exactly these numbers. -/
theorem mem_counters_exact (cfg : Config) (ops : List Op) :
    let s := run cfg init ops
    s.count = (s.store.length : Int) ∧ s.bytes = (sumSize s.store : Int) ∧
    (step cfg s .size).2 = .num s.store.length ∧
    (step cfg s .stats).2 = .stats s.store.length (sumSize s.store) := by
  have h := MemCache.inv_run cfg ops init MemCache.inv_init
  refine ⟨h.count, h.bytes, ?_, ?_⟩
  · show Out.num (run cfg init ops).count = _; rw [h.count]
  · show Out.stats (run cfg init ops).count (run cfg init ops).bytes = _; rw [h.count, h.bytes]

/-- what `get` serves is exactly the unexpired stored entries -/
theorem mem_get_some_iff (cfg : Config) (s : State) (k : Key) (v : Val) :
    (step cfg s (.get k)).2 = .val (some v) ↔
      ∃ e, lookup k s.store = some e ∧ e.short = false ∧ e.val = v := by
  show Out.val (Model.MemCache.get (tick s) k).2 = _ ↔ _
  rw [MemCache.get_out]
  show Out.val (match lookup k s.store with
    | some e => if e.short then none else some e.val
    | none => none) = _ ↔ _
  cases hl : lookup k s.store with
  | none => simp
  | some e =>
    dsimp only
    by_cases hs : e.short = true
    · simp [hs]
    · simp [hs]

/-- **reported size vs. what is retrievable.**  `size()` = number of retrievable entries plus
the number of entries whose TTL has ended but which no operation has looked at yet (expiry is
lazy: only `get` / `contains` on the key, or the Ttl eviction policy, remove them). -/
theorem mem_size_eq_retrievable_plus_unswept (cfg : Config) (ops : List Op) :
    let s := run cfg init ops
    (step cfg s .size).2 = .num ((retrievable s.store).length + (unswept s.store).length : Nat) := by
  have h := (mem_counters_exact cfg ops).2.2.1
  dsimp only at h ⊢
  rw [h]
  congr 2
  unfold retrievable unswept
  generalize (run cfg init ops).store = st
  induction st with
  | nil => rfl
  | cons p t ih =>
    simp only [List.filter_cons, List.length_cons]
    cases p.2.short <;> simp <;> omega

/-- full-strength statement "size() = number of retrievable entries" is FALSE of the pinned
tree: one put with an already-ended TTL is counted although nothing is retrievable
(finding `mem-size-unswept-expired`, corpus/C10/mem-size-unswept.case). -/
theorem mem_size_counts_unswept_counterexample :
    let cfg : Config := { maxEntries := 4, maxBytes := none, policy := .lru, defaultShort := false }
    let s := run cfg init [.putTtl 1 [7] true []]
    (step cfg s .size).2 = .num 1 ∧ (step cfg s (.get 1)).2 = .val none := by decide

/-- … and holds whenever no ended-TTL entry is waiting to be swept. -/
theorem mem_size_eq_retrievable_partial (cfg : Config) (ops : List Op)
    (h : unswept (run cfg init ops).store = []) :
    (step cfg (run cfg init ops) .size).2 = .num (retrievable (run cfg init ops).store).length := by
  have := mem_size_eq_retrievable_plus_unswept cfg ops
  dsimp only at this
  rw [this, h]; rfl

/-- **entry bound.**  For the count-driven policies (Lru, Lfu, Fifo, Random), `max_entries ≥ 1`
(what `validate` enforces), every history whose victim lists are ones the policy can produce
(`runOk`: `n` distinct stored keys, none ranked after a survivor; any tie-break, any Random
draw), the number of entries is within the maximum after every operation. -/
theorem mem_count_le_max (cfg : Config) (hmax : 1 ≤ cfg.maxEntries) (hp : cfg.policy ≠ .ttl)
    (ops : List Op) (hok : runOk cfg init ops = true) :
    (run cfg init ops).count ≤ (cfg.maxEntries : Int) ∧
    ((run cfg init ops).store.length ≤ cfg.maxEntries) := by
  have h := MemCache.count_run cfg hmax hp ops init MemCache.inv_init (by show (0 : Int) ≤ _; omega) hok
  have hi := MemCache.inv_run cfg ops init MemCache.inv_init
  refine ⟨h, ?_⟩
  have := hi.count
  omega

/-- the hypotheses of `mem_count_le_max` are met by a non-trivial history: capacity 2, three
distinct keys, the LRU victim computed by `detVictims`. -/
example :
    let cfg : Config := { maxEntries := 2, maxBytes := none, policy := .lru, defaultShort := false }
    runOk cfg init [.put 1 [1] [], .put 2 [2] [], .get 1, .put 3 [3] [2], .get 2, .get 1] = true ∧
    detVictims .lru (run cfg init [.put 1 [1] [], .put 2 [2] [], .get 1]).store 1 = [2] := by decide

/-- the Ttl policy is not count-driven (the property excludes it): it evicts only expired
entries, so live entries can exceed `max_entries`. Recorded as a fact about the model, not a
violation. -/
theorem mem_count_unbounded_under_ttl_policy :
    let cfg : Config := { maxEntries := 1, maxBytes := none, policy := .ttl, defaultShort := false }
    (run cfg init [.put 1 [1] [], .put 2 [2] [], .put 3 [3] []]).count = 3 := by decide

/-- full-strength statement "cached bytes ≤ max_memory_bytes after every operation" is FALSE of
the pinned tree (finding `mem-bytes-bound`): eviction is triggered by the byte limit but sized
by the entry limit (`perform_eviction` returns early while `count ≤ 90 % of max_entries`), and
it runs before the insert, so a single value above the limit is stored too.
Scaled-down form of the design-time witness (max_entries 1000 / 1000 bytes / 100-byte puts,
corpus/C10/bytes-budget.case). -/
theorem mem_bytes_bound_counterexample :
    let cfg : Config := { maxEntries := 10, maxBytes := some 10, policy := .lru, defaultShort := false }
    let v : Val := [0, 1, 2, 3, 4, 5, 6, 7, 8, 9]
    runOk cfg init [.put 1 v [], .put 2 v [], .put 3 v []] = true ∧
    (run cfg init [.put 1 v [], .put 2 v [], .put 3 v []]).bytes = 30 ∧
    (run { cfg with maxBytes := some 1 } init [.put 1 v []]).bytes = 10 := by decide

/-- … what the code does guarantee about bytes (`_partial`): for the count-driven policies the
cached bytes never exceed `max_entries ×` the largest value ever put — the byte limit itself
plays no part in the bound. -/
theorem mem_bytes_le_entries_times_largest_partial (cfg : Config) (hmax : 1 ≤ cfg.maxEntries)
    (hp : cfg.policy ≠ .ttl) (ops : List Op) (hok : runOk cfg init ops = true) (B : Nat)
    (hB : ∀ op ∈ ops, MemCache.opValLe B op) :
    (run cfg init ops).bytes ≤ ((cfg.maxEntries * B : Nat) : Int) := by
  have hi := MemCache.inv_run cfg ops init MemCache.inv_init
  have hc := MemCache.count_run cfg hmax hp ops init MemCache.inv_init (by show (0 : Int) ≤ _; omega) hok
  have hall := MemCache.allLe_run (B := B) cfg ops init (fun p hp => by cases hp) hB
  have hs := MemCache.sumSize_le hall
  rw [hi.bytes]
  have hlen : (run cfg init ops).store.length ≤ cfg.maxEntries := by
    have := hi.count; omega
  have := Nat.mul_le_mul_right B hlen
  omega

/-! ### extension: the victims the model computes, the cleanup task, hit / miss figures -/

section MemExt
open Cascette.Model.CacheExt Cascette.Model.CacheExt.Mem

/-- **the victim choice the model computes itself is one the policy allows** — in general, not on
an example: after ANY history, for every policy (Lru, Lfu, Fifo, Random; ties included), the
list `detVictims` yields for the pending put passes `victimsOk`, so `opOk` holds and the put is a
step `mem_count_le_max` speaks about.  (`Driver/C10` runs exactly `autoVictims` for `ev=auto`.) -/
theorem mem_auto_victims_allowed (cfg : Config) (ops : List Op) (k : Key) (v : Val) (short : Bool) :
    let s := run cfg init ops
    victimsOk cfg.policy (tick s).store (evictN cfg (tick s)) (autoVictims cfg s) = true ∧
    opOk cfg s (.putTtl k v short (autoVictims cfg s)) = true ∧
    opOk cfg s (.put k v (autoVictims cfg s)) = true := by
  have hi := MemCache.inv_run cfg ops init MemCache.inv_init
  have hv := CacheExt.detVictims_ok cfg.policy (tick (run cfg init ops)).store (evictN cfg (tick (run cfg init ops)))
    (MemCache.inv_tick hi).nodup
  refine ⟨hv, ?_, ?_⟩
  · show (!evicts cfg (tick (run cfg init ops)) || victimsOk _ _ _ (autoVictims cfg (run cfg init ops))) = true
    unfold autoVictims; rw [hv]; simp
  · show (!evicts cfg (tick (run cfg init ops)) || victimsOk _ _ _ (autoVictims cfg (run cfg init ops))) = true
    unfold autoVictims; rw [hv]; simp

/-- **entry bound for what the driver computes** — no hypothesis on victim lists left: for every
history of caller-level operations (puts carry no victim list; the model fills in `detVictims`;
ticks of the cleanup task anywhere), every count-driven policy and `max_entries ≥ 1`, the number
of entries is within the maximum after every operation. -/
theorem mem_count_le_max_auto (cfg : Config) (hmax : 1 ≤ cfg.maxEntries) (hp : cfg.policy ≠ .ttl)
    (ops : List AOp) :
    (arun cfg xinit ops).s.count ≤ (cfg.maxEntries : Int) ∧
    (arun cfg xinit ops).s.store.length ≤ cfg.maxEntries ∧
    xrunOk cfg xinit (elabRun cfg xinit ops) = true := by
  have hok := CacheExt.elabRun_ok cfg ops xinit MemCache.inv_init
  have hc := CacheExt.count_xrun cfg hmax hp (elabRun cfg xinit ops) xinit MemCache.inv_init
    (by show (0 : Int) ≤ _; omega) hok
  have hi := CacheExt.inv_xrun cfg (elabRun cfg xinit ops) xinit MemCache.inv_init
  rw [← CacheExt.arun_eq_xrun] at hc hi
  refine ⟨hc, ?_, hok⟩
  have := hi.count
  omega

/-- `mem_count_le_max` with ticks of the cleanup task anywhere in the history (any allowed victim
lists) -/
theorem memx_count_le_max (cfg : Config) (hmax : 1 ≤ cfg.maxEntries) (hp : cfg.policy ≠ .ttl)
    (ops : List XOp) (hok : xrunOk cfg xinit ops = true) :
    (xrun cfg xinit ops).s.count ≤ (cfg.maxEntries : Int) ∧ (xrun cfg xinit ops).s.store.length ≤ cfg.maxEntries := by
  have hc := CacheExt.count_xrun cfg hmax hp ops xinit MemCache.inv_init (by show (0 : Int) ≤ _; omega) hok
  have hi := CacheExt.inv_xrun cfg ops xinit MemCache.inv_init
  refine ⟨hc, ?_⟩
  have := hi.count
  omega

/-- the hypothesis of `memx_count_le_max` is met by a history with an eviction and cleanup ticks -/
example :
    let cfg : Config := { maxEntries := 2, maxBytes := none, policy := .fifo, defaultShort := false }
    xrunOk cfg xinit [.base (.put 1 [1] []), .base (.putTtl 2 [2] true []), .cleanup, .base (.put 3 [3] []),
      .base (.put 4 [4] [1]), .cleanup] = true := by decide

/-- **get returns the latest value or nothing — with the cleanup task running**: as
`mem_get_latest_or_none`, for histories with ticks of the background cleanup task anywhere. -/
theorem memx_get_latest_or_none (cfg : Config) (ops : List XOp) (k : Key) :
    (xstep cfg (xrun cfg xinit ops) (.base (.get k))).2 = .base (.val none) ∨
    (xstep cfg (xrun cfg xinit ops) (.base (.get k))).2 =
      .base (.val (CacheMap.run CacheMap.empty (ops.map (absXOp cfg)) k)) := by
  have href := MemCache.ref_tick (CacheExt.ref_xrun cfg ops xinit CacheMap.empty MemCache.ref_init)
  show XOut.base (Out.val (Model.MemCache.get (tick (xrun cfg xinit ops).s) k).2) = _ ∨
    XOut.base (Out.val (Model.MemCache.get (tick (xrun cfg xinit ops).s) k).2) = _
  rw [MemCache.get_out]
  cases hl : lookup k (tick (xrun cfg xinit ops).s).store with
  | none => left; rfl
  | some e =>
    dsimp only
    by_cases hs : e.short = true
    · left; simp [hs]
    · right
      have := href k e hl (by simpa using hs)
      simp [hs, this]

/-- **counters and hit / miss figures, with the cleanup task running**: after any history the two
counters are exact, `hit_count ≤ get_count` (so `miss_count = get_count - hit_count` never
wraps), and `stats()` reports exactly these five numbers. -/
theorem memx_stats_exact (cfg : Config) (ops : List XOp) :
    let x := xrun cfg xinit ops
    x.s.count = (x.s.store.length : Int) ∧ x.s.bytes = (sumSize x.s.store : Int) ∧
    x.m.hits ≤ x.m.gets ∧ 0 ≤ x.m.misses ∧
    (xstep cfg x (.base .stats)).2 =
      .stats x.s.store.length (sumSize x.s.store) x.m.gets x.m.hits ((x.m.gets - x.m.hits : Nat) : Int) := by
  have h := CacheExt.inv_xrun cfg ops xinit MemCache.inv_init
  have hm := CacheExt.metrics_xrun cfg ops xinit (Nat.le_refl 0)
  refine ⟨h.count, h.bytes, hm, ?_, ?_⟩
  · unfold Metrics.misses; omega
  · show XOut.stats (xrun cfg xinit ops).s.count (xrun cfg xinit ops).s.bytes _ _ (Metrics.misses _) = _
    rw [h.count, h.bytes]
    unfold Metrics.misses
    congr 1
    omega

/-- a `get` is recorded as a hit exactly when it returns a value, as a miss otherwise; `clear`
zeroes the figures; nothing else changes them -/
theorem memx_metrics_step (cfg : Config) (x : XState) (op : XOp) :
    (xstep cfg x op).1.m =
      match op with
      | .base (.get _) =>
        (match (xstep cfg x op).2 with
         | .base (.val (some _)) => { gets := x.m.gets + 1, hits := x.m.hits + 1 }
         | _ => { gets := x.m.gets + 1, hits := x.m.hits })
      | .base .clear => { gets := 0, hits := 0 }
      | _ => x.m := by
  cases op with
  | cleanup => rfl
  | base op =>
    cases op with
    | get k =>
      show x.m.record (Model.MemCache.get (tick x.s) k).2.isSome = _
      show _ = match XOut.base (Out.val (Model.MemCache.get (tick x.s) k).2) with
        | .base (.val (some _)) => _ | _ => _
      cases (Model.MemCache.get (tick x.s) k).2 <;> rfl
    | clear => rfl
    | put k v vs => rfl
    | putTtl k v short vs => rfl
    | contains k => rfl
    | remove k => rfl
    | size => rfl
    | stats => rfl

/-- **the background cleanup task (`new_with_cleanup`, after the fix)**: after any history, a
tick of the task leaves no ended-TTL entry behind, keeps both counters exact, so that `size()` and
`stats()` equal what is retrievable — the full-strength "reported figures = retrievable" clause
holds at every such point — and it changes no answer of any `get`. -/
theorem mem_cleanup_size_eq_retrievable (cfg : Config) (ops : List XOp) (k : Key) :
    let x := xrun cfg xinit ops
    let x' := (xstep cfg x .cleanup).1
    unswept x'.s.store = [] ∧
    (xstep cfg x' (.base .size)).2 = .base (.num (retrievable x'.s.store).length) ∧
    x'.s.bytes = (sumSize (retrievable x'.s.store) : Int) ∧
    (retrievable x'.s.store).length = (retrievable x.s.store).length ∧
    (xstep cfg x' (.base (.get k))).2 = (xstep cfg x (.base (.get k))).2 := by
  have hi := CacheExt.inv_xrun cfg ops xinit MemCache.inv_init
  have hi' := CacheExt.inv_cleanupTick hi
  have hu := CacheExt.cleanupTick_unswept hi
  have hall : retrievable (cleanupTick (xrun cfg xinit ops).s).store = (cleanupTick (xrun cfg xinit ops).s).store := by
    unfold unswept at hu
    unfold retrievable
    rw [List.filter_eq_self]
    intro p hp
    have := (List.filter_eq_nil_iff.mp hu) p hp
    simpa using this
  refine ⟨hu, ?_, ?_, ?_, ?_⟩
  · show XOut.base (Out.num (cleanupTick (xrun cfg xinit ops).s).count) =
      XOut.base (Out.num ((retrievable (cleanupTick (xrun cfg xinit ops).s).store).length : Int))
    rw [hall, hi'.count]
  · show (cleanupTick (xrun cfg xinit ops).s).bytes =
      (sumSize (retrievable (cleanupTick (xrun cfg xinit ops).s).store) : Int)
    rw [hall, hi'.bytes]
  · show (retrievable (cleanupTick (xrun cfg xinit ops).s).store).length = _
    exact CacheExt.cleanupTick_retrievable_length hi
  · show XOut.base (Out.val (Model.MemCache.get (tick (cleanupTick (xrun cfg xinit ops).s)) k).2) =
      XOut.base (Out.val (Model.MemCache.get (tick (xrun cfg xinit ops).s) k).2)
    have := CacheExt.cleanupTick_get hi k
    rw [MemCache.get_out] at this ⊢
    rw [MemCache.get_out] at this ⊢
    exact congrArg (fun o => XOut.base (Out.val o)) this

/-- **put_with_ttl over an entry whose TTL has ended** (or any other entry, or none): whatever
is stored under the key, directly after the put the key holds exactly the new value with the new
TTL class — one entry, counted once, its bytes replacing the old ones — and a `get` answers the
new value (long TTL) or nothing (ended TTL). -/
theorem mem_put_replaces (cfg : Config) (s : State) (hi : MemCache.Inv s) (k : Key) (v : Val)
    (short : Bool) (vs : List Key) :
    let s1 := preEvict cfg s vs
    let s' := putCore cfg s k v short vs
    lookup k s'.store = some (newEntry s1 v short) ∧
    s'.count = (s'.store.length : Int) ∧ s'.bytes = (sumSize s'.store : Int) ∧
    s'.count = s1.count + (if (lookup k s1.store).isSome then 0 else 1) ∧
    (step cfg s' (.get k)).2 = .val (if short then none else some v) := by
  have hi1 := MemCache.inv_preEvict cfg vs hi
  have hi' := MemCache.inv_putCore cfg k v short vs hi
  have hst : (putCore cfg s k v short vs).store = (k, newEntry (preEvict cfg s vs) v short) :: erase k (preEvict cfg s vs).store :=
    MemCache.insertCounted_store _ _ _
  have hl : lookup k (putCore cfg s k v short vs).store = some (newEntry (preEvict cfg s vs) v short) := by
    rw [hst, CacheAssoc.lookup_cons_self]
  refine ⟨hl, hi'.count, hi'.bytes, ?_, ?_⟩
  · show (insertCounted (preEvict cfg s vs) k _).count = _
    unfold insertCounted
    cases hlk : lookup k (preEvict cfg s vs).store with
    | some old => simp
    | none => simp
  · show Out.val (Model.MemCache.get (tick (putCore cfg s k v short vs)) k).2 = _
    rw [MemCache.get_out]
    show Out.val (match lookup k (putCore cfg s k v short vs).store with
      | some e => if e.short then none else some e.val
      | none => none) = _
    rw [hl]
    cases short <;> rfl

/-- **Lru / Fifo leave no choice** — why the model may PREDICT these victims instead of taking
them from the implementation: in every reachable state (any history, cleanup ticks included) the
`last` stamps and the `created` stamps of the stored entries are pairwise distinct (one clock
tick per operation, one stamp written per operation — the harness makes the real clocks advance
between operations), so every victim list the policy allows names exactly the keys the model
computes, and the put leads to the same state and answer whichever allowed list (whichever
DashMap iteration order) the implementation used. -/
theorem mem_lru_fifo_victims_determined (cfg : Config) (hp : cfg.policy = .lru ∨ cfg.policy = .fifo)
    (ops : List XOp) (k : Key) (v : Val) (short : Bool) (vs : List Key) :
    let s := (xrun cfg xinit ops).s
    victimsOk cfg.policy (tick s).store (evictN cfg (tick s)) vs = true →
    (∀ key, key ∈ vs ↔ key ∈ autoVictims cfg s) ∧
    step cfg s (.putTtl k v short vs) = step cfg s (.putTtl k v short (autoVictims cfg s)) ∧
    step cfg s (.put k v vs) = step cfg s (.put k v (autoVictims cfg s)) := by
  intro s hvs
  have hi : MemCache.Inv (tick s) := MemCache.inv_tick (CacheExt.inv_xrun cfg ops xinit MemCache.inv_init)
  have hst := CacheExt.stamped_tick (CacheExt.stamped_xrun cfg ops xinit CacheExt.stamped_init)
  have hinj : ∀ a ∈ (tick s).store, ∀ b ∈ (tick s).store,
      metric cfg.policy a.2 = metric cfg.policy b.2 → a.1 = b.1 := by
    intro a ha b hb heq
    rcases hp with h | h
    · rw [h] at heq; exact ((hst a ha).2 b hb).1 heq
    · rw [h] at heq; exact ((hst a ha).2 b hb).2 heq
  have hauto : victimsOk cfg.policy (tick s).store (evictN cfg (tick s)) (autoVictims cfg s) = true :=
    CacheExt.detVictims_ok _ _ _ hi.nodup
  have hiff : ∀ key, key ∈ vs ↔ key ∈ autoVictims cfg s := fun key =>
    ⟨CacheExt.victims_determined hinj hvs hauto key, CacheExt.victims_determined hinj hauto hvs key⟩
  have hE := CacheExt.evictKeys_congr hi hiff
  have hpre : preEvict cfg (tick s) vs = preEvict cfg (tick s) (autoVictims cfg s) := by
    unfold preEvict performEviction
    simp only [hE]
  refine ⟨hiff, ?_, ?_⟩
  · show (putCore cfg (tick s) k v short vs, Out.unit) = (putCore cfg (tick s) k v short (autoVictims cfg s), Out.unit)
    unfold putCore; rw [hpre]
  · show (putCore cfg (tick s) k v cfg.defaultShort vs, Out.unit) = (putCore cfg (tick s) k v cfg.defaultShort (autoVictims cfg s), Out.unit)
    unfold putCore; rw [hpre]

/-- the hypothesis is met with a list in another order than the model's own (two victims) -/
example :
    let cfg : Config := { maxEntries := 20, maxBytes := none, policy := .lru, defaultShort := false }
    let ops : List XOp := (List.range 20).map (fun i => XOp.base (.put i [i] [])) ++ [.base (.get 0)]
    let s := (xrun cfg xinit ops).s
    autoVictims cfg s = [1, 2] ∧ victimsOk cfg.policy (tick s).store (evictN cfg (tick s)) [2, 1] = true := by decide +kernel

end MemExt

end Mem

/-! ## On-disk cache -/

section Disk
open Cascette.Model.DiskCache

/-- **counters and index are exact, for every history including drop-and-recreate**: keys are
indexed once, `entry_count = |index|`, `disk_usage = Σ size`, every indexed key has its file, and
`get` never takes its `Err` branch. -/
theorem disk_counters_exact (cfg : Config) (ops : List Op) (k : Key) :
    let s := run cfg init ops
    s.count = (s.index.length : Int) ∧ s.bytes = (sumBy DEntry.size s.index : Int) ∧
    (step cfg s .stats).2 = .stats s.index.length (sumBy DEntry.size s.index) ∧
    (step cfg s (.get k)).2 ≠ .got .ioErr := by
  have h := DiskCache.dinv_run cfg ops init DiskCache.dinv_init
  refine ⟨h.count, h.bytes, ?_, ?_⟩
  · show Out.stats (run cfg init ops).count (run cfg init ops).bytes = _; rw [h.count, h.bytes]
  · show Out.got (Model.DiskCache.get (run cfg init ops) k).2 ≠ _
    intro hc
    exact DiskCache.get_no_err k h (by injection hc)

/-- **never another key's value, never a replaced value — across any number of instances.**
Whatever the history (including `reopen`), a value served for `k` is the value of the most
recent put for `k`. -/
theorem disk_get_latest_put_any_instance (cfg : Config) (ops : List Op) (k : Key) (v : Val)
    (h : (step cfg (run cfg init ops) (.get k)).2 = .got (.hit v)) :
    CacheMap.runLastPut CacheMap.empty (ops.map (absOp cfg)) k = some v := by
  have hl := DiskCache.last_run cfg ops init CacheMap.empty (fun _ _ hl => by cases hl)
  have hg : (Model.DiskCache.get (run cfg init ops) k).2 = .hit v := by injection h
  exact hl k v (DiskCache.get_hit_file hg)

/-- full-strength statement "get returns the reference value or nothing" is FALSE across
instances (finding `disk-ttl-across-instances`): expiry times live only in the in-memory index,
so an entry whose TTL has ended is served by the next instance on the same directory
(corpus/C10/disk-ttl-reopen.case). -/
theorem disk_ttl_across_instances_counterexample :
    let cfg : Config := { defaultShort := false }
    let ops : List Op := [.putTtl 1 [7] true, .reopen]
    (step cfg (run cfg init ops) (.get 1)).2 = .got (.hit [7]) ∧
    CacheMap.run CacheMap.empty (ops.map (absOp cfg)) 1 = none := by decide

/-- **get returns the latest value or nothing** — for every history in which each `reopen`
happens while no ended-TTL entry is still indexed (`runSafe`); in particular (next theorem) for
every history on one instance, and — with the `fix:` to `remove` — also for removes issued by a
later instance.  Never a removed, replaced, expired or foreign value. -/
theorem disk_get_latest_or_none_partial (cfg : Config) (ops : List Op) (k : Key)
    (hsafe : DiskCache.runSafe cfg init ops = true) :
    (step cfg (run cfg init ops) (.get k)).2 = .got .miss ∨
    (∃ v, (step cfg (run cfg init ops) (.get k)).2 = .got (.hit v) ∧
          CacheMap.run CacheMap.empty (ops.map (absOp cfg)) k = some v) := by
  have href := DiskCache.refd_run cfg ops init CacheMap.empty DiskCache.refd_init hsafe
  have hinv := DiskCache.dinv_run cfg ops init DiskCache.dinv_init
  show Out.got (Model.DiskCache.get (run cfg init ops) k).2 = _ ∨
    ∃ v, Out.got (Model.DiskCache.get (run cfg init ops) k).2 = _ ∧ _
  cases hg : (Model.DiskCache.get (run cfg init ops) k).2 with
  | miss => left; rfl
  | hit v => right; exact ⟨v, rfl, DiskCache.refd_get_out k href hg⟩
  | ioErr => exact absurd hg (DiskCache.get_no_err k hinv)

/-- one instance (no `reopen` in the history) meets the side condition -/
theorem disk_get_latest_or_none_one_instance (cfg : Config) (ops : List Op) (k : Key)
    (h : ∀ op ∈ ops, isReopen op = false) :
    (step cfg (run cfg init ops) (.get k)).2 = .got .miss ∨
    (∃ v, (step cfg (run cfg init ops) (.get k)).2 = .got (.hit v) ∧
          CacheMap.run CacheMap.empty (ops.map (absOp cfg)) k = some v) :=
  disk_get_latest_or_none_partial cfg ops k (DiskCache.runSafe_of_no_reopen cfg ops init h)

/-- the side condition is met by a non-trivial history with two re-creations, an expiry swept
before the first and a remove issued by the second instance. -/
example :
    let cfg : Config := { defaultShort := false }
    let ops : List Op := [.put 1 [1], .putTtl 2 [2] true, .get 2, .reopen, .get 1, .put 3 [3], .reopen, .remove 1]
    DiskCache.runSafe cfg init ops = true ∧
    (step cfg (run cfg init ops) (.get 1)).2 = .got .miss ∧
    (step cfg (run cfg init ops) (.get 3)).2 = .got (.hit [3]) := by decide

/-- **a value stays retrievable by a new instance until its TTL ends.**  After a put with a
long TTL from any state, any further operations that do not write, remove or clear that key —
any number of drop-and-recreate among them — leave it served with exactly that value. -/
theorem disk_survives_reopen (cfg : Config) (s : State) (k : Key) (v : Val) (ops : List Op)
    (h : ∀ op ∈ ops, touches k op = false) :
    (step cfg (run cfg (putCore s k v false) ops) (.get k)).2 = .got (.hit v) := by
  have := DiskCache.kept_run cfg ops _ (DiskCache.kept_putCore s k v) h
  show Out.got (Model.DiskCache.get _ k).2 = _
  rw [DiskCache.kept_get_out this]

/-- **… and is not served after that** — on the instance that wrote it: directly after a put
whose TTL has ended the key is a miss (and the file is gone). Across instances this is the
finding above. -/
theorem disk_not_served_after_ttl_partial (cfg : Config) (s : State) (k : Key) (v : Val) :
    (step cfg (putCore s k v true) (.get k)).2 = .got .miss ∧
    lookup k (step cfg (putCore s k v true) (.get k)).1.files = none := by
  have hindex : (putCore s k v true).index = (k, { size := v.length, short := true }) :: erase k s.index := by
    unfold putCore; split <;> rfl
  have hl : lookup k (putCore s k v true).index = some { size := v.length, short := true } := by
    rw [hindex, CacheAssoc.lookup_cons_self]
  show Out.got (Model.DiskCache.get _ k).2 = _ ∧ lookup k (Model.DiskCache.get _ k).1.files = none
  unfold Model.DiskCache.get
  rw [hl]
  dsimp only
  refine ⟨rfl, ?_⟩
  show lookup k (erase k (putCore s k v true).files) = none
  exact CacheAssoc.lookup_erase_self _ _

/-- full-strength statement "size() = what is retrievable" is FALSE after re-creation (finding
`disk-size-partial-index`): `size()` scans the directory only while `entry_count = 0`, so once
one key has been read back the instance reports 1 while two values are retrievable
(corpus/C10/disk-size-reopen.case). -/
theorem disk_size_partial_index_counterexample :
    let cfg : Config := { defaultShort := false }
    let s := run cfg init [.put 1 [1], .put 2 [2, 2], .reopen, .get 1]
    (step cfg s .size).2 = .num 1 ∧ (step cfg s .stats).2 = .stats 1 1 ∧
    (step cfg s (.get 1)).2 = .got (.hit [1]) ∧ (step cfg s (.get 2)).2 = .got (.hit [2, 2]) := by decide

/-- **reported size on one instance.**  Without drop-and-recreate the directory and the index
hold the same keys, so `size()` (whichever branch it takes) is the number of files = the number
of indexed entries = unexpired (retrievable) entries + ended-TTL entries not yet swept by a
`get`. -/
theorem disk_size_one_instance_partial (cfg : Config) (ops : List Op)
    (h : ∀ op ∈ ops, isReopen op = false) :
    let s := run cfg init ops
    (step cfg s .size).2 = .num s.files.length ∧ s.files.length = s.index.length ∧
    s.index.length = (s.index.filter (fun p => !p.2.short)).length + (s.index.filter (fun p => p.2.short)).length := by
  have hk := DiskCache.keysEq_run cfg ops init rfl h
  have hi := DiskCache.dinv_run cfg ops init DiskCache.dinv_init
  have hlen : (run cfg init ops).files.length = (run cfg init ops).index.length := by
    have := congrArg List.length hk
    simpa using this
  refine ⟨?_, hlen, ?_⟩
  · show Out.num (size (run cfg init ops)) = _
    unfold size
    split
    · rfl
    · rw [hi.count, hlen]
  · generalize (run cfg init ops).index = st
    induction st with
    | nil => rfl
    | cons p t ih =>
      simp only [List.filter_cons, List.length_cons]
      cases p.2.short <;> simp <;> omega

/-! ### extension: an ended TTL stays ended on the instance; hit / miss figures -/

section DiskExt
open Cascette.Model.CacheExt Cascette.Proofs.CacheExtDisk

/-- **… and is not served after that — at any later time on the instance that wrote it.**
After a put whose TTL has ended, from any state: ANY further operations by the same instance —
gets, contains, removes, clears, size / stats, puts on other keys — that do not store the key
again leave it a miss (and once a `get` has looked, the file is gone).  Strengthens
`disk_not_served_after_ttl_partial` (the case `ops = []`).  A re-created instance is the finding
`disk-ttl-across-instances`. -/
theorem disk_not_served_after_ttl (cfg : Config) (s : State) (k : Key) (v : Val) (ops : List Op)
    (h : ∀ op ∈ ops, revives k op = false) :
    (step cfg (run cfg (putCore s k v true) ops) (.get k)).2 = .got .miss ∧
    lookup k (step cfg (run cfg (putCore s k v true) ops) (.get k)).1.files = none ∧
    (step cfg (run cfg (putCore s k v true) ops) (.contains k)).2 = .bool false := by
  have hd := dead_run cfg ops _ (dead_putCore s k v) h
  have hg := dead_get_out hd
  refine ⟨?_, hg.2, ?_⟩
  · show Out.got (Model.DiskCache.get _ k).2 = _
    rw [hg.1]
  · show Out.bool (contains (run cfg (putCore s k v true) ops) k) = _
    unfold contains
    rcases hd with ⟨e, he, hs⟩ | ⟨hi, _⟩
    · rw [he]; simp [hs]
    · rw [hi]

/-- the hypothesis is met by a non-trivial history: other keys written, read and removed, the
key itself probed and removed, a clear -/
example :
    (∀ op ∈ ([.put 2 [2], .get 2, .contains 1, .putTtl 3 [3] true, .remove 2, .get 1, .remove 1, .size, .clear,
        .put 4 [4]] : List Op), revives 1 op = false) ∧
    revives 1 (.put 1 [9]) = true ∧ revives 1 .reopen = true := by decide

/-- the old statement is the instance `ops = []` -/
theorem disk_not_served_after_ttl_nil (cfg : Config) (s : State) (k : Key) (v : Val) :
    (step cfg (putCore s k v true) (.get k)).2 = .got .miss :=
  (disk_not_served_after_ttl cfg s k v [] (fun _ h => by cases h)).1

/-- **hit / miss figures and counters of the disk cache, with the cleanup task running**: for
every history (re-creations and ticks of the background cleanup task included) the counters equal
the index, `hit_count ≤ get_count`, and `stats()` reports the exact counters and these figures. -/
theorem diskx_stats_exact (cfg : Config) (ops : List Disk.XOp) :
    let x := Disk.xrun cfg Disk.xinit ops
    x.s.count = (x.s.index.length : Int) ∧ x.s.bytes = (sumBy DEntry.size x.s.index : Int) ∧
    x.m.hits ≤ x.m.gets ∧ 0 ≤ x.m.misses ∧
    (Disk.xstep cfg x (.base .stats)).2 =
      .stats x.s.index.length (sumBy DEntry.size x.s.index) x.m.gets x.m.hits ((x.m.gets - x.m.hits : Nat) : Int) := by
  have hm := dmetrics_xrun cfg ops Disk.xinit (Nat.le_refl 0)
  have hi := dinv_xrun cfg ops Disk.xinit DiskCache.dinv_init
  refine ⟨hi.count, hi.bytes, hm, ?_, ?_⟩
  · unfold Metrics.misses; omega
  · show Disk.XOut.stats (Disk.xrun cfg Disk.xinit ops).s.count (Disk.xrun cfg Disk.xinit ops).s.bytes _ _ (Metrics.misses _) = _
    rw [hi.count, hi.bytes]
    unfold Metrics.misses
    congr 1
    omega

/-- **the background cleanup task of the disk cache (`new_with_background_tasks`, after the
fix)**: after any history a tick of the task leaves the counters equal to the index and no
indexed entry with an ended TTL, so `stats()` reports exactly the unexpired indexed entries. -/
theorem disk_cleanup_exact (cfg : Config) (ops : List Disk.XOp) :
    let x' := (Disk.xstep cfg (Disk.xrun cfg Disk.xinit ops) .cleanup).1
    x'.s.count = (x'.s.index.length : Int) ∧ x'.s.bytes = (sumBy DEntry.size x'.s.index : Int) ∧
    (∀ k e, lookup k x'.s.index = some e → e.short = false) ∧
    x'.s.index.filter (fun p => p.2.short) = [] := by
  have hi := dinv_xrun cfg ops Disk.xinit DiskCache.dinv_init
  have hi' := dinv_cleanupTick hi
  have hn := cleanupTick_noShort hi
  refine ⟨hi'.count, hi'.bytes, ?_, ?_⟩
  · intro k e hl
    have := DiskCache.noShort_lookup hn hl
    simpa using this
  · rw [List.filter_eq_nil_iff]
    intro p hp
    unfold DiskCache.noShort at hn
    rw [List.all_eq_true] at hn
    have := hn p hp
    simpa using this

/-- `disk_not_served_after_ttl`, `disk_survives_reopen` and `disk_get_latest_put_any_instance`
with ticks of the cleanup task anywhere in the history: an ended-TTL put stays a miss on its
instance, a long-TTL put stays served (through re-creations too), and whatever is served is the
latest put for that exact key. -/
theorem diskx_ttl_and_survival (cfg : Config) (x : Disk.XState) (k : Key) (v : Val) (ops : List Disk.XOp) :
    ((∀ op ∈ ops, xrevives k op = false) →
      (Disk.xstep cfg (Disk.xrun cfg { x with s := putCore x.s k v true } ops) (.base (.get k))).2 = .base (.got .miss)) ∧
    ((∀ op ∈ ops, xtouches k op = false) →
      (Disk.xstep cfg (Disk.xrun cfg { x with s := putCore x.s k v false } ops) (.base (.get k))).2 = .base (.got (.hit v))) := by
  constructor
  · intro h
    have hd := dead_xrun cfg ops { x with s := putCore x.s k v true } (dead_putCore x.s k v) h
    show Disk.XOut.base (Out.got (Model.DiskCache.get _ k).2) = _
    rw [(dead_get_out hd).1]
  · intro h
    have hk := kept_xrun cfg ops { x with s := putCore x.s k v false } (DiskCache.kept_putCore x.s k v) h
    show Disk.XOut.base (Out.got (Model.DiskCache.get _ k).2) = _
    rw [DiskCache.kept_get_out hk]

theorem diskx_get_latest_put_any_instance (cfg : Config) (ops : List Disk.XOp) (k : Key) (v : Val)
    (h : (Disk.xstep cfg (Disk.xrun cfg Disk.xinit ops) (.base (.get k))).2 = .base (.got (.hit v))) :
    CacheMap.runLastPut CacheMap.empty (ops.map (Disk.absXOp cfg)) k = some v := by
  have hl := last_xrun cfg ops Disk.xinit CacheMap.empty (fun _ _ hl => by cases hl)
  have hg : (Model.DiskCache.get (Disk.xrun cfg Disk.xinit ops).s k).2 = .hit v := by
    have h' : Disk.XOut.base (Out.got (Model.DiskCache.get (Disk.xrun cfg Disk.xinit ops).s k).2) = .base (.got (.hit v)) := h
    injection h' with h'
    injection h'
  exact hl k v (DiskCache.get_hit_file hg)

/-- is the operation a put the file system refused? -/
def isRefused : Disk.XOp → Bool
  | .putRefused _ _ => true
  | _ => false

/-- **"the most recent SUCCESSFUL put": a put the file system refuses (key text longer than a file
name may be) is no put at all.**  For every history, deleting the refused puts from it changes
neither the cache's state and metrics (hence no later answer, figure or counter) nor the reference
map nor the "latest put per key" map.  So every theorem above about `List Disk.XOp` histories
speaks about histories with refused puts too, and two over-long keys that agree on their first
NAME_MAX bytes cannot be confused with each other: neither is ever stored. -/
theorem diskx_refused_puts_invisible (cfg : Config) (ops : List Disk.XOp) (x : Disk.XState) (r : Ref) :
    Disk.xrun cfg x ops = Disk.xrun cfg x (ops.filter (fun o => !isRefused o)) ∧
    CacheMap.run r (ops.map (Disk.absXOp cfg)) =
      CacheMap.run r ((ops.filter (fun o => !isRefused o)).map (Disk.absXOp cfg)) ∧
    CacheMap.runLastPut r (ops.map (Disk.absXOp cfg)) =
      CacheMap.runLastPut r ((ops.filter (fun o => !isRefused o)).map (Disk.absXOp cfg)) := by
  induction ops generalizing x r with
  | nil => exact ⟨rfl, rfl, rfl⟩
  | cons op t ih =>
    cases op with
    | putRefused k v => exact ih x r
    | cleanup => exact ih (Disk.xstep cfg x .cleanup).1 _
    | base op =>
      have h := ih (Disk.xstep cfg x (.base op)).1 (CacheMap.step r (absOp cfg op))
      have h2 := ih (Disk.xstep cfg x (.base op)).1 (CacheMap.stepLastPut r (absOp cfg op))
      exact ⟨h.1, h.2.1, h2.2.2⟩

/-- a refused put answers `Err` and the next `get` of any key answers as if it had not been issued -/
theorem diskx_put_refused_get (cfg : Config) (x : Disk.XState) (k k' : Key) (v : Val) :
    (Disk.xstep cfg x (.putRefused k v)).2 = .err ∧
    Disk.xstep cfg (Disk.xstep cfg x (.putRefused k v)).1 (.base (.get k')) = Disk.xstep cfg x (.base (.get k')) :=
  ⟨rfl, rfl⟩

/-- the filter of `diskx_refused_puts_invisible` on a history that has refused puts in it -/
example :
    ([.base (.put 1 [1]), .putRefused 2 [2], .cleanup, .putRefused 3 [], .base (.get 2)] : List Disk.XOp).filter
      (fun o => !isRefused o) = [.base (.put 1 [1]), .cleanup, .base (.get 2)] := rfl

/-- the hypotheses of `diskx_ttl_and_survival` are met by a history with ticks and a re-creation -/
example :
    (∀ op ∈ ([.base (.put 2 [2]), .cleanup, .base (.get 1), .base (.remove 2), .cleanup, .base .clear] : List Disk.XOp),
        xrevives 1 op = false) ∧
    (∀ op ∈ ([.base (.putTtl 2 [2] true), .cleanup, .base .reopen, .cleanup, .base (.get 2)] : List Disk.XOp),
        xtouches 1 op = false) := by decide

end DiskExt

end Disk

end Cascette.Props.C10
