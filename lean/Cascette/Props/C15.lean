/-
Props/C15 — What the Ribbit server emits, the Ribbit client reads back as the database says.

Model = the Rust as written (Model/RibbitFmt: validate, newest-by-build_time, formatting, MIME
wrap, routing, client framing; Model/Bpsv: the client's BPSV reader). Strings are `List Char`.
The full-strength statement (`client_reads_server`, kept in the comment below) is FALSE of the
pinned tree: `validate` admits strings the reader cannot read back. It is proved under the
explicit predicates `CleanVersions` / `CleanCdn` / `CleanProducts`, with one Lean counter-witness
per excluded class (each replayed on the real code by corpus/C15/finding-*.case).

  FULL STATEMENT (false, see witness_*):
    ∀ r seqn, validate r = none →
      ∃ rows, parse (versionsText r seqn) = .ok ⟨versionsSchema, rows, some seqn⟩ ∧
              rows.map (·.raw) = versionsRegions.map (versionsFields r)
    (and likewise for cdnsText / summaryText and through wrapInMime / clientTcp)
-/
import Cascette.Proofs.RibbitRoundTrip
import Cascette.Proofs.RibbitServer
import Cascette.Proofs.RibbitE2E
import Cascette.Proofs.RibbitConn
namespace Cascette.Props.C15
open Cascette.Model.Bpsv Cascette.Model.Ribbit Cascette.Proofs.Bpsv Cascette.Proofs.Ribbit
open Cascette.Model.RibbitConn Cascette.Proofs.RibbitConn

/-! ### the explicit hypotheses -/

/-- the strings of a record that `versions`/`bgdl` emit and `validate` does not constrain:
keyring must be hex (it lands in `KeyRing!HEX:16`), build must parse as `i64` (`BuildId!DEC:4`),
version must not contain the column or line separator. -/
structure CleanVersions (r : Record) (n : Int) : Prop where
  keyring_hex : HexOk (r.keyring.getD [])
  build_i64 : parseI64 r.build = some n
  version_nobar : '|' ∉ r.version
  version_nonl : '\n' ∉ r.version

/-- the strings `cdns` emits (from `--cdn-hosts`, `--cdn-path` and the record's `cdn_path`). -/
structure CleanCdn (c : Cdn) : Prop where
  nobar : '|' ∉ c.path ∧ '|' ∉ c.hosts ∧ '|' ∉ c.servers ∧ '|' ∉ c.configPath
  nonl : '\n' ∉ c.path ∧ '\n' ∉ c.hosts ∧ '\n' ∉ c.servers ∧ '\n' ∉ c.configPath
  /-- the last column sits at the row's edge, which the reader trims -/
  no_trailing_blank : trimEnd c.configPath = c.configPath

/-- product names as `v1/summary` rows: first column, at the row's edge. -/
def CleanProduct (p : Str) : Prop :=
  ∃ c cs, p = c :: cs ∧ isWs c = false ∧ c ≠ '#' ∧ '|' ∉ p ∧ '\n' ∉ p

/-! ### what the reader must return -/

def versionsRow (r : Record) (n : Int) (reg : Str) : Row :=
  ⟨versionsFields r reg,
    [strValue reg, hexValue r.buildConfig, hexValue r.cdnConfig, hexValue (r.keyring.getD []),
     .dec n, strValue r.version, hexValue (r.productConfig.getD [])]⟩

def cdnsRow (c : Cdn) (reg : Str) : Row :=
  ⟨cdnsFields c reg, [strValue reg, strValue c.path, strValue c.hosts, strValue c.servers, strValue c.configPath]⟩

def summaryRow (seqn : Nat) (p : Str) : Row :=
  ⟨[p, natDigits seqn], [strValue p, .dec seqn]⟩

/-! ### parse ∘ format -/

/-- **client_reads_server (versions, bgdl) — `_partial`: under `CleanVersions`.**
For every record that passes `validate`, whose unconstrained strings are clean, and every
sequence number below 2^32, the reader applied to the text `BpsvResponse::versions` writes
returns exactly the seven region rows carrying the record's strings (raw) and their typed
values, and the sequence number. -/
theorem client_reads_server_versions_partial (r : Record) (n : Int) (seqn : Nat)
    (hv : validate r = none) (hc : CleanVersions r n) (hs : seqn < 2 ^ 32) :
    parse (versionsText r seqn) =
      .ok ⟨versionsSchema, versionsRegions.map (versionsRow r n), some seqn⟩ := by
  have V := validate_none r hv
  have hbc := validHash_hexOk _ V.buildConfig
  have hcc := validHash_hexOk _ V.cdnConfig
  have hpc := V.pcHex
  have hkr := hc.keyring_hex
  have hb := parseI64_chars _ _ hc.build_i64
  -- every field of a row, for a good region
  have fields_ok : ∀ reg, goodRegion reg = true →
      (∀ y ∈ versionsFields r reg, '|' ∉ y) ∧ (∀ y ∈ versionsFields r reg, '\n' ∉ y) := by
    intro reg hg
    obtain ⟨c, cs, rfl, _, _, h3, h4⟩ := goodRegion_spec reg hg
    constructor <;> intro y hy <;>
      simp only [versionsFields, List.mem_cons, List.mem_nil_iff, or_false] at hy <;>
      rcases hy with rfl | rfl | rfl | rfl | rfl | rfl | rfl
    · exact h3
    · exact hbc.nobar
    · exact hcc.nobar
    · exact hkr.nobar
    · exact hb.1
    · exact hc.version_nobar
    · exact hpc.nobar
    · exact h4
    · exact hbc.nonl
    · exact hcc.nonl
    · exact hkr.nonl
    · exact hb.2
    · exact hc.version_nonl
    · exact hpc.nonl
  have hall := List.all_eq_true.mp versionsRegions_good
  unfold versionsText versionsLines
  apply parse_document versionsHeader versionsSchema _ (versionsRow r n) versionsRegions seqn hs
    versionsHeader_bang parseSchema_versions versionsHeader_trimEnd versionsHeader_nonl
  · intro reg hreg hm
    rcases mem_joinWith _ _ _ hm with h | ⟨y, hy, hc'⟩
    · simp [bar] at h
    · exact (fields_ok reg (hall reg hreg)).2 y hy hc'
  · intro reg hreg
    obtain ⟨c, cs, rfl, _, _, _, _⟩ := goodRegion_spec reg (hall reg hreg)
    exact trimEnd_row c cs [r.buildConfig, r.cdnConfig, r.keyring.getD [], r.build, r.version]
      (r.productConfig.getD []) hpc.trimEnd_bar
  · intro reg hreg
    have hg := hall reg hreg
    obtain ⟨c, cs, rfl, h1, h2, _, _⟩ := goodRegion_spec reg hg
    refine row_good _ c cs [r.buildConfig, r.cdnConfig, r.keyring.getD [], r.build, r.version]
      (r.productConfig.getD []) (versionsRow r n (c :: cs)) h1 h2 (fields_ok _ hg).1 hpc.trimEnd_bar ?_
    simp [parseRow, versionsSchema, parseValues, parseValue_str, parseValue_hex _ hbc,
      parseValue_hex _ hcc, parseValue_hex _ hkr, parseValue_hex _ hpc,
      parseValue_dec _ _ hc.build_i64, versionsRow, versionsFields]

theorem trimEnd_cons_of (c : Char) (p : Str) (hc : isWs c = false) (hp : trimEnd p = p) :
    trimEnd (c :: p) = c :: p := by
  unfold trimEnd
  rw [hp]
  cases p with
  | nil => simp [hc]
  | cons d ds => rfl

/-- **client_reads_server (cdns) — `_partial`: under `CleanCdn`.** -/
theorem client_reads_server_cdns_partial (c : Cdn) (seqn : Nat) (hc : CleanCdn c) (hs : seqn < 2 ^ 32) :
    parse (cdnsText c seqn) = .ok ⟨cdnsSchema, cdnsRegions.map (cdnsRow c), some seqn⟩ := by
  have hall := List.all_eq_true.mp cdnsRegions_good
  have hlast : trimEnd ('|' :: c.configPath) = '|' :: c.configPath :=
    trimEnd_cons_of '|' _ (by decide) hc.no_trailing_blank
  have fields_ok : ∀ reg, goodRegion reg = true →
      (∀ y ∈ cdnsFields c reg, '|' ∉ y) ∧ (∀ y ∈ cdnsFields c reg, '\n' ∉ y) := by
    intro reg hg
    obtain ⟨d, ds, rfl, _, _, h3, h4⟩ := goodRegion_spec reg hg
    constructor <;> intro y hy <;>
      simp only [cdnsFields, List.mem_cons, List.mem_nil_iff, or_false] at hy <;>
      rcases hy with rfl | rfl | rfl | rfl | rfl
    · exact h3
    · exact hc.nobar.1
    · exact hc.nobar.2.1
    · exact hc.nobar.2.2.1
    · exact hc.nobar.2.2.2
    · exact h4
    · exact hc.nonl.1
    · exact hc.nonl.2.1
    · exact hc.nonl.2.2.1
    · exact hc.nonl.2.2.2
  unfold cdnsText cdnsLines
  apply parse_document cdnsHeader cdnsSchema _ (cdnsRow c) cdnsRegions seqn hs
    cdnsHeader_bang parseSchema_cdns cdnsHeader_trimEnd cdnsHeader_nonl
  · intro reg hreg hm
    rcases mem_joinWith _ _ _ hm with h | ⟨y, hy, hc'⟩
    · simp [bar] at h
    · exact (fields_ok reg (hall reg hreg)).2 y hy hc'
  · intro reg hreg
    obtain ⟨d, ds, rfl, _, _, _, _⟩ := goodRegion_spec reg (hall reg hreg)
    exact trimEnd_row d ds [c.path, c.hosts, c.servers] c.configPath hlast
  · intro reg hreg
    have hg := hall reg hreg
    obtain ⟨d, ds, rfl, h1, h2, _, _⟩ := goodRegion_spec reg hg
    refine row_good _ d ds [c.path, c.hosts, c.servers] c.configPath (cdnsRow c (d :: ds)) h1 h2
      (fields_ok _ hg).1 hlast ?_
    simp [parseRow, cdnsSchema, parseValues, parseValue_str, cdnsRow, cdnsFields]

theorem parseI64_natDigits (n : Nat) (h : n < 2 ^ 63) : parseI64 (natDigits n) = some (n : Int) := by
  have hu := parseUnsigned_natDigits (2 ^ 63) n h
  unfold parseI64
  split
  · rename_i d heq
    have := natDigits_all n
    rw [heq] at this
    simp [isDigit] at this
  · simp [hu]

/-- **client_reads_server (v1/summary) — `_partial`: under `CleanProduct` for every name.** -/
theorem client_reads_server_summary_partial (prods : List Str) (seqn : Nat)
    (hp : ∀ p ∈ prods, CleanProduct p) (hs : seqn < 2 ^ 32) :
    parse (summaryText prods seqn) = .ok ⟨summarySchema, prods.map (summaryRow seqn), some seqn⟩ := by
  have hd := all_digits_facts _ (natDigits_all seqn)
  have hlast : trimEnd ('|' :: natDigits seqn) = '|' :: natDigits seqn :=
    trimEnd_cons_of '|' _ (by decide) (trimEnd_natDigits seqn)
  have hshape : ∀ p : Str, p ++ bar ++ natDigits seqn = joinWith bar (p :: ([] ++ [natDigits seqn])) := by
    intro p; simp [joinWith]
  unfold summaryText summaryLines
  apply parse_document summaryHeader summarySchema _ (summaryRow seqn) prods seqn hs
    summaryHeader_bang parseSchema_summary summaryHeader_trimEnd summaryHeader_nonl
  · intro p hpm hm
    obtain ⟨c, cs, rfl, _, _, _, h4⟩ := hp p hpm
    simp only [List.mem_append, bar] at hm
    rcases hm with (h | h) | h
    · exact h4 h
    · simp at h
    · exact hd.2 h
  · intro p hpm
    obtain ⟨c, cs, rfl, _, _, _, _⟩ := hp p hpm
    rw [hshape]
    exact trimEnd_row c cs [] (natDigits seqn) hlast
  · intro p hpm
    obtain ⟨c, cs, rfl, h1, h2, h3, _⟩ := hp p hpm
    rw [hshape]
    refine row_good _ c cs [] (natDigits seqn) (summaryRow seqn (c :: cs)) h1 h2 ?_ hlast ?_
    · intro y hy
      simp only [List.nil_append, List.mem_cons, List.mem_nil_iff, or_false] at hy
      rcases hy with rfl | rfl
      · exact h3
      · exact hd.1
    · have : seqn < 2 ^ 63 := by omega
      simp [parseRow, summarySchema, parseValues, parseValue_str,
        parseValue_dec _ _ (parseI64_natDigits seqn this), summaryRow]

/-! ### newest build -/

/-- **newest_is_max_build_time.** `latest_build` returns a record of the requested product that is
in the database and whose `build_time` no other record of that product exceeds (`String::cmp`),
and it returns nothing exactly when the product has no record. -/
theorem newest_is_max_build_time (db : List Record) (p : Str) :
    (latest db p = none ∧ ∀ r ∈ db, r.product ≠ p) ∨
    ∃ m, latest db p = some m ∧ m ∈ db ∧ m.product = p ∧
      ∀ y ∈ db, y.product = p → ltStr m.buildTime y.buildTime = false := by
  unfold latest
  rcases sortDesc_head_spec (ofProduct db p) with ⟨hnil, hnone⟩ | ⟨m, h1, h2, h3⟩
  · left
    refine ⟨hnone, ?_⟩
    intro r hr hp
    have : r ∈ ofProduct db p := by simp [ofProduct, hr, hp]
    rw [hnil] at this; cases this
  · right
    have hm : m ∈ db ∧ m.product = p := by simpa [ofProduct] using h2
    exact ⟨m, h1, hm.1, hm.2, fun y hy hp => h3 y (by simp [ofProduct, hy, hp])⟩

/-- the head of the stable descending sort is computed by one left-to-right pass in which a later
record replaces the best so far only if it is *strictly* newer — so among records with the same
newest `build_time` the first one in the file wins. -/
theorem newest_first_among_equals (db : List Record) (p : Str) :
    latest db p = (ofProduct db p).foldl pick none :=
  head_sortDesc _

/-! ### V1 framing -/

/-- **v1_checksum_verifies.** For every body (also one that contains `Checksum: ` lines or
boundary text) and every hash function with 64 lower-case hex digits out, the client's
`extract_checksum` finds exactly the epilogue `wrap_in_mime` wrote, the SHA check passes, and
the document handed to the BPSV reader is whatever the MIME layer extracts from the wrapped
message. -/
theorem v1_checksum_verifies (H : Str → Str) (hH : GoodHash H) (body : Str) :
    clientV1 H (wrapInMime H body) = readMime (mimePrelude ++ body ++ mimeClose) := by
  unfold clientV1
  rw [extractChecksum_wrap H hH body]
  simp

/-- a reply altered after the checksum was computed is rejected: if the client finds a checksum
`c` over a message `msg` with `H msg ≠ c`, the result is the checksum error. -/
theorem v1_checksum_rejects (H : Str → Str) (raw msg c : Str)
    (h : extractChecksum raw = (msg, some c)) (hne : H msg ≠ c) :
    clientV1 H raw = .error .checksum := by
  unfold clientV1
  rw [h]
  simp [hne]

/-! ### malformed requests -/

/-- **handler_total / malformed_closed.** The handler is a total pure function of (database,
request): there is no state a request could corrupt, so any interleaving of clients gets the
answers each would get alone. A first line that is not UTF-8, is empty, or does not start with
`v1/` or `v2/` is never answered (the connection is closed). -/
theorem malformed_closed (H : Str → Str) (s : Server) (seqn : Nat) :
    handleConnection H s seqn none = none ∧
    handleConnection H s seqn (some []) = none ∧
    ∀ cmd, startsWith ['v','1','/'] cmd = false → startsWith ['v','2','/'] cmd = false →
      handleCommand H s seqn cmd = none := by
  refine ⟨rfl, rfl, ?_⟩
  intro cmd h1 h2
  simp [handleCommand, h1, h2]

/-- a request for a product the database does not have is never answered, on any endpoint. -/
theorem unknown_product_closed (s : Server) (seqn : Nat) (ver cmd : Str) (a b p ep : Str)
    (hsplit : splitOn '/' cmd = [a, b, p, ep]) (hp : latest s.db p = none) :
    routeProduct s seqn ver cmd = none := by
  unfold routeProduct
  rw [hsplit]
  simp only [hp]
  split <;> rfl

/-! ### counter-witnesses: one per class `validate` admits and the reader cannot read back
(kernel-evaluated on the model; each is replayed on the real code by corpus/C15/finding-*.case) -/

def wRec : Record :=
  { id := 1, product := "wow".toList, version := "1.0.0".toList, build := "32600".toList,
    buildConfig := "0123456789abcdef0123456789abcdef".toList,
    cdnConfig := "fedcba9876543210fedcba9876543210".toList,
    keyring := none, productConfig := none, buildTime := "2024-01-01T00:00:00+00:00".toList,
    encodingEkey := "aaaabbbbccccddddeeeeffffaaaaffff".toList,
    rootEkey := "bbbbccccddddeeeeffffaaaabbbbcccc".toList,
    installEkey := "ccccddddeeeeffffaaaabbbbccccdddd".toList,
    downloadEkey := "ddddeeeeffffaaaabbbbccccddddeeee".toList, cdnPath := none }

/-- rows read back = rows the database dictates? -/
def readsBack (res : Except Err Doc) (want : List (List Str)) : Bool :=
  match res with
  | .ok d => d.rows.map (·.raw) == want
  | .error _ => false

/-- the hypotheses of the `_partial` theorems are satisfiable by a non-trivial record, and the
reader then returns the rows (test of the statement on one instance, kernel-evaluated). -/
theorem clean_instance :
    validate wRec = none ∧ parseI64 wRec.build = some 32600 ∧
    readsBack (parse (versionsText wRec 1700000000)) (versionsRegions.map (versionsFields wRec)) = true := by
  decide +kernel

example : CleanVersions wRec 32600 :=
  ⟨HexOk.nil, by decide +kernel, by decide +kernel, by decide +kernel⟩

/-- '|' in `version` passes `validate`; the reader fails with a field-count mismatch. -/
theorem witness_pipe :
    validate { wRec with version := "1.0|x".toList } = none ∧
    parse (versionsText { wRec with version := "1.0|x".toList } 5) = .error .fieldCount := by
  decide +kernel

/-- a line break in `version` passes `validate`; the reader fails. -/
theorem witness_linebreak :
    validate { wRec with version := "a\nb".toList } = none ∧
    parse (versionsText { wRec with version := "a\nb".toList } 5) = .error .fieldCount := by
  decide +kernel

/-- a non-numeric `build` passes `validate`; the typed column `BuildId!DEC:4` cannot be read. -/
theorem witness_build_not_i64 :
    validate { wRec with build := "abc".toList } = none ∧
    parse (versionsText { wRec with build := "abc".toList } 5) = .error .decValue ∧
    parse (versionsText { wRec with build := "9223372036854775808".toList } 5) = .error .decValue := by
  decide +kernel

/-- `keyring` is not validated at all; `KeyRing!HEX:16` cannot be read. -/
theorem witness_keyring_not_hex :
    validate { wRec with keyring := some "zz".toList } = none ∧
    parse (versionsText { wRec with keyring := some "zz".toList } 5) = .error .hexValue ∧
    parse (versionsText { wRec with keyring := some "abc".toList } 5) = .error .hexLength := by
  decide +kernel

def wCdn : Cdn := resolve { wRec with cdnPath := some "x ".toList } (defaultCdn "cdn.test.com".toList "tpr/wow".toList)

/-- a blank at the row's edge (`cdn_path = "x "`, last column of `cdns`) is trimmed away: the
reader succeeds with other strings than the database's. -/
theorem witness_edge_blank :
    (match parse (cdnsText wCdn 5) with | .ok _ => true | .error _ => false) = true ∧
    readsBack (parse (cdnsText wCdn 5)) (cdnsRegions.map (cdnsFields wCdn)) = false := by
  decide +kernel

/-- a product whose name starts with '#' is skipped by the reader as a comment. -/
theorem witness_summary_hash :
    readsBack (parse (summaryText ["#hash".toList, "wow".toList] 5)) [["wow".toList, ['5']]] = true := by
  decide +kernel

/-- a V2 reply whose data mentions a multipart content type in its first 512 bytes is taken for
a V1 MIME message by `RibbitClient` and fails, although the BPSV reader alone reads it. -/
theorem witness_mime_lookalike :
    validate { wRec with version := "Content-Type: multipart/mixed".toList } = none ∧
    isV1Mime (versionsText { wRec with version := "Content-Type: multipart/mixed".toList } 5) = true ∧
    clientTcp (fun _ => []) (versionsText { wRec with version := "Content-Type: multipart/mixed".toList } 5)
      = .error .mime := by
  decide +kernel

/-- the MIME boundary text inside a field (no line break needed) ends the V1 text part early:
the checksum verifies, the MIME layer hands the reader a truncated document. V2/HTTP read the
same reply correctly (`readsBack … = true`). -/
theorem witness_boundary :
    validate { wRec with version := "1--RibbitBoundary".toList } = none ∧
    clientV1 (fun _ => List.replicate 64 '0')
      (wrapInMime (fun _ => List.replicate 64 '0')
        (versionsText { wRec with version := "1--RibbitBoundary".toList } 5)) = .error (.bpsv .fieldCount) ∧
    readsBack (parse (versionsText { wRec with version := "1--RibbitBoundary".toList } 5))
      (versionsRegions.map (versionsFields { wRec with version := "1--RibbitBoundary".toList })) = true := by
  decide +kernel

/-- the reader parses `## seqn` as `u32`: from 2106 on every reply is unreadable. -/
theorem witness_seqn_overflow : parse (versionsText wRec (2 ^ 32)) = .error .seqn := by
  decide +kernel


/-! ### end to end: `query (respond db req)` on all three transports -/

/-- the characters `TactClient`/`reqwest`/axum pass through unchanged (the HTTP leg is claimed —
and compared with the code — on these product names only). -/
def httpPlainChar (c : Char) : Bool :=
  isDigit c || (97 ≤ c.toNat && c.toNat ≤ 122) || (65 ≤ c.toNat && c.toNat ≤ 90) ||
    c == '_' || c == '-' || c == '.'

def HttpPlain (p : Str) : Prop :=
  p ≠ [] ∧ p.all httpPlainChar = true ∧ p ≠ ['.'] ∧ p ≠ ['.', '.']

/-- a well-formed product request: the product name is one path segment on one line; over HTTP
additionally URL-plain. -/
structure WellFormed (q : Req) : Prop where
  noslash : '/' ∉ q.product
  nonl : '\n' ∉ q.product
  http : q.t = .http → HttpPlain q.product

/-- what a reply text must avoid for the TCP framings to be transparent: over V1 the MIME
boundary text, over V2 anything that says `content-type:`. Over HTTP nothing. -/
def WireOk (t : Transport) (s : Str) : Prop :=
  (t = .v1 → NoBoundary s) ∧ (t = .v2 → NoLookalike s)

/-- **transport_transparent.** For every database, every well-formed product request on any of
the three transports and every hash: if the product has a record, the client's `query` applied to
the server's reply returns what the BPSV reader makes of the server's BPSV text — provided the
text does not contain the MIME boundary (V1) / does not look like MIME (V2). The request line
(`{endpoint}\r\n` → `read_line` → `trim`), the routing (`split('/')`, prefixes, endpoint names),
`wrap_in_mime`, the V1/V2 detection, the checksum check and the MIME body extraction are all
inside this statement. -/
theorem transport_transparent (H : Str → Str) (hH : GoodHash H) (s : Server) (seqn : Nat) (q : Req)
    (r : Record) (hq : WellFormed q) (hr : latest s.db q.product = some r)
    (hw : WireOk q.t (respondBpsv s seqn r q.ep)) :
    query H (respond H s seqn q) = liftParse (respondBpsv s seqn r q.ep) := by
  unfold respond respondTo
  cases ht : q.t with
  | http =>
    simp only [query]
    rw [handleHttp_endpoint s seqn q ht hq.noslash (hq.http ht).1, hr]
    rfl
  | v1 =>
    simp only [query]
    rw [tcpExchange_endpoint H s seqn q hq.noslash hq.nonl, hr]
    simp only [Option.map_some, Option.getD_some, wire, ht, reduceCtorEq, ↓reduceIte]
    exact clientTcp_wrap H hH _ (hw.1 ht)
  | v2 =>
    simp only [query]
    rw [tcpExchange_endpoint H s seqn q hq.noslash hq.nonl, hr]
    simp only [Option.map_some, Option.getD_some, wire, ht, ↓reduceIte]
    exact clientTcp_plain H _ (hw.2 ht)

theorem clientTcp_closed (H : Str → Str) : clientTcp H [] = .error (.bpsv .emptyDocument) := by
  unfold clientTcp
  rw [show isV1Mime [] = false by decide]
  simp only [Bool.false_eq_true, ↓reduceIte]
  decide

/-- **unknown_product_no_data.** A well-formed request for a product the database does not have:
TCP closes without a reply, HTTP says 404, and the client returns an error on every transport. -/
theorem unknown_product_no_data (H : Str → Str) (s : Server) (seqn : Nat) (q : Req)
    (hq : WellFormed q) (hr : latest s.db q.product = none) :
    respond H s seqn q = (if q.t = .http then .http none else .tcp []) ∧
    ∃ e, query H (respond H s seqn q) = .error e := by
  unfold respond respondTo
  cases ht : q.t with
  | http =>
    rw [handleHttp_endpoint s seqn q ht hq.noslash (hq.http ht).1, hr]
    exact ⟨rfl, .http404, rfl⟩
  | v1 =>
    simp only
    rw [tcpExchange_endpoint H s seqn q hq.noslash hq.nonl, hr]
    exact ⟨rfl, .bpsv .emptyDocument, clientTcp_closed H⟩
  | v2 =>
    simp only
    rw [tcpExchange_endpoint H s seqn q hq.noslash hq.nonl, hr]
    exact ⟨rfl, .bpsv .emptyDocument, clientTcp_closed H⟩

/-! #### the index is keyed by the exact product string

`from_file` files every record under `build.product` and `latest_build` looks the requested name
up as it is: two product strings that differ in anything — letter case, a blank at an end, `_`
for `-`, one character more or less, Unicode composition or width — are two products (the
validator accepts every non-empty string). The run asks for whole families of such neighbours
(`key_neighbours` in harness/src/bin/c15.rs), side by side in one database and absent from it. -/

/-- **latest_exact_key.** Whatever `latest_build` answers for `p` is a record of the database
whose product string is `p` itself — never a record of a product with a similar name. -/
theorem latest_exact_key (db : List Record) (p : Str) (r : Record) (h : latest db p = some r) :
    r ∈ db ∧ r.product = p := by
  rcases newest_is_max_build_time db p with ⟨hn, _⟩ | ⟨m, hm, hin, hp, _⟩
  · rw [hn] at h; cases h
  · rw [hm] at h; cases h; exact ⟨hin, hp⟩

/-- a name no record carries exactly has no entry, however many records carry similar names. -/
theorem absent_key_none (db : List Record) (p : Str) (h : ∀ r ∈ db, r.product ≠ p) :
    latest db p = none := by
  rcases newest_is_max_build_time db p with ⟨hn, _⟩ | ⟨m, _, hin, hp, _⟩
  · exact hn
  · exact absurd hp (h m hin)

/-- **other_products_invisible.** The answer for `p` is a function of the records filed under
exactly `p`: striking any records of other products out of the database (read backwards: adding
them — newer ones, with names that differ from `p` only in case or by a blank) changes nothing. -/
theorem other_products_invisible (db : List Record) (p : Str) (keep : Record → Bool)
    (h : ∀ r ∈ db, r.product = p → keep r = true) :
    latest (db.filter keep) p = latest db p := by
  unfold latest ofProduct
  rw [List.filter_filter]
  congr 2
  apply List.filter_congr
  intro r hr
  by_cases hp : r.product = p
  · simp [hp, h r hr hp]
  · simp [hp]

/-- **products_exact / products_nodup.** The product list (`v1/summary`, `products()`) consists of
the records' product strings as they are, each once: nothing is renamed, no two share an entry. -/
theorem products_exact (db : List Record) (q : Str) :
    q ∈ products db ↔ ∃ r ∈ db, r.product = q := by
  induction db with
  | nil => simp [products]
  | cons a as ih =>
    simp only [products, List.mem_cons, List.mem_filter, ih]
    constructor
    · rintro (h | ⟨⟨r, hr, hq⟩, _⟩)
      · exact ⟨a, Or.inl rfl, h.symm⟩
      · exact ⟨r, Or.inr hr, hq⟩
    · rintro ⟨r, (rfl | hr), hq⟩
      · exact Or.inl hq.symm
      · by_cases hqa : q = a.product
        · exact Or.inl hqa
        · exact Or.inr ⟨⟨r, hr, hq⟩, by simpa using hqa⟩

theorem products_nodup (db : List Record) : (products db).Nodup := by
  induction db with
  | nil => simp [products]
  | cons a as ih =>
    simp only [products, List.nodup_cons, List.mem_filter]
    refine ⟨?_, ih.filter _⟩
    rintro ⟨_, h⟩
    simp at h

/-- **near_miss_product_no_data.** A well-formed request for a name that no record carries
exactly — e.g. `WOW_BETA` when the database has `wow_beta` and `WoW_Beta` — gets a closed
connection / 404 and a client error on every transport. -/
theorem near_miss_product_no_data (H : Str → Str) (s : Server) (seqn : Nat) (q : Req)
    (hq : WellFormed q) (habs : ∀ r ∈ s.db, r.product ≠ q.product) :
    respond H s seqn q = (if q.t = .http then .http none else .tcp []) ∧
    ∃ e, query H (respond H s seqn q) = .error e :=
  unknown_product_no_data H s seqn q hq (absent_key_none s.db q.product habs)

def wBeta1 : Record :=
  { wRec with
    id := 1, product := "WoW_Beta".toList, build := "50000".toList,
    buildTime := "2024-01-01T00:00:00+00:00".toList }
def wBeta2 : Record :=
  { wRec with
    id := 2, product := "wow_beta".toList, build := "60000".toList,
    buildTime := "2025-01-01T00:00:00+00:00".toList }

/-- a test (kernel-evaluated instance, replayed on the real code by corpus/C15/key-case-neighbours.case):
two products equal after case folding keep their own newest record, a third spelling has none. -/
theorem case_neighbours_instance :
    (latest [wBeta1, wBeta2] "WoW_Beta".toList).map (·.id) = some 1 ∧
    (latest [wBeta1, wBeta2] "wow_beta".toList).map (·.id) = some 2 ∧
    latest [wBeta1, wBeta2] "WOW_BETA".toList = none ∧
    products [wBeta1, wBeta2] = ["WoW_Beta".toList, "wow_beta".toList] := by
  decide

/-! #### the reply texts stay clear of the framing patterns when the free-text fields do -/

theorem versionsFields_all (P : Str → Prop) (hP : ∀ x, Plain x → P x) (r : Record) (n : Int)
    (hv : validate r = none) (hc : CleanVersions r n) (hver : P r.version) :
    ∀ reg ∈ versionsRegions, ∀ f ∈ versionsFields r reg, P f := by
  have V := validate_none r hv
  intro reg hreg f hf
  simp only [versionsFields, List.mem_cons, List.mem_nil_iff, or_false] at hf
  rcases hf with rfl | rfl | rfl | rfl | rfl | rfl | rfl
  · exact hP _ (plain_versionsRegions _ hreg)
  · exact hP _ (plain_hex _ (validHash_hexOk _ V.buildConfig))
  · exact hP _ (plain_hex _ (validHash_hexOk _ V.cdnConfig))
  · exact hP _ (plain_hex _ hc.keyring_hex)
  · exact hP _ (plain_i64 _ n hc.build_i64)
  · exact hver
  · exact hP _ (plain_hex _ V.pcHex)

theorem versionsText_wireOk (t : Transport) (r : Record) (n : Int) (seqn : Nat)
    (hv : validate r = none) (hc : CleanVersions r n) (hw : WireOk t r.version) :
    WireOk t (versionsText r seqn) := by
  constructor
  · intro ht
    exact (noBoundary_iff _).2 (freeB_document versionsHeader versionsRegions (versionsFields r) seqn
      plain_versionsHeader.B
      (versionsFields_all _ (fun _ h => h.B) r n hv hc ((noBoundary_iff _).1 (hw.1 ht))))
  · intro ht
    exact freeC_document versionsHeader versionsRegions (versionsFields r) seqn
      plain_versionsHeader.C (versionsFields_all _ (fun _ h => h.C) r n hv hc (hw.2 ht))

theorem cdnsText_wireOk (t : Transport) (c : Cdn) (seqn : Nat)
    (hw : ∀ f ∈ [c.path, c.hosts, c.servers, c.configPath], WireOk t f) :
    WireOk t (cdnsText c seqn) := by
  have hall : ∀ (P : Str → Prop), (∀ x, Plain x → P x) →
      (∀ f ∈ [c.path, c.hosts, c.servers, c.configPath], P f) →
      ∀ reg ∈ cdnsRegions, ∀ f ∈ cdnsFields c reg, P f := by
    intro P hP hf reg hreg f hfm
    simp only [cdnsFields, List.mem_cons, List.mem_nil_iff, or_false] at hfm
    rcases hfm with rfl | hfm
    · exact hP _ (plain_cdnsRegions _ hreg)
    · exact hf f (by simpa using hfm)
  constructor
  · intro ht
    exact (noBoundary_iff _).2 (freeB_document cdnsHeader cdnsRegions (cdnsFields c) seqn
      plain_cdnsHeader.B
      (hall _ (fun _ h => h.B) (fun f hf => (noBoundary_iff _).1 ((hw f hf).1 ht))))
  · intro ht
    exact freeC_document cdnsHeader cdnsRegions (cdnsFields c) seqn
      plain_cdnsHeader.C (hall _ (fun _ h => h.C) (fun f hf => (hw f hf).2 ht))

theorem summaryText_noBoundary (prods : List Str) (seqn : Nat) (hp : ∀ p ∈ prods, NoBoundary p) :
    NoBoundary (summaryText prods seqn) := by
  have hfun : (fun p : Str => p ++ bar ++ natDigits seqn) = fun p => joinWith bar [p, natDigits seqn] := by
    funext p; simp [joinWith]
  unfold summaryText summaryLines
  rw [hfun]
  refine (noBoundary_iff _).2 (freeB_document summaryHeader prods (fun p => [p, natDigits seqn]) seqn
    plain_summaryHeader.B ?_)
  intro p hpm f hf
  simp only [List.mem_cons, List.mem_nil_iff, or_false] at hf
  rcases hf with rfl | rfl
  · exact (noBoundary_iff _).1 (hp _ hpm)
  · exact (plain_digits seqn).B

/-! #### the property, end to end -/

/-- **client_reads_server (versions, bgdl), end to end.** For every database the server accepts
(`load`), every well-formed `versions`/`bgdl` request on TCP v1, TCP v2 or HTTP for a product whose
newest record (`latest`) is `r`, every hash and every sequence number below 2^32: what the client's
`query` returns for the server's reply is the document with the seven region rows carrying `r`'s
strings, typed — under `CleanVersions r` (what `validate` leaves open and the reader cannot read
back) and, on the TCP framings only, `WireOk` of the version string. -/
theorem client_reads_server_versions (H : Str → Str) (hH : GoodHash H) (recs : List Record)
    (s : Server) (seqn : Nat) (q : Req) (r : Record) (n : Int)
    (hload : load recs = .ok s.db) (hq : WellFormed q) (hep : q.ep = .versions ∨ q.ep = .bgdl)
    (hr : latest s.db q.product = some r) (hc : CleanVersions r n) (hw : WireOk q.t r.version)
    (hs : seqn < 2 ^ 32) :
    query H (respond H s seqn q) =
      .ok ⟨versionsSchema, versionsRegions.map (versionsRow r n), some seqn⟩ := by
  have hmem : r ∈ s.db := by
    rcases newest_is_max_build_time s.db q.product with ⟨hn, _⟩ | ⟨m, hm, hin, _⟩
    · rw [hn] at hr; cases hr
    · rw [hm] at hr; cases hr; exact hin
  have hv : validate r = none := (load_ok recs s.db hload).2.2 r hmem
  have hbody : respondBpsv s seqn r q.ep = versionsText r seqn := by
    rcases hep with h | h <;> rw [h] <;> rfl
  rw [transport_transparent H hH s seqn q r hq hr (by rw [hbody]; exact versionsText_wireOk _ r n seqn hv hc hw),
    hbody]
  unfold liftParse
  rw [client_reads_server_versions_partial r n seqn hv hc hs]

/-- **client_reads_server (cdns), end to end**, all three transports. -/
theorem client_reads_server_cdns (H : Str → Str) (hH : GoodHash H) (s : Server) (seqn : Nat)
    (q : Req) (r : Record) (hq : WellFormed q) (hep : q.ep = .cdns)
    (hr : latest s.db q.product = some r) (hc : CleanCdn (resolve r s.cdn))
    (hw : ∀ f ∈ [(resolve r s.cdn).path, (resolve r s.cdn).hosts, (resolve r s.cdn).servers,
      (resolve r s.cdn).configPath], WireOk q.t f)
    (hs : seqn < 2 ^ 32) :
    query H (respond H s seqn q) =
      .ok ⟨cdnsSchema, cdnsRegions.map (cdnsRow (resolve r s.cdn)), some seqn⟩ := by
  have hbody : respondBpsv s seqn r q.ep = cdnsText (resolve r s.cdn) seqn := by rw [hep]; rfl
  rw [transport_transparent H hH s seqn q r hq hr (by rw [hbody]; exact cdnsText_wireOk _ _ seqn hw),
    hbody]
  unfold liftParse
  rw [client_reads_server_cdns_partial _ seqn hc hs]

/-- **client_reads_server (v1/summary), end to end** (TCP v1 is the only transport that has it):
one row per product, in the server's order. -/
theorem client_reads_server_summary (H : Str → Str) (hH : GoodHash H) (s : Server) (seqn : Nat)
    (hp : ∀ p ∈ s.order, CleanProduct p ∧ NoBoundary p) (hs : seqn < 2 ^ 32) :
    query H (respondSummary H s seqn) =
      .ok ⟨summarySchema, s.order.map (summaryRow seqn), some seqn⟩ := by
  unfold respondSummary respondTo
  simp only [query]
  rw [tcpExchange_summary, clientTcp_wrap H hH _ (summaryText_noBoundary _ seqn (fun p h => (hp p h).2))]
  unfold liftParse
  rw [client_reads_server_summary_partial _ seqn (fun p h => (hp p h).1) hs]

/-! #### the hypotheses are satisfiable (one instance per transport; kernel-evaluated test of the
whole pipeline on it) -/

def wServer : Server := ⟨[wRec], defaultCdn "cdn.test.com".toList "tpr/wow".toList, ["wow".toList]⟩
def zeroHash : Str → Str := fun _ => List.replicate 64 '0'

theorem zeroHash_good : GoodHash zeroHash := by
  intro x
  refine ⟨by simp [zeroHash], ?_⟩
  intro c hc
  simp only [zeroHash, List.mem_replicate] at hc
  rw [hc.2]; decide

theorem wReq_wellFormed (t : Transport) (e : Endpoint) : WellFormed ⟨t, "wow".toList, e⟩ :=
  ⟨show '/' ∉ "wow".toList by decide, show '\n' ∉ "wow".toList by decide,
    fun _ => ⟨show "wow".toList ≠ [] by decide, show "wow".toList.all httpPlainChar = true by decide +kernel,
      show "wow".toList ≠ ['.'] by decide, show "wow".toList ≠ ['.', '.'] by decide⟩⟩

example (t : Transport) :
    query zeroHash (respond zeroHash wServer 5 ⟨t, "wow".toList, .versions⟩) =
      .ok ⟨versionsSchema, versionsRegions.map (versionsRow wRec 32600), some 5⟩ :=
  client_reads_server_versions zeroHash zeroHash_good [wRec] wServer 5 _ wRec 32600
    (by decide +kernel) (wReq_wellFormed t _) (.inl rfl)
    (show latest wServer.db "wow".toList = some wRec by decide +kernel)
    ⟨HexOk.nil, by decide +kernel, by decide +kernel, by decide +kernel⟩
    ⟨fun _ => by unfold NoBoundary; decide +kernel, fun _ => by unfold NoLookalike; decide +kernel⟩
    (by decide)

example (t : Transport) :
    query zeroHash (respond zeroHash wServer 5 ⟨t, "wow".toList, .cdns⟩) =
      .ok ⟨cdnsSchema, cdnsRegions.map (cdnsRow (resolve wRec wServer.cdn)), some 5⟩ :=
  client_reads_server_cdns zeroHash zeroHash_good wServer 5 _ wRec (wReq_wellFormed t _) rfl
    (show latest wServer.db "wow".toList = some wRec by decide +kernel)
    ⟨by decide +kernel, by decide +kernel, by decide +kernel⟩
    (by
      intro f hf
      simp only [List.mem_cons, List.mem_nil_iff, or_false] at hf
      rcases hf with rfl | rfl | rfl | rfl <;>
        exact ⟨fun _ => by unfold NoBoundary; decide +kernel, fun _ => by unfold NoLookalike; decide +kernel⟩)
    (by decide)

example : query zeroHash (respondSummary zeroHash wServer 5) =
    .ok ⟨summarySchema, wServer.order.map (summaryRow 5), some 5⟩ :=
  client_reads_server_summary zeroHash zeroHash_good wServer 5
    (by
      intro p hp
      simp only [wServer, List.mem_singleton] at hp
      subst hp
      exact ⟨⟨'w', "ow".toList, by decide, by decide, by decide, by decide, by decide⟩,
        by unfold NoBoundary; decide +kernel⟩)
    (by decide)

/-- test (kernel evaluation of the executable model, no theorem involved): the whole pipeline
request line → server → framing → client on the instance, all three transports. -/
theorem e2e_instance :
    [Transport.v1, .v2, .http].all (fun t =>
      readsBack (match query zeroHash (respond zeroHash wServer 1700000000 ⟨t, "wow".toList, .versions⟩) with
        | .ok d => .ok d | .error _ => .error .emptyDocument)
        (versionsRegions.map (versionsFields wRec))) = true := by
  decide +kernel


/-! ### "keeps answering other clients": the per-connection tasks are isolated -/

/-- **connection_isolated.** For every interleaving `evs` of socket events (bytes arriving in any
segmentation, half-closes, read timeouts, on any number of sockets), every prior state `σ` of the
other tasks and every socket `i`: the outputs the server produces on `i`, and the state `i`'s task
ends in, are those of `i`'s task run alone on `i`'s own events. The shared parameters (`sh`:
database, CDN defaults, hash, clock) are the same on both sides and nothing writes them. -/
theorem connection_isolated (sh : Shared) (evs : List (Nat × Ev)) (σ : Conns) (i : Nat) :
    outsOf i (srvRun sh σ evs).2 = (connRun sh (getConn σ i) (proj i evs)).2 ∧
    getConn (srvRun sh σ evs).1 i = (connRun sh (getConn σ i) (proj i evs)).1 :=
  ⟨(srvRun_proj sh evs σ i).2, (srvRun_proj sh evs σ i).1⟩

/-- **one_reply_per_connection.** A socket gets at most one output (reply or close) whatever is
sent on it and around it. -/
theorem one_reply_per_connection (sh : Shared) (evs : List (Nat × Ev)) (σ : Conns) (i : Nat) :
    (outsOf i (srvRun sh σ evs).2).length ≤ 1 := by
  rw [(srvRun_proj sh evs σ i).2]
  exact connRun_outputs_le_one sh _ _

/-- **keeps_answering_other_clients.** Whatever the other sockets do (unterminated lines held
open, oversized or non-UTF-8 input, closes, timeouts) and in whatever order the events of all
sockets are interleaved: a freshly accepted socket `j` on which `chunks` arrive (any segmentation)
followed by a half-close is answered exactly `connAnswer` of its own bytes — the reply
`handle_connection` gives to those bytes alone, or a close — and nothing else. -/
theorem keeps_answering_other_clients (sh : Shared) (evs : List (Nat × Ev)) (σ : Conns) (j : Nat)
    (chunks : List (List Nat)) (rest : List Ev) (hfresh : getConn σ j = .reading [])
    (hproj : proj j evs = chunks.map .data ++ .eof :: rest) :
    outsOf j (srvRun sh σ evs).2 = [connAnswer sh chunks.flatten] := by
  rw [(srvRun_proj sh evs σ j).2, hfresh, hproj, connRun_chunks sh chunks rest [] (by simp)]
  simp

/-- the same for a terminated line without a half-close: the answer is out as soon as the line
end has arrived, independent of segmentation and of everything on other sockets. -/
theorem answered_at_line_end (sh : Shared) (evs : List (Nat × Ev)) (σ : Conns) (j : Nat)
    (chunks : List (List Nat)) (rest : List Ev) (hfresh : getConn σ j = .reading [])
    (hproj : proj j evs = chunks.map .data ++ rest) (hlf : 10 ∈ chunks.flatten) :
    outsOf j (srvRun sh σ evs).2 = [answer sh (firstLine chunks.flatten)] := by
  rw [(srvRun_proj sh evs σ j).2, hfresh, hproj, connRun_line sh chunks rest [] (by simp) hlf]
  simp

/-- a socket whose line is never terminated (no LF, no half-close, no timeout yet) is not
answered — and by `connection_isolated` that is all it does: it holds no one else up. -/
theorem held_connection_silent (sh : Shared) (evs : List (Nat × Ev)) (σ : Conns) (j : Nat)
    (chunks : List (List Nat)) (hfresh : getConn σ j = .reading [])
    (hproj : proj j evs = chunks.map .data) (hno : 10 ∉ chunks.flatten) :
    outsOf j (srvRun sh σ evs).2 = [] ∧ getConn (srvRun sh σ evs).1 j = .reading chunks.flatten := by
  have := connRun_held sh chunks [] (by simpa using hno)
  rw [(srvRun_proj sh evs σ j).2, (srvRun_proj sh evs σ j).1, hfresh, hproj, this]
  simp

/-- hypotheses satisfiable, non-trivially: socket 0 holds an unterminated line, socket 2 sends
bytes that are not UTF-8 and never closes, socket 1 sends a request in two segments between
them and half-closes — and gets the reply it would get alone. -/
example (sh : Shared) :
    outsOf 1 (srvRun sh []
      [(0, .data [118, 49, 47]), (1, .data [118, 50, 47, 112]), (2, .data [255, 254]),
       (1, .data [114, 13, 10]), (0, .data [120]), (1, .eof)]).2 =
      [connAnswer sh [118, 50, 47, 112, 114, 13, 10]] :=
  keeps_answering_other_clients sh _ [] 1 [[118, 50, 47, 112], [114, 13, 10]] [] rfl rfl


/-- **accepted_connections_invisible.** A socket the listener has accepted and on which nothing
has arrived yet (`Ev.accept`: a client that connects and stays silent) is invisible: striking
every `accept` event out of any interleaving changes no output on any socket and no task's state —
neither the silent socket's own later answer nor anybody else's. (In `start_server` the accept
loop does nothing per socket before `tokio::spawn`; a change that makes it wait for the socket's
first byte breaks exactly this, and the run then shows a silent connection holding up the
connections accepted after it.) -/
theorem accepted_connections_invisible (sh : Shared) (evs : List (Nat × Ev)) (σ : Conns) (i : Nat) :
    outsOf i (srvRun sh σ evs).2 = outsOf i (srvRun sh σ (evs.filter (fun p => p.2 ≠ .accept))).2 ∧
    getConn (srvRun sh σ evs).1 i = getConn (srvRun sh σ (evs.filter (fun p => p.2 ≠ .accept))).1 i := by
  have a := srvRun_proj sh evs σ i
  have b := srvRun_proj sh (evs.filter (fun p => p.2 ≠ .accept)) σ i
  rw [proj_filter_accept, connRun_filter_accept] at b
  exact ⟨a.2.trans b.2.symm, a.1.trans b.1.symm⟩

/-- **silent_then_request_answered.** A socket that was accepted, stayed silent for however long
(any events on any other sockets in between, among them further silent sockets) and then sends
its line, in any segmentation, is answered exactly as a connection that sends at once. -/
theorem silent_then_request_answered (sh : Shared) (evs : List (Nat × Ev)) (σ : Conns) (j : Nat)
    (chunks : List (List Nat)) (rest : List Ev) (hfresh : getConn σ j = .reading [])
    (hproj : proj j evs = .accept :: (chunks.map .data ++ rest)) (hlf : 10 ∈ chunks.flatten) :
    outsOf j (srvRun sh σ evs).2 = [answer sh (firstLine chunks.flatten)] := by
  rw [(srvRun_proj sh evs σ j).2, hfresh, hproj, connRun_accept,
    connRun_line sh chunks rest [] (by simp) hlf]
  simp

/-- a socket that is accepted and never sends a byte is not answered and stays in `read_line`
with an empty buffer until its peer closes or the timeout fires — then it is closed, no reply. -/
theorem silent_connection_closed_quietly (sh : Shared) (evs : List (Nat × Ev)) (σ : Conns) (j : Nat)
    (e : Ev) (he : e = .eof ∨ e = .timeout) (rest : List Ev) (hfresh : getConn σ j = .reading [])
    (hproj : proj j evs = .accept :: e :: rest) :
    outsOf j (srvRun sh σ evs).2 = [.closed] := by
  rw [(srvRun_proj sh evs σ j).2, hfresh, hproj, connRun_accept]
  rcases he with rfl | rfl <;> simp [connRun, connStep, connRun_done]

/-- hypotheses satisfiable, non-trivially — the zero-byte neighbour FIRST: socket 0 is accepted
and sends nothing at all, socket 3 likewise; socket 1, accepted after them, sends a request in two
segments, half-closes, and gets the reply it would get alone; socket 0 then sends its own line
and is answered too. -/
example (sh : Shared) :
    let evs : List (Nat × Ev) :=
      [(0, .accept), (3, .accept), (1, .accept), (1, .data [118, 50, 47, 112]),
       (1, .data [114, 13, 10]), (1, .eof), (0, .data [118, 49, 47, 120, 10])]
    outsOf 1 (srvRun sh [] evs).2 = [answer sh (firstLine [118, 50, 47, 112, 114, 13, 10])] ∧
    outsOf 0 (srvRun sh [] evs).2 = [answer sh (firstLine [118, 49, 47, 120, 10])] ∧
    outsOf 3 (srvRun sh [] evs).2 = [] :=
  ⟨silent_then_request_answered sh _ [] 1 [[118, 50, 47, 112], [114, 13, 10]] [.eof] rfl rfl (by decide),
   silent_then_request_answered sh _ [] 0 [[118, 49, 47, 120, 10]] [] rfl rfl (by decide),
   by rw [(srvRun_proj sh _ [] 3).2]; rfl⟩


/-! ### valid UTF-8 request lines with a wide character near the front -/

/-- a character outside ASCII is none of the characters the dispatch compares with. -/
theorem ascii_ne_wide (a c : Char) (ha : a.toNat < 128) (hc : 128 ≤ c.toNat) : (a == c) = false := by
  simp only [beq_eq_false_iff_ne, ne_eq]
  intro e
  subst e
  omega

/-- **wide_prefix_closed.** `handle_command` is a function of the command's CHARACTERS
(`starts_with`, `==`, `split('/')`; no byte offset appears in it): a command with a character
outside ASCII — 2, 3 or 4 bytes wide in UTF-8 — among its first three characters, whatever stands
before and after it (so whichever small byte offset falls inside it), is `Err(InvalidCommand)`:
no reply, and by totality of the function no panic. The run sends the family (one wide character
starting at every byte offset 0..=8 of the line, of the product, of the endpoint, and at the
powers of two up to 1024) through the real `handle_command` and the real `tcp::start_server`; a
dispatch on a byte slice (`&command[..3]`) leaves this model at exactly those members. -/
theorem wide_prefix_closed (H : Str → Str) (s : Server) (seqn : Nat) (pre rest : Str) (c : Char)
    (hpre : pre.length < 3) (hc : 128 ≤ c.toNat) :
    handleCommand H s seqn (pre ++ c :: rest) = none := by
  have hv := ascii_ne_wide 'v' c (by decide) hc
  have h1 := ascii_ne_wide '1' c (by decide) hc
  have h2 := ascii_ne_wide '2' c (by decide) hc
  have hs := ascii_ne_wide '/' c (by decide) hc
  apply (malformed_closed H s seqn).2.2
  · match pre, hpre with
    | [], _ => simp [startsWith, hv]
    | [a], _ => simp [startsWith, h1]
    | [a, b], _ => simp [startsWith, hs]
  · match pre, hpre with
    | [], _ => simp [startsWith, hv]
    | [a], _ => simp [startsWith, h2]
    | [a, b], _ => simp [startsWith, hs]

/-- **wide_request_closed_others_answered.** On the server, under any interleaving of any
sockets' events: socket `i` sends, in any segmentation (also cut inside the character), a
terminated line that is valid UTF-8 (`dec` succeeds) and whose trimmed text has a wide character
among its first three characters — it is closed without a reply and nothing else happens on it;
and any other fresh socket `j` that sends its bytes and half-closes is answered exactly what its
own bytes are answered alone. (In `start_server` a connection task is detached: nothing it does,
returns or panics with reaches the accept loop; a change that lets the accept loop return when one
task fails breaks the second conjunct for every `j` accepted afterwards — the run's
`server-stopped` clause.) -/
theorem wide_request_closed_others_answered (sh : Shared) (evs : List (Nat × Ev)) (σ : Conns)
    (i j : Nat) (chunksI : List (List Nat)) (restI : List Ev) (l pre post : Str) (c : Char)
    (chunksJ : List (List Nat)) (restJ : List Ev)
    (hfreshI : getConn σ i = .reading []) (hprojI : proj i evs = chunksI.map .data ++ restI)
    (hlf : 10 ∈ chunksI.flatten) (hdec : sh.dec (firstLine chunksI.flatten) = some l)
    (htrim : trim l = pre ++ c :: post) (hpre : pre.length < 3) (hc : 128 ≤ c.toNat)
    (hfreshJ : getConn σ j = .reading []) (hprojJ : proj j evs = chunksJ.map .data ++ .eof :: restJ) :
    outsOf i (srvRun sh σ evs).2 = [.closed] ∧
    outsOf j (srvRun sh σ evs).2 = [connAnswer sh chunksJ.flatten] := by
  refine ⟨?_, keeps_answering_other_clients sh evs σ j chunksJ restJ hfreshJ hprojJ⟩
  rw [answered_at_line_end sh evs σ i chunksI restI hfreshI hprojI hlf]
  unfold answer handleConnection
  rw [hdec]
  cases l with
  | nil => rfl
  | cons a t => simp only [htrim, wide_prefix_closed sh.H sh.s sh.seqn pre post c hpre hc]

/-- hypotheses satisfiable, non-trivially: the seeded witnesses `v1é/products/wow/versions`,
`éé`, `ab€` and a 4-byte character at the very front. -/
example (H : Str → Str) (s : Server) (seqn : Nat) :
    handleCommand H s seqn "v1é/products/wow/versions".toList = none ∧
    handleCommand H s seqn "éé".toList = none ∧
    handleCommand H s seqn "ab€".toList = none ∧
    handleCommand H s seqn "😀v1/summary".toList = none :=
  ⟨wide_prefix_closed H s seqn ['v', '1'] "/products/wow/versions".toList 'é' (by decide) (by decide),
   wide_prefix_closed H s seqn [] ['é'] 'é' (by decide) (by decide),
   wide_prefix_closed H s seqn ['a', 'b'] [] '€' (by decide) (by decide),
   wide_prefix_closed H s seqn [] "v1/summary".toList '😀' (by decide) (by decide)⟩


/-! ### HTTP routing table -/

/-- **http_routing_table.** Every URL path (as axum's router sees it; percent-decoding and query
strings are outside the model) is answered either `200` with the BPSV text of the newest record —
exactly when it is `/{product}/{versions|cdns|bgdl}` with a non-empty, slash-free product the
database has — or `404`; nothing else, and no path is answered with another product's data. -/
theorem http_routing_table (s : Server) (seqn : Nat) (path : Str) :
    (∃ p e r, path = httpPath p e ∧ p ≠ [] ∧ '/' ∉ p ∧ latest s.db p = some r ∧
        handleHttp s seqn path = some (respondBpsv s seqn r e)) ∨
    (handleHttp s seqn path = none ∧
      ∀ p e, p ≠ [] → '/' ∉ p → path = httpPath p e → latest s.db p = none) := by
  cases h : handleHttp s seqn path with
  | some body =>
    left
    obtain ⟨p, e, r, h1, h2, h3, h4, h5⟩ := handleHttp_some s seqn path body h
    exact ⟨p, e, r, h1, h2, h3, h4, by rw [h5]⟩
  | none =>
    right
    refine ⟨rfl, ?_⟩
    intro p e hne hp hpath
    rw [hpath, handleHttp_path s seqn p e hp hne] at h
    cases hl : latest s.db p with
    | none => rfl
    | some r => rw [hl] at h; cases h

/-- the table has a 200 row and 404 rows (instance; kernel-evaluated). -/
example :
    (handleHttp wServer 5 "/wow/cdns".toList).isSome = true ∧
    handleHttp wServer 5 "/wow/certs".toList = none ∧ handleHttp wServer 5 "/nosuch/cdns".toList = none ∧
    handleHttp wServer 5 "//cdns".toList = none ∧ handleHttp wServer 5 "/wow/cdns/".toList = none := by
  decide +kernel

end Cascette.Props.C15
