/-
Props/C04 — local storage returns every stored object byte-for-byte, at any later time.
Property theorems only; lemmas are in Proofs/Archive, Proofs/Container (+ C05's Proofs/Lsm*).

Model = the Rust code as written after the two `fix:` commits 6172e03 (remap after every write
that changed the file size) and b10f99e (no second BLTE decode in `Installation`): Model/Archive,
Model/Container on top of Model/Lsm (C05) and Model/Blte (C01).  Spec = a map from index key to
the written bytes (Spec/Store).

Parameters and their laws (`Archive.Params`): `H` = MD5 (arbitrary function here), `hdr` = the
30-byte local header (`HdrLen`: any function returning 30 bytes), `remap` = the remap decision
(`RemapsOnChange`: it remaps whenever the size changed — true of `remapFixed`, the code now, and
false of `remapPinned`), `cd` = zlib / LZ4 (only `Lawful` where a compressed mode is written).

Hypotheses that every history theorem carries, and why:
* `nz`: the index key (first nine bytes of `H(image)`) of a written object is not all zero — the
  `.idx` format reads such a record as an empty slot (C05 finding `reload-loses-all-zero-key`);
* `budget ops < 2^30`: the data file stays below 1 GiB, the width of the packed offset in an
  `.idx` record (`ArchiveManager` itself would go on to 256 GiB; beyond 2^30 the offset saved by
  `save_all` is cut to 30 bits — outside the property's "installation" sizes and outside the run).
-/
import Cascette.Proofs.Container
namespace Cascette.Props.C04
open Cascette
open Cascette.Model.Container
open Cascette.Model
open Cascette.Spec
open Cascette.Proofs.Archive
open Cascette.Proofs.Container

/-! ### the archive file -/

/-- **read_ok_iff_mapped.** For every state of an open archive — whatever remap rule produced
it — `read_raw(0, off, size)` succeeds exactly when `off + size ≤ mmap.len()`; beyond the
mapping it is the "Read beyond archive bounds" error that `DynamicContainer::read` reports as a
truncated read. -/
theorem read_ok_iff_mapped (s : Archive.State) (o : Archive.Open) (file : Bytes)
    (ho : s.opn = some o) (hf : s.disk = some file) (off size : Nat) :
    ((∃ b, Archive.readRaw s 0 off size = .ok b) ↔ off + size ≤ o.mapped) ∧
      (o.mapped < off + size → Archive.readRaw s 0 off size = .error .bounds) :=
  ⟨readRaw_ok_iff s o file ho hf off size, readRaw_bounds s o file ho hf off size⟩

/-- **archive_write_read_any_mode.** On a fully mapped archive, for EVERY payload and each of the
three storable BLTE modes (`N`, and `Z` / `4` for a codec whose decompress inverts its compress):
a successful write appends at the end of the file, returns `(0, old length, 30 + |image|,
H(image))`, leaves the archive fully mapped, and `read_content` of the returned location gives
back exactly the payload. -/
theorem archive_write_read_any_mode (P : Archive.Params) (hr : RemapsOnChange P) (hh : HdrLen P)
    (law : Cascette.Proofs.Blte.Lawful P.cd) (s : Archive.State) (hs : ArchOk s) (d : Bytes)
    (m : Cascette.Model.Blte.Mode) (b : Bytes) (hb : Archive.blteOf P.cd d m = .ok b)
    (hsz : (fileOf s).length + Archive.headerSize + b.length < 2 ^ 30) :
    ∃ s', Archive.write P s d m =
        (s', .ok (0, (fileOf s).length, Archive.headerSize + b.length, P.H b)) ∧ ArchOk s' ∧
      Archive.readContent P s' 0 (fileOf s).length (Archive.headerSize + b.length) = .ok d := by
  obtain ⟨s', h1, h2, h3⟩ := write_spec P hr hh s hs d m b hb hsz
  refine ⟨s', h1, h3, ?_⟩
  have hst := stored_new (cd := P.cd) (fileOf s) (P.hdr (P.H b) b.length (fileOf s).length) b d
    (hh _ _ _) (blteOf_good P.cd law d m b hb).1
  have ho : s'.opn = some ⟨(fileOf s ++ (P.hdr (P.H b) b.length (fileOf s).length ++ b)).length,
      (fileOf s ++ (P.hdr (P.H b) b.length (fileOf s).length ++ b)).length⟩ := by
    have := h3
    simp only [ArchOk, h2, Option.map_some] at this
    exact this
  exact readContent_stored P s' _ _ ho h2 _ _ d hst.1 hst

/-! ### DynamicContainer -/

/-- **read_after_writes.** For every remap rule that remaps whenever the size changed, every
header function of 30 bytes, every hash, every update-section capacity ≥ 1 and every history of
writes (any payloads, any sizes in any order), reads of any key with any buffer length, queries,
removes, bucket flushes, flush-all and close + reopen, started on an empty directory: every
response of the container is the response of the map `index key ↦ written bytes` — a read of a
bound key returns exactly the written bytes (cut to the buffer), a key never written or removed is
not found, a query says whether the key is bound; nothing else is ever answered. -/
theorem read_after_writes (P : Archive.Params) (cfg : Lsm.Cfg) (hcap : 1 ≤ cfg.capPages)
    (hr : RemapsOnChange P) (hh : HdrLen P) (ops : List Op)
    (hnz : ∀ op ∈ ops, nz P op) (hb : budget ops < 2 ^ 30) :
    (run P cfg State.init ops).2 =
      ((Store.run Store.Map.empty (ops.map (absOp P))).2).map conc := by
  obtain ⟨A', _, h, _⟩ := run_refines P cfg hcap hr hh ops State.init (fun _ => none) (inv_init P) hnz
    (by simpa [fileOf, State.init, Archive.State.init] using hb)
  exact h

/-- **written_object_read_back** (the property in its own words). In any such history, once
`write d` has happened, a later read under the object's key returns exactly `d` (cut to the
buffer) — immediately, or after any further operations `post` (writes of any sizes, reads,
queries, flushes, reopen) as long as `post` neither removes that key nor writes other bytes whose
hash has the same nine leading bytes. -/
theorem written_object_read_back (P : Archive.Params) (cfg : Lsm.Cfg) (hcap : 1 ≤ cfg.capPages)
    (hr : RemapsOnChange P) (hh : HdrLen P) (pre post : List Op) (d key : Bytes) (buf : Nat)
    (hnz : ∀ op ∈ pre ++ [.write d] ++ post ++ [.read key buf], nz P op)
    (hb : budget (pre ++ [.write d] ++ post ++ [.read key buf]) < 2 ^ 30)
    (hkey : key9 key = keyOf P d)
    (hpost : ∀ op ∈ post, keeps (keyOf P d) d (absOp P op)) :
    (run P cfg State.init (pre ++ [.write d] ++ post ++ [.read key buf])).2.getLast? =
      some (.bytes (d.take buf)) := by
  rw [read_after_writes P cfg hcap hr hh _ hnz hb]
  simp only [List.map_append, List.map_cons, List.map_nil, absOp]
  rw [store_run_append]
  simp only [Store.run, List.map_append, List.map_cons, List.map_nil, List.getLast?_append,
    List.getLast?_singleton, Option.some_or]
  have hm : (Store.run Store.Map.empty
      (pre.map (absOp P) ++ [Store.Op.write (keyOf P d) d] ++ post.map (absOp P))).1 (key9 key) = some d := by
    rw [hkey, store_run_append, store_run_append]
    apply store_keeps
    · simp only [Store.run, Store.step, Store.Map.set, if_true]
    · intro op hop
      simp only [List.mem_map] at hop
      obtain ⟨o, ho, rfl⟩ := hop
      exact hpost o ho
  simp only [Store.step, hm, conc]

/-- **container_content_agnostic.** No hypothesis on the payload: whatever `d` is — empty,
starting with `BLTE`, carrying `BLTE` at 0x1E, a whole BLTE file, an image of a local entry —
after any history, `write d` followed by a read under its key returns `d` (one decode, of the
frame the container itself added). -/
theorem container_content_agnostic (P : Archive.Params) (cfg : Lsm.Cfg) (hcap : 1 ≤ cfg.capPages)
    (hr : RemapsOnChange P) (hh : HdrLen P) (pre : List Op) (d key : Bytes) (buf : Nat)
    (hnz : ∀ op ∈ pre ++ [.write d] ++ [.read key buf], nz P op)
    (hb : budget (pre ++ [.write d] ++ [.read key buf]) < 2 ^ 30)
    (hkey : key9 key = keyOf P d) :
    (run P cfg State.init (pre ++ [.write d] ++ [.read key buf])).2.getLast? =
      some (.bytes (d.take buf)) := by
  have := written_object_read_back P cfg hcap hr hh pre [] d key buf
    (by simpa using hnz) (by simpa using hb) hkey (by intro op h; cases h)
  simpa using this

/-- **truncated_never_for_written.** Along every such history no response is `TruncatedRead`, an
archive error or an index error, no key is ever handed to `mark_span_non_resident`, and after
every history the mapping covers the whole data file and the write position is its end
(`mappedLen = file.length = writePos`). -/
theorem truncated_never_for_written (P : Archive.Params) (cfg : Lsm.Cfg) (hcap : 1 ≤ cfg.capPages)
    (hr : RemapsOnChange P) (hh : HdrLen P) (ops : List Op)
    (hnz : ∀ op ∈ ops, nz P op) (hb : budget ops < 2 ^ 30) :
    (∀ o ∈ (run P cfg State.init ops).2, o ≠ .truncated ∧ o ≠ .indexErr ∧ ∀ e, o ≠ .err e) ∧
      (run P cfg State.init ops).1.marked = [] ∧
      (run P cfg State.init ops).1.ar.opn =
        (run P cfg State.init ops).1.ar.disk.map (fun f => ⟨f.length, f.length⟩) := by
  obtain ⟨A', inv, h, _⟩ := run_refines P cfg hcap hr hh ops State.init (fun _ => none) (inv_init P) hnz
    (by simpa [fileOf, State.init, Archive.State.init] using hb)
  refine ⟨?_, inv.marked, inv.arch⟩
  intro o ho
  rw [h, List.mem_map] at ho
  obtain ⟨x, _, rfl⟩ := ho
  cases x <;> simp [conc]

/-- the code's rule (`new_size != current_size`) satisfies the law the theorems need. -/
theorem remapFixed_remapsOnChange (P : Archive.Params) (h : P.remap = Archive.remapFixed) :
    RemapsOnChange P := remapFixed_ok P h

/-! ### the defect that was repaired (DESIGN.md §8): remap only on > 64 MiB / ×2 growth -/

/-- toy parameters for kernel-evaluated witnesses (the theorems hold for every `H`, `hdr`). -/
def toyP (remap : Nat → Nat → Bool) : Archive.Params :=
  ⟨fun b => b.reverse.take 16, fun _ _ _ => List.replicate 30 0, remap,
    ⟨fun _ _ => none, fun _ _ => none⟩⟩

/-- Counter-witness for the tree as pinned: write 10 bytes, write 1 byte, read the second object
→ `TruncatedRead`, and its key is marked non-resident; the first object still reads. (The pinned
rule does not satisfy `RemapsOnChange`: 49 → 89 bytes is neither > 64 MiB nor more than double.) -/
theorem read_after_writes_pinned_counterexample :
    let P := toyP Archive.remapPinned
    let d1 : Bytes := List.replicate 10 1
    let d2 : Bytes := [2]
    let r := run P ⟨60, 21⟩ State.init
      [.write d1, .write d2, .read (P.H (blteN d2)) 64, .read (P.H (blteN d1)) 64]
    r.2 = [.ok, .ok, .truncated, .bytes d1] ∧ r.1.marked = [P.H (blteN d2)] := by decide +kernel

/-- the same history on the repaired rule. -/
theorem read_after_writes_fixed_witness :
    let P := toyP Archive.remapFixed
    let d1 : Bytes := List.replicate 10 1
    let d2 : Bytes := [2]
    let r := run P ⟨60, 21⟩ State.init
      [.write d1, .write d2, .read (P.H (blteN d2)) 64, .read (P.H (blteN d1)) 64]
    r.2 = [.ok, .ok, .bytes d2, .bytes d1] ∧ r.1.marked = [] := by decide +kernel

/-- hypotheses of the history theorems are met by a non-trivial history (large then small
write, BLTE-shaped payload, empty payload, remove, flush, reopen). -/
example :
    let P := toyP Archive.remapFixed
    let ops : List Op := [.write (List.replicate 100 7), .write [0x42, 0x4C, 0x54, 0x45, 9], .write [],
      .remove (P.H (blteN [])), .flushAll, .reopen, .read (P.H (blteN [0x42, 0x4C, 0x54, 0x45, 9])) 5]
    RemapsOnChange P ∧ HdrLen P ∧ (∀ op ∈ ops, nz P op) ∧ budget ops < 2 ^ 30 := by
  refine ⟨remapFixed_ok _ rfl, fun _ _ _ => rfl, ?_, by decide⟩
  intro op h
  simp only [List.mem_cons, List.not_mem_nil, or_false] at h
  rcases h with rfl | rfl | rfl | rfl | rfl | rfl | rfl <;> first | trivial | (show keyOf _ _ ≠ 0; decide)

/-! ### Installation -/

/-- **installation_read_eq_written** — full statement, FALSE of the tree (finding
`installation-reopen-loses-index`): "for every history of write_file / read_file_by_encoding_key /
has_encoding_key / close + reopen, every response is the keyed map's (`ispec`, where reopen changes
nothing)".  Counter-witness: write 3 bytes, read them, drop + open + initialize, and the key is
gone — `write_file` never saves the index and `Installation` has no other way to save it. -/
theorem installation_reopen_loses_index :
    let P := toyP Archive.remapFixed
    let d : Bytes := [1, 2, 3]
    let k := P.H (blteN d)
    let ops : List IOp := [.write d true, .read k, .reopen, .has k, .read k]
    (irun P ⟨60, 21⟩ IState.init ops).2 = [.key (P.H d), .bytes d, .ok, .bool false, .notFound] ∧
      (ispecRun P Store.Map.empty ops).2 = [.key (P.H d), .bytes d, .ok, .bool true, .bytes d] := by
  decide +kernel

/-- **installation_read_eq_written_partial.** Without reopen the statement holds: for every
history of `write_file` (either value of `compress`) / `read_file_by_encoding_key` /
`has_encoding_key` in which no two different contents share the nine leading key bytes (the
installation caches by full key, so a colliding rewrite would be served stale), every response is
the keyed map's: a read returns exactly the written bytes for EVERY content — also through the
read cache — and `write_file` returns `H(data)` as content key. -/
theorem installation_read_eq_written_partial (P : Archive.Params) (cfg : Lsm.Cfg)
    (hcap : 1 ≤ cfg.capPages) (hr : RemapsOnChange P) (hh : HdrLen P) (ops : List IOp)
    (hnr : ∀ op ∈ ops, notReopen op)
    (hcoll : NoColl P (fun d => ∃ c, IOp.write d c ∈ ops))
    (hb : ibudget ops < 2 ^ 30) :
    (irun P cfg IState.init ops).2 = (ispecRun P Store.Map.empty ops).2 := by
  refine irun_refines P cfg hcap hr hh _ hcoll ops IState.init (fun _ => none) (iinv_init P _) ?_
    (by simpa [fileOf, IState.init, Archive.State.init] using hb)
  intro op hop
  refine ⟨hnr op hop, ?_⟩
  cases op with
  | write d c => exact ⟨c, hop⟩
  | _ => trivial

/-- hypotheses of the partial theorem are met by a non-trivial history (the same BLTE-shaped
content written twice with both `compress` values, read through the cache). -/
example :
    let P := toyP Archive.remapFixed
    let c : Bytes := blteN [5, 6]
    let ops : List IOp := [.write c true, .read (P.H (blteN c)), .write c false, .read (P.H (blteN c))]
    (∀ op ∈ ops, notReopen op) ∧ NoColl P (fun d => ∃ x, IOp.write d x ∈ ops) ∧ ibudget ops < 2 ^ 30 := by
  refine ⟨?_, ?_, by decide⟩
  · intro op h
    simp only [List.mem_cons, List.not_mem_nil, or_false] at h
    rcases h with rfl | rfl | rfl | rfl <;> trivial
  · intro d1 d2 ⟨c1, h1⟩ ⟨c2, h2⟩ _
    simp only [List.mem_cons, IOp.write.injEq, List.not_mem_nil, or_false, reduceCtorEq, false_or] at h1 h2
    rcases h1 with ⟨rfl, _⟩ | ⟨rfl, _⟩ <;> rcases h2 with ⟨rfl, _⟩ | ⟨rfl, _⟩ <;> rfl

/-- Counter-witness for the tree as pinned (repaired by `fix:` b10f99e): `Installation` applied
`decode_blte` to what `read_content` had already decoded.  Content that is itself a single-chunk
BLTE file with a 40-byte payload — 49 bytes — came back as the 40 inner bytes. -/
theorem installation_double_decode_pinned_witness :
    let cd : Cascette.Model.Blte.Codec := ⟨fun _ _ => none, fun _ _ => none⟩
    let inner : Bytes := List.replicate 40 7
    (blteN inner).length = 49 ∧ inner.length = 40 ∧
      (match decodeBlteSecond cd (blteN inner) with
        | .ok b => b == inner
        | .error _ => false) = true := by
  decide +kernel

/-- the same content on the repaired code: written, read back unchanged (49 bytes), twice. -/
theorem installation_blte_shaped_fixed_witness :
    let P := toyP Archive.remapFixed
    let c : Bytes := blteN (List.replicate 40 7)
    (irun P ⟨60, 21⟩ IState.init [.write c false, .read (P.H (blteN c)), .read (P.H (blteN c))]).2 =
      [.key (P.H c), .bytes c, .bytes c] := by
  decide +kernel

end Cascette.Props.C04
