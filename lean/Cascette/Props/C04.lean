/-
Props/C04 — local storage returns every stored object byte-for-byte, at any later time.
Property theorems only; lemmas are in Proofs/Archive, Proofs/Container (+ C05's Proofs/Lsm*);
Proofs/ArchiveChunked for the representation of the data file the correspondence driver uses.

Model = the Rust code as written after the `fix:` commits 6172e03 (remap after every write that
changed the file size), b10f99e (no second BLTE decode in `Installation`), 947b84f
(`Installation::write_file` saves the index) and 8767d44 (`create_archive` does not truncate an
existing data file): Model/Archive,
Model/Container on top of Model/Lsm (C05) and Model/Blte (C01).  Spec = a map from index key to
the written bytes (Spec/Store).

Parameters and their laws (`Archive.Params`): `H` = MD5 (arbitrary function here), `hdr` = the
30-byte local header (`HdrLen`: any function returning 30 bytes), `remap` = the remap decision
(`RemapsOnChange`: it remaps whenever the size changed — true of `remapFixed`, the code now, and
false of `remapPinned`), `cd` = zlib / LZ4 (only `Lawful` where a compressed mode is written).

Hypotheses that every history theorem carries, and why:
* `nz`: the index key (first nine bytes of `H(image)`) of a written object is not all zero — the
  `.idx` format reads such a record as an empty slot (C05 finding `reload-loses-all-zero-key`);
* `budget ops < 2^30`: the data file stays below 1 GiB, the width of the packed offset in an
  `.idx` record (`ArchiveManager` itself would go on to 256 GiB; beyond 2^30 the offset saved by
  `save_all` is cut to 30 bits — outside the property's "installation" sizes and outside the run).
-/
import Cascette.Proofs.Container
import Cascette.Proofs.ArchiveChunked
namespace Cascette.Props.C04
open Cascette
open Cascette.Model.Container
open Cascette.Model
open Cascette.Spec
open Cascette.Proofs.Archive
open Cascette.Proofs.Container

/-! ### the archive file -/

/-- **read_ok_iff_mapped.** For every state of an open archive — whatever remap rule produced
it — `read_raw(0, off, size)` succeeds exactly when `off + size ≤ mmap.len()`; beyond the
mapping it is the "Read beyond archive bounds" error that `DynamicContainer::read` reports as a
truncated read. -/
theorem read_ok_iff_mapped (s : Archive.State) (o : Archive.Open) (file : Bytes)
    (ho : s.opn = some o) (hf : s.disk = some file) (off size : Nat) :
    ((∃ b, Archive.readRaw s 0 off size = .ok b) ↔ off + size ≤ o.mapped) ∧
      (o.mapped < off + size → Archive.readRaw s 0 off size = .error .bounds) :=
  ⟨readRaw_ok_iff s o file ho hf off size, readRaw_bounds s o file ho hf off size⟩

/-- **archive_write_read_any_mode.** On a fully mapped archive, for EVERY payload and each of the
three storable BLTE modes (`N`, and `Z` / `4` for a codec whose decompress inverts its compress):
a successful write appends at the end of the file, returns `(0, old length, 30 + |image|,
H(image))`, leaves the archive fully mapped, and `read_content` of the returned location gives
back exactly the payload. -/
theorem archive_write_read_any_mode (P : Archive.Params) (hr : RemapsOnChange P) (hh : HdrLen P)
    (law : Cascette.Proofs.Blte.Lawful P.cd) (s : Archive.State) (hs : ArchOk s) (d : Bytes)
    (m : Cascette.Model.Blte.Mode) (b : Bytes) (hb : Archive.blteOf P.cd d m = .ok b)
    (hsz : (fileOf s).length + Archive.headerSize + b.length < 2 ^ 30) :
    ∃ s', Archive.write P s d m =
        (s', .ok (0, (fileOf s).length, Archive.headerSize + b.length, P.H b)) ∧ ArchOk s' ∧
      Archive.readContent P s' 0 (fileOf s).length (Archive.headerSize + b.length) = .ok d := by
  obtain ⟨s', h1, h2, h3⟩ := write_spec P hr hh s hs d m b hb hsz
  refine ⟨s', h1, h3, ?_⟩
  have hst := stored_new (cd := P.cd) (fileOf s) (P.hdr (P.H b) b.length (fileOf s).length) b d
    (hh _ _ _) (blteOf_good P.cd law d m b hb).1
  have ho : s'.opn = some ⟨(fileOf s ++ (P.hdr (P.H b) b.length (fileOf s).length ++ b)).length,
      (fileOf s ++ (P.hdr (P.H b) b.length (fileOf s).length ++ b)).length⟩ := by
    have := h3
    simp only [ArchOk, h2, Option.map_some] at this
    exact this
  exact readContent_stored P s' _ _ ho h2 _ _ d hst.1 hst

/-! ### DynamicContainer -/

/-- **read_after_writes.** For every remap rule that remaps whenever the size changed, every
header function of 30 bytes, every hash, every update-section capacity ≥ 1 and every history of
writes (any payloads, any sizes in any order), reads of any key with any buffer length, queries,
removes, bucket flushes, flush-all and close + reopen, started on an empty directory: every
response of the container is the response of the map `index key ↦ written bytes` — a read of a
bound key returns exactly the written bytes (cut to the buffer), a key never written or removed is
not found, a query says whether the key is bound; nothing else is ever answered. -/
theorem read_after_writes (P : Archive.Params) (cfg : Lsm.Cfg) (hcap : 1 ≤ cfg.capPages)
    (hr : RemapsOnChange P) (hh : HdrLen P) (ops : List Op)
    (hnz : ∀ op ∈ ops, nz P op) (hb : budget ops < 2 ^ 30) :
    (run P cfg State.init ops).2 =
      ((Store.run Store.Map.empty (ops.map (absOp P))).2).map conc := by
  obtain ⟨A', _, h, _⟩ := run_refines P cfg hcap hr hh ops State.init (fun _ => none) (inv_init P) hnz
    (by simpa [fileOf, State.init, Archive.State.init] using hb)
  exact h

/-- **written_object_read_back** (the property in its own words). In any such history, once
`write d` has happened, a later read under the object's key returns exactly `d` (cut to the
buffer) — immediately, or after any further operations `post` (writes of any sizes, reads,
queries, flushes, reopen) as long as `post` neither removes that key nor writes other bytes whose
hash has the same nine leading bytes. -/
theorem written_object_read_back (P : Archive.Params) (cfg : Lsm.Cfg) (hcap : 1 ≤ cfg.capPages)
    (hr : RemapsOnChange P) (hh : HdrLen P) (pre post : List Op) (d key : Bytes) (buf : Nat)
    (hnz : ∀ op ∈ pre ++ [.write d] ++ post ++ [.read key buf], nz P op)
    (hb : budget (pre ++ [.write d] ++ post ++ [.read key buf]) < 2 ^ 30)
    (hkey : key9 key = keyOf P d)
    (hpost : ∀ op ∈ post, keeps (keyOf P d) d (absOp P op)) :
    (run P cfg State.init (pre ++ [.write d] ++ post ++ [.read key buf])).2.getLast? =
      some (.bytes (d.take buf)) := by
  rw [read_after_writes P cfg hcap hr hh _ hnz hb]
  simp only [List.map_append, List.map_cons, List.map_nil, absOp]
  rw [store_run_append]
  simp only [Store.run, List.map_append, List.map_cons, List.map_nil, List.getLast?_append,
    List.getLast?_singleton, Option.some_or]
  have hm : (Store.run Store.Map.empty
      (pre.map (absOp P) ++ [Store.Op.write (keyOf P d) d] ++ post.map (absOp P))).1 (key9 key) = some d := by
    rw [hkey, store_run_append, store_run_append]
    apply store_keeps
    · simp only [Store.run, Store.step, Store.Map.set, if_true]
    · intro op hop
      simp only [List.mem_map] at hop
      obtain ⟨o, ho, rfl⟩ := hop
      exact hpost o ho
  simp only [Store.step, hm, conc]

/-- **container_content_agnostic.** No hypothesis on the payload: whatever `d` is — empty,
starting with `BLTE`, carrying `BLTE` at 0x1E, a whole BLTE file, an image of a local entry —
after any history, `write d` followed by a read under its key returns `d` (one decode, of the
frame the container itself added). -/
theorem container_content_agnostic (P : Archive.Params) (cfg : Lsm.Cfg) (hcap : 1 ≤ cfg.capPages)
    (hr : RemapsOnChange P) (hh : HdrLen P) (pre : List Op) (d key : Bytes) (buf : Nat)
    (hnz : ∀ op ∈ pre ++ [.write d] ++ [.read key buf], nz P op)
    (hb : budget (pre ++ [.write d] ++ [.read key buf]) < 2 ^ 30)
    (hkey : key9 key = keyOf P d) :
    (run P cfg State.init (pre ++ [.write d] ++ [.read key buf])).2.getLast? =
      some (.bytes (d.take buf)) := by
  have := written_object_read_back P cfg hcap hr hh pre [] d key buf
    (by simpa using hnz) (by simpa using hb) hkey (by intro op h; cases h)
  simpa using this

/-- **truncated_never_for_written.** Along every such history no response is `TruncatedRead`, an
archive error or an index error, no key is ever handed to `mark_span_non_resident`, and after
every history the mapping covers the whole data file and the write position is its end
(`mappedLen = file.length = writePos`). -/
theorem truncated_never_for_written (P : Archive.Params) (cfg : Lsm.Cfg) (hcap : 1 ≤ cfg.capPages)
    (hr : RemapsOnChange P) (hh : HdrLen P) (ops : List Op)
    (hnz : ∀ op ∈ ops, nz P op) (hb : budget ops < 2 ^ 30) :
    (∀ o ∈ (run P cfg State.init ops).2, o ≠ .truncated ∧ o ≠ .indexErr ∧ ∀ e, o ≠ .err e) ∧
      (run P cfg State.init ops).1.marked = [] ∧
      (run P cfg State.init ops).1.ar.opn =
        (run P cfg State.init ops).1.ar.disk.map (fun f => ⟨f.length, f.length⟩) := by
  obtain ⟨A', inv, h, _⟩ := run_refines P cfg hcap hr hh ops State.init (fun _ => none) (inv_init P) hnz
    (by simpa [fileOf, State.init, Archive.State.init] using hb)
  refine ⟨?_, inv.marked, inv.arch⟩
  intro o ho
  rw [h, List.mem_map] at ho
  obtain ⟨x, _, rfl⟩ := ho
  cases x <;> simp [conc]

/-- the code's rule (`new_size != current_size`) satisfies the law the theorems need. -/
theorem remapFixed_remapsOnChange (P : Archive.Params) (h : P.remap = Archive.remapFixed) :
    RemapsOnChange P := remapFixed_ok P h

/-! ### the defect that was repaired (DESIGN.md §8): remap only on > 64 MiB / ×2 growth -/

/-- toy parameters for kernel-evaluated witnesses (the theorems hold for every `H`, `hdr`). -/
def toyPc (remap : Nat → Nat → Bool) (keep : Bool) : Archive.Params :=
  ⟨fun b => b.reverse.take 16, fun _ _ _ => List.replicate 30 0, remap,
    ⟨fun _ _ => none, fun _ _ => none⟩, keep⟩

/-- `create_archive` as the code has it now. -/
def toyP (remap : Nat → Nat → Bool) : Archive.Params := toyPc remap Archive.keepOnCreateNow

/-- Counter-witness for the tree as pinned: write 10 bytes, write 1 byte, read the second object
→ `TruncatedRead`, and its key is marked non-resident; the first object still reads. (The pinned
rule does not satisfy `RemapsOnChange`: 49 → 89 bytes is neither > 64 MiB nor more than double.) -/
theorem read_after_writes_pinned_counterexample :
    let P := toyP Archive.remapPinned
    let d1 : Bytes := List.replicate 10 1
    let d2 : Bytes := [2]
    let r := run P ⟨60, 21⟩ State.init
      [.write d1, .write d2, .read (P.H (blteN d2)) 64, .read (P.H (blteN d1)) 64]
    r.2 = [.ok, .ok, .truncated, .bytes d1] ∧ r.1.marked = [P.H (blteN d2)] := by decide +kernel

/-- the same history on the repaired rule. -/
theorem read_after_writes_fixed_witness :
    let P := toyP Archive.remapFixed
    let d1 : Bytes := List.replicate 10 1
    let d2 : Bytes := [2]
    let r := run P ⟨60, 21⟩ State.init
      [.write d1, .write d2, .read (P.H (blteN d2)) 64, .read (P.H (blteN d1)) 64]
    r.2 = [.ok, .ok, .bytes d2, .bytes d1] ∧ r.1.marked = [] := by decide +kernel

/-- hypotheses of the history theorems are met by a non-trivial history (large then small
write, BLTE-shaped payload, empty payload, remove, flush, reopen). -/
example :
    let P := toyP Archive.remapFixed
    let ops : List Op := [.write (List.replicate 100 7), .write [0x42, 0x4C, 0x54, 0x45, 9], .write [],
      .remove (P.H (blteN [])), .flushAll, .reopen, .read (P.H (blteN [0x42, 0x4C, 0x54, 0x45, 9])) 5]
    RemapsOnChange P ∧ HdrLen P ∧ (∀ op ∈ ops, nz P op) ∧ budget ops < 2 ^ 30 := by
  refine ⟨remapFixed_ok _ rfl, fun _ _ _ => rfl, ?_, by decide⟩
  intro op h
  simp only [List.mem_cons, List.not_mem_nil, or_false] at h
  rcases h with rfl | rfl | rfl | rfl | rfl | rfl | rfl <;> first | trivial | (show keyOf _ _ ≠ 0; decide)

/-! ### Installation -/

/-- **installation_read_eq_written** — the full statement, TRUE of the code after `fix:` 947b84f
(`write_file` saves the index after `add_entry`, as `DynamicContainer::write` does): for every
history of `write_file` (either `compress`) / `read_file_by_encoding_key` / `has_encoding_key` /
close + reopen (drop, `Installation::open`, `initialize()`) / a repeated `initialize()`, started on
an empty directory, every response is the keyed map's (`ispec`: reopen and initialize change
nothing): a read returns exactly the written bytes for EVERY content — immediately, after later
writes of any sizes, through the read cache, and after any number of reopens.  Hypotheses: the
index key of a written object is not the all-zero nine bytes (`inz`, the `.idx` empty slot, C05
finding `reload-loses-all-zero-key`), no two different contents share their nine leading key bytes
(`NoColl`), the data file stays below 1 GiB.  (Not covered: `openOnly`, a session that skips
`initialize()` — see `installation_data_never_lost` and the finding below.) -/
theorem installation_read_eq_written (P : Archive.Params) (cfg : Lsm.Cfg)
    (hcap : 1 ≤ cfg.capPages) (hr : RemapsOnChange P) (hh : HdrLen P) (ops : List IOp)
    (hno : ∀ op ∈ ops, notOpenOnly op) (hnz : ∀ op ∈ ops, inz P op)
    (hcoll : NoColl P (fun d => ∃ c, IOp.write d c ∈ ops))
    (hb : ibudget ops < 2 ^ 30) :
    (irun P cfg IState.init ops).2 = (ispecRun P Store.Map.empty ops).2 := by
  refine irun_refines_d P cfg hcap hr hh _ hcoll ops IState.init (fun _ => none) (iinvd_init P _) ?_
    (by simpa [fileOf, IState.init, Archive.State.init] using hb)
  intro op hop
  refine ⟨hno op hop, hnz op hop, ?_⟩
  cases op with
  | write d c => exact ⟨c, hop⟩
  | _ => trivial

/-- hypotheses of `installation_read_eq_written` are met by a non-trivial history (BLTE-shaped
content, both `compress` values, reads through the cache, two reopens, a repeated initialize). -/
example :
    let P := toyP Archive.remapFixed
    let c : Bytes := blteN [5, 6]
    let ops : List IOp := [.write c true, .read (P.H (blteN c)), .reopen, .read (P.H (blteN c)),
      .write [1, 2, 3] false, .init, .reopen, .has (P.H (blteN c)), .read (P.H (blteN [1, 2, 3]))]
    (∀ op ∈ ops, notOpenOnly op) ∧ (∀ op ∈ ops, inz P op) ∧
      NoColl P (fun d => ∃ x, IOp.write d x ∈ ops) ∧ ibudget ops < 2 ^ 30 ∧
      (irun P ⟨60, 21⟩ IState.init ops).2 = [.key (P.H c), .bytes c, .ok, .bytes c,
        .key (P.H [1, 2, 3]), .ok, .ok, .bool true, .bytes [1, 2, 3]] := by
  refine ⟨?_, ?_, ?_, by decide, by decide +kernel⟩
  · intro op h
    simp only [List.mem_cons, List.not_mem_nil, or_false] at h
    rcases h with rfl | rfl | rfl | rfl | rfl | rfl | rfl | rfl | rfl <;> trivial
  · intro op h
    simp only [List.mem_cons, List.not_mem_nil, or_false] at h
    rcases h with rfl | rfl | rfl | rfl | rfl | rfl | rfl | rfl | rfl <;>
      first | trivial | (show keyOf _ _ ≠ 0; decide)
  · intro d1 d2 ⟨c1, h1⟩ ⟨c2, h2⟩ _
    simp only [List.mem_cons, IOp.write.injEq, List.not_mem_nil, or_false, reduceCtorEq, false_or] at h1 h2
    rcases h1 with ⟨rfl, _⟩ | ⟨rfl, _⟩ <;> rcases h2 with ⟨rfl, _⟩ | ⟨rfl, _⟩ <;>
      first | rfl | (rename_i hk; revert hk; decide)

/-- **installation_written_object_read_back** (the property in its own words, for the
installation). In any such history, once `write_file d` has happened, a later
`read_file_by_encoding_key` under the object's key returns exactly `d` — immediately, or after
any further operations `post`: writes of any sizes and contents, reads, queries, any number of
close + reopen. (No `keeps` hypothesis is needed: the installation has no remove, and `NoColl`
already says that no other content shares the nine key bytes.) -/
theorem installation_written_object_read_back (P : Archive.Params) (cfg : Lsm.Cfg)
    (hcap : 1 ≤ cfg.capPages) (hr : RemapsOnChange P) (hh : HdrLen P) (pre post : List IOp)
    (d : Bytes) (c : Bool) (key : Bytes) (hkey : key9 key = keyOf P d)
    (hno : ∀ op ∈ pre ++ [.write d c] ++ post ++ [.read key], notOpenOnly op)
    (hnz : ∀ op ∈ pre ++ [.write d c] ++ post ++ [.read key], inz P op)
    (hcoll : NoColl P (fun x => ∃ y, IOp.write x y ∈ pre ++ [.write d c] ++ post ++ [.read key]))
    (hb : ibudget (pre ++ [.write d c] ++ post ++ [.read key]) < 2 ^ 30) :
    (irun P cfg IState.init (pre ++ [.write d c] ++ post ++ [.read key])).2.getLast? =
      some (.bytes d) := by
  rw [installation_read_eq_written P cfg hcap hr hh _ hno hnz hcoll hb]
  rw [ispecRun_append]
  have hm : (ispecRun P Store.Map.empty (pre ++ [.write d c] ++ post)).1 (key9 key) = some d := by
    rw [hkey, ispecRun_append, ispecRun_append]
    apply ispec_keeps
    · simp only [ispecRun, ispec, Store.Map.set, if_true]
    · intro d' c' hm hk
      exact hcoll d' d ⟨c', by simp only [List.mem_append]; exact Or.inl (Or.inr hm)⟩
        ⟨c, by simp⟩ hk
  simp only [ispecRun, ispec, hm, List.getLast?_append, List.getLast?_singleton, Option.some_or]

/-- the hypotheses of `installation_written_object_read_back` are met by the same non-trivial
history, cut as `pre ++ [write [1,2,3]] ++ post ++ [read key]` with two reopens in `post`. -/
example :
    let P := toyP Archive.remapFixed
    let c : Bytes := blteN [5, 6]
    let pre : List IOp := [.write c true, .read (P.H (blteN c)), .reopen, .read (P.H (blteN c))]
    let post : List IOp := [.init, .reopen, .has (P.H (blteN c))]
    let ops := pre ++ [IOp.write [1, 2, 3] false] ++ post ++ [.read (P.H (blteN [1, 2, 3]))]
    key9 (P.H (blteN [1, 2, 3])) = keyOf P [1, 2, 3] ∧
    (∀ op ∈ ops, notOpenOnly op) ∧ (∀ op ∈ ops, inz P op) ∧
      NoColl P (fun d => ∃ x, IOp.write d x ∈ ops) ∧ ibudget ops < 2 ^ 30 := by
  refine ⟨rfl, ?_, ?_, ?_, by decide⟩
  · intro op h
    simp only [List.cons_append, List.nil_append, List.mem_cons, List.not_mem_nil, or_false] at h
    rcases h with rfl | rfl | rfl | rfl | rfl | rfl | rfl | rfl | rfl <;> trivial
  · intro op h
    simp only [List.cons_append, List.nil_append, List.mem_cons, List.not_mem_nil, or_false] at h
    rcases h with rfl | rfl | rfl | rfl | rfl | rfl | rfl | rfl | rfl <;>
      first | trivial | (show keyOf _ _ ≠ 0; decide)
  · intro d1 d2 ⟨c1, h1⟩ ⟨c2, h2⟩ _
    simp only [List.cons_append, List.nil_append, List.mem_cons, IOp.write.injEq, List.not_mem_nil,
      or_false, reduceCtorEq, false_or] at h1 h2
    rcases h1 with ⟨rfl, _⟩ | ⟨rfl, _⟩ <;> rcases h2 with ⟨rfl, _⟩ | ⟨rfl, _⟩ <;>
      first | rfl | (rename_i hk; revert hk; decide)

/-- **installation_reopen_loses_index** — PINNED tree (before `fix:` 947b84f; `irunWith false` is
the pinned `write_file`, which never saved the index): write 3 bytes, read them, drop + open +
initialize, and the key is gone, while the keyed map still has it.  The same history on the code
as it is now (`irun`) answers as the map does. -/
theorem installation_reopen_loses_index :
    let P := toyP Archive.remapFixed
    let d : Bytes := [1, 2, 3]
    let k := P.H (blteN d)
    let ops : List IOp := [.write d true, .read k, .reopen, .has k, .read k]
    (irunWith false P ⟨60, 21⟩ IState.init ops).2 =
        [.key (P.H d), .bytes d, .ok, .bool false, .notFound] ∧
      (ispecRun P Store.Map.empty ops).2 = [.key (P.H d), .bytes d, .ok, .bool true, .bytes d] ∧
      (irun P ⟨60, 21⟩ IState.init ops).2 = (ispecRun P Store.Map.empty ops).2 := by
  decide +kernel

/-- **open_then_initialize_is_reopen.** The two-step form of a reopen — drop +
`Installation::open` (`openOnly`), then `initialize()` — reaches exactly the state of the one-step
`reopen` of the theorems above, from every state. -/
theorem open_then_initialize_is_reopen (P : Archive.Params) (cfg : Lsm.Cfg) (s : IState) :
    (istep P cfg (istep P cfg s .openOnly).1 .init).1 = (istep P cfg s .reopen).1 :=
  open_then_initialize_eq_reopen P cfg s

/-- **installation_data_never_lost** (after `fix:` 8767d44). For EVERY history — including
sessions opened WITHOUT `initialize()` (`openOnly`) that go on to write, in any mix with reads,
queries, reopens and initializes — and up to 4 GiB of data: the entry a `write_file d` appended is
still stored, byte for byte, at the location that write returned (offset = length of the file at
that moment, size 30 + 9 + |d|) after everything that follows, and once the archive is opened
(`initialize()`) `read_content` of that location returns exactly `d`.  No later write of any
session shortens or overwrites the data file. -/
theorem installation_data_never_lost (P : Archive.Params) (cfg : Lsm.Cfg)
    (hk : P.keepOnCreate = true) (hr : RemapsOnChange P) (hh : HdrLen P)
    (pre post : List IOp) (d : Bytes) (c : Bool)
    (hb : ibudget (pre ++ [.write d c] ++ post) < 2 ^ 32) :
    let off := (fileOf (irun P cfg IState.init pre).1.ar).length
    let s := (irun P cfg IState.init (pre ++ [.write d c] ++ post)).1
    Stored P.cd (fileOf s.ar) off (Archive.headerSize + 9 + d.length) d ∧
      Archive.readContent P (Archive.reopen s.ar) 0 off (Archive.headerSize + 9 + d.length) = .ok d := by
  intro off s
  rw [ibudget_append, ibudget_append] at hb
  simp only [ibudget, icost] at hb
  have h0 : ArchOk' IState.init.ar := Or.inl rfl
  have hf0 : (fileOf IState.init.ar).length = 0 := rfl
  obtain ⟨a1, _, a3⟩ := irun_keeps_stored P cfg hk hr hh pre IState.init h0 (by rw [hf0]; omega)
  rw [hf0] at a3
  obtain ⟨b1, _, b3, b4⟩ := istep_keeps_stored P cfg hk hr hh (irun P cfg IState.init pre).1 a1
    (.write d c) (by rw [a3]; simp only [icost]; omega)
  obtain ⟨_, c2, _⟩ := irun_keeps_stored P cfg hk hr hh post
    (istep P cfg (irun P cfg IState.init pre).1 (.write d c)).1 b1
    (by rw [b3, a3]; simp only [icost]; omega)
  have hs : s = (irun P cfg (istep P cfg (irun P cfg IState.init pre).1 (.write d c)).1 post).1 := by
    show (irun P cfg IState.init (pre ++ [.write d c] ++ post)).1 = _
    rw [irun_append, irun_append]
    rfl
  have hst : Stored P.cd (fileOf s.ar) off (Archive.headerSize + 9 + d.length) d := by
    rw [hs]; exact c2 _ _ _ (b4 d c rfl)
  refine ⟨hst, ?_⟩
  have hst' : Stored P.cd (fileOf (Archive.reopen s.ar)) off (Archive.headerSize + 9 + d.length) d := hst
  exact read_live' (P := P) (reopen_ok s.ar)
    (⟨0, 0, off, Archive.headerSize + 9 + d.length⟩ : Cascette.Spec.IndexMap.Entry) d rfl hst'

/-- `installation_data_never_lost` applies to a non-trivial history with an un-initialized
session in the middle; there the read of the first object after the final reopen returns it. -/
example :
    let P := toyP Archive.remapFixed
    let a : Bytes := [1, 2, 3]
    let b : Bytes := [4, 5, 7]
    P.keepOnCreate = true ∧ RemapsOnChange P ∧ HdrLen P ∧
      ibudget ([] ++ [IOp.write a true] ++ [.openOnly, .write b true, .reopen]) < 2 ^ 32 ∧
      (irun P ⟨60, 21⟩ IState.init [.write a true, .openOnly, .read (P.H (blteN a)), .write b true,
        .reopen, .read (P.H (blteN a)), .read (P.H (blteN b))]).2 =
        [.key (P.H a), .ok, .notFound, .key (P.H b), .ok, .bytes a, .bytes b] := by
  refine ⟨rfl, remapFixed_ok _ rfl, fun _ _ _ => rfl, by decide, by decide +kernel⟩

/-- **uninitialized_write_truncated_pinned** — PINNED tree (before `fix:` 8767d44;
`keepOnCreate = false` is the pinned `create_archive` = `File::create`): write `a`, drop +
`Installation::open` WITHOUT `initialize()`, write `b` of the same size — `data.000` is truncated
and `b` lands at offset 0 — then after a proper reopen the key of `a` reads back as the bytes of
`b`: a successful read of other bytes.  (Evaluated with the index persisted, i.e. on top of
947b84f; on the pinned `write_file` the key of `a` is simply gone.) -/
theorem uninitialized_write_truncated_pinned :
    let P := toyPc Archive.remapFixed false
    let a : Bytes := [1, 2, 3]
    let b : Bytes := [4, 5, 7]
    (irun P ⟨60, 21⟩ IState.init [.write a true, .openOnly, .write b true, .reopen,
        .read (P.H (blteN a)), .read (P.H (blteN b))]).2 =
      [.key (P.H a), .ok, .key (P.H b), .ok, .bytes b, .bytes b] := by decide +kernel

/-- the same at the archive level, for every file and payload: the pinned `create_archive`
leaves a data file that holds ONLY the new entry, at offset 0. -/
theorem archive_write_without_open_truncated_pinned (P : Archive.Params)
    (hk : P.keepOnCreate = false) (file d : Bytes) (m : Cascette.Model.Blte.Mode) (b : Bytes)
    (hb : Archive.blteOf P.cd d m = .ok b) (hsz : Archive.headerSize + b.length < 2 ^ 32) :
    ∃ s', Archive.write P ⟨some file, none⟩ d m = (s', .ok (0, 0, Archive.headerSize + b.length, P.H b)) ∧
      s'.disk = some (P.hdr (P.H b) b.length 0 ++ b) :=
  write_truncates_pinned P hk file d m b hb hsz

/-- **archive_write_without_open_appends** (the code now). A write through an `ArchiveManager`
that has NOT run `open_all` (nothing open, `data.000` holding any bytes) appends
`header ‖ image` at the end of the existing file, returns its old length as offset, and leaves
the archive open on the whole file — for every file, payload and storable mode, up to 4 GiB. -/
theorem archive_write_without_open_appends (P : Archive.Params) (hk : P.keepOnCreate = true)
    (hr : RemapsOnChange P) (hh : HdrLen P) (file d : Bytes) (m : Cascette.Model.Blte.Mode) (b : Bytes)
    (hb : Archive.blteOf P.cd d m = .ok b)
    (hsz : file.length + Archive.headerSize + b.length < 2 ^ 32) :
    ∃ s', Archive.write P (Archive.dropOpen ⟨some file, none⟩) d m =
        (s', .ok (0, file.length, Archive.headerSize + b.length, P.H b)) ∧
      s'.disk = some (file ++ (P.hdr (P.H b) b.length file.length ++ b)) ∧ ArchOk s' :=
  write_append P hk hr hh _ (dropOpen_ok' _) d m b hb hsz

/-- the hypotheses of the two archive-level theorems are satisfiable (a 3-byte payload on a
40-byte file, mode `N`). -/
example :
    let d : Bytes := [1, 2, 3]
    let file : Bytes := List.replicate 40 9
    (toyPc Archive.remapFixed false).keepOnCreate = false ∧ (toyP Archive.remapFixed).keepOnCreate = true ∧
      RemapsOnChange (toyP Archive.remapFixed) ∧ HdrLen (toyP Archive.remapFixed) ∧
      Archive.blteOf (toyP Archive.remapFixed).cd d .none = .ok (blteN d) ∧
      file.length + Archive.headerSize + (blteN d).length < 2 ^ 32 :=
  ⟨rfl, rfl, remapFixed_ok _ rfl, fun _ _ _ => rfl, blteOf_none _ _, by decide⟩

/-- **uninitialized_write_replaces_bucket** — finding
`installation-uninitialized-write-replaces-bucket`, the code as it is now: write `a`, drop +
`Installation::open` WITHOUT `initialize()`, write `b` whose key falls into the same index bucket
(here bucket 11 for both): the un-initialized instance holds an empty index, `write_file` saves a
bucket file with `b` alone over the file that held `a`, and after `initialize()` / a proper reopen
the key of `a` is not found — although its bytes are still in `data.000`
(`installation_data_never_lost`).  The keyed map answers `bytes a`. -/
theorem uninitialized_write_replaces_bucket :
    let P := toyP Archive.remapFixed
    let a : Bytes := [1, 2, 3]
    let b : Bytes := [3, 2, 1]
    let ops : List IOp := [.write a true, .openOnly, .write b true, .init, .read (P.H (blteN a)),
      .reopen, .has (P.H (blteN a)), .read (P.H (blteN b))]
    Cascette.Spec.IndexMap.bucketOf (keyOf P a) = Cascette.Spec.IndexMap.bucketOf (keyOf P b) ∧
      (irun P ⟨60, 21⟩ IState.init ops).2 =
        [.key (P.H a), .ok, .key (P.H b), .ok, .notFound, .ok, .bool false, .bytes b] ∧
      (ispecRun P Store.Map.empty ops).2 =
        [.key (P.H a), .ok, .key (P.H b), .ok, .bytes a, .ok, .bool true, .bytes b] := by
  decide +kernel

/-- **installation_read_eq_written_partial** (kept from before `fix:` 947b84f; it needs neither
the non-zero-key hypothesis nor anything about persistence). Without reopen the statement holds: for every
history of `write_file` (either value of `compress`) / `read_file_by_encoding_key` /
`has_encoding_key` in which no two different contents share the nine leading key bytes (the
installation caches by full key, so a colliding rewrite would be served stale), every response is
the keyed map's: a read returns exactly the written bytes for EVERY content — also through the
read cache — and `write_file` returns `H(data)` as content key. -/
theorem installation_read_eq_written_partial (P : Archive.Params) (cfg : Lsm.Cfg)
    (hcap : 1 ≤ cfg.capPages) (hr : RemapsOnChange P) (hh : HdrLen P) (ops : List IOp)
    (hnr : ∀ op ∈ ops, notReopen op)
    (hcoll : NoColl P (fun d => ∃ c, IOp.write d c ∈ ops))
    (hb : ibudget ops < 2 ^ 30) :
    (irun P cfg IState.init ops).2 = (ispecRun P Store.Map.empty ops).2 := by
  refine irun_refines P cfg hcap hr hh _ hcoll ops IState.init (fun _ => none) (iinv_init P _) ?_
    (by simpa [fileOf, IState.init, Archive.State.init] using hb)
  intro op hop
  refine ⟨hnr op hop, ?_⟩
  cases op with
  | write d c => exact ⟨c, hop⟩
  | _ => trivial

/-- hypotheses of the partial theorem are met by a non-trivial history (the same BLTE-shaped
content written twice with both `compress` values, read through the cache). -/
example :
    let P := toyP Archive.remapFixed
    let c : Bytes := blteN [5, 6]
    let ops : List IOp := [.write c true, .read (P.H (blteN c)), .write c false, .read (P.H (blteN c))]
    (∀ op ∈ ops, notReopen op) ∧ NoColl P (fun d => ∃ x, IOp.write d x ∈ ops) ∧ ibudget ops < 2 ^ 30 := by
  refine ⟨?_, ?_, by decide⟩
  · intro op h
    simp only [List.mem_cons, List.not_mem_nil, or_false] at h
    rcases h with rfl | rfl | rfl | rfl <;> trivial
  · intro d1 d2 ⟨c1, h1⟩ ⟨c2, h2⟩ _
    simp only [List.mem_cons, IOp.write.injEq, List.not_mem_nil, or_false, reduceCtorEq, false_or] at h1 h2
    rcases h1 with ⟨rfl, _⟩ | ⟨rfl, _⟩ <;> rcases h2 with ⟨rfl, _⟩ | ⟨rfl, _⟩ <;> rfl

/-- Counter-witness for the tree as pinned (repaired by `fix:` b10f99e): `Installation` applied
`decode_blte` to what `read_content` had already decoded.  Content that is itself a single-chunk
BLTE file with a 40-byte payload — 49 bytes — came back as the 40 inner bytes. -/
theorem installation_double_decode_pinned_witness :
    let cd : Cascette.Model.Blte.Codec := ⟨fun _ _ => none, fun _ _ => none⟩
    let inner : Bytes := List.replicate 40 7
    (blteN inner).length = 49 ∧ inner.length = 40 ∧
      (match decodeBlteSecond cd (blteN inner) with
        | .ok b => b == inner
        | .error _ => false) = true := by
  decide +kernel

/-- the same content on the repaired code: written, read back unchanged (49 bytes), twice. -/
theorem installation_blte_shaped_fixed_witness :
    let P := toyP Archive.remapFixed
    let c : Bytes := blteN (List.replicate 40 7)
    (irun P ⟨60, 21⟩ IState.init [.write c false, .read (P.H (blteN c)), .read (P.H (blteN c))]).2 =
      [.key (P.H c), .bytes c, .bytes c] := by
  decide +kernel

/-! ### size and offset limits (what happens at 2^30, 2^32, 256 GiB) -/

/-- **write_limits_are_placeAt.** On an open archive, for every file content, payload and mode:
the result of `write_content_with_mode` is the arithmetic `placeAt pos |image|` — an error class,
or the write position as offset with `30 + |image|` as size — and the entry is written and the
position advanced exactly when `placeAtWrites` holds (also when the late `u32::try_from(offset)`
then fails: the bytes are in the file, the caller gets an error).  `placeAt` checks 2^32 (sizes and
offset) and 256 GiB (− 100 MiB); nothing else. -/
theorem write_limits_are_placeAt (P : Archive.Params) (s : Archive.State) (o : Archive.Open)
    (file : Bytes) (ho : s.opn = some o) (hf : s.disk = some file) (d : Bytes)
    (m : Cascette.Model.Blte.Mode) (b : Bytes) (hb : Archive.blteOf P.cd d m = .ok b) :
    (Archive.write P s d m).2 = (Archive.placeAt o.pos b.length).map (fun r => (0, r.1, r.2, P.H b)) ∧
      (Archive.write P s d m).1.opn.map (·.pos) =
        some (if Archive.placeAtWrites o.pos b.length then o.pos + (Archive.headerSize + b.length)
          else o.pos) :=
  ⟨write_result_eq_placeAt P s o file ho hf d m b hb, write_advances_iff P s o file ho hf d m b hb⟩

/-- **no_limit_at_1GiB.** For every write position from 2^30 up to 2^32 and every image below
2 GiB the write is accepted at that position: no error, no roll-over to `data.001`, no wrap — the
returned offset does not fit the 30-bit offset field of an `.idx` record. -/
theorem no_limit_at_1GiB (pos blteLen : Nat) (h1 : 2 ^ 30 ≤ pos) (h2 : pos < 2 ^ 32)
    (h3 : blteLen < 2 ^ 31) :
    Archive.placeAt pos blteLen = .ok (pos, Archive.headerSize + blteLen) ∧ ¬ pos < 2 ^ 30 :=
  placeAt_no_limit_at_1GiB pos blteLen h1 h2 h3

/-- the hypotheses of `no_limit_at_1GiB` are satisfiable, and the other limits of `placeAt` are
where the code has them (test by evaluation): offset 2^32 → error after writing; position at
256 GiB − 100 MiB → archive 0 is no longer selected. -/
example :
    Archive.placeAt (2 ^ 30) 100 = .ok (2 ^ 30, 130) ∧
      Archive.placeAt (2 ^ 32 - 1) 100 = .ok (2 ^ 32 - 1, 130) ∧
      Archive.placeAt (2 ^ 32) 100 = .error .tooLarge ∧ Archive.placeAtWrites (2 ^ 32) 100 = true ∧
      Archive.placeAt (Archive.maxArchive - Archive.writeReserve) 100 = .error .rollover ∧
      Archive.placeAtWrites (Archive.maxArchive - Archive.writeReserve) 100 = false :=
  ⟨by rfl, by rfl, by rfl, by decide, by rfl, by decide⟩

/-- **idx_offset_cut_to_30_bits.** What `write_archive_location` + `parse_archive_location` keep
of ANY archive id and offset: the low 10 bits of the id and the low 30 bits of the offset. -/
theorem idx_offset_cut_to_30_bits (id off : Nat) :
    Lsm.unpackLoc (Lsm.packLoc id off) = some (id % 1024, off % 2 ^ 30) :=
  unpack_pack_any id off

/-- **offset_past_1GiB_wraps_after_reopen** — finding `dyn-offset-beyond-1GiB-wraps-after-reopen`.
A `DynamicContainer` opened on a directory whose `data.000` is ANY `file` (and no index file):
`write d` succeeds for every file length up to 4 GiB, the entry is appended at offset
`file.length` — and after close + reopen the index answers the object's key with offset
`file.length % 2^30`.  So for `file.length ≥ 2^30` the reopened container looks for the object
`2^30·⌊file.length / 2^30⌋` bytes before the place where it is stored. -/
theorem offset_past_1GiB_wraps_after_reopen (P : Archive.Params) (cfg : Lsm.Cfg)
    (hcap : 1 ≤ cfg.capPages) (hr : RemapsOnChange P) (hh : HdrLen P) (file d : Bytes)
    (hsz : file.length + (Archive.headerSize + 9 + d.length) < 2 ^ 32) :
    (run P cfg (onFile file) [.write d, .reopen]).2 = [.ok, .ok] ∧
      Lsm.lookup (run P cfg (onFile file) [.write d, .reopen]).1.ix (keyOf P d) =
        some ⟨keyOf P d, 0, file.length % 2 ^ 30, Archive.headerSize + 9 + d.length⟩ ∧
      fileOf (run P cfg (onFile file) [.write d, .reopen]).1.ar =
        file ++ (P.hdr (P.H (blteN d)) (blteN d).length file.length ++ blteN d) :=
  dyn_write_reopen_lookup P cfg hcap hr hh file d hsz

/-- the hypotheses of `offset_past_1GiB_wraps_after_reopen` hold for a data file of 2^30 + 5
bytes (never evaluated: only its length is used), where the conclusion says offset 5; and those
of `write_limits_are_placeAt` for the archive open on it. -/
example :
    let P := toyP Archive.remapFixed
    let file : Bytes := List.replicate (2 ^ 30 + 5) 0
    let d : Bytes := [1, 2, 3]
    RemapsOnChange P ∧ HdrLen P ∧ file.length + (Archive.headerSize + 9 + d.length) < 2 ^ 32 ∧
      file.length % 2 ^ 30 = 5 ∧
      (onFile file).ar.opn = some ⟨file.length, file.length⟩ ∧ (onFile file).ar.disk = some file ∧
      Archive.blteOf P.cd d .none = .ok (blteN d) := by
  refine ⟨remapFixed_ok _ rfl, fun _ _ _ => rfl, ?_, ?_, rfl, rfl, blteOf_none _ _⟩
  · simp only [List.length_replicate]; decide
  · simp only [List.length_replicate]

/-- the index half alone, evaluated by the kernel: add an entry at offset 2^30 + 5, `save_all`,
restart, look it up → offset 5. -/
theorem idx_offset_wrap_witness :
    Lsm.lookup (Lsm.reload (Lsm.saveAll (Lsm.step ⟨60, 21⟩ Lsm.State.init (.add 77 0 (2 ^ 30 + 5) 39)).1)) 77 =
      some ⟨77, 0, 5, 39⟩ := by decide +kernel

/-! ### the driver's tabulated steps -/

/-- **tabulated_steps_are_the_model.** The correspondence driver stores the index manager's
bucket tables after each operation (`Container.stepT` / `istepT`: `tabMem`, `tabDisk`) so that
histories of thousands of operations on one bucket stay linear; for EVERY state and operation
these are exactly `Container.step` / `istep` — the driver runs the model the theorems above are
about, nothing else. -/
theorem tabulated_steps_are_the_model (P : Archive.Params) (cfg : Lsm.Cfg) :
    (∀ s, tabMem s = s) ∧ (∀ s, tabDisk s = s) ∧
      (∀ s op, stepT P cfg s op = step P cfg s op) ∧
      (∀ s op, istepT P cfg s op = istep P cfg s op) := by
  have hm : ∀ s, tabMem s = s := by
    intro s
    cases s with
    | mk mem disk =>
      unfold tabMem
      simp only [Lsm.State.mk.injEq, and_true]
      funext b
      split
      · simp
      · rfl
  have hd : ∀ s, tabDisk s = s := by
    intro s
    cases s with
    | mk mem disk =>
      unfold tabDisk
      simp only [Lsm.State.mk.injEq, true_and]
      funext b
      split
      · simp
      · rfl
  refine ⟨hm, hd, ?_, ?_⟩
  · intro s op
    cases op <;> simp only [stepT, hm, hd]
  · intro s op
    cases op <;> simp only [istepT, hm, hd]

/-- **chunked_steps_are_the_model.** For the `dyn` / `inst` streams the correspondence driver
keeps the data file as the list of the pieces it was written in, with its length
(Model/ArchiveChunked: an append is then O(piece) instead of O(file), which is what lets ONE case
carry the some 3 700 / 7 400 writes that take an index bucket's sorted section past the 64 KiB /
128 KiB alignment boundary of its `.idx` file).  `abs` flattens the pieces.  For EVERY state whose
length field is right and EVERY operation, the driver's step (`stepTC` / `istepTC`), flattened, is
`Container.step` / `istep` of the flattened state, with the same output, and the length field
stays right; the initial state qualifies.  Hence for EVERY history the outputs the driver prints
(`runTC` / `irunTC` from the initial state) are exactly those of `Container.run` / `irun` — the
driver runs the model the theorems above are about, on another representation of the same file. -/
theorem chunked_steps_are_the_model (P : Archive.Params) (cfg : Lsm.Cfg) :
    (∀ (s : Container.CState) op, s.ar.Wf →
      (stepTC P cfg s op).1.abs = (step P cfg s.abs op).1 ∧
        (stepTC P cfg s op).2 = (step P cfg s.abs op).2 ∧ (stepTC P cfg s op).1.ar.Wf) ∧
    (∀ (s : Container.CIState) op, s.ar.Wf →
      (istepTC P cfg s op).1.abs = (istep P cfg s.abs op).1 ∧
        (istepTC P cfg s op).2 = (istep P cfg s.abs op).2 ∧ (istepTC P cfg s op).1.ar.Wf) ∧
    (∀ ops, (runTC P cfg Container.CState.init ops).2 = (run P cfg State.init ops).2) ∧
    (∀ ops, (irunTC P cfg Container.CIState.init ops).2 = (irun P cfg IState.init ops).2) := by
  obtain ⟨hm, hd, _, _⟩ := tabulated_steps_are_the_model P cfg
  have e1 : ∀ (s : Container.CState) op, stepTC P cfg s op = stepC P cfg s op := by
    intro s op
    cases op <;> simp only [stepTC, hm, hd]
  have e2 : ∀ (s : Container.CIState) op, istepTC P cfg s op = istepC P cfg s op := by
    intro s op
    cases op <;> simp only [istepTC, hm, hd]
  have h1 : ∀ (s : Container.CState) op, s.ar.Wf →
      (stepTC P cfg s op).1.abs = (step P cfg s.abs op).1 ∧
        (stepTC P cfg s op).2 = (step P cfg s.abs op).2 ∧ (stepTC P cfg s op).1.ar.Wf := by
    intro s op hs
    rw [e1]
    exact Cascette.Proofs.ArchiveChunked.stepC_sim P cfg s hs op
  have h2 : ∀ (s : Container.CIState) op, s.ar.Wf →
      (istepTC P cfg s op).1.abs = (istep P cfg s.abs op).1 ∧
        (istepTC P cfg s op).2 = (istep P cfg s.abs op).2 ∧ (istepTC P cfg s op).1.ar.Wf := by
    intro s op hs
    rw [e2]
    exact Cascette.Proofs.ArchiveChunked.istepC_sim P cfg s hs op
  have r1 : ∀ ops (s : Container.CState), s.ar.Wf →
      (runTC P cfg s ops).2 = (run P cfg s.abs ops).2 := by
    intro ops
    induction ops with
    | nil => intro s _; rfl
    | cons op ops ih =>
      intro s hs
      obtain ⟨ha, ho, hw⟩ := h1 s op hs
      simp only [runTC, run]
      rw [ih _ hw, ha, ho]
  have r2 : ∀ ops (s : Container.CIState), s.ar.Wf →
      (irunTC P cfg s ops).2 = (irun P cfg s.abs ops).2 := by
    intro ops
    induction ops with
    | nil => intro s _; rfl
    | cons op ops ih =>
      intro s hs
      obtain ⟨ha, ho, hw⟩ := h2 s op hs
      simp only [irunTC, irun]
      rw [ih _ hw, ha, ho]
  exact ⟨h1, h2, fun ops => r1 ops _ Cascette.Proofs.ArchiveChunked.init_wf,
    fun ops => r2 ops _ Cascette.Proofs.ArchiveChunked.init_wf⟩

/-- test (kernel-evaluated), the path the fill cases of the run drive through the real container:
an update section of ONE page of TWO entries, three keys of bucket 1 (1, 16, 256) added with
`save_all` after each as `DynamicContainer::write` does; the third `add` finds the section full
(implicit flush of the bucket, then retry).  After a restart all three — in particular the one
that overflowed, which is the only pending entry — are found. -/
theorem update_section_overflow_entry_survives_reopen_witness :
    let cfg : Lsm.Cfg := ⟨1, 2⟩
    let w := fun (s : Lsm.State) (k : Nat) => Lsm.saveAll (Lsm.step cfg s (.add k 0 (39 * k) 39)).1
    let s := Lsm.reload (w (w (w Lsm.State.init 1) 16) 256)
    ((s.mem 1).map fun b => (b.sorted.length, b.log.length)) = some (2, 1) ∧
      Lsm.lookup s 1 = some ⟨1, 0, 39, 39⟩ ∧ Lsm.lookup s 16 = some ⟨16, 0, 624, 39⟩ ∧
      Lsm.lookup s 256 = some ⟨256, 0, 9984, 39⟩ := by decide +kernel

end Cascette.Props.C04
