/-
Props/C17 — "The LRU tracker keeps recency order and its full capacity over any history".

Layers (DESIGN.md §6 C17):
* `Spec.Lru`      the textbook LRU (a recency list and a capacity) with checkpoints;
* `Model.LruSeq`  the code's slot accounting over the key sequence (free-slot COUNT, eviction
                  inside `touch`, public `evict_tail`/`evict_to_target`, `is_active` on reload and
                  in `for_each_entry`) — the theorems below are about this layer, for ALL histories;
* `Model.LruPtr`  the code as written (entry array, prev/next, free list, key map, file codec) —
                  executable, tied to the Rust on every run (correspondence leg); PROVED to refine
                  `LruSeq` (representation invariant + forward simulation, `Proofs/LruRefine`):
                  for every history without a reload on ALL keys, and for EVERY history (through
                  the real codec and the `is_active` rebuild of `load_from_disk` / `run_cycle`) on
                  9-byte keys other than the all-zero key (`ptr_*` theorems at the end of this
                  file).  What stays differential at pointer level: histories that reload after
                  touching the all-zero key (the recorded finding; there the structure is corrupt).

Both models are of the code AFTER the two `fix:` commits recorded in KNOWN_FINDINGS.txt
(`evict_tail` gives its slot back; `checkpoint_to_disk` never deletes the file it just wrote).
What is still false on the tree — the all-zero key is indistinguishable from an empty slot — is
stated, refuted by a kernel-checked witness, and proved under the explicit hypothesis.
-/
import Cascette.Proofs.Lru
import Cascette.Proofs.LruPtr
import Cascette.Proofs.LruRefine
import Cascette.Proofs.LruPersist
namespace Cascette.Props.C17
open Cascette
open Cascette.Spec.Lru
open Cascette.Model
open Cascette.Model.LruSeq (Seq)
open Cascette.Proofs.Lru
open Cascette.Proofs.LruRefine

variable {κ : Type} [DecidableEq κ]

/-- C17 for one history: every result the manager returns, its recency order (internal and as
`for_each_entry` reports it), its length and its membership answers are those of a textbook LRU
of the same capacity run on the same history. -/
def RefinesTextbook (zero : κ) (cap : Nat) (ops : List (Op κ)) : Prop :=
  let m := LruSeq.run zero (Seq.init cap) ops
  let t := Spec.Lru.run (Store.init cap) ops
  m.2 = t.2 ∧ m.1.order = t.1.order ∧ m.1.iter zero = t.1.order ∧ m.1.len = t.1.len ∧
    ∀ k, m.1.contains k = t.1.contains k

/-- FULL STATEMENT (`lru_refines_textbook`): `∀ zero cap ops, RefinesTextbook zero cap ops`.
It is FALSE on the tree: a checkpointed all-zero key does not come back (cap 1: touch 0,
checkpoint, load 1 — `contains` is false, the textbook LRU still has the key).  Kernel-checked. -/
theorem lru_refines_textbook_counter :
    ¬ (∀ (z : Nat) (cap : Nat) (ops : List (Op Nat)), RefinesTextbook z cap ops) := by
  intro h
  have := (h 0 1 [.touch 0, .checkpoint, .load 1]).2.2.2.1
  revert this
  decide

/-- second shape of the same finding, without any reload: `for_each_entry` omits the all-zero key
(cap 1: touch 0 — the table holds the key, the iteration is empty). -/
theorem lru_iter_zero_key_counter : ¬ RefinesTextbook (0 : Nat) 1 [.touch 0] := by
  intro h
  have := h.2.2.1
  revert this
  decide

/-- PROVED PART, all histories: if the all-zero key is never touched, the manager is a textbook
LRU — results, recency order, iteration, length and membership, through any interleaving of
touch / remove / evict_tail / evict_to_target / bump / checkpoint / load / run_cycle / reset /
reopen, any capacity (0 included), any key type. -/
theorem lru_refines_textbook_partial (zero : κ) (cap : Nat) (ops : List (Op κ))
    (hz : Op.touch zero ∉ ops) : RefinesTextbook zero cap ops := by
  have hr := run_refines zero ops (inv_init cap) (noZero_init zero cap) hz
  have hnz := run_noZero zero ops (noZero_init zero cap) hz
  have habs : (abs (Seq.init cap : Seq κ)) = Store.init cap := rfl
  rw [habs] at hr
  simp only [RefinesTextbook, hr]
  refine ⟨trivial, rfl, ?_, rfl, fun _ => rfl⟩
  exact filter_ne_zero hnz.order

/-- PROVED PART, all keys (the all-zero key included): as long as the history does not read a
checkpoint back (`load` / `run_cycle`), results, recency order, length and membership are the
textbook LRU's; only `for_each_entry` differs, by exactly the zero key. -/
theorem lru_refines_textbook_no_reload (zero : κ) (cap : Nat) (ops : List (Op κ))
    (hops : ∀ op ∈ ops, isReload op = false) :
    let m := LruSeq.run zero (Seq.init cap) ops
    let t := Spec.Lru.run (Store.init cap) ops
    m.2 = t.2 ∧ m.1.order = t.1.order ∧ m.1.len = t.1.len ∧ (∀ k, m.1.contains k = t.1.contains k) ∧
      m.1.iter zero = t.1.order.filter (fun k => k ≠ zero) := by
  have hr := run_refines_noReload zero ops (inv_init cap) hops
  have habs : (abs (Seq.init cap : Seq κ)) = Store.init cap := rfl
  rw [habs] at hr
  simp only [hr]
  exact ⟨trivial, rfl, rfl, fun _ => rfl, rfl⟩

/-- the manager never holds more entries than its capacity — every history, every key. -/
theorem len_le_cap (zero : κ) (cap : Nat) (ops : List (Op κ)) :
    (LruSeq.run zero (Seq.init cap) ops).1.len ≤ cap := by
  have h := (run_inv zero ops (inv_init (κ := κ) cap)).slots
  rw [run_cap] at h
  simp only [Seq.len]
  have : (Seq.init cap : Seq κ).cap = cap := rfl
  omega

/-- the manager never loses (or invents) capacity — every history, every key: entries held plus
free slots is the capacity, so "no free slot" means "really full".  This is the statement the
pinned tree violated (`evict_tail` / `evict_to_target` dropped the slot; fixed). -/
theorem no_capacity_loss (zero : κ) (cap : Nat) (ops : List (Op κ)) :
    let s := (LruSeq.run zero (Seq.init cap) ops).1
    s.len + s.free = cap ∧ (s.free = 0 ↔ s.len = cap) := by
  have h := (run_inv zero ops (inv_init (κ := κ) cap)).slots
  rw [run_cap] at h
  have : (Seq.init cap : Seq κ).cap = cap := rfl
  simp only [Seq.len]
  omega

/-- after ANY history, touching ANY key (capacity at least one) succeeds and leaves that key
present and most recent. -/
theorem touch_present_mru (zero : κ) (cap : Nat) (ops : List (Op κ)) (k : κ) (hcap : 0 < cap) :
    let s := (LruSeq.run zero (Seq.init cap) ops).1
    let r := LruSeq.step zero s (.touch k)
    r.2 = .bool true ∧ r.1.contains k = true ∧ r.1.order.getLast? = some k := by
  have hinv := run_inv zero ops (inv_init (κ := κ) cap)
  have hc : 0 < (LruSeq.run zero (Seq.init cap) ops).1.cap := by rw [run_cap]; exact hcap
  obtain ⟨h1, h2, h3⟩ := Proofs.Lru.touch_present_mru k hinv hc
  simp only [LruSeq.step, h1, h3, Seq.contains, h2, decide_true, and_self]

/-- C17's reload clause for one reachable state: checkpoint, then reload of the same generation,
gives the recency order (and the slot count) back. -/
def ReloadId (zero : κ) (cap : Nat) (ops : List (Op κ)) : Prop :=
  let s := (LruSeq.run zero (Seq.init cap) ops).1
  let s1 := (LruSeq.step zero s .checkpoint).1
  let r := LruSeq.step zero s1 (.load s.gen)
  r.2 = .ok ∧ r.1.order = s.order ∧ r.1.free = s.free

/-- FULL STATEMENT (`reload_id`): `∀ zero cap ops, ReloadId zero cap ops` — FALSE on the tree for
the all-zero key (`LruFileEntry::is_active` drops it).  Kernel-checked witness. -/
theorem reload_id_counter : ¬ (∀ (z cap : Nat) (ops : List (Op Nat)), ReloadId z cap ops) := by
  intro h
  have := (h 0 2 [.touch 7, .touch 0]).2.1
  revert this
  decide

/-- PROVED PART: after any history, with any key type, whenever the all-zero key is not in the
table, checkpoint + reload is the identity (whatever `bump`/`load` did to the generation counters
before — this needs the second `fix:`; before it a checkpoint taken with
`prev_generation = generation` deleted itself). -/
theorem reload_id_partial (zero : κ) (cap : Nat) (ops : List (Op κ))
    (hz : zero ∉ (LruSeq.run zero (Seq.init cap) ops).1.order) : ReloadId zero cap ops := by
  have hinv := run_inv zero ops (inv_init (κ := κ) cap)
  obtain ⟨h1, h2, h3, _⟩ := Proofs.Lru.reload_id zero hinv hz
  exact ⟨h1, h2, h3⟩

/-- `run_cycle` never fails on a directory whose files were written by `checkpoint_to_disk`: the
generation `find_latest_lru_file` picks is that of an existing file (model level). -/
theorem latest_is_loadable {σ : Type} (fs : Files σ) (g : Nat) (h : Files.latest fs = some g) :
    ∃ v, Files.lookup fs g = some v := latest_lookup h

/-- the `.lru` codec of `lru_file.rs`: `deserialize (serialize h es) = (h, es)` up to the hash
field, for every 16-byte hash function, every header with version ≤ 1 and `u32` indices, every
entry array whose fields fit their on-disk widths.  (Pointer-level model.) -/
theorem lru_file_codec_roundtrip (md5 : Bytes → Bytes) (hmd5 : ∀ x, (md5 x).length = 16)
    (h : LruPtr.Header) (es : List LruPtr.Entry)
    (hv : h.version ≤ 1) (hh : h.head < 2 ^ 32) (ht : h.tail < 2 ^ 32)
    (hes : ∀ e ∈ es, Proofs.LruPtr.Entry.Fits e) :
    LruPtr.deserialize md5 (LruPtr.serialize md5 h es) =
      some ({ h with hash := md5 (LruPtr.headerBytes h LruPtr.zeros16 ++ LruPtr.bodyBytes es) }, es) :=
  Proofs.LruPtr.codec_roundtrip md5 hmd5 h es hv hh ht hes

/-- the zero-key finding on the pointer-level model (the code as written, through the real file
codec): capacity 2, touch a non-zero key, touch the all-zero key, checkpoint, load generation 1 —
the history runs without panic, the table then holds ONE key and does not contain the zero key.
Kernel-checked. -/
theorem ptr_zero_key_reload_witness :
    (LruPtr.run (fun _ => LruPtr.zeros16) (LruPtr.Ptr.init 2)
        [.touch (List.replicate 9 7), .touch LruPtr.zeroKey, .checkpoint, .load 1]).map
      (fun r => (r.2, LruPtr.len r.1, LruPtr.contains r.1 LruPtr.zeroKey, LruPtr.contains r.1 (List.replicate 9 7)))
    = some ([.bool true, .bool true, .ok, .ok], 1, false, true) := by
  decide

/-! hypotheses are satisfiable by non-trivial instances (these are tests, not theorems) -/

/-- a history that fills, evicts through the public calls, refills past capacity, checkpoints,
bumps, reloads and runs a cycle — no zero key, so `lru_refines_textbook_partial` applies — and
what the model answers on it. -/
example : Op.touch 0 ∉ ([.touch 1, .touch 2, .evictTo 2 1, .touch 3, .touch 4, .touch 5, .checkpoint,
    .bump, .remove 4, .load 1, .runCycle 1 1] : List (Op Nat)) := by decide

example : (LruSeq.run 0 (Seq.init 2) ([.touch 1, .touch 2, .evictTo 2 1, .touch 3, .touch 4, .touch 5,
    .checkpoint, .bump, .remove 4, .load 1, .runCycle 1 1] : List (Op Nat))).2 =
    [.bool true, .bool true, .evicted 2 2, .bool true, .bool true, .bool true, .ok, .ok, .bool true, .ok,
     .cycle 2 1 1 1] := by decide

/-- the pinned tree's defect, as a test on the fixed model: capacity 4, fill, evict 4, touch. -/
example : (LruSeq.run 0 (Seq.init 4) ([.touch 1, .touch 2, .touch 3, .touch 4, .evictTo 4 1, .touch 5] :
    List (Op Nat))).2.getLast? = some (.bool true) := by decide

/-! ## the pointer layer (the code as written) -/

/-- histories of the in-memory operations and the write side of persistence: everything except
reading a checkpoint back (`load_from_disk`, `run_cycle`). -/
def NoReload (ops : List (Op LruPtr.Key)) : Prop := ∀ op ∈ ops, isReload op = false

/-- REFINEMENT pointer layer → sequence layer, all histories without a reload, all keys (the
all-zero key included), every capacity that fits the `u32` field, every hash function: the
entry-array / prev / next / free-list / key-map code NEVER indexes out of range and NEVER
exhausts the fuel of its two `while` loops (`run = some …`), returns exactly the results of the
sequence model, and ends in a state satisfying the representation invariant `Rep` whose
abstraction (keys of the linked slots tail → head, `free_list.len()`, generations) is the
sequence model's state; `for_each_entry`, `len`, `contains` agree. -/
theorem ptr_refines_seq (md5 : Bytes → Bytes) (cap : Nat) (hcap : cap ≤ LruPtr.SENT)
    (ops : List (Op LruPtr.Key)) (hops : NoReload ops) :
    ∃ s, LruPtr.run md5 (LruPtr.Ptr.init cap) ops =
          some (s, (LruSeq.run LruPtr.zeroKey (Seq.init cap) ops).2) ∧
      let q := (LruSeq.run LruPtr.zeroKey (Seq.init cap) ops).1
      (∃ L, Rep s L ∧ s.slots = some L ∧ q.order = L.map (keyAt s.entries)) ∧
      s.freeList.length = q.free ∧ s.gen = q.gen ∧ s.prev = q.prev ∧
      LruPtr.iter s = some (q.iter LruPtr.zeroKey) ∧ LruPtr.len s = q.len ∧
      ∀ k, LruPtr.contains s k = q.contains k := by
  obtain ⟨s, hrun, hsim⟩ := run_sim md5 ops _ _ (sim_init cap hcap []) hops
  refine ⟨s, hrun, ?_, ?_, ?_, ?_, iter_sim hsim, len_sim hsim, contains_sim hsim⟩
  · obtain ⟨L, hr, ho, _⟩ := hsim
    exact ⟨L, hr, (slots_rep hr).1, ho⟩
  · obtain ⟨L, hr, ho, hf, hc, hg, hp⟩ := hsim; exact hf.symm
  · obtain ⟨L, hr, ho, hf, hc, hg, hp⟩ := hsim; exact hg.symm
  · obtain ⟨L, hr, ho, hf, hc, hg, hp⟩ := hsim; exact hp.symm

/-- `len_le_cap` and `no_capacity_loss` for the code as written: after any history without a
reload the run has not panicked, `len() ≤ capacity`, `len() + free_list.len() = capacity` (so an
empty free list means really full), the array still has `capacity` entries, and linked slots ++
free list is a permutation of `0..capacity` (no slot lost, none twice). -/
theorem ptr_no_capacity_loss (md5 : Bytes → Bytes) (cap : Nat) (hcap : cap ≤ LruPtr.SENT)
    (ops : List (Op LruPtr.Key)) (hops : NoReload ops) :
    ∃ s outs, LruPtr.run md5 (LruPtr.Ptr.init cap) ops = some (s, outs) ∧
      LruPtr.len s ≤ cap ∧ LruPtr.len s + s.freeList.length = cap ∧
      (s.freeList = [] ↔ LruPtr.len s = cap) ∧ s.entries.length = cap ∧
      ∃ L, s.slots = some L ∧ (L ++ s.freeList).Perm (List.range cap) := by
  obtain ⟨s, hrun, hsim⟩ := run_sim md5 ops _ _ (sim_init cap hcap []) hops
  have hc : s.cap = cap := by
    obtain ⟨L, hr, ho, hf, hc, _⟩ := hsim
    rw [← hc, run_cap]; rfl
  obtain ⟨h1, h2⟩ := sim_slots hsim
  rw [hc] at h1 h2
  obtain ⟨L, hr, _⟩ := hsim
  refine ⟨s, _, hrun, by omega, h1, ?_, h2, L, (slots_rep hr).1, hc ▸ hr.slots⟩
  rw [← List.length_eq_zero_iff]; omega

/-- `touch_present_mru` for the code as written: after any history without a reload, touching
any key (capacity ≥ 1) does not panic, returns `true`, the key is contained, and the entry at
`mru_head` carries it. -/
theorem ptr_touch_present_mru (md5 : Bytes → Bytes) (cap : Nat) (hcap : cap ≤ LruPtr.SENT) (hpos : 0 < cap)
    (ops : List (Op LruPtr.Key)) (hops : NoReload ops) (k : LruPtr.Key) :
    ∃ s outs s', LruPtr.run md5 (LruPtr.Ptr.init cap) ops = some (s, outs) ∧
      LruPtr.touch s k = some (s', true) ∧ LruPtr.contains s' k = true ∧
      ∃ e, s'.entries[s'.header.head]? = some e ∧ e.ekey = k := by
  obtain ⟨s, hrun, hsim⟩ := run_sim md5 ops _ _ (sim_init cap hcap []) hops
  obtain ⟨s', ht, _, hsim'⟩ := touch_sim s _ k hsim
  have hinv := run_inv LruPtr.zeroKey ops (inv_init (κ := LruPtr.Key) cap)
  have hc : 0 < (LruSeq.run LruPtr.zeroKey (Seq.init cap) ops).1.cap := by rw [run_cap]; exact hpos
  obtain ⟨h1, h2, h3⟩ := Proofs.Lru.touch_present_mru k hinv hc
  rw [h1] at ht
  refine ⟨s, _, s', hrun, ht, ?_, ?_⟩
  · rw [contains_sim hsim' k]; simp [Seq.contains, h2]
  · obtain ⟨L, hr, ho, _⟩ := hsim'
    rw [ho, List.getLast?_map] at h3
    cases hl : L.getLast? with
    | none => rw [hl] at h3; cases h3
    | some i =>
      rw [hl] at h3
      have hk : keyAt s'.entries i = k := Option.some.inj h3
      have hi : i ∈ L := List.mem_of_getLast? hl
      have hhead : s'.header.head = i := by
        rw [hr.list.head, List.getLastD_eq_getLast?, hl]; rfl
      have hlt := hr.ltL hi
      refine ⟨s'.entries[i], by rw [hhead]; exact List.getElem?_eq_getElem hlt, ?_⟩
      rw [← keyAt_of (List.getElem?_eq_getElem hlt)]; exact hk

/-- C17's main clause for the code as written, any keys: through every history without a reload
the pointer-level manager returns the textbook LRU's results, holds the textbook LRU's keys
(`len`, `contains`), and `for_each_entry` reports the textbook recency order minus the all-zero
key (`is_active` — the recorded finding `lru-zero-key-iter`). -/
theorem ptr_refines_textbook_no_reload (md5 : Bytes → Bytes) (cap : Nat) (hcap : cap ≤ LruPtr.SENT)
    (ops : List (Op LruPtr.Key)) (hops : NoReload ops) :
    let t := Spec.Lru.run (Store.init cap) ops
    ∃ s, LruPtr.run md5 (LruPtr.Ptr.init cap) ops = some (s, t.2) ∧
      LruPtr.iter s = some (t.1.order.filter (fun k => k ≠ LruPtr.zeroKey)) ∧
      LruPtr.len s = t.1.len ∧ ∀ k, LruPtr.contains s k = t.1.contains k := by
  obtain ⟨s, hrun, _, _, _, _, hiter, hlen, hcont⟩ := ptr_refines_seq md5 cap hcap ops hops
  obtain ⟨h1, _, h3, h4, h5⟩ := lru_refines_textbook_no_reload LruPtr.zeroKey cap ops hops
  refine ⟨s, by rw [hrun, h1], by rw [hiter, h5], by rw [hlen, h3], fun k => by rw [hcont, h4]⟩

/-- … and when the history never touches the all-zero key, `for_each_entry` reports exactly the
textbook recency order. -/
theorem ptr_refines_textbook_partial (md5 : Bytes → Bytes) (cap : Nat) (hcap : cap ≤ LruPtr.SENT)
    (ops : List (Op LruPtr.Key)) (hops : NoReload ops) (hz : Op.touch LruPtr.zeroKey ∉ ops) :
    let t := Spec.Lru.run (Store.init cap) ops
    ∃ s, LruPtr.run md5 (LruPtr.Ptr.init cap) ops = some (s, t.2) ∧
      LruPtr.iter s = some t.1.order ∧ LruPtr.len s = t.1.len ∧
      ∀ k, LruPtr.contains s k = t.1.contains k := by
  obtain ⟨s, hrun, _, _, _, _, hiter, hlen, hcont⟩ := ptr_refines_seq md5 cap hcap ops hops
  obtain ⟨h1, _, h3, h4, h5⟩ := lru_refines_textbook_partial LruPtr.zeroKey cap ops hz
  refine ⟨s, by rw [hrun, h1], by rw [hiter, h3], by rw [hlen, h4], fun k => by rw [hcont, h5]⟩

/-- hypotheses of the pointer-layer theorems are satisfiable by a non-trivial history (fill past
capacity, public evictions, refill, remove, reset, reopen, the zero key, a checkpoint), and the
pointer model run on it — a test. -/
example : (4 : Nat) ≤ LruPtr.SENT ∧ NoReload ([.touch [1], .touch LruPtr.zeroKey, .touch [3], .touch [4], .touch [5],
    .evictTo 2 1, .touch [1], .remove [5], .evictTail, .bump, .checkpoint, .touch [6], .reset, .touch [7], .reopen] :
    List (Op LruPtr.Key)) := by
  refine ⟨by decide, ?_⟩
  intro op hop
  simp only [List.mem_cons, List.not_mem_nil, or_false] at hop
  rcases hop with h | h | h | h | h | h | h | h | h | h | h | h | h | h | h <;> subst h <;> rfl

example : (LruPtr.run (fun _ => LruPtr.zeros16) (LruPtr.Ptr.init 2)
    [.touch [1], .touch [2], .touch [3], .evictTail, .touch [1], .remove [3]]).map
      (fun r => (r.2, r.1.slots, r.1.freeList)) =
    some ([.bool true, .bool true, .bool true, .bool true, .bool true, .bool true], some [0], [1]) := by decide

/-! ### … including `load_from_disk` and `run_cycle` (non-zero keys) -/

/-- key-level side condition on a history: every touched key is a `[u8; 9]` (the type of the
Rust argument) and is not the all-zero key (the recorded format-level finding). -/
def KeysOk (ops : List (Op LruPtr.Key)) : Prop := ∀ op ∈ ops, OpOk op

theorem keysOk_noZero {ops : List (Op LruPtr.Key)} (h : KeysOk ops) : Op.touch LruPtr.zeroKey ∉ ops :=
  fun hm => ((h _ hm) LruPtr.zeroKey rfl).2 rfl

/-- REFINEMENT pointer layer → sequence layer for ALL histories — touch / remove / evict_tail /
evict_to_target / bump / checkpoint_to_disk / load_from_disk / run_cycle / reset / reopen in any
interleaving — over 9-byte keys other than the all-zero key, every `u32` capacity, every 16-byte
hash function: the code as written (through the real `.lru` codec: serialize, MD5 check,
deserialize, rebuild of `key_map` / `free_list` from `is_active`) never indexes out of range,
never exhausts its loop fuel, returns the sequence model's results, keeps the representation
invariant, and its abstraction is the sequence model's state. -/
theorem ptr_refines_seq_full (md5 : Bytes → Bytes) (hmd5 : ∀ x, (md5 x).length = 16) (cap : Nat)
    (hcap : cap ≤ LruPtr.SENT) (ops : List (Op LruPtr.Key)) (hops : KeysOk ops) :
    ∃ s, LruPtr.run md5 (LruPtr.Ptr.init cap) ops =
          some (s, (LruSeq.run LruPtr.zeroKey (Seq.init cap) ops).2) ∧
      let q := (LruSeq.run LruPtr.zeroKey (Seq.init cap) ops).1
      (∃ L, Rep s L ∧ s.slots = some L ∧ q.order = L.map (keyAt s.entries)) ∧
      s.freeList.length = q.free ∧ s.gen = q.gen ∧ s.prev = q.prev ∧
      LruPtr.iter s = some (q.iter LruPtr.zeroKey) ∧ LruPtr.len s = q.len ∧
      ∀ k, LruPtr.contains s k = q.contains k := by
  obtain ⟨s, hrun, hsim2⟩ := run_sim2 md5 hmd5 ops _ _ (sim2_init md5 cap hcap) hops
  have hsim := hsim2.sim
  refine ⟨s, hrun, ?_, ?_, ?_, ?_, iter_sim hsim, len_sim hsim, contains_sim hsim⟩
  · obtain ⟨L, hr, ho, _⟩ := hsim
    exact ⟨L, hr, (slots_rep hr).1, ho⟩
  · obtain ⟨L, hr, ho, hf, hc, hg, hp⟩ := hsim; exact hf.symm
  · obtain ⟨L, hr, ho, hf, hc, hg, hp⟩ := hsim; exact hg.symm
  · obtain ⟨L, hr, ho, hf, hc, hg, hp⟩ := hsim; exact hp.symm

/-- C17's main clause for the code as written: through EVERY history (reloads included) over
non-zero 9-byte keys the pointer-level manager returns the textbook LRU's results and holds the
textbook LRU's keys in the textbook recency order (`for_each_entry`, `len`, `contains`). -/
theorem ptr_refines_textbook_full (md5 : Bytes → Bytes) (hmd5 : ∀ x, (md5 x).length = 16) (cap : Nat)
    (hcap : cap ≤ LruPtr.SENT) (ops : List (Op LruPtr.Key)) (hops : KeysOk ops) :
    let t := Spec.Lru.run (Store.init cap) ops
    ∃ s, LruPtr.run md5 (LruPtr.Ptr.init cap) ops = some (s, t.2) ∧
      LruPtr.iter s = some t.1.order ∧ LruPtr.len s = t.1.len ∧
      ∀ k, LruPtr.contains s k = t.1.contains k := by
  obtain ⟨s, hrun, _, _, _, _, hiter, hlen, hcont⟩ := ptr_refines_seq_full md5 hmd5 cap hcap ops hops
  obtain ⟨h1, _, h3, h4, h5⟩ := lru_refines_textbook_partial LruPtr.zeroKey cap ops (keysOk_noZero hops)
  refine ⟨s, by rw [hrun, h1], by rw [hiter, h3], by rw [hlen, h4], fun k => by rw [hcont, h5]⟩

/-- `len_le_cap` / `no_capacity_loss` for the code as written, ALL histories over non-zero
9-byte keys (reloads included — the free list rebuilt by `load_from_disk` is again exactly the
complement of the linked slots). -/
theorem ptr_no_capacity_loss_full (md5 : Bytes → Bytes) (hmd5 : ∀ x, (md5 x).length = 16) (cap : Nat)
    (hcap : cap ≤ LruPtr.SENT) (ops : List (Op LruPtr.Key)) (hops : KeysOk ops) :
    ∃ s outs, LruPtr.run md5 (LruPtr.Ptr.init cap) ops = some (s, outs) ∧
      LruPtr.len s ≤ cap ∧ LruPtr.len s + s.freeList.length = cap ∧
      (s.freeList = [] ↔ LruPtr.len s = cap) ∧ s.entries.length = cap ∧
      ∃ L, s.slots = some L ∧ (L ++ s.freeList).Perm (List.range cap) := by
  obtain ⟨s, hrun, hsim2⟩ := run_sim2 md5 hmd5 ops _ _ (sim2_init md5 cap hcap) hops
  have hsim := hsim2.sim
  have hc : s.cap = cap := by
    obtain ⟨L, hr, ho, hf, hc, _⟩ := hsim
    rw [← hc, run_cap]; rfl
  obtain ⟨h1, h2⟩ := sim_slots hsim
  rw [hc] at h1 h2
  obtain ⟨L, hr, _⟩ := hsim
  refine ⟨s, _, hrun, by omega, h1, ?_, h2, L, (slots_rep hr).1, hc ▸ hr.slots⟩
  rw [← List.length_eq_zero_iff]; omega

/-- `touch_present_mru` for the code as written, after ANY history over non-zero 9-byte keys
(reloads included): touching any key (capacity ≥ 1; the all-zero key too) does not panic, returns
`true`, the key is contained, and the entry at `mru_head` carries it. -/
theorem ptr_touch_present_mru_full (md5 : Bytes → Bytes) (hmd5 : ∀ x, (md5 x).length = 16) (cap : Nat)
    (hcap : cap ≤ LruPtr.SENT) (hpos : 0 < cap) (ops : List (Op LruPtr.Key)) (hops : KeysOk ops)
    (k : LruPtr.Key) :
    ∃ s outs s', LruPtr.run md5 (LruPtr.Ptr.init cap) ops = some (s, outs) ∧
      LruPtr.touch s k = some (s', true) ∧ LruPtr.contains s' k = true ∧
      ∃ e, s'.entries[s'.header.head]? = some e ∧ e.ekey = k := by
  obtain ⟨s, hrun, hsim2⟩ := run_sim2 md5 hmd5 ops _ _ (sim2_init md5 cap hcap) hops
  have hsim := hsim2.sim
  obtain ⟨s', ht, _, hsim'⟩ := touch_sim s _ k hsim
  have hinv := run_inv LruPtr.zeroKey ops (inv_init (κ := LruPtr.Key) cap)
  have hc : 0 < (LruSeq.run LruPtr.zeroKey (Seq.init cap) ops).1.cap := by rw [run_cap]; exact hpos
  obtain ⟨h1, h2, h3⟩ := Proofs.Lru.touch_present_mru k hinv hc
  rw [h1] at ht
  refine ⟨s, _, s', hrun, ht, ?_, ?_⟩
  · rw [contains_sim hsim' k]; simp [Seq.contains, h2]
  · obtain ⟨L, hr, ho, _⟩ := hsim'
    rw [ho, List.getLast?_map] at h3
    cases hl : L.getLast? with
    | none => rw [hl] at h3; cases h3
    | some i =>
      rw [hl] at h3
      have hk : keyAt s'.entries i = k := Option.some.inj h3
      have hi : i ∈ L := List.mem_of_getLast? hl
      have hhead : s'.header.head = i := by
        rw [hr.list.head, List.getLastD_eq_getLast?, hl]; rfl
      have hlt := hr.ltL hi
      refine ⟨s'.entries[i], by rw [hhead]; exact List.getElem?_eq_getElem hlt, ?_⟩
      rw [← keyAt_of (List.getElem?_eq_getElem hlt)]; exact hk

/-- `reload_id` for the code as written: after ANY history over non-zero 9-byte keys,
`checkpoint_to_disk` followed by `load_from_disk` of the same generation succeeds (the file is
there, its MD5 verifies, it parses) and gives back the same recency order, the same membership,
the same length and the same number of free slots. -/
theorem ptr_reload_id_partial (md5 : Bytes → Bytes) (hmd5 : ∀ x, (md5 x).length = 16) (cap : Nat)
    (hcap : cap ≤ LruPtr.SENT) (ops : List (Op LruPtr.Key)) (hops : KeysOk ops) :
    ∃ s outs, LruPtr.run md5 (LruPtr.Ptr.init cap) ops = some (s, outs) ∧
      let r := LruPtr.loadFromDisk md5 (LruPtr.checkpoint md5 s) s.gen
      r.2 = true ∧ LruPtr.iter r.1 = LruPtr.iter s ∧ LruPtr.len r.1 = LruPtr.len s ∧
      (∀ k, LruPtr.contains r.1 k = LruPtr.contains s k) ∧ r.1.freeList.length = s.freeList.length ∧
      r.1.gen = s.gen := by
  obtain ⟨s, hrun, hsim2⟩ := run_sim2 md5 hmd5 ops _ _ (sim2_init md5 cap hcap) hops
  have hck := checkpoint_sim2 md5 hmd5 s _ hsim2
  obtain ⟨s2, hs2, hout, hsim3, _, _⟩ := load_sim2 md5 hmd5 _ _ s.gen hck
  have hinv := run_inv LruPtr.zeroKey ops (inv_init (κ := LruPtr.Key) cap)
  have hgen : (LruSeq.run LruPtr.zeroKey (Seq.init cap) ops).1.gen = s.gen := by
    obtain ⟨_, _, _, _, _, hg, _⟩ := hsim2.sim; exact hg
  obtain ⟨e1, e2, e3, e4⟩ := Proofs.Lru.reload_id LruPtr.zeroKey hinv hsim2.noZero.order
  rw [hgen] at e1 e2 e3 e4
  rw [e1] at hout
  have hsim := hsim2.sim
  have hsim' := hsim3.sim
  refine ⟨s, _, hrun, ?_, ?_, ?_, ?_, ?_, ?_⟩
  · cases hb : (LruPtr.loadFromDisk md5 (LruPtr.checkpoint md5 s) s.gen).2 with
    | true => rfl
    | false => rw [hb] at hout; cases hout
  · rw [hs2, iter_sim hsim', iter_sim hsim]; simp only [Seq.iter, e2]
  · rw [hs2, len_sim hsim', len_sim hsim]; simp only [Seq.len, e2]
  · intro k; rw [hs2, contains_sim hsim' k, contains_sim hsim k]; unfold Seq.contains; rw [e2]
  · rw [hs2]
    obtain ⟨_, _, _, hf', _⟩ := hsim'
    obtain ⟨_, _, _, hf, _⟩ := hsim
    rw [← hf', ← hf, e3]
  · rw [hs2]
    obtain ⟨_, _, _, _, _, hg', _⟩ := hsim'
    rw [← hg', e4]

/-- the oracle clause `filecheck` evaluates on the real checkpoint bytes, as a theorem about the
code as written: after ANY history over non-zero 9-byte keys, the file `checkpoint_to_disk`
writes — read back through `deserialize` by an independent reader that walks `next` from
`lru_tail` — is a well-formed doubly linked list over exactly `capacity` slots (every `prev` and
`mru_head` mirror the walk), links exactly the textbook LRU's keys in the textbook recency order,
and every other slot (`free_list.len()` of them) is `LruFileEntry::empty()`. -/
theorem ptr_checkpoint_file_wellformed (md5 : Bytes → Bytes) (hmd5 : ∀ x, (md5 x).length = 16) (cap : Nat)
    (hcap : cap ≤ LruPtr.SENT) (ops : List (Op LruPtr.Key)) (hops : KeysOk ops) :
    ∃ s outs, LruPtr.run md5 (LruPtr.Ptr.init cap) ops = some (s, outs) ∧
      LruPtr.fileView md5 (LruPtr.checkpoint md5 s) =
        some (some { entries := cap, linked := (Spec.Lru.run (Store.init cap) ops).1.order,
                     free := s.freeList.length, stale := 0, prevOk := true, headOk := true }) := by
  obtain ⟨s, hrun, hsim2⟩ := run_sim2 md5 hmd5 ops _ _ (sim2_init md5 cap hcap) hops
  obtain ⟨L, hr, ho, hf, hc, hg, hp⟩ := hsim2.sim
  have h9 := sim_keys9 ho hsim2.keys9
  have hcap' : s.cap = cap := by rw [← hc, run_cap]; rfl
  have hord := (lru_refines_textbook_partial LruPtr.zeroKey cap ops (keysOk_noZero hops)).2.1
  refine ⟨s, _, hrun, ?_⟩
  rw [fileView_checkpoint md5 hmd5 s L hr h9, ← ho, hord, hcap']

/-- `KeysOk` and the hash hypothesis are satisfiable by a non-trivial history (fill past capacity,
public eviction, checkpoint, bump, remove, reload of the old generation, run_cycle), and what the
pointer model answers on it — a test. -/
example : (∀ x : Bytes, ((fun _ : Bytes => LruPtr.zeros16) x).length = 16) ∧
    KeysOk [.touch (List.replicate 9 1), .touch (List.replicate 9 2), .touch (List.replicate 9 3), .evictTo 1 1,
      .checkpoint, .bump, .remove (List.replicate 9 3), .load 1, .runCycle 1 1] := by
  refine ⟨fun _ => rfl, ?_⟩
  intro op hop k hk
  simp only [List.mem_cons, List.not_mem_nil, or_false] at hop
  rcases hop with h | h | h | h | h | h | h | h | h <;> subst h <;> cases hk <;> decide

example : (LruPtr.run (fun _ => LruPtr.zeros16) (LruPtr.Ptr.init 2)
    [.touch (List.replicate 9 1), .touch (List.replicate 9 2), .touch (List.replicate 9 3), .evictTo 1 1,
      .checkpoint, .bump, .remove (List.replicate 9 3), .load 1, .runCycle 1 1]).map
      (fun r => (r.2, r.1.slots, r.1.freeList, LruPtr.len r.1)) =
    some ([.bool true, .bool true, .bool true, .evicted 1 1, .ok, .ok, .bool true, .ok, .cycle 1 0 0 1],
      some [1], [0], 1) := by decide


/-! ## the persistence clause in history order: a reload sees the checkpoint written LAST

`Spec/LruPersist`: the ghost `Track` records which checkpoint was written last (its file name
and the table it holds) without ever comparing generations; `XOp` = the ten operations plus
`shutdown`.  The refinement theorems above hold whatever the generation counters do (spec and
models share that bookkeeping), so they cannot see a manager whose counters run backwards; this
clause can: it is what makes "newest file" mean "last state saved". -/

open Cascette.Proofs.LruPersist
open Cascette.Model.LruPersist

/-- the ghost run without the domain restriction `allowed` (for the full statement). -/
def trackAll (s : Store κ) (t : Track κ) : List (XOp κ) → Store κ × Track κ
  | [] => (s, t)
  | o :: os => trackAll (xstep s o).1 (track s t o) os

/-- the clause for one history: if a checkpoint has been written, `run_cycle` brings back the
table of the one written last. -/
abbrev ReloadSeesLast (cap : Nat) (ops : List (XOp κ)) : Prop :=
  let r := trackAll (Store.init cap) Track.init ops
  r.2.last.map (·.2) = none ∨ r.2.last.map (·.2) = some (step r.1 (.runCycle 0 0)).1.order

/-- FULL STATEMENT (`reload_sees_last_checkpoint`): `∀ cap ops, ReloadSeesLast cap ops`.  FALSE on
the tree, by the design of the generation scheme: a manager that checkpoints after
`load_from_disk` of an OLDER generation (or a new manager that checkpoints before it has run a
cycle) writes under a generation of its own, below a file that is still there, and the next
`run_cycle` restores that older file.  Kernel-checked: generation 1 `[]`, generation 3 `[]`,
load 1, touch, checkpoint (file 1 = `[7]`, written last) — `run_cycle` restores file 3. -/
theorem reload_sees_last_checkpoint_counter : ¬ (∀ (cap : Nat) (ops : List (XOp Nat)), ReloadSeesLast cap ops) := by
  intro h
  have := h 2 [.op .checkpoint, .op .bump, .op .bump, .op .checkpoint, .op (.load 1), .op (.touch 7), .op .checkpoint]
  revert this
  decide

/-- the same with a restart instead of the rollback: a new manager (`reopen`) that checkpoints
without having looked at the directory. -/
theorem reload_sees_last_checkpoint_counter_reopen :
    ¬ ReloadSeesLast (κ := Nat) 2 [.op .bump, .op .bump, .op (.touch 5), .op .checkpoint, .op .reopen, .op (.touch 7), .op .checkpoint] := by
  decide

/-- PROVED PART, every history in which checkpoints (`checkpoint_to_disk`, `shutdown`) are written
only by a manager that is in step with the directory (`allowed`: it has run a cycle or loaded the
file written last since it was constructed / since it loaded any other file) — any interleaving
of touch / remove / evict_tail / evict_to_target / reset / bump_generation (any number of times) /
load_from_disk of ANY generation / run_cycle / reopen / shutdown around them, any capacity, any
key type, shorter than 2^64 operations (no wrap of the counter):
`find_latest_lru_file` names the file of the checkpoint written last; `run_cycle` restores exactly
that checkpoint's table (then evicts to the limit) and reports its length as loaded — or restores
nothing when no checkpoint has been written; `load_from_disk` of that name gives that table. -/
theorem reload_sees_last_checkpoint_partial (cap : Nat) (ops : List (XOp κ)) (hlen : ops.length + 1 < 2 ^ 64)
    (s : Store κ) (t : Track κ) (hrun : trackRun (Store.init cap) Track.init ops = some (s, t))
    (limit avg : Nat) :
    s = (xrun (Store.init cap) ops).1 ∧
    Files.latest s.files = t.name ∧
    ((step s (.runCycle limit avg)).1.order, (step s (.runCycle limit avg)).2) =
      cycleOf s.order (t.last.map (·.2)) limit avg ∧
    ∀ gl snap, t.last = some (gl, snap) → step s (.load gl) = ({ s with order := snap, gen := gl }, .ok) := by
  have hinv := trackRun_pinv ops _ _ 1 (pinv_init cap) (by omega) _ hrun
  obtain ⟨h1, h2⟩ := runCycle_restores_last hinv limit avg
  exact ⟨trackRun_store ops _ _ _ hrun, (latest_is_last_written hinv).1, h1, h2⟩

/-- what the in-memory operations — `reset` among them — owe the clause: they change neither
`generation` nor `prev_generation` nor the directory (textbook store; the models share this
bookkeeping field by field, and the correspondence run compares `gen=` / `prev=` on every line). -/
theorem reset_keeps_generation (s : Store κ) :
    (step s .reset).1.gen = s.gen ∧ (step s .reset).1.prev = s.prev ∧ (step s .reset).1.files = s.files :=
  inmem_keeps_generation s .reset rfl

/-- the clause is not vacuous, and it is sharp at `reset`: the witness history of the seeded
change C17-3c (touch, bump, bump, checkpoint, reset, touch, checkpoint, touch) is inside the
clause and `run_cycle` restores the second checkpoint — a test. -/
example : (trackRun (Store.init 3) Track.init ([.op (.touch 1), .op .bump, .op .bump, .op .checkpoint, .op .reset,
      .op (.touch 2), .op .checkpoint, .op (.touch 3)] : List (XOp Nat))).map
    (fun r => (r.2.last, (step r.1 (.runCycle 0 0)).1.order, Files.latest r.1.files)) =
    some (some (3, [2]), [2], some 3) := by decide

/-- `shutdown` on the code as written and every other operation, ALL histories over non-zero
9-byte keys: the pointer layer never panics, answers what the textbook store answers
(`shutdown` = bump, checkpoint, scan_directory), and holds the textbook order. -/
theorem ptr_refines_textbook_full_shutdown (md5 : Bytes → Bytes) (hmd5 : ∀ x, (md5 x).length = 16) (cap : Nat)
    (hcap : cap ≤ LruPtr.SENT) (ops : List (XOp LruPtr.Key)) (hops : XKeysOk ops) :
    let t := xrun (Store.init cap) ops
    ∃ s, ptrXRun md5 (LruPtr.Ptr.init cap) ops = some (s, t.2) ∧
      LruPtr.iter s = some t.1.order ∧ LruPtr.len s = t.1.len ∧
      (∀ k, LruPtr.contains s k = t.1.contains k) ∧ s.gen = t.1.gen ∧ s.prev = t.1.prev := by
  obtain ⟨s, hrun, hsim2⟩ := xrun_sim2 md5 hmd5 ops _ _ (sim2_init md5 cap hcap) hops
  obtain ⟨href, _, hnz⟩ := seqXRun_refines LruPtr.zeroKey ops (inv_init cap) (noZero_init LruPtr.zeroKey cap)
    (xkeysOk_noZero hops)
  have habs : (abs (Seq.init cap : Seq LruPtr.Key)) = Store.init cap := rfl
  rw [habs] at href
  have hsim := hsim2.sim
  obtain ⟨_, _, _, _, _, hg, hp⟩ := hsim2.sim
  refine ⟨s, by rw [hrun, href], ?_, ?_, ?_, ?_, ?_⟩
  · rw [iter_sim hsim, href]; exact congrArg some (filter_ne_zero hnz.order)
  · rw [len_sim hsim, href]; rfl
  · intro k; rw [contains_sim hsim k, href]; rfl
  · rw [href]; exact hg.symm
  · rw [href]; exact hp.symm

/-- the persistence clause for the code as written: after every history of the clause over
non-zero 9-byte keys (through the real `.lru` codec, `find_latest_lru_file`, the `is_active`
rebuild, `scan_directory`), `run_cycle limit avg` does not panic, answers the statistics of
"restore the checkpoint written last, evict to the limit", and afterwards `for_each_entry`,
`len` and `contains` are those of that checkpoint's table after the eviction. -/
theorem ptr_reload_sees_last_checkpoint (md5 : Bytes → Bytes) (hmd5 : ∀ x, (md5 x).length = 16) (cap : Nat)
    (hcap : cap ≤ LruPtr.SENT) (ops : List (XOp LruPtr.Key)) (hops : XKeysOk ops)
    (hlen : ops.length + 1 < 2 ^ 64) (st : Store LruPtr.Key) (t : Track LruPtr.Key)
    (htr : trackRun (Store.init cap) Track.init ops = some (st, t)) (limit avg : Nat) :
    let want := cycleOf st.order (t.last.map (·.2)) limit avg
    ∃ s outs s', ptrXRun md5 (LruPtr.Ptr.init cap) ops = some (s, outs) ∧
      LruPtr.runCycle md5 s limit avg = some (s', want.2) ∧
      LruPtr.iter s' = some want.1 ∧ LruPtr.len s' = want.1.length ∧
      ∀ k, LruPtr.contains s' k = decide (k ∈ want.1) := by
  obtain ⟨s, hrun, hsim2⟩ := xrun_sim2 md5 hmd5 ops _ _ (sim2_init md5 cap hcap) hops
  obtain ⟨href, hinv, hnz⟩ := seqXRun_refines LruPtr.zeroKey ops (inv_init cap) (noZero_init LruPtr.zeroKey cap)
    (xkeysOk_noZero hops)
  have habs : (abs (Seq.init cap : Seq LruPtr.Key)) = Store.init cap := rfl
  rw [habs] at href
  obtain ⟨hst, _, hcyc, _⟩ := reload_sees_last_checkpoint_partial cap ops hlen st t htr limit avg
  have hq : abs (seqXRun LruPtr.zeroKey (Seq.init cap) ops).1 = st := by rw [hst, href]
  obtain ⟨s', hrc, hsim'⟩ := runCycle_sim2 md5 hmd5 s _ limit avg hsim2
  have hstep := step_refines LruPtr.zeroKey (.runCycle limit avg) hinv hnz
  rw [hq] at hstep
  have hnz' := step_noZero LruPtr.zeroKey (.runCycle limit avg) (fun e => by cases e) hnz
  have ho : (LruSeq.step LruPtr.zeroKey (seqXRun LruPtr.zeroKey (Seq.init cap) ops).1 (.runCycle limit avg)).1.order
      = (cycleOf st.order (t.last.map (·.2)) limit avg).1 := by
    have := congrArg (fun r => r.1.order) hstep
    simp only [abs] at this
    rw [← this]; exact congrArg Prod.fst hcyc
  have hout : (LruSeq.step LruPtr.zeroKey (seqXRun LruPtr.zeroKey (Seq.init cap) ops).1 (.runCycle limit avg)).2
      = (cycleOf st.order (t.last.map (·.2)) limit avg).2 := by
    have := congrArg Prod.snd hstep
    simp only at this
    rw [← this]; exact congrArg Prod.snd hcyc
  refine ⟨s, _, s', hrun, by rw [hrc, hout], ?_, ?_, ?_⟩
  · rw [iter_sim hsim'.sim]; simp only [Seq.iter]; rw [filter_ne_zero hnz'.order, ho]
  · rw [len_sim hsim'.sim]; simp only [Seq.len]; rw [ho]
  · intro k; rw [contains_sim hsim'.sim k]; simp only [Seq.contains]; rw [ho]
    exact decide_eq_decide.mpr Iff.rfl

end Cascette.Props.C17
