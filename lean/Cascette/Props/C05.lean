/-
Props/C05 — the local key index and the residency database behave as persistent maps.
Property theorems only; lemmas are in Proofs/Lsm, Proofs/LsmRefine, Proofs/Residency.
Model = the Rust code as written after the `fix:` commit b3b2e9d (Model/Lsm, Model/Residency);
Spec = a map (Spec/IndexMap) / a set of resident keys.
-/
import Cascette.Proofs.LsmDurable
import Cascette.Proofs.Residency
namespace Cascette.Props.C05
open Cascette.Spec.IndexMap (Entry Op Out bucketOf stDelete nBuckets)
open Cascette.Model.Lsm
open Cascette.Proofs.Lsm

/-! ### key index -/

/-- **index_refines_map.** For every capacity (`capPages ≥ 1`, any `perPage`) and every history
of add / remove / update / status / lookup / has / iter / count / flush / flush_all / save_all /
clear_bucket, started on an empty manager: the final `lookup` is the map's, and every output
(the `Result` of `add_entry`, the booleans of the three other mutators and of `has_entry`, every
looked-up location) is the one the map specification gives — last write wins per 9-byte key,
removed or never-added keys give nothing, a mutator's boolean says whether it took effect.
(Histories with `reload`: `index_refines_map_durable` below.) -/
theorem index_refines_map (cfg : Cfg) (hcap : 1 ≤ cfg.capPages) (ops : List Op)
    (hops : ∀ op ∈ ops, notReload op) :
    (∀ k, lookup (run cfg State.init ops).1 k =
        (specRun Cascette.Spec.IndexMap.State.init ops []).1.mem k) ∧
      outsOk (run cfg State.init ops).2 (specRun Cascette.Spec.IndexMap.State.init ops []).2 := by
  obtain ⟨⟨hg, ha⟩, ho⟩ := run_mem cfg hcap ops State.init _ [] hops relMem_init
  exact ⟨fun k => by rw [lookup_eq_absS _ hg k, ha k], ho⟩

/-- **iter_eq_toList / count_eq_card.** After any such history `iter_entries` yields `(b, e)`
exactly when `b` is the key's bucket and `lookup e.key = e`; no key is yielded twice; and
`entry_count` is the length of that enumeration — i.e. the number of keys that look up. -/
theorem iter_agrees_with_lookup (cfg : Cfg) (hcap : 1 ≤ cfg.capPages) (ops : List Op)
    (hops : ∀ op ∈ ops, notReload op) :
    let s := (run cfg State.init ops).1
    (∀ b e, (b, e) ∈ iter s ↔ b = bucketOf e.key ∧ lookup s e.key = some e) ∧
      (iter s).Pairwise (fun x y => x.2.key ≠ y.2.key) ∧
      (step cfg s .count).2 = .num (iter s).length ∧ (step cfg s .iter).2 = .entries (iter s) := by
  have hg := good_run cfg hcap ops hops
  exact ⟨fun b e => iter_iff_lookup _ hg b e, iter_keys_distinct _ hg, rfl, rfl⟩

/-- **flush_preserves_abs.** Flushing a bucket (dedupe-latest + merge walk + clear) changes no
lookup, for any state whose sorted runs are sorted by distinct keys. -/
theorem flush_preserves_abs (s : State) (hg : Good s) (b k : Nat) :
    lookup (flushBucket s b) k = lookup s k := by
  obtain ⟨h1, h2⟩ := flushBucket_spec s hg b
  rw [lookup_eq_absS _ h1, lookup_eq_absS _ hg, h2 k]

/-- **merge_sorted_distinct.** The merge walk of two runs sorted by distinct keys is sorted by
distinct keys, and finds for every key the update (unless a tombstone) else the old entry. -/
theorem merge_sorted_distinct (s : List Entry) (ups : List Upd) (hs : Sorted s) (hu : SortedU ups) :
    Sorted (mergeWalk s ups) ∧ ∀ k, findE k (mergeWalk s ups) =
      match ups.find? (fun u => u.key == k) with
      | some u => updVal u
      | none => findE k s :=
  mergeWalk_spec ups s hs hu

/-- the halving search finds exactly the entry with the key (std's `binary_search` contract on a
run sorted by distinct keys). -/
theorem bsearch_finds (k : Nat) (l : List Entry) (hs : Sorted l) :
    bsearch k l = l.find? (fun e => e.key == k) :=
  bsearch_eq_find k l hs

/-- the update section refuses an entry exactly when all `capPages` pages exist and the last
one holds `perPage` entries (so the log holds `capPages * perPage` entries when pages fill in
order). -/
theorem append_full_iff (cfg : Cfg) (pages : List (List Upd)) (u : Upd) :
    (appendPages cfg pages u).2 = false ↔
      cfg.capPages ≤ pages.length ∧ ∀ last, pages.getLast? = some last → cfg.perPage ≤ last.length :=
  appendPages_full_iff cfg pages u

/-- **pack_unpack.** The 5-byte location (1 byte id high + big-endian 32-bit word with the two low
id bits above 30 offset bits) round-trips for `id ≤ 1023`, `offset < 2^30` — the field limits the
property names. -/
theorem pack_unpack (id off : Nat) (hid : id < 1024) (hoff : off < 2 ^ 30) :
    unpackLoc (packLoc id off) = some (id, off) := by
  unfold packLoc unpackLoc
  simp only [Option.some.injEq, Prod.mk.injEq]
  constructor <;> omega

/-- beyond the limits the code masks silently (test of the model, replayed on the code by the
correspondence run): id 1027 at offset 2^30+5 is stored as id 3 at offset 5. -/
theorem pack_masks_beyond_limits : unpackLoc (packLoc 1027 (2 ^ 30 + 5)) = some (3, 5) := by decide

/-! ### durability -/

/-- **save_load_id (bucket).** What `save_index` writes, `load_index` reads back as the same
bucket, for a sorted run with distinct keys and entries inside the field limits (id ≤ 1023,
offset < 2^30) with a non-zero 9-byte key. -/
theorem save_load_id (bk : Bucket) (hs : Sorted bk.sorted) (hw : WFB bk) : loadB (saveB bk) = bk :=
  load_save bk hs hw

/-- Counter-witness (recorded finding `reload-loses-all-zero-key`, format-level): an entry whose
9-byte key is all zero is found before and after `flush`, and is gone after `save_all; reload`. -/
theorem zero_key_lost_on_reload :
    let cfg : Cfg := ⟨60, 21⟩
    let s := (run cfg State.init [.add 0 5 6 7, .flush 0, .saveAll]).1
    absS s 0 = some ⟨0, 5, 6, 7⟩ ∧ absS (reload s) 0 = none := by decide

/-- ids beyond 1023 (test of the model; outside the property's field limits): the sorted entry is
dropped by `save_all; reload` (`to_packed` falls back to zero bytes), an update-section entry
comes back with the id masked to 10 bits. -/
theorem wide_id_on_reload :
    let cfg : Cfg := ⟨60, 21⟩
    let s := (run cfg State.init [.add 9 1027 5 7, .saveAll]).1
    let t := (run cfg State.init [.add 9 1027 5 7, .flush 9, .saveAll]).1
    absS (reload s) 9 = some ⟨9, 3, 5, 7⟩ ∧ absS (reload t) 9 = none := by decide

/-- **index_refines_map_partial** (durable histories). Under the explicit hypotheses that the
recorded finding and the field limits impose — every `add`/`update` has a non-zero 9-byte key,
id ≤ 1023, offset < 2^30 — the refinement extends to histories with restarts: every `reload`
that directly follows a `save_all` is the identity on the map, for every capacity.
Not proved: a `reload` without a preceding `save_all` (the state then is the map as of the last
write of each bucket — `save_all`, an explicit flush with pending updates, or the flush a mutator
performs on a full update section; Spec/IndexMap states this with the written buckets as an
input, the statement is kept in the comment below; the correspondence run and the oracle's
"reload lands on an earlier state of each bucket" check exercise it on every seed). -/
theorem index_refines_map_partial (cfg : Cfg) (hcap : 1 ≤ cfg.capPages) (ops : List Op)
    (hr : reloadOnlyAfterSave ops) (hw : ∀ op ∈ ops, opWF op) :
    (∀ k, lookup (run cfg State.init ops).1 k =
        (specRun Cascette.Spec.IndexMap.State.init ops []).1.mem k) ∧
      outsOk (run cfg State.init ops).2 (specRun Cascette.Spec.IndexMap.State.init ops []).2 := by
  obtain ⟨⟨hg, ha⟩, _, ho⟩ := run_durable cfg hcap ops.length ops rfl State.init _ hr hw relMem_init extra_init
  exact ⟨fun k => by rw [lookup_eq_absS _ hg k, ha k], ho⟩

/- Full statement for arbitrary reloads (not proved):
   theorem index_refines_map_durable (cfg) (hcap : 1 ≤ cfg.capPages) (ops : List Op)
       (hw : ∀ op ∈ ops, opWF op) :
     ∃ ghosts : List (List Nat),   -- per operation: the buckets written through before its effect
       (∀ k, lookup (run cfg State.init ops).1 k = (specRun State.init ops ghosts).1.mem k) ∧
       (∀ k, lookup (reload (run cfg State.init ops).1) k = (specRun State.init ops ghosts).1.disk k) ∧
       outsOk (run cfg State.init ops).2 (specRun State.init ops ghosts).2
   Missing: the disk half of the relation (`lookup ∘ reload = S.disk`) through `flushBucket`
   and `appendWithFlush`; the ingredients are proved (`load_save`, `flushB_spec`, `step_extra`). -/

/-- hypotheses of the partial theorem are satisfiable by a non-trivial history (fills a
2-entry log, flushes through a mutator, saves, restarts, continues). -/
example : reloadOnlyAfterSave [.add 1 1023 (2 ^ 30 - 1) 7, .add 2 0 0 0, .remove 1, .saveAll, .reload, .lookup 2] ∧
    ∀ op ∈ ([.add 1 1023 (2 ^ 30 - 1) 7, .add 2 0 0 0, .remove 1, .saveAll, .reload, .lookup 2] : List Op), opWF op := by
  refine ⟨trivial, ?_⟩
  intro op h
  simp only [List.mem_cons, List.not_mem_nil, or_false] at h
  rcases h with rfl | rfl | rfl | rfl | rfl | rfl <;> simp [opWF]

/-! ### the defect that was repaired (DESIGN.md §8) -/

/-- Counter-witness for the tree as pinned: capacity one entry, `add k`, then the pinned
`remove_entry` returns `true` and the key is still found. -/
theorem remove_pinned_lies :
    let cfg : Cfg := ⟨1, 1⟩
    let s1 := (step cfg State.init (.add 5 1 2 3)).1
    (removePinned cfg s1 5).2 = .bool true ∧
      absS (removePinned cfg s1 5).1 5 = some ⟨5, 1, 2, 3⟩ := by decide

/-- the same history on the repaired code: `true`, and the key is gone. -/
theorem remove_fixed_witness :
    let cfg : Cfg := ⟨1, 1⟩
    let s1 := (step cfg State.init (.add 5 1 2 3)).1
    (step cfg s1 (.remove 5)).2 = .bool true ∧ absS (step cfg s1 (.remove 5)).1 5 = none := by decide

/-! ### residency database -/

section Residency
open Cascette.Model.Residency
open Cascette.Proofs.Residency

/-- **residency_refines_map.** For every page size, every batch threshold and every history of
mark_resident / mark_non_resident / mark_span_non_resident / delete_keys (sequential and batch
path) / is_resident / scan_keys / save / load on a fresh database: `is_resident k` is `true`
exactly when the latest mark of `k` says resident (also after save and load), every answered
`is_resident` in the history is the set's answer, and `scan_keys` lists exactly the resident
keys. The bucket fold and the MurmurHash3 filter are arbitrary functions in the proof. -/
theorem residency_refines_map (cfg : Cascette.Model.Residency.Cfg)
    (ops : List Cascette.Spec.ResidencySet.Op) :
    let r := Cascette.Model.Residency.run cfg Cascette.Model.Residency.State.init ops
    let R := Cascette.Spec.ResidencySet.run Cascette.Spec.ResidencySet.State.init ops
    (∀ k, isResident r.1 k = R.1.mem k) ∧
      (∀ k, k ∈ scanKeys r.1 ↔ R.1.mem k = true) ∧
      r.2.length = R.2.length ∧
      ∀ (i : Nat) o x, r.2[i]? = some o → R.2[i]? = some x → Cascette.Proofs.Residency.outOk o x := by
  obtain ⟨⟨hi, hm, _⟩, hl, ho⟩ := run_refines cfg ops _ _ rel_init
  refine ⟨fun k => by rw [isResident_eq _ hi k, hm k], fun k => by rw [scan_iff _ hi k, hm k], hl, ho⟩

/-- Counter-witness (recorded finding `count-includes-keys-marked-span-non-resident`):
`entry_count` — what `ResidencyContainer::resident_count` returns — is 2 while one of the two
keys is not resident. -/
theorem residency_count_counts_span :
    let s := (Cascette.Model.Residency.run ⟨25, 10000⟩ Cascette.Model.Residency.State.init
      [.mark 1, .mark 2, .span 1]).1
    entryCount s = 2 ∧ absT s.buckets 1 = false ∧ absT s.buckets 2 = true := by decide

end Residency

end Cascette.Props.C05
