/-
Props/C05 — the local key index and the residency database behave as persistent maps.
Property theorems only; lemmas are in Proofs/Lsm, Proofs/LsmRefine, Proofs/LsmDurable,
Proofs/LsmReload, Proofs/LsmBytes, Proofs/Residency.
Model = the Rust code as written after the `fix:` commit b3b2e9d (Model/Lsm, Model/Residency);
Spec = a map (Spec/IndexMap) / a set of resident keys.
-/
import Cascette.Proofs.LsmReload
import Cascette.Proofs.LsmBytes
import Cascette.Proofs.Residency
namespace Cascette.Props.C05
open Cascette.Spec.IndexMap (Entry Op Out bucketOf stDelete nBuckets)
open Cascette.Model.Lsm
open Cascette.Proofs.Lsm

/-! ### key index -/

/-- **index_refines_map.** For every capacity (`capPages ≥ 1`, any `perPage`) and every history
of add / remove / update / status / lookup / has / iter / count / flush / flush_all / save_all /
clear_bucket, started on an empty manager: the final `lookup` is the map's, and every output
(the `Result` of `add_entry`, the booleans of the three other mutators and of `has_entry`, every
looked-up location) is the one the map specification gives — last write wins per 9-byte key,
removed or never-added keys give nothing, a mutator's boolean says whether it took effect.
(Histories with `reload`: `index_refines_map_durable` below.) -/
theorem index_refines_map (cfg : Cfg) (hcap : 1 ≤ cfg.capPages) (ops : List Op)
    (hops : ∀ op ∈ ops, notReload op) :
    (∀ k, lookup (run cfg State.init ops).1 k =
        (specRun Cascette.Spec.IndexMap.State.init ops []).1.mem k) ∧
      outsOk (run cfg State.init ops).2 (specRun Cascette.Spec.IndexMap.State.init ops []).2 := by
  obtain ⟨⟨hg, ha⟩, ho⟩ := run_mem cfg hcap ops State.init _ [] hops relMem_init
  exact ⟨fun k => by rw [lookup_eq_absS _ hg k, ha k], ho⟩

/-- **iter_eq_toList / count_eq_card.** After any such history `iter_entries` yields `(b, e)`
exactly when `b` is the key's bucket and `lookup e.key = e`; no key is yielded twice; and
`entry_count` is the length of that enumeration — i.e. the number of keys that look up. -/
theorem iter_agrees_with_lookup (cfg : Cfg) (hcap : 1 ≤ cfg.capPages) (ops : List Op)
    (hops : ∀ op ∈ ops, notReload op) :
    let s := (run cfg State.init ops).1
    (∀ b e, (b, e) ∈ iter s ↔ b = bucketOf e.key ∧ lookup s e.key = some e) ∧
      (iter s).Pairwise (fun x y => x.2.key ≠ y.2.key) ∧
      (step cfg s .count).2 = .num (iter s).length ∧ (step cfg s .iter).2 = .entries (iter s) := by
  have hg := good_run cfg hcap ops hops
  exact ⟨fun b e => iter_iff_lookup _ hg b e, iter_keys_distinct _ hg, rfl, rfl⟩

/-- **flush_preserves_abs.** Flushing a bucket (dedupe-latest + merge walk + clear) changes no
lookup, for any state whose sorted runs are sorted by distinct keys. -/
theorem flush_preserves_abs (s : State) (hg : Good s) (b k : Nat) :
    lookup (flushBucket s b) k = lookup s k := by
  obtain ⟨h1, h2⟩ := flushBucket_spec s hg b
  rw [lookup_eq_absS _ h1, lookup_eq_absS _ hg, h2 k]

/-- **merge_sorted_distinct.** The merge walk of two runs sorted by distinct keys is sorted by
distinct keys, and finds for every key the update (unless a tombstone) else the old entry. -/
theorem merge_sorted_distinct (s : List Entry) (ups : List Upd) (hs : Sorted s) (hu : SortedU ups) :
    Sorted (mergeWalk s ups) ∧ ∀ k, findE k (mergeWalk s ups) =
      match ups.find? (fun u => u.key == k) with
      | some u => updVal u
      | none => findE k s :=
  mergeWalk_spec ups s hs hu

/-- the halving search finds exactly the entry with the key (std's `binary_search` contract on a
run sorted by distinct keys). -/
theorem bsearch_finds (k : Nat) (l : List Entry) (hs : Sorted l) :
    bsearch k l = l.find? (fun e => e.key == k) :=
  bsearch_eq_find k l hs

/-- the update section refuses an entry exactly when all `capPages` pages exist and the last
one holds `perPage` entries (so the log holds `capPages * perPage` entries when pages fill in
order). -/
theorem append_full_iff (cfg : Cfg) (pages : List (List Upd)) (u : Upd) :
    (appendPages cfg pages u).2 = false ↔
      cfg.capPages ≤ pages.length ∧ ∀ last, pages.getLast? = some last → cfg.perPage ≤ last.length :=
  appendPages_full_iff cfg pages u

/-- **pack_unpack.** The 5-byte location (1 byte id high + big-endian 32-bit word with the two low
id bits above 30 offset bits) round-trips for `id ≤ 1023`, `offset < 2^30` — the field limits the
property names. -/
theorem pack_unpack (id off : Nat) (hid : id < 1024) (hoff : off < 2 ^ 30) :
    unpackLoc (packLoc id off) = some (id, off) := by
  unfold packLoc unpackLoc
  simp only [Option.some.injEq, Prod.mk.injEq]
  constructor <;> omega

/-- beyond the limits the code masks silently (test of the model, replayed on the code by the
correspondence run): id 1027 at offset 2^30+5 is stored as id 3 at offset 5. -/
theorem pack_masks_beyond_limits : unpackLoc (packLoc 1027 (2 ^ 30 + 5)) = some (3, 5) := by decide

/-! ### durability -/

/-- **save_load_id (bucket).** What `save_index` writes, `load_index` reads back as the same
bucket, for a sorted run with distinct keys and entries inside the field limits (id ≤ 1023,
offset < 2^30) with a non-zero 9-byte key. -/
theorem save_load_id (bk : Bucket) (hs : Sorted bk.sorted) (hw : WFB bk) : loadB (saveB bk) = bk :=
  load_save bk hs hw

/-! ### the .idx file at byte level (Model/LsmBytes) -/

section Bytes
open Cascette.Model.LsmBytes
open Cascette.Proofs.LsmBytes

/-- **idx_parse_serialise.** The bytes `save_index` writes (guarded header block, 16-byte header,
guarded entry block with 18-byte records, zero padding to the next 64 KiB boundary, 512-byte
pages of 24-byte update entries with hash guards, zero pages up to the capacity) are parsed by
`load_index` into exactly the entry-level image `saveB` of Model/Lsm — for EVERY bucket whose
values fit their Rust types (9-byte key, `u32` size, status one of the four enum values), hence
also for ids > 1023, offsets ≥ 2^30 and the all-zero key, where `saveB` masks / drops; for every
hash function `H` (the reader verifies no hash), every capacity, any number of pages. So the
entry-level durability theorems above speak about the real file format. -/
theorem idx_parse_serialise (H : List Nat → Nat) (cap bucket : Nat) (bk : Bucket) (hf : FitB bk)
    (bytes : List Nat) (h : serialise H cap bucket bk = some bytes) :
    parseFile bytes = some (saveB bk) :=
  parse_serialise H cap bucket bk hf bytes h

/-- **save_load_id at byte level.** Inside the field limits (non-zero key, id ≤ 1023,
offset < 2^30; sorted run sorted by distinct keys): the writer succeeds whenever the entry data
fits `u32` and no page holds more than 21 entries, and `load_index` (parse + sort) of the bytes it
wrote is the bucket itself. -/
theorem save_load_id_bytes (H : List Nat → Nat) (cap bucket : Nat) (bk : Bucket)
    (hs : Sorted bk.sorted) (hw : WFB bk) (hf : FitB bk)
    (hn : 18 * bk.sorted.length < 4294967296) (hp : ∀ p ∈ bk.pages, p.length ≤ 21) :
    ∃ bytes, serialise H cap bucket bk = some bytes ∧ (parseFile bytes).map loadB = some bk := by
  have := serialise_isSome H cap bucket bk hn hp
  cases hb : serialise H cap bucket bk with
  | none => rw [hb] at this; cases this
  | some bytes => exact ⟨bytes, rfl, load_parse_serialise H cap bucket bk hs hw hf bytes hb⟩

/-- **idx_layout.** File size and alignment: 40 bytes of headers + 18 bytes per sorted entry; only
with pending updates an update section follows, starting at the next multiple of 64 KiB (less
than 64 KiB of padding) and holding max(capacity, pages) pages of 512 bytes. -/
theorem idx_layout (H : List Nat → Nat) (cap bucket : Nat) (bk : Bucket) (bytes : List Nat)
    (h : serialise H cap bucket bk = some bytes) :
    (bytes.length = if bk.log.length = 0 then 40 + 18 * bk.sorted.length
      else alignUp (40 + 18 * bk.sorted.length) + 512 * max cap bk.pages.length) ∧
      alignUp (40 + 18 * bk.sorted.length) % 65536 = 0 ∧
      40 + 18 * bk.sorted.length ≤ alignUp (40 + 18 * bk.sorted.length) ∧
      alignUp (40 + 18 * bk.sorted.length) < 40 + 18 * bk.sorted.length + 65536 :=
  ⟨serialise_length H cap bucket bk bytes h, (alignUp_spec _).1, alignUp_ge _, (alignUp_spec _).2⟩

/-- the hypotheses of the byte-level theorems are satisfiable by a bucket with a sorted entry at
the field limits and a pending tombstone. -/
example : let bk : Bucket := ⟨[⟨5, 1023, 2 ^ 30 - 1, 4294967295⟩], [[⟨80, 4, 5, 6, 3⟩]]⟩
    Sorted bk.sorted ∧ WFB bk ∧ FitB bk ∧ 18 * bk.sorted.length < 4294967296 ∧
      ∀ p ∈ bk.pages, p.length ≤ 21 := by
  refine ⟨by simp [Sorted], ⟨?_, ?_⟩, ⟨?_, ?_⟩, by decide, by decide⟩
  · intro e he
    simp only [List.mem_singleton] at he
    subst he
    exact ⟨by decide, by decide, by decide⟩
  · intro u hu
    simp only [Bucket.log, List.flatten_cons, List.flatten_nil, List.append_nil, List.mem_singleton] at hu
    subst hu
    exact ⟨by decide, by decide, by decide⟩
  · intro e he
    simp only [List.mem_singleton] at he
    subst he
    exact ⟨by decide, by decide⟩
  · intro p hp
    simp only [List.mem_singleton] at hp
    subst hp
    refine ⟨by simp, ?_⟩
    intro u hu
    simp only [List.mem_singleton] at hu
    subst hu
    exact ⟨by decide, by decide, by decide⟩

/-- test of the model against the format description (also compared with the real bytes by the
correspondence run): the empty-bucket file is the 40 header bytes, with the header fields
7 / bucket / 0 / 4 / 5 / 9 / 30 / 2^30. -/
theorem idx_empty_file_bytes :
    serialise (fun _ => 0) 60 3 Bucket.empty =
      some [16, 0, 0, 0, 0, 0, 0, 0, 7, 0, 3, 0, 4, 5, 9, 30, 0, 0, 0, 64, 0, 0, 0, 0,
        0, 0, 0, 0, 0, 0, 0, 0, 0, 0, 0, 0, 0, 0, 0, 0] := by decide

/-- test of the model (past disagreement, corpus/C05/parse-duplicate-keys-stable-sort.case):
`load_index` sorts with the stable `sort_by_key`, so records with equal keys keep their file
order and the later one wins in `iter_entries`. -/
theorem load_sort_is_stable :
    sortByKey [⟨5, 0, 1, 1⟩, ⟨5, 0, 2, 2⟩, ⟨4, 0, 3, 3⟩, ⟨5, 0, 4, 4⟩] =
      [⟨4, 0, 3, 3⟩, ⟨5, 0, 1, 1⟩, ⟨5, 0, 2, 2⟩, ⟨5, 0, 4, 4⟩] ∧
    iterBucket (loadB ⟨[⟨5, 0, 1, 1⟩, ⟨5, 0, 2, 2⟩], []⟩) = [⟨5, 0, 2, 2⟩] := by decide

end Bytes

/-- Counter-witness (recorded finding `reload-loses-all-zero-key`, format-level): an entry whose
9-byte key is all zero is found before and after `flush`, and is gone after `save_all; reload`. -/
theorem zero_key_lost_on_reload :
    let cfg : Cfg := ⟨60, 21⟩
    let s := (run cfg State.init [.add 0 5 6 7, .flush 0, .saveAll]).1
    absS s 0 = some ⟨0, 5, 6, 7⟩ ∧ absS (reload s) 0 = none := by decide

/-- ids beyond 1023 (test of the model; outside the property's field limits): the sorted entry is
dropped by `save_all; reload` (`to_packed` falls back to zero bytes), an update-section entry
comes back with the id masked to 10 bits. -/
theorem wide_id_on_reload :
    let cfg : Cfg := ⟨60, 21⟩
    let s := (run cfg State.init [.add 9 1027 5 7, .saveAll]).1
    let t := (run cfg State.init [.add 9 1027 5 7, .flush 9, .saveAll]).1
    absS (reload s) 9 = some ⟨9, 3, 5, 7⟩ ∧ absS (reload t) 9 = none := by decide

/-- **index_refines_map_partial** (durable histories). Under the explicit hypotheses that the
recorded finding and the field limits impose — every `add`/`update` has a non-zero 9-byte key,
id ≤ 1023, offset < 2^30 — the refinement extends to histories with restarts: every `reload`
that directly follows a `save_all` is the identity on the map, for every capacity.
(A `reload` without a preceding `save_all` is covered by `index_refines_map_durable` below.) -/
theorem index_refines_map_partial (cfg : Cfg) (hcap : 1 ≤ cfg.capPages) (ops : List Op)
    (hr : reloadOnlyAfterSave ops) (hw : ∀ op ∈ ops, opWF op) :
    (∀ k, lookup (run cfg State.init ops).1 k =
        (specRun Cascette.Spec.IndexMap.State.init ops []).1.mem k) ∧
      outsOk (run cfg State.init ops).2 (specRun Cascette.Spec.IndexMap.State.init ops []).2 := by
  obtain ⟨⟨hg, ha⟩, _, ho⟩ := run_durable cfg hcap ops.length ops rfl State.init _ hr hw relMem_init extra_init
  exact ⟨fun k => by rw [lookup_eq_absS _ hg k, ha k], ho⟩

/-- **index_refines_map_durable** (the full index statement: arbitrary histories with restarts
at ANY moment, with or without a preceding `save_all`). For every capacity and every history over
all thirteen operations whose `add`/`update` arguments are inside the field limits (non-zero
9-byte key — the recorded finding —, id ≤ 1023, offset < 2^30) there is a list `ghosts` naming,
per operation, the buckets the implementation wrote through before the operation's own effect
(`ghostsOk`: nothing for the read-only operations, `save_all`, `clear_bucket`, `reload`; nothing
or the key's bucket for the four mutators — the flush of a full update section; nothing or `b`
for `flush b`), such that along the specification run of Spec/IndexMap with these written
buckets (a) the final `lookup` is the live map, (b) a restart now (`reload`) would look up
exactly the durable map — per bucket the map as of that bucket's last write (`save_all`,
explicit flush with pending updates, mutator flush) —, and (c) every output in the history,
also those after restarts, is the map's answer. `index_refines_map_partial` is the special
case where every `reload` directly follows a `save_all`. -/
theorem index_refines_map_durable (cfg : Cfg) (hcap : 1 ≤ cfg.capPages) (ops : List Op)
    (hw : ∀ op ∈ ops, opWF op) :
    ∃ ghosts : List (List Nat), ghostsOk ops ghosts ∧
      (∀ k, lookup (run cfg State.init ops).1 k =
        (specRun Cascette.Spec.IndexMap.State.init ops ghosts).1.mem k) ∧
      (∀ k, lookup (reload (run cfg State.init ops).1) k =
        (specRun Cascette.Spec.IndexMap.State.init ops ghosts).1.disk k) ∧
      outsOk (run cfg State.init ops).2
        (specRun Cascette.Spec.IndexMap.State.init ops ghosts).2 := by
  obtain ⟨gs, hgs, hr, ho⟩ := run_full cfg hcap ops State.init _ hw relFull_init
  obtain ⟨⟨hg', ha'⟩, _, _⟩ := reload_spec _ _ hr.disk
  exact ⟨gs, hgs, fun k => by rw [lookup_eq_absS _ hr.mem.1 k, hr.mem.2 k],
    fun k => by rw [lookup_eq_absS _ hg' k, ha' k], ho⟩

/-- **reload_is_last_write** (state form of the same fact, for any reachable manager): after any
history inside the field limits the files are images of well-formed buckets, and a restart
makes `lookup` the map they denote, bucket by bucket — `save_index` of the bucket's contents at
its last write, read back unchanged (`save_load_id`). -/
theorem reload_is_last_write (cfg : Cfg) (hcap : 1 ≤ cfg.capPages) (ops : List Op)
    (hw : ∀ op ∈ ops, opWF op) :
    let s := (run cfg State.init ops).1
    (∀ b img, s.disk b = some img → ∃ bk, img = saveB bk ∧ loadB img = bk ∧ Sorted bk.sorted ∧ WFB bk) ∧
      ∀ k, lookup (reload s) k = match s.disk (bucketOf k) with
        | some img => absB (loadB img) k
        | none => none := by
  obtain ⟨gs, _, hr, _⟩ := run_full cfg hcap ops State.init _ hw relFull_init
  obtain ⟨⟨hg', _⟩, _, _⟩ := reload_spec _ _ hr.disk
  refine ⟨?_, fun k => by rw [lookup_eq_absS _ hg' k, absS_reload]; rfl⟩
  intro b img hi
  obtain ⟨bk, h1, h2, h3⟩ := hr.disk.img b img hi
  exact ⟨bk, h1, by rw [h1, load_save bk h2.sorted h3], h2.sorted, h3⟩

/-- test of the model (replayed on the code by the correspondence run): capacity one entry, two
keys of bucket 5; the second `add` finds the update section full, flushes — which writes the
bucket with key 5 only — and appends. A restart without `save_all` sees key 5 and not key 80. -/
theorem reload_without_save_witness :
    let cfg : Cfg := ⟨1, 1⟩
    let s := (run cfg State.init [.add 5 1 2 3, .add 80 4 5 6]).1
    absS s 80 = some ⟨80, 4, 5, 6⟩ ∧ absS (reload s) 5 = some ⟨5, 1, 2, 3⟩ ∧
      absS (reload s) 80 = none := by decide

/-- the hypothesis of `index_refines_map_durable` is satisfiable by a history that restarts
without saving (after a mutator flush), continues, saves and restarts again. -/
example : ∀ op ∈ ([.add 5 1023 (2 ^ 30 - 1) 7, .add 80 0 0 0, .reload, .lookup 80, .remove 5,
    .flush 5, .reload, .saveAll, .reload, .count] : List Op), opWF op := by
  intro op h
  simp only [List.mem_cons, List.not_mem_nil, or_false] at h
  rcases h with rfl | rfl | rfl | rfl | rfl | rfl | rfl | rfl | rfl | rfl <;> simp [opWF]

/-- hypotheses of the partial theorem are satisfiable by a non-trivial history (fills a
2-entry log, flushes through a mutator, saves, restarts, continues). -/
example : reloadOnlyAfterSave [.add 1 1023 (2 ^ 30 - 1) 7, .add 2 0 0 0, .remove 1, .saveAll, .reload, .lookup 2] ∧
    ∀ op ∈ ([.add 1 1023 (2 ^ 30 - 1) 7, .add 2 0 0 0, .remove 1, .saveAll, .reload, .lookup 2] : List Op), opWF op := by
  refine ⟨trivial, ?_⟩
  intro op h
  simp only [List.mem_cons, List.not_mem_nil, or_false] at h
  rcases h with rfl | rfl | rfl | rfl | rfl | rfl <;> simp [opWF]

/-! ### the defect that was repaired (DESIGN.md §8) -/

/-- Counter-witness for the tree as pinned: capacity one entry, `add k`, then the pinned
`remove_entry` returns `true` and the key is still found. -/
theorem remove_pinned_lies :
    let cfg : Cfg := ⟨1, 1⟩
    let s1 := (step cfg State.init (.add 5 1 2 3)).1
    (removePinned cfg s1 5).2 = .bool true ∧
      absS (removePinned cfg s1 5).1 5 = some ⟨5, 1, 2, 3⟩ := by decide

/-- the same history on the repaired code: `true`, and the key is gone. -/
theorem remove_fixed_witness :
    let cfg : Cfg := ⟨1, 1⟩
    let s1 := (step cfg State.init (.add 5 1 2 3)).1
    (step cfg s1 (.remove 5)).2 = .bool true ∧ absS (step cfg s1 (.remove 5)).1 5 = none := by decide

/-! ### residency database -/

section Residency
open Cascette.Model.Residency
open Cascette.Proofs.Residency

/-- **residency_refines_map.** For every page size, every batch threshold and every history of
mark_resident / mark_non_resident / mark_span_non_resident / delete_keys (sequential and batch
path) / is_resident / scan_keys / save / load on a fresh database: `is_resident k` is `true`
exactly when the latest mark of `k` says resident (also after save and load), every answered
`is_resident` in the history is the set's answer, and `scan_keys` lists exactly the resident
keys. The bucket fold and the MurmurHash3 filter are arbitrary functions in the proof. -/
theorem residency_refines_map (cfg : Cascette.Model.Residency.Cfg)
    (ops : List Cascette.Spec.ResidencySet.Op) :
    let r := Cascette.Model.Residency.run cfg Cascette.Model.Residency.State.init ops
    let R := Cascette.Spec.ResidencySet.run Cascette.Spec.ResidencySet.State.init ops
    (∀ k, isResident r.1 k = R.1.mem k) ∧
      (∀ k, k ∈ scanKeys r.1 ↔ R.1.mem k = true) ∧
      r.2.length = R.2.length ∧
      ∀ (i : Nat) o x, r.2[i]? = some o → R.2[i]? = some x → Cascette.Proofs.Residency.outOk o x := by
  obtain ⟨⟨hi, hm, _⟩, hl, ho⟩ := run_refines cfg ops _ _ rel_init
  refine ⟨fun k => by rw [isResident_eq _ hi k, hm k], fun k => by rw [scan_iff _ hi k, hm k], hl, ho⟩

/-- **scan_keys_no_duplicates.** After every history `scan_keys` lists every resident key exactly
once: the list has no duplicates and its members are exactly the keys whose latest mark says
resident — so its length IS the number of resident keys — and `entry_count` is never below it
(it is above it exactly by the keys whose latest mark is a non-resident span: the recorded
finding `count-includes-keys-marked-span-non-resident`). -/
theorem scan_keys_no_duplicates (cfg : Cascette.Model.Residency.Cfg)
    (ops : List Cascette.Spec.ResidencySet.Op) :
    let r := Cascette.Model.Residency.run cfg Cascette.Model.Residency.State.init ops
    let R := Cascette.Spec.ResidencySet.run Cascette.Spec.ResidencySet.State.init ops
    (scanKeys r.1).Nodup ∧ (∀ k, k ∈ scanKeys r.1 ↔ R.1.mem k = true) ∧
      (scanKeys r.1).length ≤ entryCount r.1 := by
  obtain ⟨⟨hi, hm, _⟩, _, _⟩ := run_refines cfg ops _ _ rel_init
  exact ⟨scan_nodup _ hi, fun k => by rw [scan_iff _ hi k, hm k], scan_length_le_count _⟩

/-- Counter-witness (recorded finding `count-includes-keys-marked-span-non-resident`):
`entry_count` — what `ResidencyContainer::resident_count` returns — is 2 while one of the two
keys is not resident. -/
theorem residency_count_counts_span :
    let s := (Cascette.Model.Residency.run ⟨25, 10000⟩ Cascette.Model.Residency.State.init
      [.mark 1, .mark 2, .span 1]).1
    entryCount s = 2 ∧ absT s.buckets 1 = false ∧ absT s.buckets 2 = true := by decide

end Residency

end Cascette.Props.C05
