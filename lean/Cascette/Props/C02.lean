/-
Props/C02 — Parsers fail closed: no panic, no abort, bounded memory (PARTIAL by design: the
theorems are about the parser FRONT ENDS of Model/ParseGuards — reads, guards, the expressions
handed to allocations, recursion depth — not about the unmodelled bodies, which the oracle run
covers).  Totality of the Lean functions is the "returns a value or an error / never loops" part.

Restated against DESIGN.md §6 C02: the planned `f_alloc_bounded : a ≤ c_f·len + k_f` is proved
with the constants explicit per parser (BLTE/patch-index/ZBSDIFF/shmem/.idx: `a ≤ len`;
encoding: `a ≤ 64·len`; install/download/size: `a ≤ 64·len + 64·65536`, the additive term being
the u16-counted tag table), with the element sizes of the pre-sized vectors as parameters
(`≤ 64` bytes, printed by the harness from `size_of`), and allocations made under the documented
decompression cap listed separately (`capped`, each ≤ MAX_DECOMPRESSION_SIZE).  The archive-index
footer was the one front end that still panicked; since fix 6b0ee35 `aidx_footer_no_panic` holds
for all inputs (the former counter-witness is proved rejected).
-/
import Cascette.Proofs.ParseGuards
import Cascette.Proofs.ParseFronts
import Cascette.Proofs.ParseBodies
import Cascette.Proofs.Integrity
namespace Cascette.Props.C02
open Cascette Cascette.Model.ParseGuards
open Cascette.Model.Integrity (slice beNat leNat byteAt)

/-! ### BLTE: header, chunk table, chunk payloads, decompression pre-allocation -/

/-- `BlteFile::parse` + `decompress_with_keys` front end never panics, for every input
(the table-format byte other than 0x0F/0x10 is an error since fix 86001ad). -/
theorem blte_no_panic (b : Bytes) : (Blte.front b).verdict ≠ .panic :=
  (Proofs.ParseGuards.Blte.front_good b).1

/-- every buffer sized by a chunk-table `compressed_size` (or by the single chunk's length) is at
most the input length (fix 5e5b8c6). -/
theorem blte_alloc_bounded (b : Bytes) : ∀ a ∈ (Blte.front b).allocs, a ≤ b.length :=
  (Proofs.ParseGuards.Blte.front_good b).2.1

/-- the only requests driven by size fields that may exceed the input length — the clamped sum of
the table's decompressed sizes (fix bbad53e) and an LZ4 chunk's size prefix — stay below the
documented cap `MAX_DECOMPRESSION_SIZE` = 1 GiB. -/
theorem blte_capped_bounded (b : Bytes) : ∀ a ∈ (Blte.front b).capped, a ≤ maxDecomp :=
  (Proofs.ParseGuards.Blte.front_good b).2.2

/-- the chunk count of the table never sizes anything by itself: a table of `n` rows is only
accepted from an input that holds `n·rec` bytes (binrw reads row by row). -/
theorem blte_table_rows_fit (rec n : Nat) (rest : Bytes) (infos : List (Nat × Nat)) (r : Bytes)
    (h : Blte.table rec n rest = some (infos, r)) : n * rec ≤ rest.length ∧ infos.length = n :=
  Proofs.ParseGuards.Blte.table_some_len rec n rest infos r h

/-- hypotheses are satisfiable by a non-trivial instance: a two-chunk file passes the front end
with two payload buffers and the pre-allocation 9. -/
example : (Blte.front ([66, 76, 84, 69, 0, 0, 0, 60, 15, 0, 0, 2] ++
    ([0, 0, 0, 7, 0, 0, 0, 6] ++ List.replicate 16 0) ++ ([0, 0, 0, 4, 0, 0, 0, 3] ++ List.replicate 16 0) ++
    [78, 1, 2, 3, 4, 5, 6, 78, 7, 8, 9])).allocs = [6, 3] := by decide

/-! ### BLTE encrypted chunks: `decrypt_chunk_with_keys` header, with the key-store lookup -/

/-- every index and slice of the encrypted-chunk header is in range, for every payload and every
key store (`known` = which key names `TactKeyStore::get` finds): the 16-byte floor alone covers
only the 4-byte IV, the per-field guards cover the 8-byte one. -/
theorem blte_enc_no_panic (known : Nat → Bool) (d : Bytes) : Blte.encFront known d ≠ .panic :=
  Proofs.ParseGuards.Blte.encFront_no_panic known d

/-- the cipher is only reached on a complete header: key found, IV size 4 or 8, and the
`11 + iv_size` header bytes present. -/
theorem blte_enc_pass_complete (known : Nat → Bool) (d : Bytes) (h : Blte.encFront known d = .pass) :
    known (leNat (slice d 1 8)) = true ∧ (byteAt d 9 = 4 ∨ byteAt d 9 = 8) ∧ 11 + byteAt d 9 ≤ d.length :=
  Proofs.ParseGuards.Blte.encFront_pass known d h

/-- COUNTER-WITNESS for the same code without the per-field guards (16-byte floor only): a 17-byte
payload with `iv_size = 8` and a key name the store knows slices `data[10..18]` out of range. -/
theorem blte_enc_floor_alone_panics :
    Blte.encFrontG false (fun _ => true) ([8, 1, 2, 3, 4, 5, 6, 7, 8, 8] ++ List.replicate 7 17) = .panic := by
  decide

/-- … and no input shows it unless its key name is in the store: with no key found, the code
without the per-field guards never panics. (Why the generators must name keys the store holds:
reads behind a lookup are reached only when the lookup succeeds.) -/
theorem blte_enc_unknown_key_hides_guards (g : Bool) (d : Bytes) :
    Blte.encFrontG g (fun _ => false) d ≠ .panic :=
  Proofs.ParseGuards.Blte.encFrontG_unknown_key_hides g d

/-- `BlteFile::parse` + `decompress_with_keys(key_store)` with the encrypted chunks decoded: no
panic for every input and key store; the allocations are those of `Blte.front`, so
`blte_alloc_bounded` / `blte_capped_bounded` carry over. -/
theorem blte_keys_no_panic (known : Nat → Bool) (b : Bytes) :
    (Blte.frontKeys known b).verdict ≠ .panic ∧
    (∀ a ∈ (Blte.frontKeys known b).allocs, a ≤ b.length) ∧
    (∀ a ∈ (Blte.frontKeys known b).capped, a ≤ maxDecomp) := by
  obtain ⟨h1, h2, h3⟩ := Proofs.ParseGuards.Blte.frontKeys_spec known b
  exact ⟨h1, h2 ▸ blte_alloc_bounded b, h3 ▸ blte_capped_bounded b⟩

/-- non-trivial instances: a complete header with an 8-byte IV passes (19 bytes), and one byte
less is an error, not a panic. -/
example : Blte.encFront (fun n => n == 0x0807060504030201)
    ([8, 1, 2, 3, 4, 5, 6, 7, 8, 8] ++ List.replicate 8 17 ++ [0x53]) = .pass := by decide
example : Blte.encFront (fun n => n == 0x0807060504030201)
    ([8, 1, 2, 3, 4, 5, 6, 7, 8, 8] ++ List.replicate 8 17) = .err := by decide

/-! ### Encoding file -/

theorem encoding_no_panic (szIdx szPageC szPageE : Nat) (b : Bytes) :
    (Enc.front szIdx szPageC szPageE b).verdict ≠ .panic :=
  Proofs.ParseGuards.Enc.front_no_panic _ _ _ b

/-- all seven header-driven requests (ESpec block, two index vectors, two page vectors, two page
buffers) are bounded by the input length (fix a1e7c2a), for any element sizes ≤ 64 bytes. -/
theorem encoding_alloc_bounded (szIdx szPageC szPageE : Nat) (h1 : szIdx ≤ 64) (h2 : szPageC ≤ 64)
    (h3 : szPageE ≤ 64) (b : Bytes) :
    ∀ a ∈ (Enc.front szIdx szPageC szPageE b).allocs, a ≤ 64 * b.length :=
  Proofs.ParseGuards.Enc.front_alloc _ _ _ h1 h2 h3 b

/-! ### Install, download, size manifests -/

theorem install_no_panic (szTag szEntry : Nat) (b : Bytes) :
    (Manifest.installFront szTag szEntry b).verdict ≠ .panic :=
  Proofs.ParseGuards.Manifest.install_no_panic _ _ b

theorem install_alloc_bounded (szTag szEntry : Nat) (h1 : szTag ≤ 64) (h2 : szEntry ≤ 64) (b : Bytes) :
    ∀ a ∈ (Manifest.installFront szTag szEntry b).allocs, a ≤ 64 * b.length + 64 * 65536 :=
  Proofs.ParseGuards.Manifest.install_alloc _ _ h1 h2 b

theorem download_no_panic (szEntry szTag : Nat) (b : Bytes) :
    (Manifest.downloadFront szEntry szTag b).verdict ≠ .panic :=
  Proofs.ParseGuards.Manifest.download_no_panic _ _ b

theorem download_alloc_bounded (szEntry szTag : Nat) (h1 : szEntry ≤ 64) (h2 : szTag ≤ 64) (b : Bytes) :
    ∀ a ∈ (Manifest.downloadFront szEntry szTag b).allocs, a ≤ 64 * b.length + 64 * 65536 :=
  Proofs.ParseGuards.Manifest.download_alloc _ _ h1 h2 b

theorem size_no_panic (szTag szEntry : Nat) (b : Bytes) :
    (Manifest.sizeFront szTag szEntry b).verdict ≠ .panic :=
  Proofs.ParseGuards.Manifest.size_no_panic _ _ b

theorem size_alloc_bounded (szTag szEntry : Nat) (h1 : szTag ≤ 64) (h2 : szEntry ≤ 64) (b : Bytes) :
    ∀ a ∈ (Manifest.sizeFront szTag szEntry b).allocs, a ≤ 64 * b.length + 64 * 65536 :=
  Proofs.ParseGuards.Manifest.size_alloc _ _ h1 h2 b

/-! ### Patch index header, ZBSDIFF1 header -/

/-- `PatchIndexHeader::parse`: no panic; the extra-header copy and the block-descriptor vector
(8 bytes per descriptor, fix 9ab0a65) are bounded by the input length. -/
theorem pindex_no_panic_alloc_bounded (b : Bytes) :
    (PIndex.front b).verdict ≠ .panic ∧ ∀ a ∈ (PIndex.front b).allocs, a ≤ b.length :=
  Proofs.ParseGuards.PIndex.front_spec b

/-! ### Patch index, COMPLETE (header, block walk, block type 2, block type 8, entry parser) -/

/-- `parse_patch_index` (= `<PatchIndex as CascFormat>::parse`), every input: no slice of the block
walk (`&data[offset..offset+size]`), of a block parser (`&data[pos..]`) or of the entry parser
(`data[pos..pos+n]`, `key[..ks]` of a 16-byte array) is out of range — whichever block types the
descriptors name and in whichever order (block 8 runs only while no block 2 was seen) — and every
`Vec::with_capacity(entry_count)` request is at most `szEntry · len` bytes. -/
theorem pindex_full_no_panic_alloc_bounded (szEntry : Nat) (b : Bytes) :
    (Cascette.Model.ParseBodies.PIdx.parse szEntry b).1 ≠ .panic ∧ ∀ a ∈ (Cascette.Model.ParseBodies.PIdx.parse szEntry b).2, a ≤ szEntry * b.length :=
  Cascette.Proofs.ParseBodies.PIdx.parse_ok szEntry b

/-- the two public block parsers called DIRECTLY on any bytes (`parse_block2`, `parse_block8`) and the
public entry parser with any key size (`PatchIndexEntry::parse`, first byte = key size): no panic. -/
theorem pindex_subparsers_no_panic (szEntry : Nat) (d : Bytes) :
    (Cascette.Model.ParseBodies.PIdx.block2 szEntry d).1 ≠ .panic ∧ (Cascette.Model.ParseBodies.PIdx.block8 szEntry d).1 ≠ .panic ∧
      Cascette.Model.ParseBodies.PIdx.entryBytes d ≠ .panic := by
  refine ⟨Cascette.Proofs.ParseBodies.PIdx.block2_no_panic szEntry d,
    Cascette.Proofs.ParseBodies.PIdx.block8_no_panic szEntry d, ?_⟩
  unfold Cascette.Model.ParseBodies.PIdx.entryBytes
  split
  · simp
  · exact Cascette.Proofs.ParseBodies.PIdx.entry_no_panic _ _

/-- the key-size clause of the entry parser's guard is what excludes the panic: the same code with
only the length test panics for EVERY key size above 16 once one entry's worth of bytes is there
(whoever calls it: block 2, block 8, or a user of the public function). -/
theorem pindex_entry_keysize_clause_needed (ks len : Nat) (h16 : 16 < ks) (hl : Cascette.Model.ParseBodies.PIdx.esize ks ≤ len) :
    Cascette.Model.ParseBodies.PIdx.entryG false ks len = .panic ∧ Cascette.Model.ParseBodies.PIdx.entryG true ks len = .err := by
  refine ⟨Cascette.Proofs.ParseBodies.PIdx.entry_unguarded_panics ks len h16 hl, ?_⟩
  rw [Cascette.Proofs.ParseBodies.PIdx.entry_eq]; simp [h16]

/-- a 104-byte patch index whose only block has type 8 (version 3, one entry, key size `ks`). -/
def pindexBlock8File (ks : Nat) : Bytes :=
  [0x1a, 0, 0, 0, 1, 0, 0, 0, 0x68, 0, 0, 0, 0, 0, 1, 0, 0, 0, 8, 0, 0, 0, 0x4e, 0, 0, 0,
   3, BitVec.ofNat 8 ks, 0x0e, 0, 1, 0, 0, 0, 0x41, 0, 0, 0, 0, 0] ++ List.replicate 64 0xab

/-- TEST / COUNTER-WITNESS (kernel evaluation): through a whole file whose block 8 is the one that
runs, key size 17 is an error as written and a panic without the key-size clause; key size 16
parses (the hypotheses above are met by a non-trivial input). -/
theorem pindex_block8_keysize_witness :
    (Cascette.Model.ParseBodies.PIdx.parseG true 64 (pindexBlock8File 17)).1 = .err ∧
    (Cascette.Model.ParseBodies.PIdx.parseG false 64 (pindexBlock8File 17)).1 = .panic ∧
    (Cascette.Model.ParseBodies.PIdx.parseG true 64 (pindexBlock8File 16)) = (.ok, [64]) := by
  decide +kernel

/-! ### ZBSDIFF apply: the old-file position under adversarial control entries -/

/-- for every control list, every old-file position the entry loop computes (behind each diff window,
behind each seek) fits `usize` — the diff advance saturates like the seeks (fix 7c888f9), so no
`+=` can overflow whatever the entries say; reads at positions beyond the old file are zeros
(`Cascette.Model.ParseBodies.Zbs.applyFrom` is total). -/
theorem zbs_positions_fit_usize (cs : List Cascette.Spec.Bspatch.Ctl) :
    ∀ x ∈ Cascette.Model.ParseBodies.Zbs.positions true cs 0, x ≤ Cascette.Spec.Bspatch.usizeMax :=
  Cascette.Proofs.ParseBodies.Zbs.positions_le cs 0

/-- COUNTER-WITNESS for the advance as written before the fix (`old_pos += n`): two forward seeks of
2^63 − 1 and one diff byte leave the position at `usize::MAX`; the next diff byte overflows. -/
theorem zbs_unsaturated_advance_overflows :
    ∃ x ∈ Cascette.Model.ParseBodies.Zbs.positions false [⟨0, 0, 2 ^ 63 - 1⟩, ⟨1, 0, 2 ^ 63 - 1⟩, ⟨2, 0, 0⟩] 0,
      Cascette.Spec.Bspatch.usizeMax < x := by
  decide


theorem zbsdiff_no_panic (b : Bytes) : (Zbs.front b).verdict ≠ .panic :=
  Proofs.ParseGuards.Zbs.front_no_panic b

/-- the control and diff buffers are bounded by the input length (fix 175a039; before it only by
the format's own 10^9 limit). -/
theorem zbsdiff_alloc_bounded (b : Bytes) : ∀ a ∈ (Zbs.front b).allocs, a ≤ b.length :=
  Proofs.ParseGuards.Zbs.front_alloc b

/-! ### TVFS path table: recursion depth -/

/-- for every nesting skeleton, `parse_directory` is never entered deeper than 513 (the call
that returns the error), whatever the table nests (fix 64c1c0f). -/
theorem tvfs_depth_bounded (root : List Tvfs.Node) : (Tvfs.front root).depth ≤ 513 := by
  have := Proofs.ParseGuards.Tvfs.walkList_le 0 root
  unfold Tvfs.front
  generalize Tvfs.walkList 0 root = r at *
  obtain ⟨ok, m⟩ := r
  simp only at this ⊢
  omega

/-- TEST (kernel evaluation of one instance): 600 nested empty folders — the shape that overflowed
the stack before the fix — are refused. -/
theorem tvfs_nest_600_refused : (Tvfs.front [Tvfs.nest 600]).verdict = .err := by decide +kernel

/-- TEST: 100 nested folders pass with depth 101. -/
example : (Tvfs.front [Tvfs.nest 100]).verdict = .pass ∧ (Tvfs.front [Tvfs.nest 100]).depth = 101 := by
  decide +kernel

/-! ### Local storage: shmem PID tracking, .idx entry block -/

theorem shmem_pid_no_panic_alloc_bounded (b : Bytes) :
    (Local.shmemPidFront b).verdict ≠ .panic ∧ ∀ a ∈ (Local.shmemPidFront b).allocs, a ≤ b.length :=
  Proofs.ParseGuards.Local.shmem_spec b

/-- `.idx` load: no panic, the entry block buffer is bounded by the file, and the record width
the entry loop advances by is never 0 (it was a wrapped u8 sum before fix eaa0692), so the
loop `while offset + entry_size <= len` terminates and `entry_bytes[..9]` is in range. -/
theorem idx_no_panic_alloc_bounded_loop_advances (b : Bytes) :
    (Local.idxFront b).1.verdict ≠ .panic ∧ (∀ a ∈ (Local.idxFront b).1.allocs, a ≤ b.length) ∧
    ((Local.idxFront b).1.verdict = .pass → 9 ≤ (Local.idxFront b).2) :=
  Proofs.ParseGuards.Local.idx_spec b

/-! ### CDN archive index footer (two slicing panics, repaired by fix 6b0ee35) -/

open Cascette.Model.Integrity in
/-- FULL STATEMENT (holds since fix 6b0ee35): the footer stage of `ArchiveIndex::parse`
(`cs = true`; also reached through `ArchiveGroup::parse`) and of `ChunkedArchiveIndex::open`
(`cs = false`) never reaches `expected[..actual_len]` with `actual_len > 8` nor
`footer.footer_hash[..8]` on a shorter hash — for every hash function and every input. The model
keeps both slicing expressions as `.panic` branches; the theorem says they are unreachable. -/
theorem aidx_footer_no_panic (H : Hash) (cs : Bool) (d : Bytes) : Aidx.footerCheck H cs d ≠ .panic :=
  Proofs.Integrity.Aidx.footerCheck_no_panic H cs d

open Cascette.Model.Integrity in
/-- the former counter-witness (36 bytes of value 16: both size bytes said "16-byte footer hash" and
`is_valid` sliced `expected[..16]` of an 8-byte vector) is now an `InvalidFormat` error. -/
theorem aidx_footer_former_witness_rejected (H : Hash) (cs : Bool) :
    Aidx.footerCheck H cs (List.replicate 36 16) = .format := by
  unfold Aidx.footerCheck
  have h1 : (List.replicate 36 (16 : Byte)).length = 36 := by simp
  simp only [h1]
  have h2 : byteAt (List.replicate 36 (16 : Byte)) (36 - 13) = 16 := by decide
  simp only [h2]
  simp

open Cascette.Model.Integrity in
/-- (kept; now a corollary of `aidx_footer_no_panic`) when the byte at End(-13) is 8 the footer
acceptor does not panic. -/
theorem aidx_footer_no_panic_partial (H : Hash) (cs : Bool) (d : Bytes)
    (_h8 : byteAt d (d.length - 13) = 8) : Aidx.footerCheck H cs d ≠ .panic :=
  aidx_footer_no_panic H cs d

/-- the partial theorem's hypothesis is met by a non-trivial input (a 28-byte footer whose
hash-size byte is 8). -/
example : byteAt (List.replicate 15 0 ++ [8] ++ List.replicate 12 0) (28 - 13) = 8 := by decide

/-! ## Second batch of front ends (Model/ParseFronts) -/

open Cascette.Model in
/-- TVFS ON BYTES: for every byte string, `TvfsFile::parse` (header, table ranges, then
`parse_directory` on the path-table bytes) never enters `parse_directory` deeper than 513 — the
byte-level form of `tvfs_depth_bounded` (fix 64c1c0f). -/
theorem tvfs_bytes_depth_bounded (b : List Nat) : (ParseFronts.TvfsB.front b).depth ≤ 513 :=
  Proofs.ParseFronts.TvfsB.front_depth b

open Cascette.Model in
/-- every `parse_directory` call tree, from any starting depth ≤ 513 and with any fuel, stays ≤ 513. -/
theorem tvfs_bytes_dir_depth_bounded (fuel d : Nat) (bs : List Nat) (h : d ≤ 513) :
    (ParseFronts.TvfsB.dir fuel d bs).2 ≤ 513 :=
  Proofs.ParseFronts.TvfsB.dir_le fuel d bs h

/-- hypothesis satisfiable, non-trivially: three nested folders walked from depth 0 reach depth 3. -/
example : Cascette.Model.ParseFronts.TvfsB.walk
    [0xFF, 0x80, 0, 0, 14, 0xFF, 0x80, 0, 0, 9, 0xFF, 0x80, 0, 0, 4] = (true, 3) := by decide

open Cascette.Model in
/-- TVFS front end on bytes: no panic; the path-table copy is bounded by the input length. -/
theorem tvfs_bytes_no_panic_alloc_bounded (b : List Nat) :
    (ParseFronts.TvfsB.front b).verdict ≠ .panic ∧ ∀ a ∈ (ParseFronts.TvfsB.front b).allocs, a ≤ b.length :=
  ⟨Proofs.ParseFronts.TvfsB.front_no_panic b, Proofs.ParseFronts.TvfsB.front_alloc b⟩

open Cascette.Model in
/-- ROOT block loop, every version, every input: each `Vec::with_capacity(num_records)` request
(deltas, ids, keys, name hashes, records) is ≤ 16·len + 4 000 000 — the first request of a block is
capped by the parser's own `num_records ≤ 1 000 000` guard (4 MB), every later one is made only
after 4·num_records bytes were read. Element sizes ≤ 64 are parameters (cfg line). -/
theorem root_blocks_alloc_bounded (szHash szRec : Nat) (h1 : szHash ≤ 64) (h2 : szRec ≤ 64)
    (v : RootFile.Version) (bs : List Nat) :
    ∀ a ∈ ParseFronts.Root.blocksAll szHash szRec v bs, a ≤ 16 * bs.length + 4000000 :=
  Proofs.ParseFronts.Root.blocks_alloc szHash szRec h1 h2 v _ bs

open Cascette.Model in
/-- one block: requests bounded as above and the unread input is a suffix (the loop advances within
the file). -/
theorem root_block_step (szHash szRec : Nat) (h1 : szHash ≤ 64) (h2 : szRec ≤ 64)
    (v : RootFile.Version) (bs : List Nat) :
    (∀ a ∈ (ParseFronts.Root.blockStep szHash szRec v bs).1, a ≤ 16 * bs.length + 4000000) ∧
    (∀ r, (ParseFronts.Root.blockStep szHash szRec v bs).2 = some r → r.length ≤ bs.length) :=
  Proofs.ParseFronts.Root.blockStep_spec szHash szRec h1 h2 v bs

/-- non-vacuity: a V1 block of 2 records in a 12+8+48-byte input requests 8, 8 and 2·40 bytes. -/
example : (Cascette.Model.ParseFronts.Root.blockStep 16 40 .v1
    ([2, 0, 0, 0, 0, 0, 0, 0, 1, 0, 0, 0] ++ List.replicate 56 7)).1 = [8, 8, 80] := by decide

open Cascette.Model in
/-- PATCH ARCHIVE front end (header, `validate`, encoding info, block table): `key[..key_size]` of
the 16-byte key arrays — a `.panic` branch of the model — is unreachable because `validate` bounds
the key sizes first; the espec buffer (u8) and the block vector (u16 count × element size ≤ 64) are
bounded by constants, for every input. -/
theorem parchive_no_panic_alloc_bounded (szBlock : Nat) (hs : szBlock ≤ 64) (b : List Nat) :
    (ParseFronts.PArch.front szBlock b).verdict ≠ .panic ∧
      ∀ a ∈ (ParseFronts.PArch.front szBlock b).allocs, a ≤ 64 * 65536 :=
  Proofs.ParseFronts.PArch.front_spec szBlock hs b

/-- the panic branch is real in the model: a key size of 17 reaching `read_key` would panic. -/
example : (match Cascette.Model.ParseFronts.PArch.readKey 17 (List.replicate 40 0) with
    | .panic => true | _ => false) = true := by decide

open Cascette.Model in
/-- ESPEC: for every string, the parser (complete grammar model) never has more than 65
`parse_espec` frames (64 nested specs + the call that refuses) — fix 4e06d16; before it the depth
was the number of `b:` / `e:{…,` prefixes of the input. -/
theorem espec_depth_bounded (s : List Char) : (ParseFronts.ESpec.parse s).2 ≤ 65 :=
  Proofs.ParseFronts.ESpec.parse_depth s

open Cascette.Model in
theorem espec_go_depth_bounded (fuel : Nat) (m : ParseFronts.ESpec.Mode) (d : Nat) (s : List Char) (h : d ≤ 64) :
    (ParseFronts.ESpec.go fuel m d s).2 ≤ 65 :=
  Proofs.ParseFronts.ESpec.go_le fuel m d s h

/-- TEST (kernel evaluation): 64 levels parse, 65 are refused; a real CDN spec parses at depth 2. -/
theorem espec_nesting_limit_test :
    (Cascette.Model.ParseFronts.ESpec.parse ((List.replicate 63 ['b', ':']).flatten ++ ['n'])).1 = true ∧
    (Cascette.Model.ParseFronts.ESpec.parse ((List.replicate 64 ['b', ':']).flatten ++ ['n'])) = (false, 65) ∧
    (Cascette.Model.ParseFronts.ESpec.parse "b:{164=z,16K*565=z:{6,mpq},1M*=n}".toList) = (true, 2) := by
  decide +kernel

open Cascette.Model in
/-- ESPEC: `NestingTooDeep` is raised exactly when the 65th `parse_espec` frame is asked for — in
every mode (`parse_espec`, `parse_espec_inner`, the chunk loop), for every input and fuel: the
model counts a level in `parse_espec` only, and EVERY recursive production (`e:{k,iv,…}`, `b:…`,
`b:<size>=…`, each chunk of `b:{…}`) goes back through it. -/
theorem espec_go_deep_iff (fuel : Nat) (m : ParseFronts.ESpec.Mode) (d : Nat) (s : List Char) (h : d ≤ 64) :
    (ParseFronts.ESpec.go fuel m d s).2 = 65 ↔ ∃ r, (ParseFronts.ESpec.go fuel m d s).1 = .deep r :=
  Proofs.ParseFronts.ESpec.go_deep_iff fuel m d s h

open Cascette.Model in
/-- the same for `Parser::parse`: the answer is `Err(NestingTooDeep(pos))` iff the deepest frame is
the 65th. -/
theorem espec_parse_deep_iff (s : List Char) :
    (ParseFronts.ESpec.parse s).2 = 65 ↔ ∃ p, (ParseFronts.ESpec.parseX s).1 = .deep p :=
  Proofs.ParseFronts.ESpec.parse_deep_iff s

open Cascette.Model Proofs.ParseFronts.ESpec in
/-- ESPEC, the brace-less block-table shorthand with a size spec (`b:1=`, `b:*=`, `b:256K*4=`,
`b:16K*=`, `b:1M=`): each such prefix costs exactly one counted level — after it, `parse_espec`
entered at depth `d < 64` continues with `parse_espec` at depth `d + 1`, for every rest of the
input and every fuel. (This is the production a change to `parse_espec_inner` would un-count.) -/
theorem espec_sized_shorthand_counted :
    Transparent "b:1=".toList ∧ Transparent "b:*=".toList ∧ Transparent "b:256K*4=".toList ∧
    Transparent "b:16K*=".toList ∧ Transparent "b:1M=".toList :=
  ⟨transparent_b1, transparent_bstar, transparent_b256K4, transparent_b16Kstar, transparent_b1M⟩

open Cascette.Model Proofs.ParseFronts.ESpec in
/-- ESPEC, unbounded nesting through one counted brace-less production `p`: `pⁿ n` parses with
`n + 1` frames for `n ≤ 63` and is refused with `NestingTooDeep(64·|p|)` at frame 65 for EVERY
`n ≥ 64` (a million levels cost no more stack than 64). -/
theorem espec_transparent_nest (p : List Char) (hp : Transparent p) (hne : p ≠ []) (n : Nat) :
    ParseFronts.ESpec.parseX (nest p n ['n']) =
      if n ≤ 63 then (.ok, n + 1) else (.deep (64 * p.length), 65) :=
  nest_parse p hp hne n

open Cascette.Model Proofs.ParseFronts.ESpec in
/-- instance: the witness family of the sized shorthand, `"b:1=".repeat(n) + "n"`, for every `n`. -/
theorem espec_sized_shorthand_nest (n : Nat) :
    ParseFronts.ESpec.parseX (nest "b:1=".toList n ['n']) = if n ≤ 63 then (.ok, n + 1) else (.deep 256, 65) :=
  nest_parse _ transparent_b1 (by decide) n

/-- `pre`ⁿ `core` `post`ⁿ. -/
def espWrap (pre post : String) (n : Nat) (core : String) : List Char :=
  (List.replicate n pre.toList).flatten ++ core.toList ++ (List.replicate n post.toList).flatten

open Cascette.Model.ParseFronts.ESpec in
/-- TEST (kernel evaluation): the productions with closers at the limit — `e:{key,iv,…}`, `b:{*=…}`,
a LATER chunk of a multi-chunk table (whose first chunk `1=n` is itself a counted frame, hence the
refusal inside the 64th prefix), and a mixture of four productions per block. -/
theorem espec_nesting_productions_test :
    parseX (espWrap "e:{237DA26C65073F42,06FC152E," "}" 63 "n") = (.ok, 64) ∧
    parseX (espWrap "e:{237DA26C65073F42,06FC152E," "}" 64 "n") = (.deep (64 * 29), 65) ∧
    parseX (espWrap "b:{*=" "}" 63 "z") = (.ok, 64) ∧
    parseX (espWrap "b:{*=" "}" 64 "z") = (.deep (64 * 5), 65) ∧
    parseX (espWrap "b:{1=n,2K*3=" ",*=z}" 63 "c:{3}") = (.ok, 64) ∧
    parseX (espWrap "b:{1=n,2K*3=" ",*=z}" 64 "c:{3}") = (.deep (63 * 12 + 5), 65) ∧
    parseX (espWrap "b:1=b:{16K*=e:{0123456789abcdef,00,b:" "}}" 15 "n") = (.ok, 61) ∧
    parseX (espWrap "b:1=b:{16K*=e:{0123456789abcdef,00,b:" "}}" 16 "n") = (.deep (16 * 37), 65) := by
  decide +kernel

open Cascette.Model.ParseFronts.ESpec in
/-- TEST (kernel evaluation; fix 2261323): a block size whose K/M-scaled value does not fit u64 is
refused (it wrapped in release builds and panicked with overflow checks), in the braced table and
in the brace-less shorthand; the largest sizes that fit are accepted. -/
theorem espec_size_unit_overflow_test :
    parseX "b:{18014398509481983K=n}".toList = (.ok, 2) ∧
    parseX "b:{18014398509481984K=n}".toList = (.other, 1) ∧
    parseX "b:{17592186044415M=n}".toList = (.ok, 2) ∧
    parseX "b:{17592186044416M=n}".toList = (.other, 1) ∧
    parseX "b:18446744073709551615K=n".toList = (.other, 1) ∧
    parseX "b:18446744073709551615=n".toList = (.ok, 2) := by
  decide +kernel

open Cascette.Model in
/-- LOCAL HEADER `blte_size` (fix 84a8898, saturating): never above the stored size — it cannot wrap. -/
theorem lhdr_blte_size_le (b : Bytes) : ParseFronts.LHdr.blteSize b ≤ (ParseFronts.LHdr.sizeWithHeader b).toNat :=
  Proofs.ParseFronts.LHdr.blteSize_le b

open Cascette.Model in
/-- the expression as written BEFORE the fix (`u32` subtraction, release profile = wrapping,
`BitVec 32`): for a stored size below 30 it yields `size + 4294967266` (≈ 4 GiB) where the fixed code
yields 0; for sizes ≥ 30 both agree. (With overflow checks on, the old expression panicked.) -/
theorem lhdr_blte_size_wrapping (b : Bytes) :
    ((ParseFronts.LHdr.sizeWithHeader b).toNat < 30 →
      (ParseFronts.LHdr.blteSizeWrapping b).toNat = (ParseFronts.LHdr.sizeWithHeader b).toNat + 4294967266 ∧
      ParseFronts.LHdr.blteSize b = 0) ∧
    (30 ≤ (ParseFronts.LHdr.sizeWithHeader b).toNat →
      (ParseFronts.LHdr.blteSizeWrapping b).toNat = ParseFronts.LHdr.blteSize b) :=
  ⟨Proofs.ParseFronts.LHdr.wrapping_wraps b, Proofs.ParseFronts.LHdr.wrapping_eq b⟩

/-- both hypotheses are met: an all-zero header (stored size 0) and one with stored size 130. -/
example : (Cascette.Model.ParseFronts.LHdr.sizeWithHeader (List.replicate 30 0)).toNat < 30 ∧
    30 ≤ (Cascette.Model.ParseFronts.LHdr.sizeWithHeader (List.replicate 19 0 ++ [130] ++ List.replicate 10 0)).toNat := by
  decide

open Cascette.Model in
/-- LRU file (C07's `Lru.deserialize` as front end), any hash: no panic; the entry vector is
bounded by the file length. -/
theorem lru_no_panic_alloc_bounded (H : Integrity.Hash) (szEntry : Nat) (hs : szEntry ≤ 64) (d : Bytes) :
    (ParseFronts.Lru.front H szEntry d).verdict ≠ .panic ∧ ∀ a ∈ (ParseFronts.Lru.front H szEntry d).allocs, a ≤ 4 * d.length :=
  Proofs.ParseFronts.Lru.front_spec H szEntry hs d

open Cascette.Model in
/-- LRU `load_from_disk` (fixes b5d4e35, 1b8e830): a table the link check accepts lets
`for_each_entry` return — following `next` from the LRU tail, indexing the table as the code does,
reaches the sentinel within `len + 1` steps and never leaves the table; for every table. (The check
itself indexes with `get`, it has no panicking branch.) -/
theorem lru_load_walk_ends (f : Integrity.Lru.File) (h : ParseFronts.Lru.linksValid f = true) :
    ParseFronts.Lru.chain f.entries (f.entries.length + 1) f.tail = some true := by
  unfold ParseFronts.Lru.linksValid at h
  split at h
  · cases h
  · rename_i last seen hw
    exact Proofs.ParseFronts.Lru.walk_chain f.entries _ _ _ _ _ hw

/-- a table with the given head, tail and (prev, next, keyed?) entries. -/
def lruTable (head tail : Nat) (links : List (Nat × Nat × Bool)) : Cascette.Model.Integrity.Lru.File :=
  { version := 1, hash := [], head := head, tail := tail,
    entries := links.map (fun l =>
      { prev := l.1, next := l.2.1, flags := 0, ekey := if l.2.2 then List.replicate 9 1 else List.replicate 9 0 }) }

open Cascette.Model.ParseFronts.Lru in
/-- TEST: a 2-entry list (with a free slot) is accepted; refused are: a tail out of range, a `next`
out of range, a `prev` out of range, a `next` cycle (the four crafted shapes that panicked / hung
before the fix), a tail that skips the first entry (in range and acyclic, yet `touch`/`remove`
spliced it into a self-loop), a head that is not the last entry, a keyed entry off the list. -/
theorem lru_load_links_test :
    linksValid (lruTable 1 0 [(sentinel, 1, true), (0, sentinel, true), (sentinel, sentinel, false)]) = true ∧
    linksValid (lruTable 1 7 [(sentinel, 1, true), (0, sentinel, true)]) = false ∧
    linksValid (lruTable 1 0 [(sentinel, 9, true), (0, sentinel, true)]) = false ∧
    linksValid (lruTable 1 0 [(5, 1, true), (0, sentinel, true)]) = false ∧
    linksValid (lruTable 1 0 [(sentinel, 1, true), (0, 0, true)]) = false ∧
    linksValid (lruTable 0 1 [(1, sentinel, true), (2, 0, true), (sentinel, 1, true)]) = false ∧
    linksValid (lruTable 0 0 [(sentinel, 1, true), (0, sentinel, true)]) = false ∧
    linksValid (lruTable 0 0 [(sentinel, sentinel, true), (sentinel, sentinel, true)]) = false := by
  decide +kernel

open Cascette.Model in
/-- RESIDENCY DB: whatever the page-count fields say (u32, never used to size anything), the pages
`ResidencyDb::load` keeps fit the file: pages · 1024 ≤ len, for any fuel. -/
theorem residency_pages_fit (fuel : Nat) (bs : List Nat) :
    ParseFronts.Resid.load fuel bs * ParseFronts.Resid.pageSize ≤ bs.length :=
  Proofs.ParseFronts.Resid.load_fit fuel bs

end Cascette.Props.C02
